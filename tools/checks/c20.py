"""C20 -- point-in-polygon decisions and polygon selections are geometrically exact.

1. TLC enumerates all simple lattice polygons within the bounds (spec/MC_Polygon.tla), refined
   polygons with hundreds of vertices (spec/MC_PolygonBig.tla) and polygon sets with vertical
   limits under the union / nested rules (spec/MC_PolygonSet.tla).  In every state it checks the
   transcription of PolyElem::inside / Polygons::inside (spec/Polygon.tla) against the exact
   geometric truth / the documented rule, and emits the case with the expected answers.
   spec/MC_PolygonHull.tla: all non-collinear lattice point sets; the hull polygon (monotone chain in
   integers) is checked to be THE hull and to decide like the half-plane definition; expected marks
   of the selection by convex hull for targets without / with a previous selection.
2. harness poly_run executes every emitted case on the real objects (PolyElem, Polygons::inside,
   db_polygon on a Db made of the query points, with / without previous selection, 2-D and 3-D),
   on exact-truth-preserving images (integer affine maps, translations up to 1e6, scalings by
   2^k, 1/3, 1/7) and on every start vertex / direction of the vertex list; hull cases through
   Polygons::createFromDb(..)->inside, db_selhull and Db::addSelectionFromDbByConvexHull (source =
   the set, or the lattice with the set as active samples, in several sample orders; target = the
   query points without selection and with a scattered / leading / trailing mask); polygon sets
   also through the construction routes Polygons::createFromCSV / createFromWKT (rows emitted by
   TLC: rings open / closed, with / without trailing separator).
3. every answer of the library is compared with the answer expected by the specification
   (query points on a boundary are excluded, as in the property).
"""
import fcntl, json, os, re, subprocess, time
import vlib
from vlib import Check, Broken, log

PID = "C20"
LIBDIR = [None]
EXE = [None]      # path of the compiled harness (built once, in the main thread)
JAVA_OPTS = "-Xss256m -Xmx6g -XX:+UseParallelGC"   # deep recursive functions on polygons with hundreds of vertices


def workers():
    """TLC workers per run (several runs go in parallel: NCPU / workers at a time)."""
    return max(1, min(vlib.NCPU, int(os.environ.get("VERIF_TLC_WORKERS", "4"))))


def nshards():
    return max(1, min(vlib.NCPU, int(os.environ.get("VERIF_HARNESS_JOBS", "4"))))


class CaseStore:
    """Cases emitted by one or several TLC runs, written to shard files for the harness."""

    def __init__(self, work, tag, nsh):
        self.tag = tag
        self.nsh = nsh
        self.paths = [os.path.join(work, "cases_%s_%d.ndjson" % (tag, i)) for i in range(nsh)]
        self.files = [open(p, "w") for p in self.paths]
        self.meta = None
        self.cases = {}       # id -> compact record kept for the comparison / replay
        self.next_id = 1
        self.seen = set()
        self.skipped = []

    def set_meta(self, m):
        self.meta = m
        line = json.dumps(m, separators=(",", ":")) + "\n"
        for f in self.files:
            f.write(line)

    def add(self, rec, lvl):
        key = json.dumps([rec.get("v"), rec.get("e"), rec.get("fac"), rec.get("kind"), rec.get("src")], separators=(",", ":"))
        if key in self.seen:
            return False
        self.seen.add(key)
        rec["id"] = self.next_id
        rec["lvl"] = lvl
        if rec["k"] == "poly" and not rec.get("sel"):
            rec.pop("sel", None)
        self.next_id += 1
        self.files[rec["id"] % self.nsh].write(json.dumps(rec, separators=(",", ":")) + "\n")
        keep = {"k": rec["k"], "lvl": lvl}
        if rec["k"] == "poly":
            keep["v"] = rec["v"] if len(rec["v"]) <= 12 else None
            keep["shard"] = rec["id"] % self.nsh
            keep["exp"] = "".join(map(str, rec["exp"]))
            if rec.get("sel"):
                keep["sel"] = "".join(map(str, rec["sel"]))
            for t in ("ccw", "convex", "flat", "nin", "lv", "lm", "lh", "kind", "fac"):
                if t in rec:
                    keep[t] = rec[t]
            keep["nv"] = len(rec["v"])
            keep["hasq"] = "q" in rec
        elif rec["k"] == "hull":
            keep["src"] = rec["src"]
            keep["exp"] = "".join(map(str, rec["exp"]))
            keep["sel"] = ["".join(map(str, x)) for x in rec["sel"]]
            for t in ("nv", "onedge", "interior"):
                keep[t] = rec[t]
        else:
            keep["e"] = rec["e"]
            keep["var"] = [{"z": v["z"], "nested": v["nested"], "a": "".join(map(str, v["a"])),
                            "sel": "".join(map(str, v["sel"]))} for v in rec["var"]]
        self.cases[rec["id"]] = keep
        return True

    def close(self):
        for f in self.files:
            f.close()


def run_tlc_cases(work, store, module, cfg_text, tag, lvl, simulate=None, depth=None, nworkers=None, timeout=3000):
    """One TLC run whose emitted records go into `store`.  Returns (TlcResult, counts)."""
    cfgp = os.path.join(work, "%s.cfg" % tag)
    with open(cfgp, "w") as f:
        f.write(cfg_text)
    counts = {"poly": 0, "set": 0, "hull": 0, "skip": 0, "dup": 0}

    def on_emit(r):
        k = r.get("k")
        if k == "meta":
            if store.meta is None:
                store.set_meta(r)
        elif k == "skip":
            counts["skip"] += 1
        elif k in ("poly", "set", "hull"):
            if store.add(r, lvl):
                counts[k] += 1
            else:
                counts["dup"] += 1

    res = vlib.run_tlc(module, cfgp, workers=nworkers or workers(), env={"JAVA_TOOL_OPTIONS": JAVA_OPTS},
                       timeout=timeout, simulate=simulate, depth=depth, on_emit=on_emit)
    if res.violation:
        raise Broken("TLC: the specification %s violates its own invariants (transcription of the code "
                     "against the geometric truth / documented rule):\n%s" % (module, res.violation))
    return res, counts


def run_harness_shards(store):
    """poly_run on every shard in parallel; a crash of the library is a disagreement, the shard is
    re-run without the crashing case."""
    exe = EXE[0]
    store.close()
    outs = [p.replace("cases_", "obs_") for p in store.paths]
    skips = [[] for _ in store.paths]
    pending = list(range(len(store.paths)))
    crashes = []
    t0 = time.time()
    reloads = 0
    for attempt in range(16):
        if not pending:
            break
        procs = []
        # shared lock on the build directory: a concurrent (incremental) re-link of the library by another
        # check waits until the harness processes have loaded and finished, and vice versa
        lockf = open(os.path.join(LIBDIR[0], ".lock"), "a")
        fcntl.flock(lockf, fcntl.LOCK_SH)
        for i in pending:
            args = [exe, store.paths[i], outs[i]] + ([",".join(map(str, skips[i]))] if skips[i] else [])
            procs.append((i, subprocess.Popen(args, stdout=subprocess.DEVNULL, stderr=subprocess.PIPE, text=True)))
        nxt = []
        for i, p in procs:
            try:
                _, err = p.communicate(timeout=3000)
            except subprocess.TimeoutExpired:
                p.kill()
                raise Broken("poly_run timed out on shard %d of %s" % (i, store.tag))
            if p.returncode == 0:
                continue
            if p.returncode == 127 and "shared librar" in err and reloads < 5:
                reloads += 1           # the library was being re-linked: run the shard again
                time.sleep(3)
                nxt.append(i)
                continue
            if p.returncode in (88, -11, -6, -8, -7, -4):
                last = [l for l in open(outs[i]).read().splitlines() if l.strip()]
                cid = None
                try:
                    r = json.loads(last[-1])
                    if "crash" in r:
                        cid = r["id"]
                        crashes.append((i, r))
                except (ValueError, IndexError):
                    pass
                if cid is None:
                    raise Broken("poly_run died without naming the case (shard %d, exit %s): %s" % (i, p.returncode, err[-500:]))
                skips[i].append(cid)
                nxt.append(i)
            else:
                raise Broken("poly_run failed (shard %d, exit %s): %s" % (i, p.returncode, err[-1500:]))
        pending = nxt
        fcntl.flock(lockf, fcntl.LOCK_UN)
        lockf.close()
    if pending:
        raise Broken("poly_run: too many crashing cases in one shard")
    return outs, crashes, time.time() - t0


WANT = {"0": "0", "1": "1", "2": ".", "3": "1"}


def full_case(store, cid):
    """Re-read the complete emitted record of a case (for the replay file)."""
    keep = store.cases[cid]
    path = store.paths[cid % store.nsh]
    with open(path) as f:
        for line in f:
            if '"id":%d,' % cid in line or '"id":%d}' % cid in line:
                r = json.loads(line)
                if r.get("id") == cid:
                    return r
    return keep


def compare(ck, store, outs, crashes):
    meta = store.meta
    q0 = meta["q"]
    ndis = 0
    seen_ids = set()
    ncmp = 0
    nruns = 0
    for _, r in crashes:
        cid = r["id"]
        ck.disagree({"kind": "crash", "signal": r["crash"], "case": store.cases[cid]["k"]},
                    {"meta": meta, "case": full_case(store, cid),
                     "how": "write meta and case as two lines of a file and run .build/bin/poly_run <file> <out>"})
        seen_ids.add(cid)

    def judge(cid, keep, codes, entries, what, var=None, other_cause="none"):
        nonlocal ndis, ncmp, nruns
        want = "".join(WANT[c] for c in codes)
        nfree = len(want) - want.count(".")
        for ent in entries:
            s = ent["s"]
            nruns += ent["cnt"]
            ncmp += ent["cnt"] * nfree
            if s == want:
                continue
            if len(s) != len(want):
                raise Broken("poly_run returned %d answers for %d query points (case %d)" % (len(s), len(want), cid))
            bad_known = [i for i in range(len(s)) if s[i] != want[i] and codes[i] == "3" and s[i] == "0"]
            bad_other = [i for i in range(len(s)) if s[i] != want[i] and not (codes[i] == "3" and s[i] == "0")]
            case = None
            for bad, cause in ((bad_known, "z-limits-early-return"), (bad_other, other_cause)):
                if not bad:
                    continue
                i = bad[0]
                rec = {"kind": keep["k"], "what": what, "cause": cause,
                       "expected": int(want[i]) if want[i] in "01" else want[i],
                       "observed": int(s[i]) if s[i] in "01" else s[i]}
                if ck.known_match(rec) is None and case is None and len(ck.violations) < 40:
                    case = full_case(store, cid)     # complete replay for the first violations only
                replay = {"meta": {k: meta[k] for k in meta if k != "q"} if (case or {}).get("q") else meta,
                          "case": case if case is not None else {"id": cid},
                          "variant": var, "query_index": i,
                          "query_point_spec_coordinates": (((case or {}).get("q") or q0)[i:i + 1] or [None])[0],
                          "failing_query_indices": bad[:50], "runs_with_this_answer": ent["cnt"],
                          "first_runs (image|vertex order|api)": ent["tags"],
                          "how": "write meta and case as two lines of a file and run .build/bin/poly_run <file> <out>"}
                if ck.disagree(rec, replay):
                    ndis += 1

    for path in outs:
        for r in vlib.read_ndjson(path):
            if "crash" in r:
                continue
            cid = r["id"]
            keep = store.cases[cid]
            seen_ids.add(cid)
            if keep["k"] == "poly":
                judge(cid, keep, keep["exp"], r["obs"], "inside")
                if "obssel" in r:
                    judge(cid, keep, keep["sel"], r["obssel"], "db_polygon(flag_sel)")
                if "obstiny" in r:
                    # open vertex list whose extent is below the absolute closure tolerance (1e-5) of PolyElem
                    judge(cid, keep, keep["exp"], r["obstiny"], "inside(open input, extent < 1e-5)",
                          other_cause="open-input-below-closure-tolerance")
            elif keep["k"] == "hull":
                judge(cid, keep, keep["exp"], r["obs"], "convex hull: createFromDb.inside / selection of a target without selection")
                if "obstiny" in r:
                    # point set whose triangles have a doubled area below the absolute collinearity tolerance (1e-6)
                    judge(cid, keep, keep["exp"], r["obstiny"], "convex hull of a point set of extent < 1e-3",
                          other_cause="hull-below-collinearity-tolerance")
                if "obsdied" in r:
                    # the hull operations died (H = no answer within 5 s, C = crash) on an image with rounded coordinates.
                    # Known only for sets with a point inside a hull edge (three collinear points on the boundary:
                    # tag 'onedge' computed by TLC), which rounding makes nearly collinear
                    judge(cid, keep, keep["exp"], r["obsdied"], "convex hull on rounded coordinates (images by 1/3, 1/7): no answer",
                          other_cause="hull-collinear-boundary-points-rounded" if keep["onedge"] > 0 else "none")
                for m, ents in enumerate(r["obsmask"]):
                    judge(cid, keep, keep["sel"][m], ents, "convex hull: selection of a target with %s selection" % meta["masks"][m]["name"])
            else:
                v = keep["var"][r["var"]]
                judge(cid, keep, v["a"], r["obs"], "inside", {"z": v["z"], "nested": v["nested"]})
                cat = ck.cov.setdefault("categories", {})
                cat["sets_read_from_csv_file (set x file form x image)"] = cat.get("sets_read_from_csv_file (set x file form x image)", 0) + r.get("ncsv", 0)
                cat["sets_read_from_wkt_file (set x file form x image)"] = cat.get("sets_read_from_wkt_file (set x file form x image)", 0) + r.get("nwkt", 0)
                if "obssel" in r:
                    judge(cid, keep, v["sel"], r["obssel"], "db_polygon(flag_sel)", {"z": v["z"], "nested": v["nested"]})
    missing = set(store.cases) - seen_ids
    if missing:
        raise Broken("poly_run did not report %d cases (e.g. %s)" % (len(missing), sorted(missing)[:5]))
    ck.add("traces_validated_against_impl", len(store.cases))
    ck.add("evaluations", ncmp)
    ck.add("impl_runs (case x image x vertex order x api)", nruns)
    return ndis


def categories(ck, store):
    """Vacuity: every interesting category of the specification must have been exercised."""
    c = ck.cov.setdefault("categories", {})

    def inc(k, n=1):
        c[k] = c.get(k, 0) + n

    for keep in store.cases.values():
        if keep["k"] == "poly":
            inc("polygons")
            inc("polygons_ccw" if keep["ccw"] else "polygons_cw")
            inc("polygons_convex" if keep["convex"] else "polygons_nonconvex")
            if keep["flat"]:
                inc("polygons_with_collinear_vertex")
            if keep["nv"] >= 100:
                inc("polygons_100+_vertices")
            inc("points_inside", keep["nin"])
            inc("points_outside", keep["exp"].count("0"))
            inc("points_on_boundary_excluded", keep["exp"].count("2"))
            inc("points_level_with_vertex", keep["lv"])
            inc("points_level_with_2+_vertices", keep["lm"])
            inc("points_level_with_horizontal_edge", keep["lh"])
            if "sel" in keep:
                inc("polygons_with_db_polygon_flag_sel")
        elif keep["k"] == "hull":
            inc("hulls")
            inc("hulls_%s" % ("triangle" if keep["nv"] == 3 else "4+_vertices"))
            if keep["onedge"]:
                inc("hulls_with_points_on_an_edge")
            if keep["interior"]:
                inc("hulls_with_interior_points")
            inc("hull_points_inside", keep["exp"].count("1"))
            inc("hull_points_outside", keep["exp"].count("0"))
            inc("hull_points_on_boundary_excluded", keep["exp"].count("2"))
        else:
            ne = len(keep["e"])
            inc("sets_%d_elements" % ne)
            for v in keep["var"]:
                z = "3d" if v["z"] != -1000 else "2d"
                r = "nested" if v["nested"] else "union"
                for code, name in (("0", "outside"), ("1", "inside"), ("3", "inside_early_return_applies")):
                    n = v["a"].count(code)
                    if n:
                        inc("set_points_%s_%s_%s" % (r, z, name), n)


def require(ck, names):
    c = ck.cov.get("categories", {})
    miss = [n for n in names if not c.get(n)]
    if miss:
        raise Broken("vacuous run: no case in categories %s" % miss)


def sample_cases(ck, store, n=2):
    for cid in list(store.cases)[:: max(1, len(store.cases) // n)][:n]:
        keep = store.cases[cid]
        if keep["k"] == "hull":
            ck.sample({"hull_of_points_doubled_coordinates": keep["src"],
                       "expected_per_query_point (0 out,1 in,2 boundary), same marks whatever the previous selection of the target": keep["exp"]})
        elif keep["k"] == "poly":
            ck.sample({"polygon_vertices_doubled_coordinates": keep["v"], "n_vertices": keep["nv"],
                       "expected_per_query_point (0 out,1 in,2 boundary)": keep["exp"]})
        else:
            ck.sample({"set": keep["e"], "variant": {"z": keep["var"][-1]["z"], "nested": keep["var"][-1]["nested"]},
                       "expected (3 = inside, early return of the present code applies)": keep["var"][-1]["a"]})


POLY_CFG = """SPECIFICATION Spec
CONSTANTS
  G = %(G)d
  MaxV = %(maxv)d
  MinEmit = %(minemit)d
  EmitSel = %(emitsel)s
  Canon = %(canon)s
INVARIANT %(inv)s
CHECK_DEADLOCK FALSE
"""
SET_CFG = """SPECIFICATION Spec
CONSTANTS
  G = %(G)d
  PoolKind = "%(pool)s"
  PoolMaxV = %(poolmaxv)d
  MaxElems = %(maxelems)d
  MinEmit = %(minemit)d
INVARIANT Inv_SetRules Inv_Files Inv_Emit
CHECK_DEADLOCK FALSE
"""
HULL_CFG = """SPECIFICATION Spec
CONSTANTS
  G = %(G)d
  MaxPts = %(maxpts)d
  MinPts = %(minpts)d
INVARIANT Inv_Hull
CHECK_DEADLOCK FALSE
"""
BIG_CFG = """SPECIFICATION Spec
CONSTANTS
  G = %(G)d
  MaxV = %(maxv)d
  Kinds = {%(kinds)s}
  Ks = {%(ks)s}
INVARIANT %(inv)s
CHECK_DEADLOCK FALSE
"""
ALL_INV = "Inv_Agree Inv_Closed Inv_Ref Inv_Simple Inv_Affine"


def one_run(work, spec):
    """(thread) one TLC run, then the harness on its cases."""
    module, cfg, tag, lvl, kw = spec
    store = CaseStore(work, tag, nshards())
    res, counts = run_tlc_cases(work, store, module, cfg, tag, lvl, **kw)
    if not store.cases:
        raise Broken("TLC emitted no case for " + tag)
    if store.meta is None:      # refined polygons carry their own query points
        store.set_meta({"k": "meta", "q": [], "noz": -1000})
    outs, crashes, hwall = run_harness_shards(store)
    return dict(spec=spec, store=store, res=res, counts=counts, outs=outs, crashes=crashes, hwall=hwall)


def run_all(ck, specs):
    """All TLC runs (+ harness) concurrently, a few at a time; accounting and comparison in the main thread,
    in the order of `specs`."""
    from concurrent.futures import ThreadPoolExecutor
    par = max(1, min(len(specs), vlib.NCPU // max(1, workers())))
    with ThreadPoolExecutor(max_workers=par) as ex:
        futs = [ex.submit(one_run, ck.work, sp) for sp in specs]
        for fu in futs:
            r = fu.result()
            module, cfg, tag, lvl, kw = r["spec"]
            res, counts, store = r["res"], r["counts"], r["store"]
            nstates = res.distinct or res.generated
            if kw.get("simulate"):
                m = re.findall(r"number of states generated: ([\d,]+)", res.stdout)
                if m:
                    nstates = res.generated = int(m[-1].replace(",", ""))
            log("[C20] %s (%s): %d states, %d polygons, %d sets, %d hulls, %d refinements skipped (not simple), TLC %.1fs, harness %.1fs" %
                (tag, module, nstates, counts["poly"], counts["set"], counts["hull"], counts["skip"], res.wall, r["hwall"]))
            ck.add("states", nstates)
            ck.add("transitions", res.generated)
            ck.cov.setdefault("tlc_runs", []).append({"run": tag, "module": module, "states": nstates,
                                                      "cases": counts["poly"] + counts["set"] + counts["hull"], "tlc_wall_s": round(res.wall, 1),
                                                      "harness_wall_s": round(r["hwall"], 1), "harness_level": lvl,
                                                      "simulate": kw.get("simulate", 0)})
            ck.add("refinements_not_simple_skipped", counts["skip"])
            nd = compare(ck, store, r["outs"], r["crashes"])
            categories(ck, store)
            sample_cases(ck, store, 1)
            log("[C20] %s: %d cases compared, %d unlisted disagreement(s)" % (tag, len(store.cases), nd))
            for p in store.paths + r["outs"]:
                try:
                    os.remove(p)
                except OSError:
                    pass


def run(tier):
    ck = Check(PID, "model_checking", tier)
    for f in os.listdir(vlib.REPLAY):      # replay files of an earlier run of this tier
        if f.startswith("%s-%s-" % (PID, tier)):
            os.remove(os.path.join(vlib.REPLAY, f))
    LIBDIR[0] = vlib.build_lib()
    EXE[0] = vlib.build_harness("poly_run")
    quick = tier == "quick"
    kinds2 = '"sub", "stair"'
    if quick:
        specs = [
            ("MC_Polygon", POLY_CFG % dict(G=4, maxv=5, minemit=3, emitsel="FALSE", canon="TRUE", inv="Inv_Agree Inv_Closed"),
             "poly_4x4_le5_canonical", "lite", {}),
            ("MC_PolygonBig", BIG_CFG % dict(G=2, maxv=4, kinds=kinds2, ks="40", inv="Inv_Big"),
             "refined_2x2_le4_k40", "lite", {}),
            ("MC_Polygon", POLY_CFG % dict(G=3, maxv=4, minemit=3, emitsel="TRUE", canon="FALSE", inv=ALL_INV),
             "poly_3x3_le4_all_orders", "full", {}),
            ("MC_PolygonSet", SET_CFG % dict(G=3, pool="rect", poolmaxv=4, maxelems=2, minemit=1),
             "sets_3x3_rect_le2", "lite", {}),
            ("MC_PolygonBig", BIG_CFG % dict(G=3, maxv=3, kinds=kinds2, ks="3", inv="Inv_Big Inv_SubSimple"),
             "refined_3x3_tri_k3", "lite", {}),
            ("MC_PolygonSet", SET_CFG % dict(G=3, pool="rect", poolmaxv=4, maxelems=3, minemit=3),
             "sets_3x3_rect_3_simulated", "one", dict(simulate=400, depth=4, nworkers=1)),
            ("MC_PolygonHull", HULL_CFG % dict(G=3, maxpts=9, minpts=3), "hulls_3x3_all_subsets", "full", {})]
    else:
        specs = [
            ("MC_Polygon", POLY_CFG % dict(G=4, maxv=6, minemit=6, emitsel="FALSE", canon="TRUE", inv="Inv_Agree Inv_Closed"),
             "poly_4x4_6_canonical", "one", {}),
            ("MC_Polygon", POLY_CFG % dict(G=4, maxv=5, minemit=3, emitsel="FALSE", canon="FALSE", inv="Inv_Agree Inv_Closed Inv_Ref"),
             "poly_4x4_le5_all_orders", "lite", {}),
            ("MC_PolygonSet", SET_CFG % dict(G=3, pool="rect", poolmaxv=4, maxelems=3, minemit=1),
             "sets_3x3_rect_le3", "lite", {}),
            ("MC_Polygon", POLY_CFG % dict(G=3, maxv=6, minemit=3, emitsel="TRUE", canon="FALSE", inv=ALL_INV),
             "poly_3x3_le6_all_orders", "full", {}),
            ("MC_PolygonBig", BIG_CFG % dict(G=3, maxv=4, kinds=kinds2, ks="3, 16", inv="Inv_Big"),
             "refined_3x3_le4_k3_k16", "lite", {}),
            ("MC_PolygonBig", BIG_CFG % dict(G=3, maxv=3, kinds=kinds2, ks="50", inv="Inv_Big"),
             "refined_3x3_tri_k50", "lite", {}),
            ("MC_Polygon", POLY_CFG % dict(G=5, maxv=7, minemit=5, emitsel="TRUE", canon="TRUE", inv="Inv_Agree Inv_Closed Inv_Ref"),
             "poly_5x5_le7_simulated", "full", dict(simulate=4000, depth=8, nworkers=1)),
            ("MC_PolygonSet", SET_CFG % dict(G=3, pool="all", poolmaxv=4, maxelems=3, minemit=1),
             "sets_3x3_allpolygons_le3_simulated", "lite", dict(simulate=1500, depth=4, nworkers=1)),
            ("MC_PolygonBig", BIG_CFG % dict(G=4, maxv=4, kinds='"sub"', ks="100", inv="Inv_Big"),
             "subdivided_4x4_le4_k100_simulated", "one", dict(simulate=60, depth=6, nworkers=1)),
            ("MC_PolygonHull", HULL_CFG % dict(G=3, maxpts=9, minpts=3), "hulls_3x3_all_subsets", "full", {}),
            ("MC_PolygonHull", HULL_CFG % dict(G=4, maxpts=5, minpts=3), "hulls_4x4_le5_points", "lite", {}),
            ("MC_PolygonHull", HULL_CFG % dict(G=5, maxpts=12, minpts=6), "hulls_5x5_6to12_points_simulated", "lite",
             dict(simulate=6000, depth=13, nworkers=1))]
    run_all(ck, specs)
    require(ck, ["polygons_ccw", "polygons_cw", "polygons_convex", "polygons_nonconvex", "polygons_with_collinear_vertex",
                 "polygons_100+_vertices", "points_inside", "points_outside", "points_level_with_vertex",
                 "points_level_with_2+_vertices", "points_level_with_horizontal_edge", "polygons_with_db_polygon_flag_sel",
                 "sets_1_elements", "sets_2_elements",
                 "set_points_union_2d_inside", "set_points_nested_2d_inside", "set_points_union_3d_inside",
                 "set_points_nested_3d_inside", "set_points_union_3d_inside_early_return_applies",
                 "set_points_nested_3d_inside_early_return_applies", "set_points_nested_2d_outside"] +
            ["sets_3_elements", "sets_read_from_csv_file (set x file form x image)",
             "sets_read_from_wkt_file (set x file form x image)", "hulls_triangle", "hulls_4+_vertices", "hulls_with_points_on_an_edge",
             "hulls_with_interior_points", "hull_points_inside", "hull_points_outside"])
    ck.cov["distinct_nontrivial"] = ck.cov["categories"]["polygons"] + ck.cov["categories"]["hulls"] + sum(
        v for k, v in ck.cov["categories"].items() if k.startswith("sets_"))
    ck.cov["rule"] = ("every case emitted by TLC (simple lattice polygon / refined polygon / polygon set with vertical limits, "
                      "with the answers expected by Polygon.tla for every half-lattice query point) executed on the real "
                      "PolyElem / Polygons / db_polygon through exact-truth-preserving images and vertex re-orderings; "
                      "every answer off the boundary compared with the expected one")
    ck.assumptions += [
        "query points on the boundary of an element, and z values equal to a vertical limit, are excluded (as in the property)",
        "images by 1/3 and 1/7 perturb the vertices by one rounding: the truth is preserved because the query points keep a "
        "distance >= 1/(4 * edge length) lattice units from every edge (exact integer cross product >= 1 in doubled coordinates)",
        "PolyElem::inside is called directly on closed vertex lists only (it does not close the list itself; "
        "Polygons::inside does, through getClosedPolyElem)",
        "flag_period of db_polygon (longitude wrapping) is not exercised; convex hulls only with dilate = 0 (the dilated hull is the "
        "hull of 16-gons around the vertices: its documented meaning 'radius' is not exact) and only for point sets not contained in a line"]
    return ck.finish()
