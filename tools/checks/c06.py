"""C06 -- moving-neighbourhood search returns exactly the specified samples; the k-nearest-neighbour
queries of the ball tree return the k closest points in increasing distance order.

1. TLC (spec/MC_NeighMoving.tla on spec/NeighMoving.tla) enumerates the abstract cases within the
   bounds, checks on each that the transcription of NeighMoving::_moving/_movingSectorNsmax/
   _movingSelect/_neighCompress equals the declarative definition of the property, and emits the
   cases with the expected selection (and, per metric class, whether the side condition of the ball
   search holds).
2. harness/neigh_run concretises every case into coordinates for several configurations (isotropic,
   anisotropic, rotated, 3-D, exact radius, grid target), runs the real NeighMoving (plain and ball
   search) and logs the selected ranks; they must equal the expected sequence.
3. TLC (spec/KNN.tla) emits lattice point sets / queries with the sorted order; the real Ball / KNN
   are queried for every k and every leaf size through every entry point.
"""
import json, math, os, subprocess, time
import vlib
from vlib import Check, Broken, log

PID = "C06"

# ------------------------------------------------------------------------------------ configurations

def make_plan(tier):
    """Configurations of the concretisation.  'every'/'offset' select the cases (by id) run in a
    configuration; 'metric' is the (1-based) metric class used for the ball search."""
    metrics = [
        dict(name="iso", dim=2, target=[0, 0], checkers=[]),
        dict(name="an2", dim=2, coeffs=[2, 1], target=[0, 0], checkers=[]),
        dict(name="an3", dim=3, coeffs=[2, 1, 0.5], angles=[30, 0, 0], target=[0, 0, 0], checkers=[]),
    ]
    q = tier == "quick"
    cfgs = [
        dict(name="iso", dim=2, target=[13.25, -7.5], scale=1.0, checkers=["code", "faults", "custom"],
             every=1, offset=0, metric=1, ball=True),
        dict(name="rot30", dim=2, coeffs=[2, 1], angles=[30], target=[-3.5, 100.125], scale=2.5,
             checkers=["code", "faults", "custom"], every=2 if q else 1, offset=1 if q else 0, metric=2, ball=True),
        dict(name="an21", dim=2, coeffs=[2, 1], target=[0, 0], scale=1.0, checkers=["code", "faults"],
             every=4 if q else 2, offset=0, metric=2, ball=True),
        dict(name="rotiso", dim=2, coeffs=[1, 1], angles=[-75], target=[1e4, 2e4], scale=10.0,
             checkers=["faults", "custom"], every=8 if q else 2, offset=2 if q else 1, metric=1, ball=True),
        dict(name="exact", dim=2, target=[7, -12], scale=1.0, exact=True, checkers=["code", "custom"],
             every=2 if q else 1, offset=0, metric=1, ball=True),
        dict(name="grid", dim=2, coeffs=[0.5, 1.5], angles=[60], target=[5, 5], scale=1.0, grid=True,
             checkers=["code", "custom"], every=8 if q else 3, offset=6 if q else 1, metric=0, ball=False),
        dict(name="iso3", dim=3, coeffs=[1, 1, 1], target=[1.5, -2.5, 40], scale=1.0, checkers=["code", "custom"],
             every=8 if q else 2, offset=3 if q else 0, metric=1, ball=True),
        dict(name="an3", dim=3, coeffs=[2, 1, 0.5], angles=[30, 0, 0], target=[-10, 20, 5], scale=3.0,
             checkers=["code", "custom"], every=8 if q else 2, offset=5 if q else 1, metric=3, ball=True),
        # configurations hitting recorded defects of gstlearn (kept small)
        dict(name="iso3def", dim=3, target=[1.5, -2.5, 40], scale=1.0, checkers=["custom"],
             every=64 if q else 16, offset=7, metric=0, ball=False),
        dict(name="date", dim=2, target=[13.25, -7.5], scale=1.0, checkers=["date"],
             every=64 if q else 16, offset=9, metric=0, ball=False),
    ]
    return dict(metrics=metrics, configs=cfgs)


def bounds(tier):
    if tier == "quick":
        return dict(
            emit=dict(MaxN=5, MaxDir=3, MaxP=3, Salts=[vlib.seed()], Rich=False, Emit=True, EmitMod=1,
                      FullN=5, FullDir=3, FullP=3),
            mc=None,
            knn=[dict(D=[2], Side=3, Step=3, QMargin=1, MaxPts=5, Orders=2)])
    s = vlib.seed()
    return dict(
        emit=dict(MaxN=6, MaxDir=4, MaxP=7, Salts=[s], Rich=True, Emit=True, EmitMod=12,
                  FullN=4, FullDir=4, FullP=4),
        mc=dict(MaxN=6, MaxDir=4, MaxP=7, Salts=[s + 1], Rich=True, Emit=False, EmitMod=1,
                FullN=0, FullDir=0, FullP=0),
        knn=[dict(D=[1], Side=7, Step=2, QMargin=2, MaxPts=6, Orders=2),
             dict(D=[2], Side=3, Step=3, QMargin=2, MaxPts=7, Orders=3),
             dict(D=[2], Side=4, Step=2, QMargin=1, MaxPts=4, Orders=2),
             dict(D=[3], Side=2, Step=3, QMargin=1, MaxPts=7, Orders=2)])


MC_CFG = """SPECIFICATION Spec
CONSTANTS
  MaxN = %(MaxN)d
  MaxDir = %(MaxDir)d
  MaxP = %(MaxP)d
  Salts = {%(salts)s}
  Rich = %(rich)s
  Emit = %(emit)s
  EmitMod = %(EmitMod)d
  FullN = %(FullN)d
  FullDir = %(FullDir)d
  FullP = %(FullP)d
INVARIANT Inv_Core Inv_BallSufficient Inv_Emit
CHECK_DEADLOCK FALSE
"""

KNN_CFG = """SPECIFICATION Spec
CONSTANTS
  D = {%(dims)s}
  Side = %(Side)d
  Step = %(Step)d
  QMargin = %(QMargin)d
  MaxPts = %(MaxPts)d
  Orders = %(Orders)d
INVARIANT Inv_Definition Inv_Unique Inv_Emit
CHECK_DEADLOCK FALSE
"""


def tla_bool(b):
    return "TRUE" if b else "FALSE"


# ------------------------------------------------------------------------------------ harness runs

def run_parallel(exe, mode, chunks, extra, outs, timeout):
    """Runs one harness process per chunk (restarting after a contained crash of the library).
    Returns the list of crash records."""
    crashes = []
    procs = []

    def start(i, resume=()):
        args = [exe, mode, chunks[i]] + extra + [outs[i]] + [str(a) for a in resume]
        return subprocess.Popen(args, stdout=subprocess.DEVNULL, stderr=subprocess.PIPE, text=True)

    for i in range(len(chunks)):
        if os.path.exists(outs[i]):
            os.remove(outs[i])
        procs.append([i, start(i), 0])
    t0 = time.time()
    while procs:
        i, p, nrestart = procs.pop(0)
        try:
            _, err = p.communicate(timeout=max(1, timeout - (time.time() - t0)))
        except subprocess.TimeoutExpired:
            p.kill()
            raise Broken("harness neigh_run %s timed out after %ds" % (mode, timeout))
        if p.returncode == 0:
            continue
        if p.returncode == 88:
            with open(outs[i]) as f:
                last = f.read().strip().splitlines()[-1]
            rec = json.loads(last)
            crashes.append(rec)
            if nrestart > 200:
                raise Broken("neigh_run: more than 200 crashes in one chunk")
            resume = (rec["g"], rec["k"] + 1) if mode == "neigh" else (rec["k"] + 1,)
            procs.append([i, start(i, resume), nrestart + 1])
            continue
        raise Broken("harness neigh_run %s failed (exit %s): %s" % (mode, p.returncode, (err or "")[-2000:]))
    return crashes


def nchunks():
    return max(1, min(8, vlib.NCPU // 2))


# ------------------------------------------------------------------------------------ NeighMoving part

def neigh_part(ck, tier, exe, B, plan):
    w = ck.work
    planp = os.path.join(w, "plan.json")
    plan_h = dict(plan, maxn=max(B["emit"]["MaxN"], (B["mc"] or B["emit"])["MaxN"]),
                  maxdir=max(B["emit"]["MaxDir"], (B["mc"] or B["emit"])["MaxDir"]))
    json.dump(plan_h, open(planp, "w"))
    geomp = os.path.join(w, "geom.json")
    vlib.run_harness(exe, ["geom", planp, geomp])
    geom = json.load(open(geomp))
    metric_names = geom["names"]

    # ---- TLC: model checking (and emission)
    states = trans = 0
    runs = [("emit", B["emit"])] + ([("mc", B["mc"])] if B["mc"] else [])
    cases = []
    for tag, b in runs:
        cfgp = os.path.join(w, "mc_%s.cfg" % tag)
        open(cfgp, "w").write(MC_CFG % dict(b, salts=", ".join(str(s) for s in b["Salts"]), rich=tla_bool(b["Rich"]),
                                            emit=tla_bool(b["Emit"])))
        res = vlib.run_tlc("MC_NeighMoving", cfgp, env={"GEOM": geomp}, timeout=3000, heap="4g",
                           on_emit=cases.append)
        if res.violation:
            raise Broken("the transcription of the code disagrees with the definition inside the model "
                         "(MC_NeighMoving, %s):\n%s" % (tag, res.violation))
        states += res.distinct
        trans += res.generated
        ck.cov["mc_%s" % tag] = dict(constants={k: v for k, v in b.items()}, distinct_states=res.distinct,
                                     generated=res.generated, wall_s=round(res.wall, 1))
        log("[C06] MC_NeighMoving/%s: %d distinct states, %d generated, depth %d, %.1fs, %d cases emitted so far" %
            (tag, res.distinct, res.generated, res.depth, res.wall, len(cases)))
    if not cases:
        raise Broken("TLC emitted no case")
    cases.sort(key=lambda c: json.dumps([c["c"], c["ndir"], c["nsect"], c["nmini"], c["nmaxi"], c["nsmax"], c["mix"]]))

    # ---- vacuity of the case set
    cats = {}
    for c in cases:
        for k in c["cat"]:
            cats[k] = cats.get(k, 0) + 1
    wanted = ["inactive", "undefined", "checker", "outside", "xvalidExcl", "kfoldExcl", "flagKept", "nminiEmpty",
              "nsmaxCut", "quotaCut", "unevenQuota", "singleCut", "allKept", "reordered"]
    for k in wanted:
        if not cats.get(k):
            raise Broken("vacuous case set: no case of category %s" % k)
    ck.cov["case_categories"] = cats
    ck.cov["second_nmini_test_is_dead_code_cases"] = cats.get("secondTestDead", 0)

    # ---- cases for the harness
    nch = nchunks()
    chunks = [os.path.join(w, "cases_%d.ndjson" % i) for i in range(nch)]
    outs = [os.path.join(w, "obs_%d.ndjson" % i) for i in range(nch)]
    files = [open(p, "w") for p in chunks]
    nside = [0] * len(metric_names)
    for idx, c in enumerate(cases):
        c["id"] = idx
        b = [m + 1 for m, bi in enumerate(c["ball"]) if bi["side"]]
        for m in b:
            nside[m - 1] += 1
        rec = {k: c[k] for k in ("id", "c", "ndir", "nsect", "nmini", "nmaxi", "nsmax", "radiusRank", "xvalid", "kfold")}
        rec["b"] = b
        files[idx % nch].write(json.dumps(rec, separators=(",", ":")) + "\n")
    for f in files:
        f.close()
    t0 = time.time()
    crashes = run_parallel(exe, "neigh", chunks, [planp], outs, timeout=3000)
    log("[C06] neigh_run: %d cases in %d configurations, %.1fs" % (len(cases), len(plan["configs"]), time.time() - t0))

    # ---- comparison
    cfgs = plan["configs"]
    nrun = {c["name"]: 0 for c in cfgs}
    nball = {c["name"]: 0 for c in cfgs}
    nskip = 0
    ncmp = 0
    for cr in crashes:
        c = cases[cr["i"]]
        ck.disagree({"kind": "neigh", "cfg": cfgs[cr["g"]]["name"], "search": "crash", "signal": cr["crash"]},
                    replay_of(c, cfgs[cr["g"]], None, None))
    for op in outs:
        for o in vlib.read_ndjson(op):
            if "crash" in o:
                continue
            c = cases[o["i"]]
            cfg = cfgs[o["g"]]
            exp = [x - 1 for x in c["expected"]]
            if "skip" in o:
                nskip += 1
                continue
            if "exc" in o or "attach" in o:
                ck.disagree({"kind": "neigh", "cfg": cfg["name"], "search": "error", "what": o.get("exc", "attach failed")},
                            replay_of(c, cfg, o, exp))
                continue
            nrun[cfg["name"]] += 1
            ncmp += 1
            if o["r"] != exp:
                ck.disagree({"kind": "neigh", "cfg": cfg["name"], "search": "plain", "observed_empty": o["r"] == [],
                             "nsect": c["nsect"], "xvalid": c["xvalid"], "kfold": c["kfold"]},
                            replay_of(c, cfg, o, exp))
            elif ncmp % 9973 == 1:
                ck.sample({"case": slim(c), "config": cfg["name"], "expected": exp, "observed": o["r"]})
            for leaf, r in o.get("b", []):
                bi = c["ball"][cfg["metric"] - 1]
                nball[cfg["name"]] += 1
                ncmp += 1
                if r != exp:
                    ck.disagree({"kind": "neigh", "cfg_metric": metric_names[cfg["metric"] - 1], "search": "ball",
                                 "cause": bi["cause"], "matches_model": r == [x - 1 for x in bi["model"]]},
                                replay_of(c, cfg, o, exp, leaf))
    for name in nrun:
        if nrun[name] == 0:
            raise Broken("configuration %s was never run" % name)
    for c in cfgs:
        if c.get("ball") and nball[c["name"]] == 0:
            raise Broken("ball search never compared in configuration %s" % c["name"])
    if nskip > 0.2 * max(1, ncmp):
        raise Broken("too many skipped runs (%d of %d)" % (nskip, ncmp))
    ck.cov["neigh_cases"] = len(cases)
    ck.cov["neigh_runs_per_config"] = nrun
    ck.cov["ball_runs_per_config"] = nball
    ck.cov["ball_side_condition_cases_per_metric"] = dict(zip(metric_names, nside))
    ck.cov["neigh_runs_skipped_unrealisable"] = nskip
    ck.add("traces_validated_against_impl", ncmp)
    return states, trans, len(cases)


def slim(c):
    return {k: c[k] for k in ("c", "ndir", "nsect", "nmini", "nmaxi", "nsmax", "radiusRank", "xvalid", "kfold")}


def replay_of(c, cfg, o, exp, leaf=None):
    return {"how": "neigh_run neigh <file with the line 'case' (add \"id\" and \"b\")> <plan.json with this config> <out>",
            "case": dict(slim(c), id=c["id"], b=[m + 1 for m, bi in enumerate(c["ball"]) if bi["side"]]),
            "candidate_fields": ["active", "defined", "distRank", "sector", "passesCheckers", "isTargetOrFold"],
            "config": cfg, "expected_ranks": exp, "observed": o, "ball_leaf": leaf,
            "ball": c["ball"][cfg["metric"] - 1] if cfg.get("metric") else None}


# ------------------------------------------------------------------------------------ KNN part

def knn_part(ck, tier, exe, B):
    w = ck.work
    states = trans = 0
    cases = []
    for j, b in enumerate(B["knn"]):
        cfgp = os.path.join(w, "knn_%d.cfg" % j)
        open(cfgp, "w").write(KNN_CFG % dict(b, dims=", ".join(str(d) for d in b["D"])))
        res = vlib.run_tlc("KNN", cfgp, timeout=3000, heap="3g", on_emit=cases.append)
        if res.violation:
            raise Broken("KNN.tla: the sorted sequence does not satisfy the definition:\n" + res.violation)
        states += res.distinct
        trans += res.generated
        log("[C06] KNN %s: %d distinct states, %.1fs, %d cases so far" % (b, res.distinct, res.wall, len(cases)))
    cases.sort(key=lambda c: json.dumps([c["dim"], c["pts"], c["q"]]))
    ck.cov["knn_bounds"] = B["knn"]
    nch = nchunks()
    chunks = [os.path.join(w, "kcases_%d.ndjson" % i) for i in range(nch)]
    outs = [os.path.join(w, "kobs_%d.ndjson" % i) for i in range(nch)]
    files = [open(p, "w") for p in chunks]
    for idx, c in enumerate(cases):
        c["id"] = idx
        files[idx % nch].write(json.dumps(c, separators=(",", ":")) + "\n")
    for f in files:
        f.close()
    t0 = time.time()
    crashes = run_parallel(exe, "knn", chunks, [], outs, timeout=3000)
    for cr in crashes:
        c = cases[cr["i"]]
        ck.disagree({"kind": "knn", "what": "crash", "signal": cr["crash"], "dim": c["dim"]}, {"case": c})
    nobs = 0
    per = {}
    for op in outs:
        for o in vlib.read_ndjson(op):
            if "crash" in o:
                continue
            c = cases[o["i"]]
            e = c["euc"] if o["m"] == 1 else c["man"]
            key = "%dD-%s" % (c["dim"], "euclidean" if o["m"] == 1 else "manhattan")
            per[key] = per.get(key, 0) + 1
            seen_k = set()
            for ob in o["obs"]:
                nobs += 1
                k = ob["k"]
                seen_k.add(k)
                want_i = [x - 1 for x in e["order"][:k]]
                want_d = [math.sqrt(x) if o["m"] == 1 else float(x) for x in e["d"][:k]]
                ok = ob["ind"] == want_i and len(ob["d"]) == k and \
                    all(abs(a - b2) <= 1e-12 * max(1.0, b2) for a, b2 in zip(ob["d"], want_d))
                if not ok:
                    ck.disagree({"kind": "knn", "metric": "euclidean" if o["m"] == 1 else "manhattan", "dim": c["dim"],
                                 "k": k, "npts": len(c["pts"]), "wrong_indices": ob["ind"] != want_i,
                                 "api": sorted(set(b.split(":")[1] for b in ob["by"]))},
                                {"points": c["pts"], "query": c["q"], "k": k, "expected_indices": want_i,
                                 "expected_distances": want_d, "observed_indices": ob["ind"],
                                 "observed_distances": ob["d"], "produced_by(leaf:entry point)": ob["by"]})
                elif nobs % 50021 == 1:
                    ck.sample({"knn_points": c["pts"], "query": c["q"], "k": k, "expected": want_i, "observed": ob["ind"]})
            if seen_k != set(range(1, len(c["pts"]) + 1)):
                raise Broken("knn harness did not report every k for case %d" % c["id"])
    log("[C06] knn: %d cases, %d distinct observations compared, %.1fs" % (len(cases), nobs, time.time() - t0))
    if not per:
        raise Broken("no KNN case was run")
    for d in set(c["dim"] for c in cases):
        if not any(k.startswith("%dD-euclidean" % d) for k in per):
            raise Broken("no Euclidean KNN case in dimension %d" % d)
    ck.cov["knn_cases"] = len(cases)
    ck.cov["knn_runs_per_dim_metric"] = per
    ck.add("traces_validated_against_impl", nobs)
    return states, trans


# ------------------------------------------------------------------------------------ entry point

def run(tier):
    ck = Check(PID, "model_checking", tier)
    vlib.build_lib()
    exe = vlib.build_harness("neigh_run")
    B = bounds(tier)
    plan = make_plan(tier)
    s1, t1, ncases = neigh_part(ck, tier, exe, B, plan)
    s2, t2 = knn_part(ck, tier, exe, B)
    ck.cov["states"] = s1 + s2
    ck.cov["transitions"] = t1 + t2
    ck.cov["evaluations"] = ck.cov.get("traces_validated_against_impl", 0)
    ck.cov["distinct_nontrivial"] = ncases + ck.cov.get("knn_cases", 0)
    ck.cov["rule"] = ("NeighMoving: every case TLC builds within the bounds (candidates in Db order x sectors x admissibility x "
                      "nmini/nmaxi/nsect/nsmax, derived rejection reasons / distance permutations / radius / cross-validation "
                      "mode) is checked in the model (Algorithm = Definition) and - all of them in the quick bound, an "
                      "arithmetic 1/EmitMod slice plus the full small bound in the thorough tier - concretised in each "
                      "configuration of the plan and run on the real NeighMoving (plain search; ball search when the spec's "
                      "side condition holds). KNN: every subset of the lattice x every query point without equal distances, "
                      "every k, every leaf size, every query entry point.")
    ck.cov["configurations"] = [c["name"] for c in plan["configs"]]
    ck.assumptions += [
        "ties and boundary positions are excluded: distinct distance ranks, samples strictly inside sectors, radius half a "
        "unit beyond the last inside sample (except configuration 'exact': integer coordinates, a sample exactly at the radius "
        "is inside)",
        "the sector of a sample is the one of (target - sample) in the anisotropy frame, numbered counter-clockwise from the "
        "first axis (read from NeighMoving::_movingSectorDefine; the documentation does not number the sectors)",
        "nmini is tested on the qualifying samples (before the sector quotas), as the property states",
        "ball search is compared only when the nmaxi Euclidean-nearest samples are all admissible (condition computed by TLC "
        "from the Euclidean lengths of the concretisation)",
        "process-wide default space is set to the dimension of each configuration before use"]
    summary = {}
    for rec, _ in ck.violations:
        k = json.dumps(rec, sort_keys=True)
        summary[k] = summary.get(k, 0) + 1
    for k, v in sorted(summary.items(), key=lambda kv: -kv[1])[:40]:
        log("[C06] unlisted disagreement x%d: %s" % (v, k))
    return ck.finish()
