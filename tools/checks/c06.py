"""C06 -- moving-neighbourhood search returns exactly the specified samples; the k-nearest-neighbour
queries of the ball tree return the k closest points in increasing distance order.

1. TLC (spec/MC_NeighMoving.tla on spec/NeighMoving.tla) enumerates the abstract cases within the
   bounds, checks on each that the transcription of NeighMoving::_moving/_movingSectorNsmax/
   _movingSelect/_neighCompress equals the declarative definition of the property, and emits the
   cases with the expected selection (and, per metric class, whether the side condition of the ball
   search holds).
2. harness/neigh_run concretises every case into coordinates for several configurations (isotropic,
   anisotropic, rotated, 3-D, exact radius, grid target), runs the real NeighMoving (plain and ball
   search) and logs the selected ranks; they must equal the expected sequence.
3. TLC (spec/KNN.tla) emits lattice point sets / queries with the sorted order; the real Ball / KNN
   are queried for every k and every leaf size through every entry point.
"""
import json, math, os, subprocess, time, zlib
import vlib
from vlib import Check, Broken, log

PID = "C06"

# ------------------------------------------------------------------------------------ configurations

def make_plan(tier):
    """Configurations of the concretisation.  'every'/'offset' select the cases (by id) run in a
    configuration; 'metric' is the (1-based) metric class used for the ball search."""
    metrics = [
        dict(name="iso", dim=2, target=[0, 0], checkers=[]),
        dict(name="an2", dim=2, coeffs=[2, 1], target=[0, 0], checkers=[]),
        dict(name="an3", dim=3, coeffs=[2, 1, 0.5], angles=[30, 0, 0], target=[0, 0, 0], checkers=[]),
    ]
    q = tier == "quick"
    cfgs = [
        dict(name="iso", dim=2, target=[13.25, -7.5], scale=1.0, checkers=["code", "faults", "custom"],
             every=1, offset=0, metric=1, ball=True),
        dict(name="rot30", dim=2, coeffs=[2, 1], angles=[30], target=[-3.5, 100.125], scale=2.5,
             checkers=["code", "faults", "custom"], every=2 if q else 1, offset=1 if q else 0, metric=2, ball=True),
        dict(name="an21", dim=2, coeffs=[2, 1], target=[0, 0], scale=1.0, checkers=["code", "faults"],
             every=4 if q else 2, offset=0, metric=2, ball=True),
        dict(name="rotiso", dim=2, coeffs=[1, 1], angles=[-75], target=[1e4, 2e4], scale=10.0,
             checkers=["faults", "custom"], every=8 if q else 2, offset=2 if q else 1, metric=1, ball=True),
        dict(name="exact", dim=2, target=[7, -12], scale=1.0, exact=True, checkers=["code", "custom"],
             every=2 if q else 1, offset=0, metric=1, ball=True),
        # leave-one-out as it is run in practice: the data base is its own target Db (cases with a sample
        # flagged "is the target"; the other cases run with a separate target Db as elsewhere)
        dict(name="self", dim=2, coeffs=[1, 1], angles=[20], target=[2.5, 4.75], scale=1.0, self=True,
             checkers=["faults", "custom"], every=2 if q else 1, offset=1 if q else 0, metric=1, ball=True),
        dict(name="grid", dim=2, coeffs=[0.5, 1.5], angles=[60], target=[5, 5], scale=1.0, grid=True,
             checkers=["code", "custom"], every=8 if q else 3, offset=6 if q else 1, metric=0, ball=False),
        dict(name="iso3", dim=3, coeffs=[1, 1, 1], target=[1.5, -2.5, 40], scale=1.0, checkers=["code", "custom"],
             every=8 if q else 2, offset=3 if q else 0, metric=1, ball=True),
        dict(name="an3", dim=3, coeffs=[2, 1, 0.5], angles=[30, 0, 0], target=[-10, 20, 5], scale=3.0,
             checkers=["code", "custom"], every=8 if q else 2, offset=5 if q else 1, metric=3, ball=True),
        # configurations hitting recorded defects of gstlearn (kept small)
        dict(name="iso3def", dim=3, target=[1.5, -2.5, 40], scale=1.0, checkers=["custom"],
             every=64 if q else 16, offset=7, metric=0, ball=False),
        dict(name="date", dim=2, target=[13.25, -7.5], scale=1.0, checkers=["date"],
             every=64 if q else 16, offset=9, metric=0, ball=False),
    ]
    return dict(metrics=metrics, configs=cfgs)


def bounds(tier):
    s = vlib.seed()
    if tier == "quick":
        return dict(
            neigh=[dict(MaxN=5, MaxDir=3, PVals=[0, 1, 2, 3], Salts=[s], Rich=False, Emit=True, EmitMod=1,
                        FullN=5, FullDir=3)],
            knn=[dict(D=[2], Side=3, Step=3, QMargin=1, MinPts=1, MaxPts=5, Orders=1),
                 dict(D=[2], Side=3, Step=3, QMargin=1, MinPts=6, MaxPts=7, Orders=1)])
    return dict(
        # run 0: complete in the parameters (values beyond the number of candidates behave alike)
        # run 1: up to 6 candidates and 4 sectors, parameter values 0, 1, 3, 7
        neigh=[dict(MaxN=4, MaxDir=4, PVals=[0, 1, 2, 3, 4, 5, 6, 7], Salts=[s], Rich=True, Emit=True, EmitMod=6,
                    FullN=3, FullDir=4),
               dict(MaxN=6, MaxDir=4, PVals=[0, 1, 3, 7], Salts=[s + 1], Rich=True, Emit=True, EmitMod=6,
                    FullN=0, FullDir=0)],
        knn=[dict(D=[1], Side=7, Step=2, QMargin=2, MinPts=1, MaxPts=7, Orders=2),
             dict(D=[2], Side=3, Step=3, QMargin=2, MinPts=1, MaxPts=7, Orders=1),
             dict(D=[2], Side=4, Step=2, QMargin=1, MinPts=1, MaxPts=3, Orders=1),
             dict(D=[3], Side=2, Step=3, QMargin=1, MinPts=1, MaxPts=8, Orders=1)])


MC_CFG = """SPECIFICATION Spec
CONSTANTS
  MaxN = %(MaxN)d
  MaxDir = %(MaxDir)d
  PVals = {%(pvals)s}
  Salts = {%(salts)s}
  Rich = %(rich)s
  Emit = %(emit)s
  EmitMod = %(EmitMod)d
  FullN = %(FullN)d
  FullDir = %(FullDir)d
INVARIANT Inv_Core Inv_BallSufficient Inv_Emit
CHECK_DEADLOCK FALSE
"""

KNN_CFG = """SPECIFICATION Spec
CONSTANTS
  D = {%(dims)s}
  Side = %(Side)d
  Step = %(Step)d
  QMargin = %(QMargin)d
  MinPts = %(MinPts)d
  MaxPts = %(MaxPts)d
  Orders = %(Orders)d
INVARIANT Inv_Definition Inv_Unique Inv_Emit
CHECK_DEADLOCK FALSE
"""


def tla_bool(b):
    return "TRUE" if b else "FALSE"


# ------------------------------------------------------------------------------------ harness runs

def run_parallel(exe, mode, chunks, extra, outs, timeout):
    """Runs one harness process per chunk (restarting after a contained crash of the library).
    Returns the list of crash records."""
    crashes = []
    procs = []

    def start(i, resume=()):
        args = [exe, mode, chunks[i]] + extra + [outs[i]] + [str(a) for a in resume]
        return subprocess.Popen(args, stdout=subprocess.DEVNULL, stderr=subprocess.PIPE, text=True)

    for i in range(len(chunks)):
        if os.path.exists(outs[i]):
            os.remove(outs[i])
        procs.append([i, start(i), 0])
    t0 = time.time()
    while procs:
        i, p, nrestart = procs.pop(0)
        try:
            _, err = p.communicate(timeout=max(1, timeout - (time.time() - t0)))
        except subprocess.TimeoutExpired:
            p.kill()
            raise Broken("harness neigh_run %s timed out after %ds" % (mode, timeout))
        if p.returncode == 0:
            continue
        if p.returncode == 88:
            with open(outs[i]) as f:
                last = f.read().strip().splitlines()[-1]
            rec = json.loads(last)
            crashes.append(rec)
            if nrestart > 200:
                raise Broken("neigh_run: more than 200 crashes in one chunk")
            resume = (rec["k"], rec["g"] + 1) if mode == "neigh" else (rec["k"] + 1,)
            procs.append([i, start(i, resume), nrestart + 1])
            continue
        raise Broken("harness neigh_run %s failed (exit %s): %s" % (mode, p.returncode, (err or "")[-2000:]))
    return crashes


def nchunks():
    return max(1, min(8, vlib.NCPU // 2))


# ------------------------------------------------------------------------------------ NeighMoving part

def case_id(key):
    """Identifier derived from the content of a case (TLC's emission order depends on its workers):
    all pseudo-random choices of the harness (configurations, leaf sizes, ...) derive from it."""
    return zlib.crc32(json.dumps(key, separators=(",", ":")).encode()) & 0x3FFFFFFF


class Chunks:
    """Round-robin ndjson writer over the chunk files of the parallel harness runs."""
    def __init__(self, w, prefix):
        self.n = nchunks()
        self.cases = [os.path.join(w, "%scases_%d.ndjson" % (prefix, i)) for i in range(self.n)]
        self.outs = [os.path.join(w, "%sobs_%d.ndjson" % (prefix, i)) for i in range(self.n)]
        self.files = [open(p, "w") for p in self.cases]
        self.count = 0

    def write(self, rec):
        self.files[rec["id"] % self.n].write(json.dumps(rec, separators=(",", ":")) + "\n")
        self.count += 1

    def close(self):
        for f in self.files:
            f.close()


def lockstep(casefile, obsfile):
    """Yields (case, [observation records of that case]) ; the harness writes its records in the
    order of the cases (field k = line number of the case)."""
    with open(casefile) as fc, open(obsfile) as fo:
        pending = None
        obs_iter = (json.loads(l) for l in fo if l.strip())
        for k, line in enumerate(fc):
            mine = []
            while True:
                if pending is None:
                    pending = next(obs_iter, None)
                if pending is None or pending["k"] != k:
                    break
                mine.append(pending)
                pending = None
            yield json.loads(line), mine
        if pending is not None:
            raise Broken("observation file %s is not aligned with its cases" % obsfile)


class Disagreements:
    """Collects the disagreements per class (= the record given to Check.disagree) and hands them to
    Check.disagree in a deterministic order; a full replay object is kept for the `keep` smallest
    case identifiers of each class only (a broken library can produce 10^5 disagreements)."""
    def __init__(self, keep=20):
        self.keep = keep
        self.classes = {}

    def add(self, rec, ident, make_replay):
        k = json.dumps(rec, sort_keys=True)
        cl = self.classes.setdefault(k, {"rec": rec, "n": 0, "kept": []})
        cl["n"] += 1
        kept = cl["kept"]
        if len(kept) < self.keep or ident < kept[-1][0]:
            kept.append((ident, make_replay()))
            kept.sort(key=lambda t: (t[0], json.dumps(t[1], sort_keys=True, default=str)))
            del kept[self.keep:]

    def flush(self, ck):
        for k in sorted(self.classes):
            cl = self.classes[k]
            for j in range(cl["n"]):
                if j < len(cl["kept"]):
                    ck.disagree(cl["rec"], cl["kept"][j][1])
                else:
                    ck.disagree(cl["rec"], {"note": "replay omitted: same class of disagreement as the previous ones",
                                            "class_size": cl["n"]})
            if not ck.known_match(cl["rec"]):
                log("[C06] unlisted disagreement x%d: %s" % (cl["n"], k))


class Samples:
    """Deterministic choice of a few evidence samples: the ones with the smallest identifiers."""
    def __init__(self, cap=3):
        self.cap = cap
        self.items = []

    def offer(self, ident, make):
        if len(self.items) < self.cap or ident < self.items[-1][0]:
            self.items.append((ident, make()))
            self.items.sort(key=lambda t: t[0])
            del self.items[self.cap:]


def neigh_part(ck, tier, exe, B, plan):
    w = ck.work
    planp = os.path.join(w, "plan.json")
    plan_h = dict(plan, maxn=max(b["MaxN"] for b in B["neigh"]), maxdir=max(b["MaxDir"] for b in B["neigh"]))
    json.dump(plan_h, open(planp, "w"))
    geomp = os.path.join(w, "geom.json")
    vlib.run_harness(exe, ["geom", planp, geomp])
    metric_names = json.load(open(geomp))["names"]

    # ---- TLC: model checking and emission of the cases
    ch = Chunks(w, "n")
    cats = {}
    modes = {}
    sizes = {}
    nside = [0] * len(metric_names)
    seen_ids = set()
    nontrivial = set()

    def on_emit(c):
        c["id"] = case_id([c["c"], c["ndir"], c["nsect"], c["nmini"], c["nmaxi"], c["nsmax"], c["radiusRank"],
                           c["xvalid"], c["kfold"]])
        seen_ids.add(c["id"])    # (the same case may be produced by two runs of the thorough tier: harmless)
        if 0 < len(c["expected"]) < len(c["c"]):
            nontrivial.add(c["id"])
        c["b"] = [m + 1 for m, bi in enumerate(c["ball"]) if bi["side"]]
        for m in c["b"]:
            nside[m - 1] += 1
        for k in c["cat"]:
            cats[k] = cats.get(k, 0) + 1
        mk = "xvalid=%d,kfold=%d" % (c["xvalid"], c["kfold"])
        modes[mk] = modes.get(mk, 0) + 1
        nk = "n=%d" % len(c["c"])
        sizes[nk] = sizes.get(nk, 0) + 1
        ch.write(c)

    states = trans = 0
    for j, b in enumerate(B["neigh"]):
        cfgp = os.path.join(w, "mc_%d.cfg" % j)
        open(cfgp, "w").write(MC_CFG % dict(b, salts=", ".join(str(s) for s in b["Salts"]), rich=tla_bool(b["Rich"]),
                                            emit=tla_bool(b["Emit"]), pvals=", ".join(str(v) for v in b["PVals"])))
        n0 = ch.count
        res = vlib.run_tlc("MC_NeighMoving", cfgp, env={"GEOM": geomp}, timeout=6000, heap="4g", on_emit=on_emit)
        if res.violation:
            raise Broken("the transcription of the code disagrees with the definition inside the model "
                         "(MC_NeighMoving, run %d):\n%s" % (j, res.violation))
        states += res.distinct
        trans += res.generated
        ck.cov["mc_neigh_run_%d" % j] = dict(constants=b, distinct_states=res.distinct, generated=res.generated,
                                            cases_emitted=ch.count - n0, wall_s=round(res.wall, 1))
        log("[C06] MC_NeighMoving run %d: %d distinct states, %d generated, depth %d, %.1fs, %d cases emitted" %
            (j, res.distinct, res.generated, res.depth, res.wall, ch.count - n0))
    ch.close()
    ncases = ch.count
    if not ncases:
        raise Broken("TLC emitted no case")

    # ---- vacuity of the case set
    wanted = ["inactive", "undefined", "checker", "outside", "xvalidExcl", "kfoldExcl", "flagKept", "nminiEmpty",
              "nsmaxCut", "quotaCut", "unevenQuota", "singleCut", "allKept", "reordered",
              "coincidentSectors", "coincidentSectorsCut"]
    for k in wanted:
        if not cats.get(k):
            raise Broken("vacuous case set: no case of category %s" % k)
    if len(modes) < 4 or min(modes.values()) < 0.1 * ncases:
        raise Broken("cross-validation modes are not balanced in the emitted cases: %s" % modes)
    ck.cov["case_categories"] = cats
    ck.cov["cases_per_cross_validation_mode"] = modes
    ck.cov["cases_per_number_of_candidates"] = sizes
    ck.cov["cases_where_a_live_second_nmini_test_would_differ"] = cats.get("secondTestDead", 0)

    # ---- the real library
    t0 = time.time()
    crashes = run_parallel(exe, "neigh", ch.cases, [planp], ch.outs, timeout=6000)
    log("[C06] neigh_run: %d cases x %d configurations in %.1fs" % (ncases, len(plan["configs"]), time.time() - t0))

    # ---- comparison
    cfgs = plan["configs"]
    nrun = {c["name"]: 0 for c in cfgs}
    nball = {c["name"]: 0 for c in cfgs}
    nball_agree = 0
    nball_clean = 0
    nball_xv = {"leave-one-out": 0, "k-fold": 0}     # ball runs whose pre-selection holds an excluded sample
    nball_xv_agree = {"leave-one-out": 0, "k-fold": 0}
    nself = {"plain": 0, "ball": 0}
    nskip = ncmp = 0
    samples = Samples()
    dis = Disagreements()
    for casefile, obsfile in zip(ch.cases, ch.outs):
        for c, obs in lockstep(casefile, obsfile):
            exp = [x - 1 for x in c["expected"]]
            for o in obs:
                cfg = cfgs[o["g"]]
                if "crash" in o:
                    dis.add({"kind": "neigh", "cfg": cfg["name"], "search": "crash", "signal": o["crash"]},
                            c["id"], lambda: replay_of(c, cfg, o, exp))
                    continue
                if "skip" in o:
                    nskip += 1
                    continue
                if "exc" in o or "attach" in o:
                    dis.add({"kind": "neigh", "cfg": cfg["name"], "search": "error",
                             "what": o.get("exc", "attach failed")}, c["id"], lambda: replay_of(c, cfg, o, exp))
                    continue
                nrun[cfg["name"]] += 1
                ncmp += 1
                if o.get("self"):
                    nself["plain"] += 1
                    nself["ball"] += len(o.get("b", []))
                if o["r"] != exp:
                    dis.add({"kind": "neigh", "cfg": cfg["name"], "search": "plain", "observed_empty": o["r"] == []},
                            c["id"], lambda: replay_of(c, cfg, o, exp))
                elif len(exp) >= 2 and c["nsect"] > 1 and o["g"] == 0:
                    samples.offer(c["id"], lambda: {"case": slim(c), "config": cfg["name"],
                                                              "expected_ranks": exp, "observed_ranks": o["r"]})
                for leaf, r in o.get("b", []):
                    bi = c["ball"][cfg["metric"] - 1]
                    nball[cfg["name"]] += 1
                    ncmp += 1
                    xmode = "k-fold" if c["kfold"] else "leave-one-out"
                    if bi["cause"] == "none":
                        nball_clean += 1          # the model of the ball path gives the definition here
                    if bi["xin"]:
                        nball_xv[xmode] += 1
                        if bi["cause"] == "none":
                            nball_xv_agree[xmode] += 1
                    if r != exp:
                        dis.add({"kind": "neigh", "cfg_metric": metric_names[cfg["metric"] - 1], "search": "ball",
                                 "cause": bi["cause"], "matches_model": any(r == [x - 1 for x in mdl] for mdl in bi["models"])},
                                c["id"], lambda: replay_of(c, cfg, o, exp, leaf))
                    else:
                        nball_agree += 1
    dis.flush(ck)
    if len(crashes) > 0:
        log("[C06] %d contained crash(es) of the library" % len(crashes))
    for name in nrun:
        if nrun[name] == 0:
            raise Broken("configuration %s was never run" % name)
    for c in cfgs:
        if c.get("ball") and nball[c["name"]] == 0:
            raise Broken("ball search never compared in configuration %s" % c["name"])
    if nball_clean == 0:
        raise Broken("no ball-search run where the model of the ball path yields the definition: the side condition is vacuous")
    for k in nball_xv:
        if nball_xv[k] == 0 or nball_xv_agree[k] == 0:
            raise Broken("ball search x %s cross-validation never exercised (pre-selection holding an excluded sample: "
                         "%s runs, %s where the definition is expected from the ball path)" % (k, nball_xv, nball_xv_agree))
    if nself["plain"] == 0 or nself["ball"] == 0:
        raise Broken("no run with the data base as its own target: %s" % nself)
    if nskip > 0.2 * max(1, ncmp):
        raise Broken("too many skipped runs (%d of %d)" % (nskip, ncmp))
    for _, smp in samples.items:
        ck.sample(smp)
    ck.cov["neigh_cases"] = ncases
    ck.cov["neigh_cases_distinct"] = len(seen_ids)
    ck.cov["neigh_cases_nontrivial"] = len(nontrivial)
    ck.cov["neigh_runs_per_config"] = nrun
    ck.cov["ball_runs_per_config"] = nball
    ck.cov["ball_runs_equal_to_definition"] = nball_agree
    ck.cov["ball_runs_with_excluded_sample_in_preselection"] = nball_xv
    ck.cov["ball_runs_with_excluded_sample_in_preselection_where_ball_path_must_give_definition"] = nball_xv_agree
    ck.cov["ball_runs_where_ball_path_must_give_definition"] = nball_clean
    ck.cov["runs_with_db_as_its_own_target"] = nself
    ck.cov["ball_side_condition_cases_per_metric"] = dict(zip(metric_names, nside))
    ck.cov["neigh_runs_skipped_unrealisable"] = nskip
    ck.add("traces_validated_against_impl", ncmp)
    return states, trans, len(nontrivial)


def slim(c):
    return {k: c[k] for k in ("c", "ndir", "nsect", "nmini", "nmaxi", "nsmax", "radiusRank", "xvalid", "kfold")}


def replay_of(c, cfg, o, exp, leaf=None):
    return {"how": "write 'case' as one line of a file, {\"configs\": [config]} as plan.json, then: "
                   ".build/bin/neigh_run neigh <cases> <plan.json> <out>",
            "case": dict(slim(c), id=c["id"], b=c["b"]),
            "candidate_fields": ["active", "defined", "distRank", "sector", "passesCheckers", "isTargetOrFold"],
            "config": dict(cfg, every=1, offset=0), "expected_ranks": exp, "observed": o, "ball_leaf": leaf,
            "ball": c["ball"][cfg["metric"] - 1] if cfg.get("metric") else None}


# ------------------------------------------------------------------------------------ KNN part

def knn_part(ck, tier, exe, B):
    w = ck.work
    states = trans = 0
    ch = Chunks(w, "k")

    nontrivial = set()
    probes = []      # cases with fewer points than dimensions (see the known finding C06-ball-vvd-ctor-free)

    def on_emit(c):
        c["id"] = case_id([c["dim"], c["pts"], c["q"]])
        if len(c["pts"]) >= 2:
            nontrivial.add(c["id"])
        if len(c["pts"]) < c["dim"] and c["euc"]["ok"]:
            probes.append(dict(c, force_vvd=True))
            probes.sort(key=lambda x: x["id"])
            del probes[3:]
        ch.write(c)

    for j, b in enumerate(B["knn"]):
        cfgp = os.path.join(w, "knn_%d.cfg" % j)
        open(cfgp, "w").write(KNN_CFG % dict(b, dims=", ".join(str(d) for d in b["D"])))
        n0 = ch.count
        res = vlib.run_tlc("KNN", cfgp, timeout=6000, heap="3g", on_emit=on_emit)
        if res.violation:
            raise Broken("KNN.tla: the sorted sequence does not satisfy the definition:\n" + res.violation)
        states += res.distinct
        trans += res.generated
        ck.cov["mc_knn_run_%d" % j] = dict(constants=b, distinct_states=res.distinct, cases_emitted=ch.count - n0,
                                          wall_s=round(res.wall, 1))
        log("[C06] KNN %s: %d distinct states, %.1fs, %d cases" % (b, res.distinct, res.wall, ch.count - n0))
    ch.close()
    if not ch.count:
        raise Broken("no KNN case was emitted")
    t0 = time.time()
    crashes = run_parallel(exe, "knn", ch.cases, [], ch.outs, timeout=6000)
    nobs = 0
    per = {}
    dims = set()
    samples = Samples(2)
    dis = Disagreements()
    # the Ball(VectorVectorDouble) constructor on fewer points than dimensions: each probe in its own process
    for j, pc in enumerate(probes):
        pf, po = os.path.join(w, "kprobe_%d.ndjson" % j), os.path.join(w, "kprobe_obs_%d.ndjson" % j)
        vlib.write_ndjson(pf, [pc])
        try:
            rc = subprocess.run([exe, "knn", pf, po], stdout=subprocess.DEVNULL, stderr=subprocess.DEVNULL,
                                timeout=120).returncode
        except subprocess.TimeoutExpired:
            rc = "timeout"
        ck.add("knn_vvd_ctor_probes")
        if rc != 0:
            dis.add({"kind": "knn", "what": "crash", "ctor": "Ball(VectorVectorDouble)", "npts_lt_dim": True},
                    pc["id"], lambda: {"points": pc["pts"], "query": pc["q"], "exit": rc,
                                       "how": "Ball ball(data /* [dim][npts] */, nullptr, 1, 1) with npts < dim"})
    for casefile, obsfile in zip(ch.cases, ch.outs):
        for c, obs in lockstep(casefile, obsfile):
            dims.add(c["dim"])
            for o in obs:
                if "crash" in o:
                    dis.add({"kind": "knn", "what": "crash", "signal": o["crash"], "dim": c["dim"],
                             "npts_lt_dim": False}, c["id"],
                            lambda: {"points": c["pts"], "query": c["q"], "metric": o.get("m")})
                    continue
                e = c["euc"] if o["m"] == 1 else c["man"]
                mname = "euclidean" if o["m"] == 1 else "manhattan"
                key = "%dD-%s" % (c["dim"], mname)
                per[key] = per.get(key, 0) + 1
                seen_k = set()
                for ob in o["obs"]:
                    nobs += 1
                    k = ob["k"]
                    seen_k.add(k)
                    want_i = [x - 1 for x in e["order"][:k]]
                    want_d = [math.sqrt(x) if o["m"] == 1 else float(x) for x in e["d"][:k]]
                    ok = ob["ind"] == want_i and len(ob["d"]) == k and \
                        all(abs(a - b2) <= 1e-12 * max(1.0, b2) for a, b2 in zip(ob["d"], want_d))
                    if not ok:
                        dis.add({"kind": "knn", "metric": mname, "dim": c["dim"], "wrong_indices": ob["ind"] != want_i,
                                 "wrong_count": len(ob["ind"]) != k, "right_set": sorted(ob["ind"]) == sorted(want_i),
                                 "k_ge_6": k >= 6},
                                c["id"] + k,
                                lambda: {"points": c["pts"], "query": c["q"], "metric": mname, "k": k,
                                         "expected_indices": want_i, "expected_distances": want_d,
                                         "observed_indices": ob["ind"], "observed_distances": ob["d"],
                                         "produced_by(leaf size:entry point)": ob["by"]})
                    elif k >= 3 and o["m"] == 1:
                        samples.offer(c["id"] + k, lambda: {"knn_points": c["pts"], "query": c["q"], "k": k,
                                                            "expected_indices": want_i, "observed_indices": ob["ind"]})
                if seen_k != set(range(1, len(c["pts"]) + 1)):
                    raise Broken("knn harness did not report every k for case %d" % c["id"])
    dis.flush(ck)
    log("[C06] knn: %d cases, %d distinct observations compared, %.1fs" % (ch.count, nobs, time.time() - t0))
    for d in dims:
        if not per.get("%dD-euclidean" % d):
            raise Broken("no Euclidean KNN case in dimension %d" % d)
    for _, smp in samples.items:
        ck.sample(smp)
    ck.cov["knn_cases"] = ch.count
    ck.cov["knn_cases_nontrivial"] = len(nontrivial)
    ck.cov["knn_runs_per_dim_metric"] = per
    ck.add("traces_validated_against_impl", nobs)
    return states, trans


# ------------------------------------------------------------------------------------ entry point

def run(tier):
    ck = Check(PID, "model_checking", tier)
    vlib.build_lib()
    exe = vlib.build_harness("neigh_run")
    B = bounds(tier)
    plan = make_plan(tier)
    s1, t1, nnontriv = neigh_part(ck, tier, exe, B, plan)
    s2, t2 = knn_part(ck, tier, exe, B)
    ck.cov["states"] = s1 + s2
    ck.cov["transitions"] = t1 + t2
    ck.cov["evaluations"] = ck.cov.get("traces_validated_against_impl", 0)
    ck.cov["distinct_nontrivial"] = nnontriv + ck.cov.get("knn_cases_nontrivial", 0)
    ck.cov["rule"] = ("NeighMoving: every case TLC builds within the bounds (candidates in Db order x sectors x admissibility x "
                      "nmini/nmaxi/nsect/nsmax, derived rejection reasons / distance permutations / radius / cross-validation "
                      "mode) is checked in the model (Algorithm = Definition) and - all of them in the quick bound, an "
                      "arithmetic 1/EmitMod slice plus the full small bound in the thorough tier - concretised in each "
                      "configuration of the plan and run on the real NeighMoving (plain search; ball search when the spec's "
                      "side condition holds). KNN: every subset of the lattice x every query point without equal distances, "
                      "every k, every leaf size, every query entry point. "
                      "evaluations = comparisons of a real result with the expected one; distinct_nontrivial = distinct "
                      "neighbourhood cases (by content) whose expected selection is a non-empty proper subset of the "
                      "candidates + distinct KNN cases with at least two points.")
    ck.cov["configurations"] = [c["name"] for c in plan["configs"]]
    ck.assumptions += [
        "ties and boundary positions are excluded: distinct distance ranks, samples strictly inside sectors, radius half a "
        "unit beyond the last inside sample (except configuration 'exact': integer coordinates, a sample exactly at the radius "
        "is inside)",
        "the sector of a sample is the one of (target - sample) in the anisotropy frame, numbered counter-clockwise from the "
        "first axis (read from NeighMoving::_movingSectorDefine; the documentation does not number the sectors)",
        "a sample coinciding with the target (cross-validation off) has no defined sector: with several sectors such "
        "cases are compared only when the defined neighbourhood is the same whichever sector the sample is counted in "
        "(computed by TLC: SectorIndependent)",
        "nmini is tested on the qualifying samples (before the sector quotas), as the property states",
        "ball search is compared only when the nmaxi Euclidean-nearest samples, leaving aside those that the "
        "cross-validation excludes, are all admissible and nmini <= nmaxi (condition computed by TLC "
        "from the Euclidean lengths of the concretisation)",
        "process-wide default space is set to the dimension of each configuration before use"]
    return ck.finish()
