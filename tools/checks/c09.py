"""C09 -- loaders fail cleanly on malformed or truncated files.

1. Valid files: abstract instances of the class schemas of spec/NeutralFile.tla (as in C08), only instances whose file
   both the intended and the transcribed reader read back.
2. TLC (MC_NeutralFault) applies EVERY fault of the fault layer to every valid file (truncation at every token,
   every token replaced by NA, -1, 0, 2147483647, 1e308, a word, an empty line, a comment mark; wrong class tag;
   duplicated / dropped line; every integer token replaced by the values JUST OUTSIDE the domain that the specification
   gives to its field: count n -> n-1, n+1, code of an enumeration or flag lo..hi -> hi+1, hi+2, lo-1, rank into a
   container -> first rank out of range, -1; every token written twice -- one value too many on its line, the last line
   included), classifies each faulty file with the INTENDED reader (MustFail / MaySucceed(o')) and
   with the TRANSCRIPTION of the real reader (predicted outcome, memory-unsafe events), and reports the first
   divergence between the two readers.
3. harness nf_fault materialises every faulty file (thorough tier: also every byte prefix of every valid file) and
   loads it with the real X::createFromNF (Db::createFromCSV, grid exchange readers) in child processes of a
   sanitizer build (ASan + UBSan; allocation limit; alarm).  Outcome: clean failure, or success with an object that
   is projected, queried, dumped and reloaded, or crash / sanitizer report / time-out / memory exhaustion.
4. Verdict: crash, sanitizer report, time-out, allocation beyond the limit, exception = violation; success with an
   object that does not satisfy the consistency rules of its class (judged by TLC, TraceNeutralFault) or that cannot
   be saved and reloaded = violation.  Success on a MustFail file with a consistent object is allowed by the
   property (it is counted as "lenient").
"""
import json, os, shutil, random, collections, subprocess, hashlib, re, time
import vlib
from vlib import Check, Broken, log
import checks.c08 as c08

# (RuleShift and FracEnviron have no loader that accepts their own files: nothing to corrupt)
ALL_CLASSES = [c for c in c08.QUICK_CLASSES + c08.MORE_CLASSES if c not in ("RuleShift", "FracEnviron")]

ASAN_ENV = {"ASAN_OPTIONS": "abort_on_error=1:detect_leaks=0:allocator_may_return_null=0:max_allocation_size_mb=1024:"
                            "handle_abort=0:print_summary=1:symbolize=0:malloc_context_size=2:fast_unwind_on_malloc=1:detect_odr_violation=0",
            "UBSAN_OPTIONS": "print_stacktrace=0:halt_on_error=0:report_error_type=1"}


# recursive operators over files of ~100 tokens need a deeper Java stack than the default
TLC_JAVA = "-Xmx8g -XX:+UseParallelGC -Xss64m"


use_asan = c08.use_asan
build_asan_lib = c08.build_asan_lib


def build_fault_harness():
    """nf_fault linked against the sanitizer build (or the normal build with VERIF_C09_NOASAN=1)"""
    return c08.build_asan_harness("nf_fault") if use_asan() else vlib.build_harness("nf_fault")


def render(lines, newline_at_end=True, cls=""):
    """text of a file of the model: tokens separated by one blank, '#' followed by a one-word title (neutral files);
    cells separated by commas (CSV); tokens separated by one blank (files of the grid exchange formats)"""
    out = []
    for l in lines:
        if cls == "CSV":
            out.append(",".join(l))
        elif cls == "Raw":
            out.append(" ".join(l))
        else:
            # ("*": a value that the model leaves open -- the mean / variance of an anamorphosis -- any number will do)
            out.append(" ".join(("# t" if t == "#" else "0" if t == "*" else t) for t in l))
    text = "\n".join(out)
    return text + ("\n" if newline_at_end else "")


def token_ends(b, text):
    """byte offset of the end of every token of the model in the text of the file (the title word that follows a comment
    mark in the rendering is not a token of the model)"""
    ends = []
    pos = 0
    for l in b["lines"]:
        for t in l:
            r = "0" if t == "*" and b["c"] not in ("Raw", "CSV") else t
            k = text.find(r, pos)
            if k < 0:
                return [m.end() for m in re.finditer(r"\S+", text)]
            pos = k + len(r)
            ends.append(pos)
    return ends


def raw_fault(orig, ft):
    """a fault chosen by TLC (on the lines of tokens of a file of a grid exchange format) applied to the ORIGINAL text of the
    file: these formats are sensitive to the layout of their lines, which a rendering from tokens would lose"""
    lines = orig.split("\n")
    spans = []          # (line, start, end) of every token
    for i, l in enumerate(lines):
        for m in re.finditer(r"\S+", l):
            spans.append((i, m.start(), m.end()))
    kind, k, t = ft["kind"], ft.get("k", 0), ft.get("t", "")
    if kind in ("trunc", "corrupt", "emptyline"):
        i, a, b = spans[k - 1]
        if kind == "trunc":
            return "\n".join(lines[:i] + [lines[i][:b]])
        rep = t if kind == "corrupt" else "\n\n"
        lines[i] = lines[i][:a] + rep + lines[i][b:]
        return "\n".join(lines)
    if kind == "wrongclass":
        lines[0] = t
    elif kind == "duptok":
        i, a, b = spans[k - 1]
        lines[i] = lines[i][:b] + " " + lines[i][a:b] + lines[i][b:]
    elif kind == "dupline":
        lines.insert(k, lines[k - 1])
    elif kind == "dropline":
        del lines[k - 1]
    return "\n".join(lines)


CSV_FORMAT = {"header": True, "skip": 0, "sep": ",", "dec": ".", "na": "NA", "rank": False}


def file_record(e, fid, bases, text=None):
    """record given to nf_fault for one faulty file emitted by TLC"""
    b = bases[e["base"]]
    c = e["c"]
    rec = dict(e, id=fid, ndim=base_ndim(b))
    if c == "Raw":
        rec["c"] = b["fmt"]
        rec["pc"] = "DbGrid"
        rec["text"] = text if text is not None else raw_fault(b["orig"], e)
    elif c == "CSV":
        rec["pc"] = "Db"
        rec["csv"] = CSV_FORMAT
        rec["text"] = text if text is not None else render(e["lines"], e["kind"] != "trunc", "CSV")
    else:
        rec["pc"] = c
        rec["text"] = text if text is not None else render(e["lines"], e["kind"] != "trunc")
    return rec


def choose_bases(ck, classes, level, nbase, rng, workers, light=False):
    """valid files: instances drawn as in C08, kept when the model reads them back; nbase per class.
    light (quick tier): per class, the SMALLEST file that holds every kind of field that the files of the class hold (count,
    code of an enumeration, rank, line of values, ...), then the largest files of other structures;
    otherwise: one per structure first (largest files first), then the rest"""
    w = ck.work
    cfg = os.path.join(w, "shapes.cfg")
    open(cfg, "w").write(c08.classes_cfg(level, classes))
    shapes = vlib.tlc_emit_json("EmitNFShapes", cfg, os.path.join(w, "shapes.json"))
    picks, _, _ = c08.draw_picks(shapes, 6 * max(nbase, 5), rng)
    pp = os.path.join(w, "pool.ndjson")
    vlib.write_ndjson(pp, picks)
    mcfg = os.path.join(w, "mc.cfg")
    open(mcfg, "w").write("SPECIFICATION Spec\nCONSTANTS\n Level = %d\n Repaired = %s\nCHECK_DEADLOCK FALSE\n" % (level, c08.repaired_tla()))
    res = vlib.run_tlc("MC_NeutralFile", mcfg, workers=workers, env={"PICKS": pp, "JAVA_TOOL_OPTIONS": TLC_JAVA}, timeout=3000)
    if res.violation:
        raise Broken("MC_NeutralFile reports an error:\n" + res.violation)
    by = collections.defaultdict(list)
    for e in res.emitted:
        if e["ideal"]:
            by[e["c"]].append(e)
    chosen = []
    kinds_cov = {}
    for c in classes:
        cand = by.get(c, [])
        if not cand:
            raise Broken("no valid base file for class %s" % c)
        rng.shuffle(cand)
        size = lambda e: sum(len(l) for l in e["lines"])
        # one per structure first (largest files first), then the rest
        cand.sort(key=lambda e: -size(e))
        seen = set()
        first, rest = [], []
        for e in cand:
            (first if e["s"] not in seen else rest).append(e)
            seen.add(e["s"])
        if light:
            allk = set().union(*[set(e["kinds"]) for e in cand])
            full = [e for e in cand if set(e["kinds"]) == allk]
            if not full:
                raise Broken("no single valid file of class %s holds every kind of field of the class (%s)" % (c, sorted(allk)))
            small = min(full, key=size)
            sel = ([small] + [e for e in first if e["s"] != small["s"]] + [e for e in first + rest if e is not small])[:nbase]
            kinds_cov[c] = sorted(allk)
        else:
            sel = (first + rest)[:nbase]
        chosen += [{"c": e["c"], "s": e["s"], "d": e["d"]} for e in sel]
    if light:
        ck.cov["field_kinds_per_class_in_the_first_valid_file"] = kinds_cov
    return chosen


def base_ndim(b):
    nd = b["o"].get("ndim", 2) if isinstance(b["o"], dict) else 2
    return nd if isinstance(nd, int) and 1 <= nd <= 3 else 2


def fault_model(ck, picks, level, workers):
    w = ck.work
    pp = os.path.join(w, "bases.ndjson")
    vlib.write_ndjson(pp, picks)
    mcfg = os.path.join(w, "mcf.cfg")
    open(mcfg, "w").write("SPECIFICATION Spec\nCONSTANTS\n Level = %d\n Repaired = %s\nCONSTRAINT Emit\nCHECK_DEADLOCK FALSE\n" % (level, c08.repaired_tla()))
    res = vlib.run_tlc("MC_NeutralFault", mcfg, workers=workers, env={"PICKS": pp, "JAVA_TOOL_OPTIONS": TLC_JAVA}, timeout=6000, heap="8g")
    if res.violation:
        raise Broken("MC_NeutralFault reports an error:\n" + res.violation)
    bases = {e["base"]: e for e in res.emitted if e["kind"] == "base"}
    invalid = [e for e in res.emitted if e["kind"] == "invalid-base"]
    if invalid:
        raise Broken("a chosen base file is not valid on the model: %s" % json.dumps(invalid[0]))
    nexp = sum(b["nfaults"] for b in bases.values())
    nemit = len([e for e in res.emitted if e["kind"] not in ("base", "invalid-base")])
    faults = [e for e in res.emitted if e["kind"] not in ("base", "invalid-base", "noop")]
    if nemit != nexp:
        raise Broken("MC_NeutralFault emitted %d faulty files, %d expected" % (nemit, nexp))
    faults.sort(key=lambda e: (e["base"], e["j"]))
    log("[C09] TLC: %d valid files, %d faulty files classified in %.1fs" % (len(bases), len(faults), res.wall))
    return bases, faults, res


def run_loader(ck, files, tag, batch=60, nproc=12, alarm=None):
    """files: list of {id, c, text, ...}; returns {id: outcome record} and sanitizer messages per id"""
    exe = build_fault_harness()
    w = ck.work
    tmp = os.path.join(w, "tmp_" + tag)
    os.makedirs(tmp, exist_ok=True)
    env = dict(os.environ)
    if use_asan():
        env.update(ASAN_ENV)
        env["NF_NO_CONFIRM"] = "1"
    else:
        env["NF_RLIMIT_MB"] = "2048"
    if alarm:
        env["NF_ALARM"] = str(alarm)
    chunks = [files[i::nproc] for i in range(nproc)]
    procs = []
    for i, ch in enumerate(chunks):
        if not ch:
            continue
        fp = os.path.join(w, "files_%s_%d.ndjson" % (tag, i))
        vlib.write_ndjson(fp, ch)
        op = os.path.join(w, "out_%s_%d.ndjson" % (tag, i))
        lp = os.path.join(w, "log_%s_%d.txt" % (tag, i))
        p = subprocess.Popen([exe, fp, op, tmp, lp, str(batch)], env=env, stdout=subprocess.DEVNULL, stderr=subprocess.PIPE, text=True)
        procs.append((p, op, lp, ch))
    outs = {}
    sani = collections.defaultdict(list)
    for p, op, lp, ch in procs:
        try:
            _, err = p.communicate(timeout=6000)
        except subprocess.TimeoutExpired:
            p.kill()
            raise Broken("nf_fault timed out")
        if p.returncode != 0:
            raise Broken("nf_fault failed (exit %s): %s" % (p.returncode, (err or "")[-1500:]))
        for r in vlib.read_ndjson(op):
            prev = outs.get(r["id"])
            if prev is None or r["outcome"] == "crash-in-batch":
                outs[r["id"]] = r
            if "batch_from" in r:
                # the files that the dead child had processed before (context of the death)
                r["context"] = [f["id"] for f in ch[r["batch_from"]:r["index"] + 1]]
        cur = None
        stage = None
        with open(lp, errors="replace") as f:
            for line in f:
                if line.startswith("@@ "):
                    parts = line.split()
                    cur, stage = int(parts[1]), parts[2]
                    continue
                if cur is None:
                    continue
                if "runtime error:" in line or "Sanitizer" in line or "terminate called" in line or "what():" in line:
                    if len(sani[cur]) < 6:
                        sani[cur].append((stage, line.strip()[:300]))
    missing = [f["id"] for f in files if f["id"] not in outs]
    if missing:
        raise Broken("nf_fault reported no outcome for %d files (first id %s)" % (len(missing), missing[0]))
    return outs, sani


def sanitizer_kind(msgs):
    """short class of a sanitizer / runtime message"""
    txt = " ".join(m for _, m in msgs)
    m = re.search(r"AddressSanitizer: ([\w-]+)", txt)
    if m:
        return "asan:" + m.group(1)
    if "runtime error:" in txt:
        m = re.search(r"runtime error: ([a-z ]+?)(?: of| for|:|\d|$)", txt)
        return "ubsan:" + (m.group(1).strip().replace(" ", "-") if m else "runtime-error")
    m = re.search(r"what\(\):\s*(\S+)", txt)
    if m:
        return "uncaught:" + m.group(1)
    if "terminate called" in txt:
        return "uncaught:exception"
    return ""


COUNT_EVENTS = {"allocNegative", "allocHuge", "allocUnbounded", "loopUnbounded"}
PRED_ORDER = ["vecOverflow", "writeUnsized", "useAfterClear", "count", "gridSizeMismatch", "badEnum", "badDims", "badIndex", "badGrid",
              "badRuleNodes", "emptyHermite", "namesMismatch", "nameHash", "emptyPolyline"]
DEATH_PREDS = {"vecOverflow", "writeUnsized", "useAfterClear", "count", "gridSizeMismatch", "badEnum", "badDims", "badIndex", "badGrid",
               "badRuleNodes", "emptyHermite", "namesMismatch"}
LENIENT_ORDER = ["dbPartIgnored", "uninitReturn", "wordAsZero", "eofDefault"]


def pred_class(unsafe, kind=None):
    """the memory-unsafe / unbounded behaviour that the transcription of the real reader predicts for a file (for an
    outcome that is not a death of the process -- inconsistent or unusable object -- the predictions that explain such an
    outcome come first)"""
    ev = {("count" if e in COUNT_EVENTS else e) for e in unsafe}
    order = PRED_ORDER
    if kind in ("inconsistent", "unusable"):
        soft = ["emptyPolyline", "nameHash", "badDims", "gridSizeMismatch", "badGrid", "badIndex"]
        order = soft + [k for k in PRED_ORDER if k not in soft]
    for k in order:
        if k in ev:
            return k
    return "+".join(sorted(ev)) or "none"


def lenient_class(rev):
    for k in LENIENT_ORDER:
        if k in rev:
            return k
    return "none"


def norm_what(w):
    """text of an exception of the library without the location of the source tree and the line number:
    /repo/src/Covariances/ACovFunc.cpp@58: Wrong ... -> src/Covariances/ACovFunc.cpp: Wrong ..."""
    return re.sub(r"^\S*?/((?:src|include)/[^@\s]+)@\d+:", r"\1:", w)


def judge_objects(ck, recs, tag, workers=1):
    """TLC judges the consistency of every object returned by a loader (TraceNeutralFault)"""
    w = ck.work
    tp = os.path.join(w, "objects_%s.ndjson" % tag)
    vlib.write_ndjson(tp, recs)
    if not recs:
        return {}
    cfg = os.path.join(w, "judge.cfg")
    open(cfg, "w").write("SPECIFICATION Spec\nCONSTANTS\n Level = 1\n Repaired = %s\nPOSTCONDITION AllExamined\nCHECK_DEADLOCK FALSE\n" % c08.repaired_tla())
    res = vlib.run_tlc("TraceNeutralFault", cfg, workers=1, env={"OBJECTS": tp}, timeout=3000)
    if res.violation or "NOT-ALL-EXAMINED" in res.stdout:
        raise Broken("TraceNeutralFault did not examine all the objects:\n" + (res.violation or res.stdout[-2000:]))
    return {r["id"]: r["fails"] for r in res.emitted}


def evaluate(ck, files, outs, sani, tag):
    """files: list of dicts with id, c, text, fault description, model classification"""
    objs = []
    for f in files:
        o = outs[f["id"]]
        if o["outcome"] == "ok" and "p" in o:
            objs.append({"id": f["id"], "c": o.get("pc", f["pc"]), "p": o["p"]})
            if "p2" in o:
                objs.append({"id": -f["id"] - 1, "c": f["pc"], "p": o["p2"]})
    bad = judge_objects(ck, objs, tag)
    stats = collections.Counter()
    for f in files:
        o = outs[f["id"]]
        oc = o["outcome"]
        msgs = sani.get(f["id"], [])
        sk = sanitizer_kind(msgs)
        rec = {"class": f["c"], "fault": f["kind"], "repl": f.get("t", ""), "pred": pred_class(f.get("unsafe", [])),
               "pred_events": "+".join(sorted(f.get("unsafe", []))) or "none",
               "verdict": f.get("verdict", "?"), "rat": f.get("rat", ""), "lenient": lenient_class(f.get("rev", []))}
        replay = {"class": f["c"], "file_text": f["text"], "fault": {k: f.get(k) for k in ("kind", "k", "t", "base")},
                  "model": {k: f.get(k) for k in ("verdict", "rok", "rat", "rev", "unsafe", "diverge")},
                  "observed": {k: v for k, v in o.items() if k not in ("p", "q", "p2")}, "sanitizer": msgs,
                  "how": "write file_text to a file and load it with the createFromNF (or CSV / grid reader) of the class in the sanitizer build"}
        found = None
        if oc in ("crash", "crash-in-batch", "timeout", "oom", "exception"):
            found = dict(rec, kind=oc, stage=o.get("stage", "load"), what=sk or norm_what(o.get("what", ""))[:60] or ("signal%s" % o.get("signal")))
        elif sk:
            found = dict(rec, kind="sanitizer", stage=msgs[0][0], what=sk)
        elif oc == "ok":
            fails = bad.get(f["id"], [])
            fails2 = bad.get(-f["id"] - 1, [])
            if fails:
                found = dict(rec, kind="inconsistent", what="+".join(sorted(fails)))
            elif not o.get("dump"):
                found = dict(rec, kind="unusable", what="dump-failed")
            elif not o.get("reload"):
                found = dict(rec, kind="unusable", what="reload-failed")
            elif fails2:
                found = dict(rec, kind="unusable", what="reloaded-inconsistent:" + "+".join(sorted(fails2)))
        if found:
            found["pred"] = pred_class(f.get("unsafe", []), found["kind"])
        stats[(f.get("verdict", "?"), "violating" if found else oc)] += 1
        if found:
            ck.disagree(found, replay)
        ck.add("traces_validated_against_impl")
        ck.add("evaluations")
    return stats


def run(tier):
    ck = Check("C09", "model_checking", tier)
    try:
        return _run(ck, tier)
    except BaseException:
        if not os.environ.get("VERIF_KEEP"):
            shutil.rmtree(ck.work, ignore_errors=True)
        raise


F2G_VALID = ("F2G_DIM 2\nF2G_VERSION 1\nF2G_LOCATION 0 0 0\nF2G_ROTATION 0\nF2G_ORIGIN 0 0\nF2G_NB_NODES 3 2\nF2G_LAGS 1 0.5\n"
             "F2G_ORDER +Y +X +Z\nF2G_NB_VARIABLES 1\nF2G_VARIABLE_1 v\nF2G_UNDEFINED_1 -999\nF2G_VALUES\n1 2 -999 4 5.5 6\n")


def exchange_files(ck):
    """valid files of the grid exchange formats, written by the real writers (GridZycor, GridIfpEn, GridBmp) from a small
    grid, plus a hand-made F2G file (that format has a reader only)"""
    exe = vlib.build_harness("nf_run")
    w = ck.work
    grid = {"ndim": 2, "nx": [3, 2], "x0": ["0", "-1"], "dx": ["1", "0.5"], "angles": ["0", "0"], "ncol": 1, "nech": 6,
            "locators": ["z1"], "names": [["v"]], "rows": [["1"], ["2"], ["NA"], ["4"], ["1.23456789012345"], ["-6"]]}
    cases = [{"id": i + 1, "c": c, "o": grid, "cfg": 0, "keep_text": True} for i, c in enumerate(["GridZycor", "GridIfpEn", "GridBmp"])]
    cp, op = os.path.join(w, "xcases.ndjson"), os.path.join(w, "xobs.ndjson")
    vlib.write_ndjson(cp, cases)
    tmp = os.path.join(w, "xtmp")
    os.makedirs(tmp, exist_ok=True)
    vlib.run_harness(exe, [cp, op, tmp], timeout=600)
    out = {}
    for o in vlib.read_ndjson(op):
        c = cases[o["id"] - 1]["c"]
        if not o.get("dump") or "hex" not in o:
            raise Broken("the writer of %s did not produce a file" % c)
        out[c[4:]] = bytes.fromhex(o["hex"])
    out["F2G"] = F2G_VALID.encode()
    return out


def _run(ck, tier):
    c08.load_known_override(ck, "VERIF_C09_KNOWN")
    ck.cov["transcription"] = "repaired tree" if c08.repaired() else "tree as first examined"
    vlib.build_lib()
    rng = random.Random(vlib.seed() * 104729 + 9)
    workers = int(os.environ.get("VERIF_TLC_WORKERS", "8"))
    # both tiers exercise EVERY loader class of the catalogue; quick: 3 valid files per class (the smallest one that holds
    # every kind of field of the class + the largest ones of other structures) with the whole token-level fault set;
    # thorough: 12 valid files per class, every byte prefix, the grid exchange formats
    classes, level = ALL_CLASSES + ["CSV"], 1
    nbase = 3 if tier == "quick" else 12
    picks = choose_bases(ck, classes, level, nbase, rng, workers, light=(tier == "quick"))
    # valid files of the text grid exchange formats: the fault layer applies to their lines of tokens (class "Raw")
    xfiles = exchange_files(ck) if tier == "thorough" else {}
    raw_fmt = {}
    for fmt in ("Zycor", "IfpEn", "F2G"):
        if fmt in xfiles:
            lines = [l.split() for l in xfiles[fmt].decode("latin1").split("\n")]
            while lines and not lines[-1]:
                lines.pop()
            picks.append({"c": "Raw", "s": 0, "d": [], "lines": lines})
            raw_fmt[len(picks)] = fmt
    for p in picks:
        p.setdefault("lines", [])
    bases, faults, res = fault_model(ck, picks, level, workers)
    for k, b in bases.items():
        if b["c"] == "Raw":
            b["fmt"] = raw_fmt[k]
            b["orig"] = xfiles[raw_fmt[k]].decode("latin1")
    files = []
    fid = 0
    for e in faults:
        fid += 1
        files.append(file_record(e, fid, bases))
    nbytes = 0
    import base64
    if tier == "thorough":
        # every byte prefix of every valid file (rendered from the model; as written by the library for the exchange formats)
        trunc_pred = {(e["base"], e["k"]): e for e in faults if e["kind"] == "trunc"}
        trunc_pred.update({(e["base"], "tagonly"): e for e in faults if e["kind"] == "tagonly"})
        for b in sorted(bases.values(), key=lambda b: b["base"]):
            text = b["orig"] if b["c"] == "Raw" else render(b["lines"], True, b["c"])
            ends = token_ends(b, text)
            for k in range(0, len(text)):
                fid += 1
                nbytes += 1
                # classification of a cut inside / after token n+1: that of the token truncations n and n+1 (the partial
                # token is read as nothing or as another value of the same field)
                n = sum(1 for x in ends if x <= k)
                near = [trunc_pred[(b["base"], j)] for j in (n, n + 1) if (b["base"], j) in trunc_pred]
                if n >= len(ends):
                    # every token is there: the valid file (up to its last title / end of line)
                    near = [{"verdict": "MaySucceed", "unsafe": b.get("unsafe", []), "rev": b.get("rev", [])}]
                if text[:k].count("\n") == 1 and text[:k].endswith("\n") and (b["base"], "tagonly") in trunc_pred:
                    near = [trunc_pred[(b["base"], "tagonly")]]          # the first line alone, with its end of line
                files.append(file_record({"base": b["base"], "c": b["c"], "kind": "truncbyte", "k": k, "t": "",
                                          "verdict": "MaySucceed" if any(x["verdict"] == "MaySucceed" for x in near) else "MustFail",
                                          "unsafe": sorted({u for x in near for u in x["unsafe"]}), "rev": sorted({u for x in near for u in x["rev"]})},
                                         fid, bases, text=text[:k]))
        # binary format (BMP): every byte prefix, every byte of the first 64 set to 0x00 / 0xFF
        if "Bmp" in xfiles:
            data = xfiles["Bmp"]
            muts = [data[:k] for k in range(len(data))]
            for k in range(min(64, len(data))):
                for v in (0, 255):
                    if data[k] != v:
                        muts.append(data[:k] + bytes([v]) + data[k + 1:])
            for i, m in enumerate(muts):
                fid += 1
                nbytes += 1
                files.append({"id": fid, "c": "Bmp", "pc": "DbGrid", "ndim": 2, "kind": "truncbyte" if i < len(data) else "corruptbyte", "k": i, "t": "",
                              "base": 0, "text": "", "b64": base64.b64encode(m).decode(), "verdict": "?", "unsafe": [], "rev": []})
    # the valid files themselves must load (sanity of the binding)
    valid = []
    for b in sorted(bases.values(), key=lambda b: b["base"]):
        fid += 1
        v = file_record({"base": b["base"], "c": b["c"], "kind": "valid", "k": 0, "t": "", "verdict": "MaySucceed",
                         "unsafe": b.get("unsafe", []), "rev": b.get("rev", [])},
                        fid, bases, text=b["orig"] if b["c"] == "Raw" else render(b["lines"], True, b["c"]))
        v["realok"] = b.get("realok", True) and not (b["c"] == "Raw" and b["fmt"] == "F2G" and not c08.repaired())
        valid.append(v)
    t0 = time.time()
    outs, sani = run_loader(ck, files + valid, "main")
    log("[C09] %d files loaded by the real loaders in child processes in %.1fs" % (len(files) + len(valid), time.time() - t0))
    # deaths of the sanitizer runtime itself (mmap refused under memory pressure from other processes) or without any
    # message are not outcomes of the loader: those files are loaded again
    def runtime_death(f):
        o = outs[f["id"]]
        if o["outcome"] != "crash":
            return False
        msgs = " ".join(m for _, m in sani.get(f["id"], []))
        return "Failed to mmap" in msgs or "failed to allocate" in msgs or not sanitizer_kind(sani.get(f["id"], []))
    nprev = None
    for attempt in range(4):
        retry = [f for f in files + valid if runtime_death(f)]
        if not retry or (nprev is not None and len(retry) >= nprev):
            break
        nprev = len(retry)
        log("[C09] %d children died in the sanitizer runtime / without message: loaded again (pass %d)" % (len(retry), attempt + 2))
        time.sleep(3)
        o2, s2 = run_loader(ck, retry, "retry%d" % attempt, batch=20, nproc=6)
        outs.update(o2)
        for f in retry:
            sani[f["id"]] = s2.get(f["id"], [])
    # a death (crash, time-out, memory) that the transcription of the reader does not predict is confirmed: the file is
    # run again alone with a longer alarm; when it passes alone, the files that the dead child had processed before it
    # are run again in one child (a death that needs its predecessors is a violation of its own kind, "crash-in-batch");
    # a death that is not reproduced either way is counted as transient (machine load) and ignored
    byid = {f["id"]: f for f in files + valid}
    unexp = [f for f in files + valid if outs[f["id"]]["outcome"] in ("crash", "timeout", "oom")
             and (pred_class(f.get("unsafe", [])) not in DEATH_PREDS or
                  (outs[f["id"]]["outcome"] == "crash" and not sanitizer_kind(sani.get(f["id"], []))))]
    transient = 0
    if unexp:
        o2, s2 = run_loader(ck, unexp, "again", batch=1, nproc=min(12, len(unexp)), alarm=60)
        nconf = 0
        for f in unexp:
            k = f["id"]
            if o2[k]["outcome"] in ("crash", "timeout", "oom"):
                nconf += 1
                o2[k]["confirmed_alone"] = True
                outs[k] = o2[k]
                sani[k] = s2.get(k, [])
                continue
            ctx = [byid[i] for i in outs[k].get("context", []) if i in byid]
            o3, s3 = run_loader(ck, ctx, "ctx", batch=len(ctx) + 1, nproc=1, alarm=60) if len(ctx) > 1 else ({k: o2[k]}, {})
            if o3.get(k, o2[k])["outcome"] in ("crash", "timeout", "oom"):
                o3[k]["outcome"] = "crash-in-batch"
                o3[k]["batch"] = [i["id"] for i in ctx]
                outs[k] = o3[k]
                sani[k] = s3.get(k, [])
                nconf += 1
            else:
                transient += 1
                outs[k] = o2[k]
                sani[k] = s2.get(k, [])
        log("[C09] %d deaths not predicted by the transcription run again: %d confirmed, %d transient" % (len(unexp), nconf, transient))
    ck.cov["transient_deaths_ignored"] = transient
    for v in valid:
        o = outs[v["id"]]
        # (a valid file that is refused cleanly means that the binding of the model to the library is broken -- whether a
        #  file written by the library loads is C08's matter; a valid file on which the loader dies is judged like any other
        #  outcome: it is a violation)
        if v["realok"] and o["outcome"] == "fail":
            raise Broken("a valid file of the model is not loaded by the real library: %s -> %s %s" %
                         (v["text"][:300], outs[v["id"]], sani.get(v["id"])))
    stats = evaluate(ck, files + valid, outs, sani, "main")
    per_kind = collections.Counter(f["kind"] for f in files)
    for k in ("trunc", "corrupt", "emptyline", "wrongclass", "dupline", "dropline", "tagonly", "bound", "duptok"):
        if per_kind[k] == 0:
            raise Broken("no fault of kind %s was generated" % k)
    # every loader class of the catalogue, with every kind of token-level fault that applies to all files
    kinds_by_class = collections.defaultdict(set)
    for f in files:
        kinds_by_class[f["c"]].add(f["kind"])
    for c in classes:
        miss = {"trunc", "corrupt", "emptyline", "wrongclass", "dupline", "dropline", "tagonly", "duptok"} - kinds_by_class.get(c, set())
        if miss:
            raise Broken("class %s of the catalogue is not exercised by the faults %s in this tier" % (c, sorted(miss)))
        if c != "CSV" and "bound" not in kinds_by_class[c]:
            raise Broken("no boundary replacement was generated for class %s" % c)
    div = collections.Counter(e["diverge"] for e in faults)
    ck.cov["states"] = res.distinct
    ck.cov["transitions"] = max(res.generated - len(picks), 1)
    ck.cov["valid_files"] = len(bases)
    ck.cov["faulty_files_per_kind"] = dict(per_kind)
    ck.cov["byte_truncations"] = nbytes
    # boundary replacements: role of the field x verdict of the intended reader x outcome of the real loader
    ck.cov["boundary_faults"] = {"%s/%s/%s" % k: v for k, v in sorted(collections.Counter(
        (f.get("role", ""), f.get("verdict", "?"), outs[f["id"]]["outcome"]) for f in files if f["kind"] == "bound").items())}
    for role in ("count", "enum", "index"):
        if tier == "thorough" and not any(f["kind"] == "bound" and f.get("role") == role for f in files):
            raise Broken("no boundary replacement of a field of role %s was generated" % role)
    ck.cov["files_per_class"] = dict(collections.Counter(f["c"] for f in files))
    ck.cov["verdict_x_outcome"] = {"%s/%s" % k: v for k, v in sorted(stats.items())}
    ck.cov["model_divergences_transcribed_vs_intended_reader"] = dict(div)
    ck.cov["model_predicted_unsafe_events"] = dict(collections.Counter("+".join(sorted(e["unsafe"])) for e in faults if e["unsafe"]))
    ck.cov["sanitizer_build"] = use_asan()
    ck.cov["distinct_nontrivial"] = len({f["text"] for f in files})
    ck.cov["rule"] = ("every fault of the fault layer of NeutralFile.tla applied to every chosen valid file (valid files = abstract "
                      "instances whose file the model reads back); each faulty file classified by TLC and loaded by the real "
                      "loader in a child process of the sanitizer build; distinct = distinct file contents")
    for f in files[:: max(1, len(files) // 4)][:4]:
        ck.sample({"class": f["c"], "fault": [f["kind"], f.get("k"), f.get("t")], "file": f["text"], "intended": f.get("verdict"),
                   "transcribed_reader": {"ok": f.get("rok"), "events": f.get("rev")}, "real_outcome": outs[f["id"]]["outcome"]})
    ck.assumptions += ["faulty files are rendered from the token lines of the model (one blank between tokens, titles reduced to one word)",
                       "a success of the real loader on a file that the intended reader refuses is allowed when the object is consistent "
                       "and can be saved and reloaded (property text)",
                       "consistency of returned objects = the structural rules of TraceNeutralFault.tla on the projection through public getters"]
    # classes of the violations (the first 20 get a replay file each)
    vc = collections.Counter((r.get("class"), r.get("fault"), r.get("kind"), r.get("stage"), str(r.get("what"))[:60], r.get("pred"), r.get("lenient")) for r, _ in ck.violations)
    for k, n in sorted(vc.items(), key=lambda kv: -kv[1])[:40]:
        log("   %5d x %s" % (n, k))
    ck.cov["violation_classes"] = {str(k): n for k, n in vc.items()}
    return ck.finish()
