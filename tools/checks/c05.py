"""C05 -- masked or undefined samples never influence a result.

1. TLC enumerates ALL Db patterns of spec/Usable.tla (selection cell, coordinates, each variable, external
   drift, measurement error defined or not; <=3 samples quick / <=4 thorough; 1-2 variables; with and without a
   selection column), checks C05 on the model for every operation of the catalogue (the transcribed filters of
   the code against Reduce: invariants ModelImplementsReduce, ReduceIsSound, ReduceExtremes) and emits every
   pattern with the Keep lists (index mapping of Expand), the expected data per operation and whether the
   transcription deviates.
2. harness/mask_run builds for every pattern the real masked Db, a copy where the content of every unusable
   sample is changed, and the physically reduced Db, and runs every operation with the real library on each.
3. Comparison (the expectations come from TLC's output only):
     reduce form   O(masked) = Expand(O(reduced))      counts / sets exactly, sums 1e-12, kriging 1e-9
     perturb form  O(masked) = O(masked with other content in the unusable samples)      bit for bit
     spec form     counts, neighbourhoods, rows, matrix sizes, migrated values = what the spec expects
     targets       masked target sites: undefined in new variables, pre-existing cells untouched
   Every disagreement goes through Check.disagree.
"""
import json, os, collections, time
import vlib
from vlib import Check, Broken, log

ALL_OPS = ["krig_u", "krig_m", "krig_mb", "neigh_u", "neigh_m", "neigh_mb", "xvalid_u", "xvalid_m", "vario", "vario_cov", "stat",
           "stat_iso", "cov", "cov_sym", "drift", "simtub", "simtub_pt", "simtub_exp", "migrate", "migrate_ball", "migrate_grid",
           "migrate_fill", "reduce", "cov_req", "cov_sym_req", "drift_req", "ranks_req", "krig_on", "simtub_on",
           "simtub_on_grid", "invdist", "nearest", "movave", "movmed", "lstsqr", "avgcov", "global_arith", "global_krig"]
F_OPS = ["krig_u", "krig_m", "krig_mb", "neigh_u", "neigh_m", "xvalid_u", "xvalid_m", "drift"]
V_OPS = ["krig_u", "krig_m", "xvalid_u", "cov_sym", "drift"]
T_OPS = {}          # target-writing operations: name -> "compared with the reduced target Db", from the spec

BOOL = "{TRUE, FALSE}"
LAYOUTS = {
    # name: nvar, SelDom, CDom, FDom, VDom, HasF, HasV, ops
    "sel1":   (1, '{"on", "off"}', BOOL, "{TRUE}", "{TRUE}", False, False, ALL_OPS),
    "sel2":   (2, '{"on", "off"}', BOOL, "{TRUE}", "{TRUE}", False, False, ALL_OPS),
    "nosel1": (1, '{"none"}', BOOL, "{TRUE}", "{TRUE}", False, False, ALL_OPS),
    "nosel2": (2, '{"none"}', BOOL, "{TRUE}", "{TRUE}", False, False, ALL_OPS),
    "sel2c":  (2, '{"on", "off"}', "{TRUE}", "{TRUE}", "{TRUE}", False, False, ALL_OPS),
    "nosel2c": (2, '{"none"}', "{TRUE}", "{TRUE}", "{TRUE}", False, False, ALL_OPS),
    "fext1":  (1, '{"on", "off"}', "{TRUE}", BOOL, "{TRUE}", True, False, F_OPS),
    "verr1":  (1, '{"on", "off"}', "{TRUE}", "{TRUE}", BOOL, False, True, V_OPS),
    "fext1c": (1, '{"on", "off"}', BOOL, BOOL, "{TRUE}", True, False, F_OPS),
    "oddsel": (1, '{"on", "off", "na", "neg"}', "{TRUE}", "{TRUE}", "{TRUE}", False, False, ALL_OPS),
}
TIERS = {
    # quick: 2 variables with undefined coordinates up to 2 samples, with defined coordinates up to 3
    "quick":    [("sel1", 3), ("sel2", 2), ("sel2c", 3), ("nosel1", 3), ("nosel2", 2), ("nosel2c", 3), ("fext1", 3),
                 ("verr1", 3), ("oddsel", 2)],
    "thorough": [("sel1", 4), ("sel2", 4), ("nosel1", 4), ("nosel2", 4), ("fext1", 4), ("verr1", 4), ("fext1c", 3),
                 ("oddsel", 3)],
}
FEATS = ["sel_off", "coord_na", "zall_na", "hetero", "f_na", "v_na", "odd_sel", "none_usable", "clean"]
Z1 = [2.5, -1.25, 4.75, 0.5]
Z2 = [10.5, 13.25, 9.0, 11.75]
REQ_MATS = {"cov_req": 5, "cov_sym_req": 2, "drift_req": 1}     # matrices written per request by mask_run
GEOM = {}
TOL_KRIG = 1e-9
TOL_SUM = 1e-12


def tla_bool(b):
    return "TRUE" if b else "FALSE"


def cfg_text(name, maxn, invariants=True):
    nvar, sel, c, f, v, hf, hv, ops = LAYOUTS[name]
    t = ("SPECIFICATION Spec\nCONSTANTS\n  MaxN = %d\n  NVar = %d\n  SelDom = %s\n  CDom = %s\n  FDom = %s\n  VDom = %s\n"
         "  HasF = %s\n  HasV = %s\n  RunOps = {%s}\n  EmitMin = 1\n" %
         (maxn, nvar, sel, c, f, v, tla_bool(hf), tla_bool(hv), ", ".join('"%s"' % o for o in ops)))
    if invariants:
        t += "INVARIANT ModelImplementsReduce ReduceIsSound ReduceVarIsSound ReduceExtremes\n"
    t += "CONSTRAINT Emit\nCHECK_DEADLOCK FALSE\n"
    return t


# --------------------------------------------------------------------------- comparison helpers

def close(a, b, tol):
    if a is None or b is None:
        return a is None and b is None
    if a == b:
        return True
    return abs(a - b) <= tol * max(1.0, abs(a), abs(b))


def vec_close(a, b, tol):
    return len(a) == len(b) and all(close(x, y, tol) for x, y in zip(a, b))


def all_null(v):
    return all(x is None for x in v)


def split_matrices(res):
    """[(nr, nc, values)] from a result holding several matrices (dims in i, values concatenated in v)."""
    out, pos = [], 0
    dims = res["i"]
    for k in range(0, len(dims), 2):
        nr, nc = dims[k], dims[k + 1]
        out.append((nr, nc, res["v"][pos:pos + nr * nc]))
        pos += nr * nc
    return out, res["v"][pos:]


def split_lists(flat):
    out, cur = [], []
    for x in flat:
        if x == -1:
            out.append(cur)
            cur = []
        else:
            cur.append(x)
    return out


def columns(res):
    """new columns of a result: list of vectors (ncol, nrow in i[0:2])"""
    if len(res["i"]) < 2:
        return []
    nc, nr = res["i"][0], res["i"][1]
    return [res["v"][k * nr:(k + 1) * nr] for k in range(nc)]


class Comparer:
    def __init__(self, ck, layout):
        self.ck = ck
        self.layout = layout
        self.counts = collections.Counter()

    def disagree(self, case, o, form, detail, res):
        rec = {"op": o["op"], "form": form, "predicted_by_model": bool(o["dev"]), "layout": self.layout}
        if form == "crash":
            rec["crash_signal"] = detail["signal"]
        for f in FEATS:
            rec[f] = bool(case["feat"][f])
        rec["detail"] = detail
        replay = {"pattern": {k: case[k] for k in ("n", "nvar", "hasF", "hasV", "sel", "c", "z", "f", "v")},
                  "keep": case["keep"], "operation": o["op"], "needs_key": o["nk"], "spec_expected": o["decl"],
                  "model_transcription": o["code"] if o["dev"] else "same as expected", "observed": res,
                  "how": "harness/mask_run builds the pattern on the lattice of spec/Usable.tla (identity k: point "
                         "(SX[k],SY[k]), values Z1/Z2/F/V tables of mask_run.cpp; undefined = TEST; M masked, "
                         "P perturbed, R reduced to keep[needs_key])"}
        new = self.ck.disagree(rec, replay)
        self.counts["disagree:" + form] += 1
        _dbg(rec, replay)
        return new

    # ---- one (case, op)
    def compare(self, case, o, res):
        op = o["op"]
        ck = self.ck
        self.counts["compared"] += 1
        if "crash" in res:
            self.disagree(case, o, "crash", {"signal": res["crash"], "variant": res["variant"]}, res)
            return
        M, P, R = res["M"], res["P"], res["R"]
        if op == "global_krig" and M["st"] == "ok":
            # the terms built on Cvv (standard deviation, CVgeo, Cvv) are judged apart: form "cvv"
            def split(x):
                if x["st"] != "ok":
                    return x, []
                keepv_, cvv_, pos, v = [], [], 0, x["v"]
                while pos < len(v):
                    nw = int(v[pos + 7] or 0)
                    keepv_ += v[pos:pos + 4] + [0, 0, 0] + v[pos + 7:pos + 8 + nw]
                    cvv_ += v[pos + 4:pos + 7]
                    pos += 8 + nw
                return dict(x, v=keepv_), cvv_
            (M, cm), (P, cp), (R, cr) = split(M), split(P), split(R)
            if cm != cp or (R["st"] == "ok" and not vec_close(cm, cr, TOL_KRIG)):
                self.disagree(case, o, "cvv", "standard deviation / CVgeo / Cvv of global_kriging change with the unusable samples",
                              {"M": cm, "P": cp, "R": cr})
        keep = case["keep"][o["nk"]]
        before = sum(v for k, v in self.counts.items() if k.startswith("disagree:"))
        # ---------------- perturb form: bit for bit
        if M != P:
            self.disagree(case, o, "perturb", "result changes when the content of unusable samples changes", {"M": M, "P": P})
        else:
            self.counts["perturb_ok"] += 1
        # ---------------- reduce form
        bad = self.reduce_form(case, o, M, R, keep)
        alt = None
        if bad and "0" in res:
            # measurement error undefined: the other admissible reading keeps the sample with a zero error
            k0 = case["keep"]["cf" if case["hasF"] else "c"]
            bad0 = self.reduce_form(case, o, M, res["0"], k0)
            if not bad0:
                bad, alt = None, "verr-as-zero"
        if bad:
            self.disagree(case, o, "reduce", bad, {"M": M, "R": R})
        else:
            self.counts["reduce_ok"] += 1
            if alt:
                self.counts["verr_undefined_read_as_zero:" + op] += 1
            elif "0" in res and case["feat"]["v_na"]:
                self.counts["verr_undefined_read_as_unusable:" + op] += 1
        # ---------------- spec form
        bad = self.spec_form(case, o, M)
        if bad:
            self.disagree(case, o, "spec", bad, {"M": M})
        else:
            self.counts["spec_ok"] += 1
        if sum(v for k, v in self.counts.items() if k.startswith("disagree:")) == before:
            self.counts["agree"] += 1
            if o["dev"]:
                # the transcription predicted a deviation that the library does not show on this pattern
                self.counts["model_pessimistic:" + op] += 1
        elif o["dev"]:
            self.counts["model_confirmed:" + op] += 1

    def reduce_form(self, case, o, M, R, keep):
        """None when O(masked) = Expand(O(reduced)), else a description."""
        op = o["op"]
        if op == "vario_cov":
            op = "vario"
        if op in ("neigh_u", "neigh_m", "neigh_mb", "reduce"):
            if R["st"] == "empty":
                return None if not [x for x in M["i"] if x not in (-1, 0)] else "rows selected although nothing is usable"
            return None if M["i"] == R["i"] and M["st"] == R["st"] else "selected samples differ"
        if R["st"] == "empty":
            # nothing usable: the masked run must fail or return nothing but undefined values / empty matrices
            if op in ("simtub", "simtub_pt", "simtub_exp", "simtub_on", "simtub_on_grid"):
                return None          # no promise without any conditioning datum
            if op in ("cov", "cov_sym", "drift"):
                mats, _ = split_matrices(M)
                return None if all(nr == 0 or nc == 0 for nr, nc, _ in mats) else "non-empty matrix although nothing is usable"
            if op == "vario":
                return None if M["st"] != "ok" or all((x or 0) == 0 for x in M["v"][0::3]) else "pairs although nothing is usable"
            if op == "avgcov":
                return None if all((x or 0) == 0 for x in M["v"]) else "non-zero average covariance although nothing is usable"
            if op in ("global_arith", "global_krig"):
                return None          # no promise without any datum
            if op in ("stat", "stat_iso"):
                return None          # checked against the expected counts (spec form)
            return None if M["st"] != "ok" or all_null(M["v"]) else "defined results although nothing is usable"
        if M["st"] != R["st"]:
            if op == "vario" and {M["st"], R["st"]} == {"ok", "err"}:
                ok = M if M["st"] == "ok" else R
                return None if all((x or 0) == 0 for x in ok["v"][0::3]) else "variogram fails on one side only"
            return "status differs: masked %s, reduced %s" % (M["st"], R["st"])
        if op in ("xvalid_u", "xvalid_m"):
            cm, cr = columns(M), columns(R)
            if len(cm) != len(cr):
                return "number of output variables differs"
            for a, b in zip(cm, cr):
                for k, pos in enumerate(keep):
                    if not close(a[pos - 1], b[k], TOL_KRIG):
                        return "row of sample %d differs: %r vs %r" % (pos, a[pos - 1], b[k])
            return None
        if op == "vario":
            sw_m, sw_r = M["v"][0::3], R["v"][0::3]
            if [x or 0 for x in sw_m] != [x or 0 for x in sw_r]:
                return "pair counts differ"
            # lags without pair hold undefined hh / gg
            return None if vec_close(M["v"], R["v"], TOL_SUM) else "hh / gg differ"
        if op in ("cov", "cov_sym", "drift"):
            return None if M["i"] == R["i"] and vec_close(M["v"], R["v"], TOL_SUM) else "matrix differs"
        if op in REQ_MATS:
            # request by request; a request without any usable row has no reduced Db (marker -1 -1): the masked
            # run must then have no row either (checked against the expected number of rows, spec form)
            per = REQ_MATS[op]
            mm, _ = split_matrices(M)
            pos_i, pos_v, k = 0, 0, 0
            while pos_i < len(R["i"]):
                if R["i"][pos_i] == -1:
                    pos_i += 2
                else:
                    for q in range(per):
                        nr, nc = R["i"][pos_i], R["i"][pos_i + 1]
                        vals = R["v"][pos_v:pos_v + nr * nc]
                        pos_i += 2
                        pos_v += nr * nc
                        if k * per + q >= len(mm):
                            return "missing matrix"
                        mr, mc, mv = mm[k * per + q]
                        if (mr, mc) != (nr, nc) or not vec_close(mv, vals, TOL_SUM):
                            return "request %d, matrix %d differs from the Db reduced for that variable" % (k + 1, q + 1)
                k += 1
            return None
        if op == "ranks_req":
            def blocks(res):
                out, cur = [], []
                for x in res["i"]:
                    if x == -2:
                        out.append(cur)
                        cur = []
                    else:
                        cur.append(x)
                return out
            bm, br = blocks(M), blocks(R)
            if len(bm) != len(br):
                return "number of requests differs"
            pm = pr = 0
            for k, (x, y) in enumerate(zip(bm, br)):
                nm = int(M["v"][pm] or 0)
                vm = M["v"][pm + 1:pm + 1 + nm]
                pm += 1 + nm
                if y == [-3]:
                    if [q for q in x if q != -1]:
                        return "request %d returns samples although none is usable" % (k + 1)
                    continue
                nr_ = int(R["v"][pr] or 0)
                vr = R["v"][pr + 1:pr + 1 + nr_]
                pr += 1 + nr_
                if x != y or vm != vr:
                    return "request %d: ranks / values differ from the reduced Db" % (k + 1)
            return None
        if op in ("stat", "stat_iso"):
            return None if M["i"] == R["i"] and vec_close(M["v"], R["v"], TOL_SUM) else "statistics differ"
        if op in ("migrate", "migrate_ball", "migrate_grid", "migrate_fill"):
            return None if M["v"] == R["v"] else "migrated values differ"
        if op == "avgcov":
            return None if vec_close(M["v"], R["v"], TOL_SUM) else "average covariances differ"
        if op in ("global_arith", "global_krig"):
            # per territory: np ng surface zest sse cvgeo cvv nweights weights...; the count of active data of
            # global_kriging is informative (not compared)
            def blocks(v):
                out, pos = [], 0
                while pos < len(v):
                    nw = int(v[pos + 7] or 0)
                    out.append((v[pos:pos + 7], v[pos + 8:pos + 8 + nw]))
                    pos += 8 + nw
                return out
            for k, ((hm, wm), (hr, wr)) in enumerate(zip(blocks(M["v"]), blocks(R["v"]))):
                first = 1 if op == "global_krig" else 0
                if not vec_close(hm[first:], hr[first:], TOL_KRIG) or not vec_close(wm, wr, TOL_KRIG):
                    return "global estimation differs (territory %d): %r %r vs %r %r" % (k + 1, hm, wm, hr, wr)
            return None
        # kriging, simulation at the targets
        return None if M["i"] == R["i"] and vec_close(M["v"], R["v"], TOL_KRIG) else "results at the targets differ"

    def spec_form(self, case, o, M):
        op, decl = o["op"], o["decl"]
        n, nvar = case["n"], case["nvar"]
        if op == "neigh_u":
            # one list per target, all equal to the expected one
            lists = split_lists(M["i"])
            return None if all(l == decl for l in lists) else "neighbourhood %r, expected %r" % (lists, decl)
        if op == "reduce":
            # rows of createReduce, getSampleNumber(true), compressed column, getRanksActive, getActiveArray
            lists = split_lists(M["i"] + [-1])
            want = [decl[0], [decl[1]], decl[2], decl[3], decl[4]]
            return None if lists == want else "rows / count / compressed column / ranks / active array %r, expected %r" % (lists, want)
        if op in ("neigh_m", "neigh_mb"):
            lists = split_lists(M["i"])
            return None if lists == decl else "neighbourhoods %r, expected %r" % (lists, decl)
        if op in ("stat", "stat_iso"):
            # NUM of dbStatisticsMono is the first of 6 columns of each row
            if len(M["i"]) < 2:
                return "no table"
            for w in range(nvar):
                want = len([d for d in decl if d[1] == w + 1])
                got = M["v"][w * 6]
                if got != want:
                    return "count of variable %d is %r, expected %d" % (w + 1, got, want)
            return None
        if op in REQ_MATS:
            mats, _ = split_matrices(M)
            per = REQ_MATS[op]
            if len(mats) != per * len(decl):
                return "%d matrices for %d requests" % (len(mats), len(decl))
            for k, want in enumerate(decl):
                if mats[k * per][0] != len(want):
                    return "request %d: %d rows, expected %d" % (k + 1, mats[k * per][0], len(want))
            return None
        if op == "ranks_req":
            # per request: identities per requested variable (-1 after each), -2 after the request; values counted
            got, cur = [], []
            for x in M["i"]:
                if x == -2:
                    got.append(cur)
                    cur = []
                elif x != -1:
                    cur.append(x)
            want = [[d[0] for d in req] for req in decl]
            if got != want:
                return "samples per request %r, expected %r" % (got, want)
            pos = 0
            for req in decl:
                nval = M["v"][pos]
                vals = M["v"][pos + 1:pos + 1 + int(nval or 0)]
                exp = [(Z1 if d[1] == 1 else Z2)[d[0] - 1] for d in req]
                if vals != exp:
                    return "values %r, expected %r" % (vals, exp)
                pos += 1 + len(vals)
            return None
        if op in ("simtub_on", "simtub_on_grid"):
            # the target lying on a USABLE datum holds that datum in every simulation (and only then is it promised)
            if M["st"] != "ok":
                return None
            cols = columns(M)
            nsim = len(cols) // nvar if nvar else 0
            for a, per_var in enumerate(decl[1]):
                t = a if op == "simtub_on" else GEOM["sx"][a] + GEOM["cgnx"] * GEOM["sy"][a]
                for w, src in enumerate(per_var):
                    if src == 0:
                        continue
                    zz = (Z1 if w == 0 else Z2)[src - 1]
                    for isim in range(nsim):
                        if cols[isim + nsim * w][t] != zz:
                            return "target on datum %d holds %r in simulation %d of variable %d, expected %r" % (
                                src, cols[isim + nsim * w][t], isim + 1, w + 1, zz)
            return None
        if op in ("cov", "cov_sym", "drift"):
            mats, _ = split_matrices(M)
            if not mats:
                return "no matrix"
            nr = mats[0][0]
            return None if nr == len(decl) else "%d rows, expected %d" % (nr, len(decl))
        if op == "vario":
            if M["st"] != "ok":
                want0 = all(x == 0 for sw in decl for x in sw)
                return None if want0 else "no variogram although pairs are expected"
            # simple variograms: blocks (iv, jv<=iv) of NLAG triples
            nlag = len(decl[0])
            blk = 0
            for iv in range(nvar):
                for jv in range(iv + 1):
                    if iv == jv:
                        sw = [M["v"][(blk * nlag + l) * 3] or 0 for l in range(nlag)]
                        if sw != decl[iv]:
                            return "pair counts %r of variable %d, expected %r" % (sw, iv + 1, decl[iv])
                    blk += 1
            return None
        if op == "migrate_grid":
            cols = columns(M)
            if len(cols) != 1:
                return "no output variable"
            got = sorted(x for x in cols[0] if x is not None)
            want = sorted(Z1[s - 1] for s in decl)
            return None if got == want else "values written %r, expected %r" % (got, want)
        if op in ("migrate", "migrate_ball", "migrate_fill"):
            cols = columns(M)
            if len(cols) != 1:
                return "no output variable"
            want = [None if s == 0 else Z1[s - 1] for s in decl]
            return None if cols[0] == want else "migrated %r, expected %r" % (cols[0], want)
        if op in ("xvalid_u", "xvalid_m"):
            # masked sites keep the undefined value in the new variables
            for col in columns(M):
                for i in range(n):
                    if case["sel"][i] == "off" and col[i] is not None:
                        return "masked sample %d holds %r in a new variable" % (i + 1, col[i])
            return None
        return None


def _dbg(rec, replay):
    if os.environ.get("C05_DEBUG"):
        with open(os.environ["C05_DEBUG"], "a") as f:
            f.write(json.dumps({"rec": rec, "replay": replay}, default=str) + "\n")


class _Dump:
    """Check.disagree with the development dump"""
    def __init__(self, ck):
        self.ck = ck

    def disagree(self, rec, replay):
        _dbg(rec, replay)
        return self.ck.disagree(rec, replay)


def compare_target(ck, counts, tc, op, res, expect, tkeep, reduce_promised):
    ck = _Dump(ck)
    rec = {"op": op, "form": "target", "predicted_by_model": False, "layout": "targets",
           "target_selection": "none" if tc["tsel"][0] == "none" else "some-off" if "off" in tc["tsel"] else "all-on"}
    replay = {"target_selection": tc["tsel"], "operation": op, "observed": res, "expected": expect,
              "how": "data: samples 1..4 of spec/Usable.tla, sample 2 masked; targets TX/TY with a selection and a "
                     "pre-existing column 'prior' (100+t; grid: 200+k, selection pattern spread k mod 5)"}
    counts["target_compared"] += 1
    if "crash" in res:
        ck.disagree(dict(rec, form="crash", issue="crash", detail=res["crash"]), replay)
        return
    M, R = res["M"], res["R"]
    grid = op.startswith("t_sim_") and op.split("_")[3] == "g"
    nt = GEOM["gnx"] ** 2 if grid else 5
    exp = [expect[k % 5] for k in range(nt)]
    if M["st"] != "ok":
        if "value" in exp:
            ck.disagree(dict(rec, issue="fails", detail="operation fails on masked targets"), replay)
        return
    ncol = M["i"][0]
    cols = [M["v"][k * nt:(k + 1) * nt] for k in range(ncol)]
    prior = M["v"][ncol * nt:]
    base = 200 if grid else 100
    if prior != [float(base + k) for k in range(nt)]:
        ck.disagree(dict(rec, issue="prior_modified", detail="pre-existing column modified"), replay)
        return
    for col in cols:
        for t in range(nt):
            if exp[t] == "undefined" and col[t] is not None:
                ck.disagree(dict(rec, issue="masked_not_undefined",
                                 detail="masked target holds %r in a new variable" % col[t]), replay)
                return
            if exp[t] == "value" and col[t] is None and op not in ("t_migrate", "t_migrate_ball"):
                ck.disagree(dict(rec, issue="active_undefined", detail="active target left undefined"), replay)
                return
    if reduce_promised:
        # the active sites hold what the operation computes on the target Db reduced to them (same seed)
        keep_t = [t + 1 for t in range(nt) if exp[t] == "value"] if grid else tkeep
        if keep_t:
            if R["st"] != "ok":
                ck.disagree(dict(rec, issue="differs_from_reduced", detail="operation fails on the reduced target Db only"), replay)
                return
            nr = len(keep_t)
            rcols = [R["v"][k * nr:(k + 1) * nr] for k in range(R["i"][0])]
            if len(rcols) != len(cols):
                ck.disagree(dict(rec, issue="differs_from_reduced", detail="number of output variables differs"), replay)
                return
            for a, b in zip(cols, rcols):
                for k, pos in enumerate(keep_t):
                    if not close(a[pos - 1], b[k], TOL_KRIG):
                        ck.disagree(dict(rec, issue="differs_from_reduced",
                                         detail="active target %d holds %r, %r on the target Db reduced to the active sites"
                                                % (pos, a[pos - 1], b[k])), replay)
                        return
            counts["target_reduce_ok"] += 1
    counts["target_ok"] += 1


# --------------------------------------------------------------------------- driver

def compact_case(v, cid):
    keys = ["", "c", "cf", "cv", "cfv", "s", "sc"]
    return {"id": cid, "n": v["n"], "nvar": v["nvar"], "hasF": v["hasF"], "hasV": v["hasV"], "sel": v["sel"],
            "c": v["c"], "z": v["z"], "f": v["f"], "v": v["v"], "feat": v["feat"],
            "keep": {k: v["keep"][i] for i, k in enumerate(keys)},
            "keepv": {k: v["keepv"][i] for i, k in enumerate(keys)}, "ops": v["ops"]}


def run_layout(ck, tier, name, maxn, exe, workers, tlc_workers, totals):
    w = ck.work
    cfgp = os.path.join(w, "mc_%s.cfg" % name)
    open(cfgp, "w").write(cfg_text(name, maxn))
    casesp = os.path.join(w, "cases_%s.ndjson" % name)
    n_emitted = [0]
    seen = set()
    with open(casesp, "w") as fc:
        def on_emit(v):
            key = json.dumps([v["sel"], v["c"], v["z"], v["f"], v["v"]], separators=(",", ":"))
            if key in seen:          # a state whose constraint TLC evaluated twice
                return
            seen.add(key)
            n_emitted[0] += 1
            fc.write(json.dumps(compact_case(v, "%s-%d" % (name, n_emitted[0])), separators=(",", ":")) + "\n")
        res = vlib.run_tlc("MC_Usable", cfgp, workers=tlc_workers, timeout=3000, on_emit=on_emit, heap="4g")
    if res.violation:
        raise Broken("Usable.tla: the model violates its own properties for layout %s:\n%s" % (name, res.violation))
    if n_emitted[0] != res.distinct - 1:
        raise Broken("layout %s: %d patterns emitted for %d states" % (name, n_emitted[0], res.distinct))
    totals["states"] += res.distinct
    totals["transitions"] += res.generated
    log("[C05] TLC %s (<=%d samples): %d patterns, invariants hold, %.1fs" % (name, maxn, res.distinct - 1, res.wall))
    cmp_ = Comparer(ck, name)
    ops = LAYOUTS[name][7]
    feat_count = collections.Counter()
    dev_count = collections.Counter()
    nbatch = [0]
    t_harness = [0.0]

    def execute(batch):
        """batch: list of (case, [ops to run]); runs the harness and compares; returns the results per (id, op)"""
        if not batch:
            return {}
        nbatch[0] += 1
        inp = os.path.join(w, "in_%s_%d.ndjson" % (name, nbatch[0]))
        byid = {}
        with open(inp, "w") as f:
            for c, olist in batch:
                hc = {k: c[k] for k in ("id", "n", "nvar", "hasF", "hasV", "sel", "c", "z", "f", "v", "keep", "keepv")}
                hc["run"] = [[o["op"], o["nk"]] for o in olist]
                f.write(json.dumps(hc, separators=(",", ":")) + "\n")
                byid[c["id"]] = c
        outp = os.path.join(w, "out_%s_%d" % (name, nbatch[0]))
        t0 = time.time()
        vlib.run_harness(exe, [os.path.join(w, "config.json"), inp, outp, workers], timeout=6000)
        t_harness[0] += time.time() - t0
        results = {}
        for k in range(workers):
            p = "%s.%d.ndjson" % (outp, k)
            for r in vlib.read_ndjson(p):
                c = byid[r["id"]]
                o = next(x for x in c["ops"] if x["op"] == r["op"])
                cmp_.compare(c, o, r)
                results[(r["id"], r["op"])] = r
                if len(results) % 997 == 1:
                    ck.sample({"pattern": {q: c[q] for q in ("sel", "c", "z", "f", "v")}, "op": r["op"],
                               "keep": c["keep"][o["nk"]], "expected": o["decl"],
                               "masked": r.get("M"), "reduced": r.get("R")}, cap=8)
            os.remove(p)
        os.remove(inp)
        want = sum(len(ol) for _, ol in batch)
        if len(results) != want:
            raise Broken("layout %s: %d results for %d runs" % (name, len(results), want))
        return results

    nres_total = 0
    batch = []
    with open(casesp) as f:
        for line in f:
            c = json.loads(line)
            for ft in FEATS:
                if c["feat"][ft]:
                    feat_count[ft] += 1
            for o in c["ops"]:
                if o["dev"]:
                    dev_count[o["op"]] += 1
            batch.append((c, c["ops"]))
            if len(batch) >= 3000:
                nres_total += len(execute(batch))
                batch = []
    nres_total += len(execute(batch))
    os.remove(casesp)
    totals["cases"] += n_emitted[0]
    totals["runs"] += nres_total
    for k, v in cmp_.counts.items():
        totals["cmp"][k] += v
    for k, v in feat_count.items():
        totals["feat"][k] += v
    for k, v in dev_count.items():
        totals["dev"][k] += v
    log("[C05] %s: %d patterns x %d operations: %d runs compared in %.1fs; %s" %
        (name, n_emitted[0], len(ops), nres_total, t_harness[0],
         {k: v for k, v in cmp_.counts.items() if not k.startswith("model_")}))


def run_targets(ck, aux, exe, workers, totals):
    w = ck.work
    inp = os.path.join(w, "in_targets.ndjson")
    cases = {}
    with open(inp, "w") as f:
        for k, t in enumerate(aux["targets"]):
            cid = "tgt-%d" % k
            c = {"id": cid, "tcase": True, "n": 4, "nvar": 1, "hasF": False, "hasV": False,
                 "sel": ["on", "off", "on", "on"], "c": [True] * 4, "z": [[True]] * 4, "f": [True] * 4, "v": [True] * 4,
                 "keep": {"c": [1, 3, 4]}, "run": [[op, "c"] for op in T_OPS], "tsel": t["tsel"]}
            cases[cid] = t
            f.write(json.dumps(c, separators=(",", ":")) + "\n")
    outp = os.path.join(w, "out_targets")
    vlib.run_harness(exe, [os.path.join(w, "config.json"), inp, outp, workers], timeout=3000)
    counts = collections.Counter()
    for k in range(workers):
        for r in vlib.read_ndjson("%s.%d.ndjson" % (outp, k)):
            t = cases[r["id"]]
            compare_target(ck, counts, t, r["op"], r, t["expect"], t["tkeep"], T_OPS[r["op"]])
    for k, v in counts.items():
        totals["cmp"][k] += v
    if counts["target_compared"] != len(cases) * len(T_OPS):
        raise Broken("target cases: %d results for %d runs" % (counts["target_compared"], len(cases) * len(T_OPS)))
    log("[C05] masked targets: %d selection patterns x %d operations (%s)" % (len(cases), len(T_OPS), dict(counts)))


def run(tier):
    ck = Check("C05", "model_checking", tier)
    for fn in os.listdir(vlib.REPLAY):          # replay files of an earlier run of this tier
        if fn.startswith("C05-%s-" % tier):
            os.remove(os.path.join(vlib.REPLAY, fn))
    vlib.build_lib()
    exe = vlib.build_harness("mask_run")
    workers = max(2, min(8, vlib.NCPU // 2))
    tlc_workers = max(2, min(12, vlib.NCPU - 4))
    # geometry and target patterns from the specification
    auxcfg = os.path.join(ck.work, "aux.cfg")
    open(auxcfg, "w").write('SPECIFICATION Spec\nCONSTANTS\n  MaxN = 1\n  NVar = 1\n  SelDom = {"none"}\n  CDom = {TRUE}\n'
                            '  FDom = {TRUE}\n  VDom = {TRUE}\n  HasF = FALSE\n  HasV = FALSE\n')
    aux = vlib.tlc_emit_json("EmitUsableAux", auxcfg, os.path.join(ck.work, "aux.json"))
    geom = dict(aux["geom"], seed=vlib.seed())
    GEOM.update(aux["geom"])
    for o in aux["target_ops"]:
        T_OPS[o["op"] if isinstance(o["op"], str) else "_".join(o["op"])] = o["reduce"]
    json.dump(geom, open(os.path.join(ck.work, "config.json"), "w"))
    totals = {"states": 0, "transitions": 0, "cases": 0, "runs": 0,
              "cmp": collections.Counter(), "feat": collections.Counter(), "dev": collections.Counter()}
    for name, maxn in TIERS[tier]:
        run_layout(ck, tier, name, maxn, exe, workers, tlc_workers, totals)
    run_targets(ck, aux, exe, workers, totals)
    # vacuity
    for ft in ("sel_off", "coord_na", "zall_na", "hetero", "f_na", "v_na", "odd_sel", "none_usable", "clean"):
        if totals["feat"][ft] == 0:
            raise Broken("no pattern with feature %s was generated" % ft)
    for key in ("perturb_ok", "reduce_ok", "spec_ok", "target_ok", "target_reduce_ok"):
        if totals["cmp"][key] == 0:
            raise Broken("comparison form %s never succeeded: the check is vacuous" % key)
    ck.cov["states"] = totals["states"]
    ck.cov["transitions"] = totals["transitions"]
    ck.cov["traces_validated_against_impl"] = totals["runs"] + totals["cmp"]["target_compared"]
    ck.cov["evaluations"] = totals["runs"] * 3
    ck.cov["distinct_nontrivial"] = totals["cases"] - totals["feat"]["clean"]
    ck.cov["exhaustive"] = True
    ck.cov["patterns"] = totals["cases"]
    ck.cov["patterns_per_feature"] = dict(totals["feat"])
    ck.cov["comparisons"] = dict(totals["cmp"])
    ck.cov["model_deviations_found_by_tlc_per_operation"] = dict(totals["dev"])
    ck.cov["layouts"] = [{"layout": n, "max_samples": m, "nvar": LAYOUTS[n][0], "ops": LAYOUTS[n][7]} for n, m in TIERS[tier]]
    ck.cov["rule"] = ("every Db pattern enumerated by TLC (selection cell x coordinates x each variable x external drift x "
                      "measurement error, per sample) x every operation of the catalogue, executed on the real masked Db, "
                      "on a copy with the content of the unusable samples changed and on the physically reduced Db; "
                      "plus every selection pattern of 5 target sites x 16 writing operations; patterns are distinct by "
                      "construction (one TLC state each); non-trivial = at least one sample or datum is unusable "
                      "(evaluations = library runs: masked + perturbed + reduced per pattern and operation)")
    ck.assumptions += [
        "the numeric content of a sample is abstracted by its identity; the fixed lattice geometry of Usable.tla has no "
        "ties and no pair on a lag boundary (checked by ASSUME)",
        "reduce form for conditional simulation: data lie inside the hull of the target grid so that removing a sample "
        "does not change the extent of the turning bands; same seed on both sides",
        "an undefined measurement error variance may be read either as 'sample unusable' or as 'no error' by kriging "
        "(C05 does not say); both readings are accepted and counted",
        "undefined or negative selection cells are a dedicated category (layout oddsel) reported separately",
        "every run is executed under a CPU time limit (0.4 s per pattern and operation, normal cost < 5 ms): an operation "
        "that does not return is recorded as a disagreement (crash form, signal 'timeout'), never skipped",
    ]
    return ck.finish()
