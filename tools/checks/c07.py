"""C07 -- a Db stays a consistent table under any sequence of edits.

1. TLC explores the reference semantics of DbTable.tla exhaustively within small constants
   (invariant Consistent = the property; the relation Judge must accept the reference).
2. The operation catalogue is emitted by TLC; harness db_explore applies every entry in every
   state a REAL Db / DbGrid can reach (breadth first within the bounds + seeded random walks)
   and logs the projection of the real object, read back through every designator.
3. TLC (TraceDbTable) judges every recorded state and every recorded (from, op, to).
"""
import json, os, subprocess, glob, copy
import vlib, dbtrace
from vlib import Check, Broken, log

CFG = """SPECIFICATION Spec
CONSTANTS
  Types = {%(types)s}
  MaxCols = %(maxcols)d
  MaxUid = %(maxuid)d
  MaxNech = %(maxnech)d
"""

def cfg_text(b, extra=""):
    return CFG % dict(types=", ".join('"%s"' % t for t in b["types"]), maxcols=b["maxcols"], maxuid=b["maxuid"],
                      maxnech=b["maxnech"]) + extra


def short(s):
    return {"cols": [[c["uid"], "".join(c["name"]), c["cells"]] for c in s["cols"]], "loc": s["loc"],
            "nech": s["nech"], "nuid": s["nuid"], "grid": s["grid"]}


def explore_and_judge(ck, b, tag):
    """One exploration of the real object with bounds b, judged by TLC."""
    w = ck.work
    cfgp = os.path.join(w, "emit_%s.cfg" % tag)
    open(cfgp, "w").write(cfg_text(b))
    catp = os.path.join(w, "catalogue_%s.json" % tag)
    cat = vlib.tlc_emit_json("EmitDbCatalogue", cfgp, catp)
    if b.get("ops"):
        # focused exploration: a sub-catalogue (still emitted by TLC) explored to a greater depth
        cat = [c for c in cat if c["op"] in b["ops"] and c.get("t", "none") in (b.get("roles_kept") or ["none"] + b["types"])
               and c.get("nadd", 1) == 1]
        json.dump(cat, open(catp, "w"))
    bounds = dict(b)
    bounds["seed"] = vlib.seed()
    bp = os.path.join(w, "bounds_%s.json" % tag)
    json.dump(bounds, open(bp, "w"))
    exe = vlib.build_harness("db_explore")
    sp, tp, skp = [os.path.join(w, "%s_%s" % (n, tag)) for n in ("states.ndjson", "trans.ndjson", "skip.txt")]
    skips = []
    crashes = []
    stats = None
    for attempt in range(25):
        open(skp, "w").write("".join("%d %d\n" % s for s in skips))
        r = vlib.run_harness(exe, [catp, bp, sp, tp, skp], ok_codes=(0, 88), timeout=3000)
        if r.returncode == 0:
            stats = json.loads(r.stderr.strip().splitlines()[-1])
            break
        last = open(tp).read().strip().splitlines()[-1]
        rec = json.loads(last)
        crashes.append(rec)
        if "walk" in rec:
            skips.append((-rec["walk"], rec["step"]))
        else:
            skips.append((rec["from"], rec["ci"]))
    if stats is None:
        raise Broken("db_explore: more than 25 crashing transitions")
    states = {r["id"]: r["s"] for r in vlib.read_ndjson(sp)}
    trans = vlib.read_ndjson(tp)
    for c in crashes:
        ck.disagree({"kind": "crash", "op": c["c"]["op"], "signal": c["crash"]},
                    {"from": short(states[c["from"]]), "op": c["c"]})
    # TLC judges states and transitions
    jcfg = os.path.join(w, "judge_%s.cfg" % tag)
    open(jcfg, "w").write(cfg_text(b, "POSTCONDITION AllExamined\nCHECK_DEADLOCK FALSE\n"))
    res = vlib.run_tlc("TraceDbTable", jcfg, workers=1, env={"STATES": sp, "TRANS": tp}, timeout=3000)
    if res.violation or "NOT-ALL-EXAMINED" in res.stdout:
        raise Broken("TraceDbTable did not examine the whole log:\n" + (res.violation or res.stdout[-2000:]))
    incoming = {}
    for i, t in enumerate(trans):
        incoming.setdefault(t["to"], []).append(i)
    rejected_trans = {}
    for r in res.emitted:
        if r["kind"] == "trans":
            rejected_trans[r["idx"] - 1] = r
    nrej = 0
    for idx, r in sorted(rejected_trans.items()):
        t = trans[idx]
        rec = {"kind": "transition", "op": t["c"]["op"], "fails": sorted(r["fails"]),
               "rank_in_range": r["inrange"]}
        ck.disagree(rec, {"from": short(states[t["from"]]), "op": t["c"], "to": short(states[t["to"]])})
        nrej += 1
    for r in res.emitted:
        if r["kind"] != "state":
            continue
        # an inconsistent state is attributed to the transitions that produced it; it is a separate
        # disagreement only when some producing transition was accepted by Judge
        prod = incoming.get(r["id"], [])
        if prod and all(i in rejected_trans for i in prod):
            continue
        first = trans[prod[0]] if prod else None
        rec = {"kind": "state", "fails": sorted(r["fails"]), "op": first["c"]["op"] if first else "init"}
        ck.disagree(rec, {"state": short(states[r["id"]]), "full": states[r["id"]],
                          "reached_by": {"from": short(states[first["from"]]), "op": first["c"]} if first else None})
        nrej += 1
    ops = sorted(set(t["c"]["op"] for t in trans))
    ck.add("impl_states", len(states))
    ck.add("impl_transitions_judged", len(trans))
    ck.add("traces_validated_against_impl", len(trans))
    ck.cov.setdefault("impl_ops_exercised", ops)
    ck.cov["impl_exploration_exhausted_" + tag] = stats["exhausted"]
    for t in trans[:: max(1, len(trans) // 3)][:3]:
        ck.sample({"from": short(states[t["from"]]), "op": t["c"], "to": short(states[t["to"]])})
    log("[C07] %s: %d real states, %d transitions judged by TLC in %.1fs, %d rejected" %
        (tag, len(states), len(trans), res.wall, nrej))
    return len(cat)


QUICK_TESTS = ["test_Db", "bench_Db", "test_neigh", "test_Anam", "test_simTub", "test_PCA", "test_vario", "test_serialize",
               "bench_KrigingU", "test_Model"]


def validate_recorded_traces(ck, tier):
    """Binding (d): structural Db events recorded by the guarded hooks while UNMODIFIED programs run
    (the repository's own tests, the calculator harness) are judged by TLC (TraceDbEvents.tla)."""
    w = ck.work
    raw = os.path.join(w, "dbevents_raw.ndjson")
    if os.path.exists(raw):
        os.remove(raw)
    if tier == "quick":
        names = QUICK_TESTS
    else:
        names = sorted(os.path.basename(f)[:-4] for f in glob.glob(os.path.join(vlib.REPO, "tests", "cpp", "*.cpp")))
    ran = []
    rundir = os.path.join(w, "rt")
    os.makedirs(rundir, exist_ok=True)
    env = dict(os.environ, GSTLEARN_VERIF_TRACE=raw)
    for t in names:
        exe = dbtrace.build_repo_test(t)
        if not exe:
            continue
        try:
            r = subprocess.run([exe], cwd=rundir, env=env, capture_output=True, text=True, timeout=300)
            ran.append(t)
        except subprocess.TimeoutExpired:
            pass
    # the calculator scenarios of C19 also exercise the Db mutators (failing paths included)
    try:
        cexe = vlib.build_harness("calc_run")
        scen = [{"id": i + 1, "profile": p, "fault": f, "variant": "std", "prior": pr}
                for i, (p, f, pr) in enumerate((p, f, pr) for p in ("kriging", "xvalid", "simtub_cond", "migrate", "anam_transform")
                                               for f in ("none", "after_preprocess", "after_run") for pr in ("plain", "clash"))]
        sp = os.path.join(w, "trace_scen.ndjson")
        vlib.write_ndjson(sp, scen)
        subprocess.run([cexe, sp, os.path.join(w, "trace_calclog.ndjson")], env=env, capture_output=True, text=True, timeout=600)
        ran.append("calc_run")
    except (Broken, subprocess.TimeoutExpired):
        pass
    if not os.path.exists(raw):
        raise Broken("no Db event recorded: are the hooks of Db.cpp compiled in (GSTLEARN_VERIF)?")
    evp = os.path.join(w, "dbevents.ndjson")
    n, skipped = dbtrace.convert(raw, evp)
    if n < 50:
        raise Broken("only %d Db events recorded" % n)
    res = vlib.run_tlc("TraceDbEvents", "TraceDbEvents.cfg", workers=1, env={"EVENTS": evp}, timeout=3000)
    if res.violation or "NOT-ALL-EXAMINED" in res.stdout:
        raise Broken("TraceDbEvents did not examine all events:\n" + (res.violation or res.stdout[-1500:]))
    events = vlib.read_ndjson(evp)
    for e in res.emitted:
        x = events[e["idx"] - 1]
        ck.disagree({"kind": "transition", "op": x["c"]["op"], "fails": sorted(e["fails"]), "rank_in_range": e["inrange"],
                     "source": "recorded-trace"}, x)
    # binding demonstration (vacuity guard): a corrupted event must be rejected
    victim = next((copy.deepcopy(x) for x in events if x["c"]["op"] == "addColumnsByConstant" and x["post"]["cols"]), None)
    if victim is None:
        raise Broken("no addColumnsByConstant event recorded")
    victim["post"]["cols"][-1]["uid"] = victim["post"]["cols"][0]["uid"] if len(victim["post"]["cols"]) > 1 else victim["post"]["nuid"] + 5
    cp = os.path.join(w, "dbevents_corrupt.ndjson")
    vlib.write_ndjson(cp, [victim])
    r2 = vlib.run_tlc("TraceDbEvents", "TraceDbEvents.cfg", workers=1, env={"EVENTS": cp}, timeout=600)
    if not r2.emitted:
        raise Broken("binding self-test failed: a corrupted Db event was accepted by TraceDbEvents")
    ops = {}
    for x in events:
        ops[x["c"]["op"]] = ops.get(x["c"]["op"], 0) + 1
    ck.cov["recorded_trace_programs"] = ran
    ck.cov["recorded_db_events_judged"] = n
    ck.cov["recorded_db_events_by_op"] = ops
    ck.cov["recorded_db_events_skipped"] = skipped
    ck.add("traces_validated_against_impl", n)
    log("[C07] recorded traces: %d programs, %d distinct events judged by TLC, %d rejected" % (len(ran), n, len(res.emitted)))


def run(tier):
    ck = Check("C07", "model_checking", tier)
    vlib.build_lib()
    # 1. model checking of the reference semantics
    if tier == "quick":
        mc = dict(types=["x", "z"], maxcols=1, maxuid=2, maxnech=1)
        skip = "{}"
    else:
        mc = dict(types=["x", "z", "sel"], maxcols=2, maxuid=3, maxnech=1)
        # (the row-wise / table-wise cell writers are model-checked at the small bound of the quick tier only: at this
        #  bound they multiply the cell contents beyond what TLC explores in two hours)
        skip = '{"setArrayBySample", "setAllColumns", "updArray", "setColumnByColIdx"}'
    mcfg = os.path.join(ck.work, "mc.cfg")
    open(mcfg, "w").write(cfg_text(mc, "  SkipOps = " + skip + "\nINVARIANT Inv_Consistent\nPROPERTY JudgeAcceptsRef NoResurrection FrameCells\n"
                                       "VIEW View\nCHECK_DEADLOCK FALSE\n"))
    res = vlib.run_tlc("MC_DbTable", mcfg, timeout=7200)
    if res.violation:
        raise Broken("the reference semantics of DbTable.tla violates its own properties:\n" + res.violation)
    ck.cov["states"] = res.distinct
    ck.cov["transitions"] = res.generated
    ck.cov["mc_constants"] = mc
    log("[C07] MC_DbTable: %d distinct states, %d transitions, depth %d, %.1fs" % (res.distinct, res.generated, res.depth, res.wall))
    # 2+3. exploration of the real object, judged by TLC
    if tier == "quick":
        b = dict(types=["x", "z", "sel"], maxcols=3, maxuid=5, maxnech=2, max_transitions=60000, walks=2500,
                 walk_depth=30, init_nech=[1, 2], grids=[0, 1])
        ncat = explore_and_judge(ck, b, "main")
        # names and column positions: every add / delete / rename sequence (no roles), exhaustively
        bn = dict(types=["x"], roles_kept=["none"], maxcols=3, maxuid=5, maxnech=1, max_transitions=150000, walks=0, walk_depth=0,
                  init_nech=[1], grids=[0],
                  ops=["addColumnsByConstant", "deleteColumnByUID", "deleteColumnByColIdx", "deleteColumn", "setName",
                       "setNameByUID", "setNameByColIdx", "copy"])
        ncat += explore_and_judge(ck, bn, "names")
    else:
        b = dict(types=["x", "z", "sel"], maxcols=3, maxuid=6, maxnech=2, max_transitions=600000, walks=20000,
                 walk_depth=40, init_nech=[1, 2], grids=[0, 1])
        ncat = explore_and_judge(ck, b, "main")
        b2 = dict(types=["x", "z", "f", "v"], maxcols=4, maxuid=7, maxnech=1, max_transitions=300000, walks=20000,
                  walk_depth=40, init_nech=[1], grids=[0])
        ncat += explore_and_judge(ck, b2, "wide")
        bn = dict(types=["x"], roles_kept=["none"], maxcols=4, maxuid=7, maxnech=1, max_transitions=1500000, walks=0, walk_depth=0,
                  init_nech=[1], grids=[0, 1],
                  ops=["addColumnsByConstant", "deleteColumnByUID", "deleteColumnByColIdx", "deleteColumn", "setName",
                       "setNameByUID", "setNameByColIdx", "copy", "deleteColumnsByColIdx", "deleteColumnsByUIDRange"])
        ncat += explore_and_judge(ck, bn, "names")
    validate_recorded_traces(ck, tier)
    ck.cov["catalogue_entries"] = ncat
    ck.cov["rule"] = ("every catalogue entry (operation + arguments, emitted by TLC from DbTable.tla) applied to a clone of "
                      "the real Db/DbGrid in every state reached breadth-first within the bounds, plus seeded random walks; "
                      "distinct states are distinct projections; each (from, op, to) judged by TLC")
    ck.assumptions += ["projection reads the object through public getters only",
                       "names given to name-based entry points are free of regular-expression ambiguity (catalogue choice)",
                       "role ranks beyond the current count are outside the promise of Db.hpp (known finding C07-rank-beyond-count)"]
    return ck.finish()
