"""C04 -- accelerated code paths give the same answers as the plain ones.

1. TLC checks the block identities behind the algebraic fast paths (KrigingCalcul forms, the
   cross-validation shortcut, the collocated form) exactly over GF(P) (FastPathsAlgebra.tla).
2. TLC enumerates the catalogue of (fast, reference) pairs of FastPaths.tla -- option combinations x
   abstract inputs -- checks on the model that both members denote the same abstract observation under
   the side condition, and emits every configuration (with expected index lists / selected sets / flags).
   A small state machine (MC_FastPathsHist) gives the call histories before the optimised covariance.
3. harness/fast_run executes BOTH paths of the real library on the concretised configurations.
4. The driver reduces every observable to (same shape, number of agreeing digits); TLC
   (JudgeFastPaths.tla) judges every executed configuration against the promised equality.
"""
import json, math, os, random
import vlib
from vlib import Check, Broken, log

ALL_PAIRS = ["covmat", "kr_unique", "xvalid", "ball_mig", "ball_nb", "block1", "colcok", "calc", "reuse"]
MEANS = [1.7, -0.6]


# --------------------------------------------------------------------------- TLC runs

def workers():
    try:
        return int(os.environ.get("VERIF_TLC_WORKERS", "0")) or None
    except ValueError:
        return None


def mc_algebra(ck, tier):
    runs = [dict(P=5, NEQ=2, Variants=3, NShapes=4), dict(P=3, NEQ=3, Variants=1, NShapes=2)] if tier == "quick" else \
           [dict(P=5, NEQ=2, Variants=4, NShapes=4), dict(P=7, NEQ=2, Variants=3, NShapes=4), dict(P=11, NEQ=2, Variants=1, NShapes=4),
            dict(P=3, NEQ=3, Variants=3, NShapes=4)]
    tot = dict(states=0, trans=0)
    vac = {}
    for i, r in enumerate(runs):
        cfg = os.path.join(ck.work, "alg%d.cfg" % i)
        open(cfg, "w").write("SPECIFICATION Spec\nCONSTANTS\n  P = %(P)d\n  NEQ = %(NEQ)d\n  Variants = %(Variants)d\n  NShapes = %(NShapes)d\n"
                             "INVARIANT Inv_PrimalUK Inv_DualUK Inv_DualSK Inv_Bayes Inv_ColCok Inv_Xvalid Inv_Shortcut\n"
                             "CONSTRAINT Emit\nCHECK_DEADLOCK FALSE\n" % r)
        res = vlib.run_tlc("MC_FastPathsAlgebra", cfg, workers=workers(), timeout=2400)
        if res.violation:
            raise Broken("a block identity of FastPathsAlgebra.tla does not hold over GF(%d):\n%s" % (r["P"], res.violation))
        tot["states"] += res.distinct
        tot["trans"] += res.generated
        for e in res.emitted:
            for k, v in e.items():
                vac[k] = vac.get(k, 0) + v
        log("[C04] algebra GF(%d) neq=%d: %d instances, %.1fs" % (r["P"], r["NEQ"], len(res.emitted), res.wall))
    for k in ("sk", "uk", "bayes", "colcok", "xvalid"):
        if vac.get(k, 0) == 0:
            raise Broken("vacuous algebra check: no GF(P) instance satisfies the side condition of '%s'" % k)
    ck.cov["algebra_instances_with_side_condition"] = vac
    ck.cov["algebra_runs"] = runs
    return tot


def mc_catalogue(ck, tier):
    models = ["A", "C"] if tier == "quick" else ["A", "B", "C", "D"]
    cfg = os.path.join(ck.work, "cat.cfg")
    open(cfg, "w").write("SPECIFICATION Spec\nCONSTANTS\n  Pairs = {%s}\n  Models = {%s}\n  Small = %s\n"
                         "INVARIANT Inv_PairHolds Inv_MigDeviationsClassified Inv_NoCornerForBall\nCONSTRAINT Emit\nCHECK_DEADLOCK FALSE\n" %
                         (", ".join('"%s"' % p for p in ALL_PAIRS), ", ".join('"%s"' % m for m in models),
                          "TRUE" if tier == "quick" else "FALSE"))
    res = vlib.run_tlc("MC_FastPaths", cfg, workers=workers(), timeout=3000, heap="8g")
    if res.violation:
        raise Broken("FastPaths.tla: a pair does not hold on the model (Obs_fast # Obs_ref under the side condition):\n" + res.violation)
    log("[C04] catalogue: %d configurations emitted, %d states, %.1fs" % (len(res.emitted), res.distinct, res.wall))
    ck.cov["catalogue_models"] = models
    return res


def mc_hist(ck):
    out = {}
    for pr in ("release_on_every_exit", "release_on_success_only"):
        cfg = os.path.join(ck.work, "hist_%s.cfg" % pr)
        open(cfg, "w").write('SPECIFICATION Spec\nCONSTANTS\n  Protocol = "%s"\n  MaxHist = 2\n'
                             "INVARIANT Inv_ReadsOwnPoints\nCONSTRAINT Emit\nCHECK_DEADLOCK FALSE\n" % pr)
        out[pr] = vlib.run_tlc("MC_FastPathsHist", cfg, workers=1, timeout=600)
    ok = out["release_on_every_exit"]
    if ok.violation:
        raise Broken("MC_FastPathsHist: the intended protocol violates history independence:\n" + ok.violation)
    ck.cov["tlc_finds_stale_points_history_in_snapshot_protocol"] = bool(out["release_on_success_only"].violation)
    hists = sorted(set(tuple(e["hist"]) for e in ok.emitted))
    return [list(h) for h in hists], ok


# --------------------------------------------------------------------------- selection of configurations

def stratum(r):
    p = r["pair"]
    full = lambda d: all(all(x for x in row) for row in d)
    if p == "covmat":
        return (r["model"], r["sym"], r["same"], r["empty"], r["ivar0"], r["jvar0"], bool(r["def1"]), bool(r["nb1"]), bool(r["nb2"]))
    if p == "kr_unique":
        return (r["model"], r["drift"], full(r["def"]), sum(r["sel"]), r["radius2"], r["nmaxi"])
    if p == "xvalid":
        return (r["model"], r["drift"], r["est"], r["std"], r["varz"], full(r["def"]))
    if p == "ball_mig":
        dec = [i for i, d in enumerate(r["decided"]) if d and r["tsel"][i]]
        return (r["ndim"], r["dmaxkind"], r["dmaxclass"], any(r["corner"][i] for i in dec),
                tuple(sorted(set(r["deviation"][i] for i in dec))), r["layout"])
    if p == "ball_nb":
        return (r["nmaxi"], r["radius2"], r["leaf"], len(r["pts"]), sum(r["side"]))
    if p == "block1":
        return (r["model"], r["drift"], r["neigh"], r["dx"], full(r["def"]))
    if p == "colcok":
        return (r["drift"], r["q"], r["neigh"], full(r["def"]))
    if p == "calc":
        return (r["form"], r["drift"], r["model"], len(r["tgt"]), full(r["def"]))
    if p == "reuse":
        return (r["neigh"], r["model"], r["drift"], r["nmaxi"], r["radius2"], sum(r["unchanged"]))
    return ()


def select(recs, n, rng):
    """Deterministic stratified sample: round robin over the strata."""
    strata = {}
    for r in sorted(recs, key=lambda r: json.dumps(r, sort_keys=True)):
        strata.setdefault(stratum(r), []).append(r)
    keys = sorted(strata, key=repr)
    for k in keys:
        rng.shuffle(strata[k])
    rng.shuffle(keys)
    out = []
    while len(out) < n and keys:
        nxt = []
        for k in keys:
            if strata[k] and len(out) < n:
                out.append(strata[k].pop())
            if strata[k]:
                nxt.append(k)
        keys = nxt
    return out


# --------------------------------------------------------------------------- reduction of the results

def numcmp(a, b, square=False):
    """(same shape and pattern of undefined values, agreeing digits relative to the largest entry)"""
    if a is None or b is None:
        return (False, 0)
    if len(a) != len(b):
        return (False, 0)
    if square:
        a = [None if x is None else x * x for x in a]
        b = [None if x is None else x * x for x in b]
    scale = max([abs(x) for x in a + b if x is not None] + [0.0])
    d = 0.0
    for x, y in zip(a, b):
        if (x is None) != (y is None):
            return (False, 0)
        if x is not None:
            d = max(d, abs(x - y))
    if d == 0.0 or scale == 0.0:
        return (True, 17)
    rel = d / scale
    return (True, max(0, min(17, int(math.floor(-math.log10(rel))))))


def item(name, ref, same, digits=17, demanded=True):
    return {"name": name, "ref": ref, "demanded": bool(demanded), "same": bool(same), "digits": int(digits)}


def num_item(name, ref, a, b, demanded=True, square=False):
    s, d = numcmp(a, b, square)
    return item(name, ref, s, d, demanded)


def krig_items(f, g, ref="lib", names=("estim", "stdev", "varz")):
    out = []
    for k in names:
        out.append(num_item(k, ref, f.get(k), g.get(k), square=(k == "stdev")))
    return out


def reduce_case(c, r):
    """Items of one executed configuration (c: emitted record, r: harness output)."""
    p = c["pair"]
    f, g = r.get("fast"), r.get("ref")
    items = []
    if p == "covmat":
        if f is not None and g is not None:
            items.append(item("shape", "spec", (f["nrows"], f["ncols"]) == (g["nrows"], g["ncols"])))
            items.append(num_item("cov", "spec", f["v"], g["v"]))
            items.append(item("shape", "lib", (f["nrows"], f["ncols"]) == (r["ref2"]["nrows"], r["ref2"]["ncols"])))
            items.append(num_item("cov", "lib", f["v"], r["ref2"]["v"]))
    elif p in ("kr_unique", "block1"):
        if f is not None and g is not None:
            items += krig_items(f, g)
            items.append(item("error_code", "lib", f.get("err") == g.get("err") == 0))
    elif p == "colcok":
        if f is not None and g is not None:
            items += krig_items(f, g)
    elif p == "xvalid":
        if f is not None and g is not None:
            items.append(num_item("est", "lib", f["est"], g["est"]))
            # the deviation column is a standard deviation when the flag is negative
            items.append(num_item("std", "lib", f["std"], g["std"], square=(c["std"] < 0)))
            items.append(item("error_code", "lib", f.get("err") == 0))
    elif p == "ball_mig":
        if f is not None and g is not None:
            for i, dec in enumerate(c["decided"]):
                if c["tsel"][i] == 0:
                    exp = None
                else:
                    exp = None if c["expected"][i] < 0 else 10.0 + c["expected"][i]
                fv = f["v"][i] if i < len(f["v"]) else "missing"
                gv = g["v"][i] if i < len(g["v"]) else "missing"
                items.append(item("value@%d" % i, "lib", fv == gv, demanded=dec))
                items.append(item("refvalue@%d" % i, "spec", gv == exp, demanded=dec))
    elif p == "ball_nb":
        if f is not None and g is not None:
            for i, side in enumerate(c["side"]):
                items.append(item("nbgh@%d" % i, "lib", f["nbghs"][i] == g["nbghs"][i], demanded=side))
                items.append(item("refnbgh@%d" % i, "spec", g["nbghs"][i] == c["nbgh"][i], demanded=side))
                items.append(num_item("estim@%d" % i, "lib", [f["estim"][i]], [g["estim"][i]], demanded=side))
                items.append(num_item("stdev@%d" % i, "lib", [f["stdev"][i]], [g["stdev"][i]], demanded=side, square=True))
    elif p == "reuse":
        if f is not None and g is not None:
            items += krig_items(f, g)
            items.append(item("unchanged_flags", "spec", f["unchanged"] == c["unchanged"]))
            items.append(item("nbghs", "spec", f["nbghs"] == c["nbghs"]))
            items.append(item("nbghs", "lib", f["nbghs"] == g["nbghs"]))
            items.append(item("error_code", "lib", f.get("err") == g.get("err") == 0))
    elif p == "calc":
        form = c["form"]
        d = r.get("dense")
        if f is not None:
            names = {"primal": ("estim", "stdev", "varz"), "dual": ("estim",), "bayes": ("estim", "stdev"),
                     "colcok": ("estim", "stdev", "varz"), "xvalid": ("estim", "stdev", "varz")}[form]
            if d is not None:
                items += krig_items(f, d, "dense", names)
                if form == "primal":
                    items.append(item("lambda_available", "spec", not f.get("lambda_null", True)))
                    if "lambda" in f:
                        items.append(num_item("lambda", "dense", f["lambda"], d.get("lambda")))
                    if "mu" in f:
                        items.append(num_item("mu", "dense", f["mu"], d.get("mu")))
                if form == "colcok" and "lambda0" in f and d.get("lambda") is not None:
                    nrhs = r["nrhs"]
                    items.append(num_item("lambda0", "dense", f["lambda0"], d["lambda"][-nrhs:]))
            if g is not None:
                items += krig_items(f, g, "lib", names)
    return items


def opts_of(c):
    p = c["pair"]
    keys = {"covmat": ("model", "sym", "same"), "kr_unique": ("model", "drift"), "xvalid": ("model", "drift", "est", "std"),
            "ball_mig": ("dmaxkind", "dmaxclass", "ndim"), "ball_nb": ("nmaxi", "leaf"), "block1": ("model", "drift", "neigh"),
            "colcok": ("drift", "neigh", "q"), "calc": ("form", "drift", "model"), "reuse": ("neigh", "model", "drift")}[p]
    o = {k: c[k] for k in keys}
    if p == "covmat":
        o["hist"] = "+".join(c.get("hist", [])) or "none"
    if p in ("kr_unique", "xvalid", "block1", "colcok", "calc", "reuse"):
        o["hetero"] = not all(all(x for x in row) for row in c["def"])
    return o


def refine(c, r, name, ref):
    """Extra keys describing one rejected observable (used for narrow known-finding patterns)."""
    extra = {}
    if c["pair"] == "ball_mig" and "@" in name:
        i = int(name.split("@")[1])
        extra["category"] = c["deviation"][i]
        extra["corner"] = c["corner"][i]
    if c["pair"] == "calc" and name == "estim" and c["drift"] == "sk":
        f = (r.get("fast") or {}).get("estim")
        g = (r.get("dense") if ref == "dense" else r.get("ref") or {})
        g = (g or {}).get("estim")
        nt = len(c["tgt"])
        if f and g and len(f) == len(g):
            if c["form"] == "xvalid":
                # one value per cross-validated variable (those defined at the sample)
                vars_ = [v for v, dfl in enumerate(c["def"][c["xv"]]) if dfl]
                mean = [MEANS[v] for v in vars_]
            else:
                mean = [MEANS[k // nt] for k in range(len(f))]
            if len(mean) == len(f) and all(x is not None and y is not None and abs(x + m - y) <= 1e-9 * max(1.0, abs(y))
                                           for x, y, m in zip(f, g, mean)):
                extra["delta"] = "mean_omitted"
    return extra


# --------------------------------------------------------------------------- main

def run(tier):
    ck = Check("C04", "model_checking", tier)
    if os.environ.get("VERIF_C04_IGNORE_KNOWN"):      # development aid: show every disagreement as a violation
        ck.known = []
    rng = random.Random(vlib.seed() * 7919 + 13)
    vlib.build_lib()
    exe = vlib.build_harness("fast_run")

    # 1. + 2. model side
    alg = mc_algebra(ck, tier)
    cat = mc_catalogue(ck, tier)
    hists, hres = mc_hist(ck)
    ck.cov["states"] = alg["states"] + cat.distinct + hres.distinct
    ck.cov["transitions"] = alg["trans"] + cat.generated + hres.generated

    by = {}
    for r in cat.emitted:
        by.setdefault(r["pair"], []).append(r)
    per_pair = {"quick": 110, "thorough": 1500}[tier]
    cases = []
    emitted_counts, promised_counts = {}, {}
    for p in ALL_PAIRS:
        recs = by.get(p, [])
        prom = [r for r in recs if r["promised"]]
        emitted_counts[p], promised_counts[p] = len(recs), len(prom)
        if not prom:
            raise Broken("vacuous catalogue: no configuration of pair '%s' satisfies its side condition" % p)
        n = per_pair * (2 if p in ("covmat", "calc", "ball_mig") else 1)
        if p == "covmat":
            # not more than one failing (empty) evaluation out of six
            ne = [r for r in prom if not r["empty"]]
            em = [r for r in prom if r["empty"]]
            chosen = select(ne, n - n // 6, rng) + select(em, n // 6, rng)
        else:
            chosen = select(prom, n, rng)
        cases += chosen
    # short histories before the optimised covariance (a failing call, a call on another Db)
    nh = {"quick": 40, "thorough": 1200}[tier]
    base = [c for c in by["covmat"] if c["promised"] and not c["empty"]]
    hl = [h for h in hists if h]
    for k, c in enumerate(select(base, nh, rng)):
        c = dict(c)
        h = list(hl[k % len(hl)])
        if c["sym"] and h and h[-1] == "fail" and k % 2:
            h[-1] = "failsym"
        c["hist"] = h
        cases.append(c)
    for i, c in enumerate(cases):
        c["id"] = i + 1
    ck.cov["configurations_emitted_by_tlc"] = emitted_counts
    ck.cov["configurations_under_side_condition"] = promised_counts

    # 3. both paths on the real library
    cpath, opath = os.path.join(ck.work, "cases.ndjson"), os.path.join(ck.work, "out.ndjson")
    vlib.write_ndjson(cpath, cases)
    hr = vlib.run_harness(exe, [cpath, opath], timeout=3000)
    byid = {}
    for o in vlib.read_ndjson(opath):
        e = byid.setdefault(o["id"], {"crash": 0, "res": None})
        if "crash" in o:
            e["crash"] = o["crash"]
        elif "exception" in o:
            raise Broken("fast_run: exception on configuration %d: %s" % (o["id"], o["exception"]))
        else:
            e["res"] = o

    # 4. reduction + judgement by TLC
    judge = []
    taken = {p: 0 for p in ALL_PAIRS}
    executed = {p: 0 for p in ALL_PAIRS}
    how = {}
    nitems = 0
    for c in cases:
        e = byid.get(c["id"])
        if e is None:
            raise Broken("fast_run produced nothing for configuration %d" % c["id"])
        r = e["res"] or {}
        items = reduce_case(c, r)
        executed[c["pair"]] += 1
        tk = bool(r.get("taken")) and not e["crash"]
        if c["pair"] == "colcok" and tk:
            # the collocated datum must matter: result different from the cokriging without it
            pl, f = r.get("plain"), r.get("fast")
            tk = bool(pl and f and numcmp(f["estim"], pl["estim"])[1] < 8)
        if tk:
            taken[c["pair"]] += 1
        if r.get("how"):
            how[c["pair"]] = r["how"]
        nitems += sum(1 for it in items if it["demanded"])
        judge.append({"id": c["id"], "pair": c["pair"], "promised": bool(c["promised"]), "crash": int(e["crash"]), "items": items})
    jpath = os.path.join(ck.work, "judge.ndjson")
    vlib.write_ndjson(jpath, judge)
    jres = vlib.run_tlc("JudgeFastPaths", os.path.join(vlib.SPEC, "JudgeFastPaths.cfg"), workers=1, env={"JUDGE": jpath}, timeout=3000)
    if jres.violation or "NOT-ALL-EXAMINED" in jres.stdout:
        raise Broken("JudgeFastPaths did not examine the whole log:\n" + (jres.violation or jres.stdout[-2000:]))
    cid = {c["id"]: c for c in cases}
    nrej = 0
    crash_known = {p: 0 for p in ALL_PAIRS}
    all_recs = []
    for rj in jres.emitted:
        c = cid[rj["id"]]
        r = byid[rj["id"]]["res"] or {}
        for x in rj["rejected"]:
            name = x["name"]
            rec = {"pair": c["pair"], "kind": "crash" if name == "crash" else "mismatch", "obs": name.split("@")[0], "ref": x["ref"]}
            rec.update(opts_of(c))
            rec.update(refine(c, r, name, x["ref"]))
            if name == "crash":
                rec["signal"] = byid[rj["id"]]["crash"]
                # a partial result exists: the crash happened after the checkpoint of the harness, i.e. in the
                # library calculators run last (reference of "calc", fast path of "colcok")
                rec["stage"] = "after_checkpoint" if byid[rj["id"]]["res"] else "before_checkpoint"
            else:
                rec["same_shape"] = x["same"]
                rec["digits"] = x["digits"]
            replay = {"configuration": {k: v for k, v in c.items()}, "observed": r,
                      "how_to_replay": "write the configuration as one line of cases.ndjson and run .build/bin/fast_run cases.ndjson out.ndjson"}
            all_recs.append(rec)
            if ck.disagree(rec, replay):
                nrej += 1
            elif name == "crash":
                crash_known[c["pair"]] += 1
    # classes of disagreements (known or not) of this run, for the evidence
    classes = {}
    for rec in all_recs:
        k = json.dumps({x: y for x, y in rec.items() if x not in ("digits", "signal", "same_shape", "model", "hetero", "stage")}, sort_keys=True)
        classes[k] = classes.get(k, 0) + 1
    ck.cov["disagreement_classes"] = [{"n": n, "class": json.loads(k)} for k, n in sorted(classes.items())]
    # vacuity / coverage
    for p in ALL_PAIRS:
        if executed[p] == 0:
            raise Broken("no configuration of pair '%s' was executed" % p)
        if taken[p] == 0 and crash_known[p] == 0 and not ck.violations:
            raise Broken("pair '%s': the fast path was never confirmed to be taken" % p)
    # every class of the migration option space must have been executed on a decided target, in particular the
    # "corner" geometry (closest sample refused by dmax, a farther one accepted) for a box with equal components
    mig = {}
    for c in cases:
        if c["pair"] != "ball_mig":
            continue
        for i, dec in enumerate(c["decided"]):
            if dec and c["tsel"][i]:
                k = "%dD/%s/%s%s" % (c["ndim"], c["dmaxkind"], c["dmaxclass"], "/corner" if c["corner"][i] else "")
                mig[k] = mig.get(k, 0) + 1
    for nd in (2, 3):
        for k in ("none/empty", "l1/equal", "l1/unequal", "l2/equal", "l2/unequal", "l1/equal/corner", "l1/unequal/corner", "l2/unequal/corner"):
            if mig.get("%dD/%s" % (nd, k), 0) == 0:
                raise Broken("vacuous: no decided migration target of class %dD/%s was executed" % (nd, k))
    ck.cov["migration_targets_per_class"] = mig
    ck.cov["traces_validated_against_impl"] = len(cases)
    ck.cov["executed_per_pair"] = executed
    ck.cov["fast_path_confirmed_per_pair"] = taken
    ck.cov["fast_path_confirmed_how"] = how
    ck.cov["evaluations"] = 2 * len(cases)          # executions: the fast and the reference path of every configuration
    ck.cov["observables_judged"] = nitems
    distinct = set()
    for c in cases:
        e = byid[c["id"]]
        if e["res"] is not None and any(it["demanded"] for it in reduce_case(c, e["res"])):
            distinct.add(json.dumps({k: v for k, v in c.items() if k != "id"}, sort_keys=True))
    ck.cov["distinct_nontrivial"] = len(distinct)
    ck.cov["histories_before_optimised_covariance"] = hists
    ck.cov["library_crashes_contained"] = sum(1 for e in byid.values() if e["crash"])
    ck.cov["rule"] = ("TLC enumerates option combinations x abstract inputs of the 8 pairs (9 families) of FastPaths.tla and checks "
                      "Obs_fast = Obs_ref on the model; a seeded stratified sample of the configurations satisfying the side "
                      "condition is concretised and BOTH paths are executed on the real library; every observable is compared to "
                      "1e-10 relative to the largest entry (variances for standard deviations; sets, flags, shapes and undefined "
                      "patterns exactly) and judged by TLC (JudgeFastPaths.tla); "
                      "distinct_nontrivial = distinct configurations that produced a result and have at least one observable for "
                      "which the specification promises equality")
    for c in cases[:: max(1, len(cases) // 5)][:5]:
        r = byid[c["id"]]["res"] or {}
        ck.sample({"configuration": c, "fast": r.get("fast"), "ref": r.get("ref")})
    ck.assumptions += [
        "data locations are lattice points moved by fixed offsets of at most 0.001; the side conditions computed by the "
        "specification on the lattice (no tie at a cut, no sample on a radius / dmax limit) keep a margin for these offsets",
        "the reference of every pair is the plain path of the same library (plus a dense long-double solve of the assembled "
        "standard system for the algebraic calculator, and the index lists / sets / flags computed by the specification)",
        "block identities are checked exactly over GF(P) for 2-3 data equations, 1-2 drift functions, 1-2 right-hand sides",
        "models are the four models of the fixed list; non-stationary models, external drifts, measurement errors, "
        "anisotropic / multi-sector neighbourhoods are outside the catalogue"]
    log("[C04] %d configurations executed (%s), %d observables judged, %d rejected by TLC, harness %s" %
        (len(cases), executed, nitems, nrej, hr.stderr.strip().splitlines()[-1] if hr.stderr.strip() else ""))
    return ck.finish()
