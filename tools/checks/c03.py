"""C03 -- every offered covariance structure is a valid (positive-definite) model.

The specification spec/CovStructures.tla carries what is discrete or exact in the property; TLC
 1. checks the catalogue of structures on itself (closed forms on a rational lattice: C(0) = 1, continuity,
    compact support, |C| <= C(0), monotonicity, factorised = expanded forms, Schoenberg lower bounds),
    every exact geometry of anisotropy (R is a rotation, two expressions of the reduced distance, symmetry,
    homogeneity, isotropic case independent of R), the stencils, the point sets, the sill matrices
    (MC_CovStructures, INVARIANT Inv) and prints every case;
 2. the harness cov_run executes the real library: the offer table (CovFactory::getCovList, isConsistent,
    construction), every equation through every evaluation route, every anisotropic geometry through every
    construction route, every positive-definiteness plan (matrix assembled by the library, smallest eigenvalue
    by Eigen, on the authorised increments for generalised covariances);
 3. the driver turns the real numbers into integers (digits of agreement, class of the smallest eigenvalue)
    and TLC judges every record against the catalogue and the obligation table (JudgeCovStructures).
Python is plumbing: float conversion of rationals, evaluation of the residual of an equation the spec wrote,
integerisation with the thresholds stated below.
"""
import json, math, os, collections, concurrent.futures, hashlib
import vlib
from vlib import Check, Broken, log

T345 = math.degrees(math.atan2(4.0, 3.0))
ROUTE_DIGITS = 12          # agreement required between evaluation routes of one and the same object
GEO_DIGITS = 11            # C_aniso(h) = C_iso(unit range)(reduced distance); measured: 13 or more
PSD_OK = 1e-9              # lambda_min >= -PSD_OK * n * scale    -> class 1     (scale = max|K|, or lambda_max on the increments)
PSD_NEG = 1e-6             # lambda_min <  -PSD_NEG * scale       -> class -1 (clearly negative); between: 0, inconclusive
SYM_TOL = 0.0              # K(i,j) = K(j,i) exactly


def qf(q):
    return q[0] / q[1]


def pstr(q):
    return "%d" % q[0] if q[1] == 1 else "%d/%d" % (q[0], q[1])


def digits(err, scale):
    if err is None or scale is None:
        return 0
    if not (err == err) or not (scale == scale) or math.isinf(err):
        return 0
    if err <= 0:
        return 16
    r = err / max(scale, 1e-300)
    if r >= 1:
        return 0
    return max(0, min(16, int(math.floor(-math.log10(r) + 1e-9))))


def run_sharded(exe, mode, lines, work, tag, nshard, header=()):
    """Runs the harness over the input lines split into shards (each shard restarts after a crashing case).
    Returns (outputs in input order keyed by id, crashes)."""
    shards = [lines[i::nshard] for i in range(nshard)]
    shards = [s for s in shards if s]

    def one(k):
        inp = os.path.join(work, "%s_in_%d.ndjson" % (tag, k))
        out = os.path.join(work, "%s_out_%d.ndjson" % (tag, k))
        with open(inp, "w") as f:
            for h in header:
                f.write(json.dumps(h, separators=(",", ":")) + "\n")
            for l in shards[k]:
                f.write(json.dumps(l, separators=(",", ":")) + "\n")
        start, crashes = 0, []
        for attempt in range(40):
            r = vlib.run_harness(exe, [mode, inp, out, start], ok_codes=(0, 88), timeout=6000)
            if r.returncode == 0:
                return vlib.read_ndjson(out), crashes
            recs = vlib.read_ndjson(out)
            last = recs[-1]
            if "crash" not in last:
                raise Broken("cov_run %s stopped without a crash record: %s" % (mode, r.stderr[-400:]))
            allin = list(header) + shards[k]
            crashes.append({"signal": last["crash"], "case": allin[last["line"]]})
            start = last["line"] + 1
        raise Broken("cov_run %s: more than 40 crashing cases in one shard" % mode)

    with concurrent.futures.ThreadPoolExecutor(len(shards) or 1) as ex:
        parts = list(ex.map(one, range(len(shards))))
    outs, crashes = [], []
    for o, c in parts:
        outs += [r for r in o if "crash" not in r]
        crashes += c
    return outs, crashes


def run(tier):
    ck = Check("C03", "model_checking", tier)
    if os.environ.get("VERIF_C03_KNOWN"):         # trial runs against a repaired tree: substitute list of known findings
        with open(os.environ["VERIF_C03_KNOWN"]) as f:
            ck.known = [e for e in json.load(f).get("findings", []) if e.get("property") == "C03" and e.get("status") == "known"]
    import time
    tphase = [time.time()]

    def phase(name):
        log("[C03] %s: %.1fs" % (name, time.time() - tphase[0]))
        tphase[0] = time.time()
    vlib.build_lib()
    exe = vlib.build_harness("cov_run")
    w = ck.work
    thorough = tier == "thorough"
    workers = int(os.environ.get("VERIF_TLC_WORKERS", "0")) or 4
    nshard = int(os.environ.get("VERIF_C03_SHARDS", "4"))

    # ------------------------------------------------------------------ 1. TLC: the model and its cases
    by = collections.defaultdict(list)
    res = vlib.run_tlc("MC_CovStructures", "MC_CovStructures_%s.cfg" % tier, workers=workers, timeout=3000, heap="3g",
                       on_emit=lambda v: by[v["k"]].append(v))
    if res.violation:
        raise Broken("CovStructures.tla violates its own invariant (the catalogue / geometry is wrong):\n" + res.violation)
    ncases = sum(len(v) for v in by.values())
    if ncases != res.distinct - 1:
        raise Broken("TLC printed %d cases for %d states" % (ncases, res.distinct))
    for k in ("entry", "eq", "geo", "pset", "psd", "mix"):
        if not by[k]:
            raise Broken("vacuous: no case of kind %s" % k)
    log("[C03] MC_CovStructures %s: %d states, invariant holds, %.1fs; cases %s" %
        (tier, res.distinct, res.wall, {k: len(v) for k, v in by.items()}))
    cat = {e["e"]["name"]: e["e"] for e in by["entry"]}
    for k in by:            # deterministic order whatever the TLC workers did
        by[k].sort(key=lambda v: json.dumps(v, sort_keys=True))
    grid = collections.defaultdict(set)        # shape parameters examined per structure
    ob_of = {}                                 # obligation of (structure, parameter, dimension), computed by TLC
    for p in by["psd"]:
        grid[p["s"]].add(tuple(p["p"]))
        ob_of[(p["s"], tuple(p["p"]), p["d"])] = p["ob"]

    # ------------------------------------------------------------------ 2. the offer table of the real code
    offin = os.path.join(w, "offer_in.json")
    offout = os.path.join(w, "offer_out.ndjson")
    json.dump({"dims": [1, 2, 3], "probes": {s: sorted(list(g)) for s, g in grid.items() if cat[s]["par"] == 1}}, open(offin, "w"))
    vlib.run_harness(exe, ["offer", offin, offout], timeout=600)
    offers = vlib.read_ndjson(offout)
    if not offers:
        raise Broken("cov_run offer printed nothing")
    listed = collections.defaultdict(set)      # structure -> dimensions in which getCovList offers it
    code_names = set()
    for o in offers:
        code_names.add(o["s"])
        if o.get("created") != 1:
            raise Broken("CovFactory::createCovFunc failed for %s in dimension %d" % (o["s"], o["d"]))
        if o["s"] in cat and cat[o["s"]]["cname"] != o["cname"]:
            raise Broken("catalogue name of %s is '%s', gstlearn calls it '%s'" % (o["s"], cat[o["s"]]["cname"], o["cname"]))
        if o["listed"] == 1:
            listed[o["s"]].add(o["d"])
    unknown = sorted(code_names - set(cat))
    if unknown:
        raise Broken("gstlearn offers structures that the catalogue of CovStructures.tla does not know: %s" % ", ".join(unknown))
    missing = sorted(set(cat) - code_names)
    if missing:
        raise Broken("structures of the catalogue unknown to ECov: %s" % ", ".join(missing))
    rn = sorted(s for s in cat if cat[s]["space"] == "rn")
    judge = []                                  # records for JudgeCovStructures, with what they refer to
    for o in offers:
        judge.append(({"k": "offer", "s": o["s"], "d": o["d"], "listed": o["listed"], "consistent": o["consistent"],
                       "built": o["built"], "pn": o["pn"], "pd": o["pd"], "admitted": o["admitted"]},
                      {"kind": "offer", "s": o["s"], "d": o["d"], "param": pstr([o["pn"], o["pd"]])}, o))
    # declared conventions of the code against the catalogue (range convention, order, parameter domain)
    SCA = {"one": lambda p: 1.0, "two": lambda p: 2.0, "ln20": lambda p: math.log(20.0), "sqrtln20": lambda p: math.sqrt(math.log(20.0)),
           "sinc": lambda p: 20.371, "stable": lambda p: 3.0 ** (1.0 / p), "matern": lambda p: math.sqrt(12.0 * p),
           "gamma": lambda p: 20.0 ** (1.0 / p) - 1.0, "cauchy": lambda p: math.sqrt(20.0 ** (1.0 / p) - 1.0)}
    nconv = 0
    for o in offers:
        e = cat[o["s"]]
        if e["space"] != "rn" or o["d"] != 1 or o["admitted"] != 1:
            continue
        p = o["pn"] / o["pd"]
        checks = [("hasRange", o["hasrange"], e["rng"]), ("hasParam", o["haspar"], e["par"]), ("getMinOrder", o["minorder"], e["ord"])]
        if e["par"] == 1:
            checks.append(("getParMax", o["parmax"], None if e["phi"] == [0, 1] else qf(e["phi"])))
        for what, have, want in checks:
            nconv += 1
            ok = have == want if not isinstance(want, float) else (have is not None and abs(have - want) <= 1e-12 * abs(want))
            judge.append(({"k": "eq", "dg": 16 if ok else 0, "need": 16},
                          {"kind": "convention", "s": o["s"], "what": what, "param": pstr([o["pn"], o["pd"]])},
                          {"observed": have, "catalogue": want, "offer": o}))
        want = SCA[e["sca"]](p) if p > 0 else None
        if want is not None and e["rng"] == 1:
            nconv += 1
            judge.append(({"k": "eq", "dg": digits(abs(o["scadef"] - want), abs(want)), "need": 6},
                          {"kind": "convention", "s": o["s"], "what": "getScadef", "param": pstr([o["pn"], o["pd"]])},
                          {"observed": o["scadef"], "catalogue": want, "rule": e["sca"], "offer": o}))
            nconv += 1
            judge.append(({"k": "eq", "dg": digits(abs(o["range"] - 2.0), 2.0), "need": 12},
                          {"kind": "convention", "s": o["s"], "what": "getRange", "param": pstr([o["pn"], o["pd"]])},
                          {"observed": o["range"], "given": 2.0, "offer": o}))
            nconv += 1
            judge.append(({"k": "eq", "dg": digits(abs(o["scale"] * o["scadef"] - 2.0), 2.0), "need": 12},
                          {"kind": "convention", "s": o["s"], "what": "range = scadef x scale", "param": pstr([o["pn"], o["pd"]])},
                          {"observed": [o["scale"], o["scadef"]], "given": 2.0, "offer": o}))

    def dims_of(s):
        """dimensions in which the cases of structure s are executed: those in which gstlearn lists it"""
        return sorted(listed.get(s, set()))

    # ------------------------------------------------------------------ 2 bis. what the code admits as shape parameter
    for k in ("admit",):
        if not by[k]:
            raise Broken("vacuous: no case of kind %s" % k)
    admin = [{"id": i, "s": a["s"], "req": qf(a["r"]), "ord": a["ord"]} for i, a in enumerate(by["admit"])]
    aouts, crashes = run_sharded(exe, "admit", admin, w, "admit", nshard)
    for c in crashes:                             # signal 14 = the case did not return within the time allowed
        a = by["admit"][c["case"]["id"]]
        ck.disagree({"kind": "hang" if c["signal"] == 14 else "crash", "mode": "admit", "s": a["s"], "request": a["cls"]},
                    dict(c, requested=pstr(a["r"]), how="cov_run admit: every route that sets the third parameter, 1-D context, range 10"))
    amap = {o["id"]: o for o in aouts}
    admit_count = collections.Counter()
    admit_routes = set()
    for i, a in enumerate(by["admit"]):
        o = amap.get(i)
        if o is None:
            continue
        if "exception" in o:
            raise Broken("cov_run admit failed on %s: %s" % (a, o["exception"]))
        e = cat[a["s"]]
        cands = [a["r"], e["plo"], [1, 1]] + ([] if e["phi"] == [0, 1] else [e["phi"]])
        for r in o["routes"]:
            admit_routes.add(r["route"])
            rec = {"k": "admit", "s": a["s"], "out": r["out"], "rn": 0, "rd": 0, "cls": 0}
            if r["out"] == "set":
                rep = r.get("param")
                for cnd in cands:
                    if rep is not None and abs(rep - qf(cnd)) <= 1e-12 * max(1.0, abs(qf(cnd))):
                        rec["rn"], rec["rd"] = cnd
                        break
                if r.get("finite") == 1 and "lmin" in r:
                    floor = 1e-12 * 40 * r["maxabs"]
                    scale = r["maxabs"] if a["ord"] < 0 else max(r["lmax"], 0.0)
                    rec["cls"] = 1 if r["lmin"] >= -(PSD_OK * 40 * scale + floor) else (-1 if r["lmin"] < -(PSD_NEG * scale + 10 * floor) else 0)
            admit_count["%s:%s" % (a["cls"], "refused" if r["out"] == "refused" else
                                   ("clipped" if rec["rd"] and [rec["rn"], rec["rd"]] != a["r"] else "accepted"))] += 1
            judge.append((rec, {"kind": "admit", "s": a["s"], "route": r["route"], "request": a["cls"]},
                          {"requested": pstr(a["r"]), "admitted_domain": [pstr(e["plo"]), "unbounded" if e["phi"] == [0, 1] else pstr(e["phi"])],
                           "result": r, "how": "1-D context, range 10; object built through the route with the requested third parameter; "
                                               "if an object results: parameter it reports, smallest eigenvalue of its covariance matrix on the lattice 0..39"}))
    phase('offer')
    # ------------------------------------------------------------------ 3. equations
    evals, ekey = [], {}
    worst_digits = {}

    def ev(s, p, d, unit, a, x, direction):
        key = (s, tuple(p), d, unit, tuple(a), tuple(x), direction)
        if key not in ekey:
            ekey[key] = len(evals)
            evals.append({"id": len(evals), "s": s, "p": qf(p), "d": d, "range": unit == "range", "a": qf(a), "x": qf(x),
                          "dir": direction})
        return ekey[key]

    eqruns = []                                   # (equation, d, [[eval ids per factor] per term])
    eq_dims = collections.defaultdict(set)
    for n, q in enumerate(by["eq"]):
        structs = set(f["s"] for t in q["t"] for f in t["f"])
        ds = set.intersection(*[set(dims_of(s)) for s in structs]) & set(range(1, q["mxd"] + 1))
        for d in sorted(ds):
            direction = (n + d) % (d + 1 if d >= 2 else d)      # an axis, or the 3-4-5 direction
            ids = [[ev(f["s"], f["p"], d, q["unit"], q["a"], f["x"], direction) for f in t["f"]] for t in q["t"]]
            eqruns.append((q, d, ids))
            for s in structs:
                eq_dims[s].add(d)
    vals, crashes = run_sharded(exe, "value", evals, w, "value", nshard)
    for c in crashes:
        ck.disagree({"kind": "crash", "mode": "value", "s": c["case"]["s"], "d": c["case"]["d"]}, c)
    nan = float("nan")
    for v in vals:                                # the harness prints NaN / infinities as null
        for mode in ("c", "g"):
            if mode in v:
                v[mode] = [nan if x is None else x for x in v[mode]]
    vmap = {v["id"]: v for v in vals}
    route_worst = {}
    nroute = 0
    for e in evals:
        v = vmap.get(e["id"])
        if v is None:
            continue
        if "exception" in v:
            ck.disagree({"kind": "exception", "mode": "value", "s": e["s"], "d": e["d"], "param": e["p"]}, {"eval": e, "exception": v["exception"]})
            continue
        for mode in ("c", "g"):
            ref = v[mode][0]
            sc = max(1.0, abs(ref)) if ref == ref else 1.0
            for r, val in enumerate(v[mode]):
                nroute += 1
                if ref != ref:
                    dg = 16                        # not a number on the first route: one defect, reported by the equation
                else:
                    dg = digits(abs(val - ref), sc) if val == val and ref == ref else 0
                key = (e["s"], e["d"], mode, r)
                if key not in route_worst or dg < route_worst[key][0]:
                    route_worst[key] = (dg, e, v)
    for (s, d, mode, r), (dg, e, v) in sorted(route_worst.items()):
        if dg >= ROUTE_DIGITS:
            worst_digits["evaluation routes"] = min(worst_digits.get("evaluation routes", 16), dg)
        judge.append(({"k": "eq", "dg": dg, "need": ROUTE_DIGITS},
                      {"kind": "routes", "s": s, "d": d, "mode": mode, "route": r, "default_param": e["p"] == 1.0},
                      {"eval": e, "values_by_route": v[mode], "how": "cov_run value: routes in the order of CROUTES / GROUTES of harness/cov_run.cpp"}))
    eq_by_cls = collections.Counter()
    for q, d, ids in eqruns:
        lhs, mag, bad = 0.0, 0.0, None
        facs = []
        for t, tid in zip(q["t"], ids):
            prod = 1.0
            for f, i in zip(t["f"], tid):
                v = vmap.get(i)
                if v is None or "exception" in v:
                    bad = i
                    break
                val = v[f["m"]][0]
                facs.append({"s": f["s"], "p": pstr(f["p"]), "x": pstr(f["x"]), "mode": f["m"], "value": val})
                prod *= val ** f["e"]
            if bad is not None:
                break
            lhs += qf(t["c"]) * prod
            mag += abs(qf(t["c"]) * prod)
        if bad is not None:
            continue                               # already reported as exception / crash
        rhs = qf(q["q"]) + sum(l[0] / l[1] * math.log(l[2]) for l in q["lg"]) + sum(x[0] / x[1] * math.exp(x[2] / x[3]) for x in q["ex"]) + qf(q["ip"]) / math.pi
        mag = max(mag, abs(rhs), 1.0)
        dg = digits(abs(lhs - rhs), mag)
        eq_by_cls[q["cls"]] += 1
        if dg >= q["dg"]:
            worst_digits["equation:" + q["cls"]] = min(worst_digits.get("equation:" + q["cls"], 16), dg)
        par = sorted(set(f["p"] for f in facs if f["s"] == q["s"]))
        judge.append(({"k": "eq", "dg": dg, "need": q["dg"]},
                      {"kind": "equation", "cls": q["cls"], "s": q["s"], "d": d, "param": par[0] if par else "1", "unit": q["unit"]},
                      {"equation": q, "d": d, "factors": facs, "lhs": lhs, "rhs": rhs, "digits": dg,
                       "how": "sum_t c_t prod_f K[s,p](x.a)^e = q + sum c ln(n); K evaluated by CovAniso(type, a, p, 1, ctxt, unit == range).eval"}))
        if dg >= q["dg"] and q["cls"] in ("ident", "poly", "stencil") and d == 2:
            ck.sample({"equation_class": q["cls"], "structure": q["s"], "d": d, "factors": facs, "lhs": lhs, "rhs": rhs}, cap=3)

    phase('equations')
    # ------------------------------------------------------------------ 4. anisotropy and rotation
    geoin = []
    for gid, g in enumerate(by["geo"]):
        d = g["d"]
        ranges = [m / 2.0 for m in g["m"]]
        # the angle whose cosine / sine TLC gives, in [0, 360[, or the same angle minus / plus 360 degrees
        angles = [math.degrees(math.atan2(cs[1], cs[0])) % 360.0 + (0.0, -360.0, 360.0)[r] for cs, r in zip(g["cs"], g["rep"])]
        if d == 2:
            angles = [angles[0], 0.0]
        den = float(g["den"])
        r2 = [sum((u / den / rk) ** 2 for u, rk in zip(h["u"], ranges)) for h in g["hs"]]
        sp = [[s, qf(p), p[0], p[1]] for s in rn if d in dims_of(s) and cat[s]["rng"] != 0 for p in sorted(grid[s])
              if ob_of[(s, p, d)] in ("psd", "cpsd")]
        geoin.append({"gid": gid, "d": d, "ranges": ranges, "angles": angles if d > 1 else [0.0],
                      "R": [[x / den for x in row] for row in g["R"]["n"]], "hs": [h["h"] for h in g["hs"]], "r2": r2,
                      "cmp": [h["cmp"] for h in g["hs"]], "sp": sp})
    gouts, crashes = run_sharded(exe, "aniso", geoin, w, "aniso", nshard)
    for c in crashes:
        ck.disagree({"kind": "crash", "mode": "aniso", "d": c["case"]["d"]}, {"signal": c["signal"], "geometry": {k: v for k, v in c["case"].items() if k != "sp"}})
    geo_dims = collections.defaultdict(set)
    geo_routes = set()
    ngeo = 0
    for o in gouts:
        g = geoin[o["gid"]]
        e = cat[o["s"]]
        rec0 = {"s": o["s"], "d": o["d"], "param": pstr([o["pn"], o["pd"]]), "default_param": [o["pn"], o["pd"]] == [1, 1],
                "rotated": any(a != 0 for a in g["angles"]), "angles_in_0_180": all(0 <= a < 180 for a in g["angles"]),
                "isotropic": len(set(g["ranges"])) == 1}
        geom = {"ranges": g["ranges"], "angles_deg": g["angles"], "R": g["R"]}
        if "exception" in o:
            ck.disagree(dict(rec0, kind="exception", mode="aniso"), {"geometry": geom, "exception": o["exception"]})
            continue
        geo_dims[o["s"]].add(o["d"])
        sc = max(1.0, o["maxabs"])
        for name, dv in o["routes"].items():
            ngeo += 1
            geo_routes.add(name)
            dg = digits(dv["err"], sc)
            t = dv["t"]
            if dg >= GEO_DIGITS:
                worst_digits["anisotropy routes"] = min(worst_digits.get("anisotropy routes", 16), dg)
            judge.append(({"k": "geo", "dg": dg, "need": GEO_DIGITS},
                          dict(rec0, kind="aniso", route=name),
                          {"geometry": geom, "h": g["hs"][t] if t >= 0 else None, "reduced_distance2": g["r2"][t] if t >= 0 else None,
                           "observed": dv["got"], "expected = unit-range isotropic structure at sqrt(r2)": dv["ref"]}))
        tests = [("C(h)=C(-h)", o["sym"], 14)]
        if e["ord"] == -1:
            tests.append(("|C(h)|<=C(0)", o["bound"], 13))
        if e["cmp"]:
            tests.append(("zero beyond the range", o["outside"], 12))
        for name, dv, need in tests:
            ngeo += 1
            dg = digits(dv["err"], sc)
            t = dv["t"]
            judge.append(({"k": "geo", "dg": dg, "need": need}, dict(rec0, kind="aniso", route=name),
                          {"geometry": geom, "h": g["hs"][t] if t >= 0 else None, "reduced_distance2": g["r2"][t] if t >= 0 else None,
                           "observed": dv["got"], "reference": dv["ref"]}))

    phase('anisotropy')
    # ------------------------------------------------------------------ 5. positive semi-definiteness
    psets = {p["id"]: p for p in by["pset"]}
    header = [{"k": "pset", "id": p["id"], "d": p["d"], "pts": p["pts"]} for p in by["pset"]]
    plans = []
    for p in by["psd"] + by["mix"]:
        e = cat[p["s"]]
        if p["k"] == "psd" and p["d"] not in dims_of(p["s"]) and p["ob"] in ("psd", "cpsd"):
            continue                               # valid by the catalogue but not offered by the code in that dimension
        if p["k"] == "mix" and not (p["d"] in dims_of(p["s"]) and p["d"] in dims_of(p["s2"])):
            continue
        if p["k"] == "psd" and e["rng"] == 0 and (p["rf"] != [3, 2] or p["an"] == 1):
            continue                               # no range: one run per point set
        q = dict(p)
        q["id"] = len(plans)
        q["range"] = qf(p["rf"]) * psets[p["ps"]]["sp"]
        if p["k"] == "psd":
            q["p"] = qf(p["p"])
            q["pq"] = p["p"]
        plans.append(q)
    # cheap plans first in every shard
    pouts, crashes = run_sharded(exe, "psd", plans, w, "psd", nshard, header=header)
    for c in crashes:
        ck.disagree({"kind": "crash", "mode": "psd", "s": c["case"].get("s"), "d": c["case"].get("d")}, c)
    pmap = {o["id"]: o for o in pouts if "pset" not in o}
    psd_dims = collections.defaultdict(set)
    cls_count = collections.Counter()
    worst = {}                                     # most negative normalised eigenvalue per (structure, param, d, obligation)
    largest_n = 0
    refused = 0
    inconclusive = []
    for q in plans:
        o = pmap.get(q["id"])
        if o is None:
            continue
        pq = q.get("pq", [1, 1])
        rec0 = {"kind": q["k"], "s": q["s"], "d": q["d"], "param": pstr(pq), "ob": q["ob"], "range_ge_100": q["range"] >= 100}
        if q["k"] == "mix":
            rec0.update(s2=q["s2"], nv=q["nv"])
        desc = {"plan": {k: v for k, v in q.items() if k not in ("id",)}, "points": psets[q["ps"]]["pts"] if len(psets[q["ps"]]["pts"]) <= 64 else "point set %s of MC_CovStructures" % q["ps"],
                "how": "Model::createFromParam(type, range, 1, param[, ranges, angles]); K = Model::evalCovMatrix(db, db); eigenvalues of (K + K^T)/2"
                       + ("" if q["ord"] < 0 else " projected on the complement of the monomials of degree <= %d" % q["ord"])}
        if "exception" in o and q["ob"] in ("invalid", "unclaimed"):
            refused += 1                           # the library refuses to build what the catalogue does not claim valid: fine
            continue
        if "exception" in o or o.get("finite") == 0:
            ck.disagree(dict(rec0, kind="exception" if "exception" in o else "not-finite", mode="psd"), dict(desc, result=o))
            continue
        psd_dims[q["s"]].add(q["d"])
        largest_n = max(largest_n, o["n"])
        # scale of the spectrum: max|K| = C(0) for a covariance; for a generalised covariance K carries arbitrary
        # filtered constants, the scale is the largest eigenvalue of the projected matrix; floor = round-off of
        # the assembly / projection
        floor = 1e-12 * o["n"] * o["maxabs"]
        scale = o["maxabs"] if q["ord"] < 0 else max(o["lmax"], 0.0)
        ratio = o["lmin"] / max(scale, floor, 1e-300)
        cls = 1 if o["lmin"] >= -(PSD_OK * o["n"] * scale + floor) else (-1 if o["lmin"] < -(PSD_NEG * scale + 10 * floor) else 0)
        sym = 1 if o["symdiff"] <= SYM_TOL and digits(o["routediff"], max(1.0, o["maxabs"])) >= 13 else 0
        cls_count[(q["ob"], cls)] += 1
        if cls == 0 and q["ob"] in ("psd", "cpsd"):
            inconclusive.append({"s": q["s"], "d": q["d"], "param": pstr(pq), "ps": q["ps"], "rf": pstr(q["rf"]), "lmin/scale": ratio, "n": o["n"]})
        key = (q["s"], pstr(pq), q["d"], q["ob"], q["k"])
        if key not in worst or ratio < worst[key][0]:
            worst[key] = (ratio, q, o)
        judge.append(({"k": q["k"], "s": q["s"], "pn": pq[0], "pd": pq[1], "d": q["d"], "sym": sym, "cls": cls, "ob": q["ob"]},
                      rec0, dict(desc, n=o["n"], lambda_min=o["lmin"], lambda_max=o["lmax"], max_abs_K=o["maxabs"],
                                 lambda_min_over_scale=ratio, symdiff=o["symdiff"], routediff=o["routediff"], filtered=o["nfiltered"])))

    phase('psd')
    # ------------------------------------------------------------------ 6. TLC judges every record
    obsp = os.path.join(w, "observed.ndjson")
    vlib.write_ndjson(obsp, [j[0] for j in judge])
    jres = vlib.run_tlc("JudgeCovStructures", "JudgeCovStructures.cfg", workers=1, env={"OBS": obsp}, timeout=3000, heap="3g")
    if jres.violation or "NOT-ALL-EXAMINED" in jres.stdout:
        raise Broken("JudgeCovStructures did not examine every record:\n" + (jres.violation or jres.stdout[-2000:]))
    confirmed = collections.Counter()
    rejected = []
    for r in jres.emitted:
        rec, what, detail = judge[r["idx"] - 1]
        if "confirms" in r:
            confirmed[(what["s"], what["param"], what["d"])] += 1
            continue
        rejected.append((what, sorted(r["bad"]), rec, detail))
    # one disagreement per (what, reason); the replay carries the first / worst occurrence
    groups = collections.OrderedDict()
    for what, bad, rec, detail in rejected:
        key = json.dumps([what, bad], sort_keys=True)
        if key not in groups:
            groups[key] = [what, bad, rec, detail, 0]
        groups[key][4] += 1
        if what["kind"] in ("psd", "mix") and detail["lambda_min_over_scale"] < groups[key][3]["lambda_min_over_scale"]:
            groups[key][2], groups[key][3] = rec, detail
    for what, bad, rec, detail, n in groups.values():
        d = dict(what)
        d["reason"] = bad[0] if len(bad) == 1 else "+".join(bad)
        if what["kind"] == "offer" and "listed-in-a-dimension-where-invalid" in bad:
            # the catalogue says invalid: the numerical confirmation (a clearly negative eigenvalue) goes with the replay
            wk = (what["s"], what["param"], what["d"], "invalid", "psd")
            if wk in worst:
                ratio, q, o = worst[wk]
                detail = dict(detail=detail, numerical_confirmation={"lambda_min_over_scale": ratio, "plan": {k: v for k, v in q.items() if k != "id"},
                                                                      "points": psets[q["ps"]]["pts"], "n": o["n"]})
                d["confirmed_numerically"] = ratio < -PSD_NEG
        ck.disagree(d, {"record": rec, "occurrences": n, "detail": detail})
    if os.environ.get("VERIF_C03_DUMP"):          # development aid: every disagreement of the run
        with open(os.environ["VERIF_C03_DUMP"], "w") as f:
            for rec, replay in ck.violations:
                f.write(json.dumps({"rec": rec, "replay": replay}, default=str) + "\n")
    summary = collections.Counter()
    for rec, _ in ck.violations:
        summary[json.dumps({k: v for k, v in rec.items() if k in ("kind", "cls", "route", "reason", "what", "mode", "ob")}, sort_keys=True)] += 1
    for text, n in summary.most_common(60):
        log("   %5d x %s" % (n, text))

    phase('judge')
    # ------------------------------------------------------------------ 7. vacuity guards and evidence
    for s in rn:
        for d in dims_of(s):
            if d not in eq_dims[s]:
                raise Broken("vacuous: no equation executed for %s in dimension %d" % (s, d))
            if cat[s]["rng"] != 0 and d not in geo_dims[s]:
                raise Broken("vacuous: no anisotropy case executed for %s in dimension %d" % (s, d))
            if d not in psd_dims[s]:
                raise Broken("vacuous: no positive-definiteness case executed for %s in dimension %d" % (s, d))
    for cls in ("poly", "vario", "c0", "atrange", "rational", "ident", "stencil"):
        if eq_by_cls[cls] == 0:
            raise Broken("vacuous: no equation of class %s" % cls)
    if len(admit_routes) < 10 or not any(k.startswith("outside:") for k in admit_count):
        raise Broken("vacuous: admission of shape parameters not exercised (%s)" % dict(admit_count))
    if len(geo_routes) < 20:
        raise Broken("vacuous: only %d anisotropy routes exercised" % len(geo_routes))
    for ob in ("psd", "cpsd"):
        if cls_count[(ob, 1)] == 0:
            raise Broken("vacuous: no %s obligation met" % ob)
    ck.cov["states"] = res.distinct + jres.distinct
    ck.cov["transitions"] = res.generated + jres.generated
    ck.cov["mc_config"] = "spec/MC_CovStructures_%s.cfg" % tier
    ck.cov["tlc_cases_by_kind"] = {k: len(v) for k, v in by.items()}
    ck.cov["structures_in_catalogue"] = len(cat)
    ck.cov["offered_dimensions"] = {s: sorted(v) for s, v in sorted(listed.items())}
    ck.cov["offer_records"] = len(offers)
    ck.cov["convention_checks"] = nconv
    ck.cov["parameter_requests"] = len(by["admit"])
    ck.cov["parameter_request_routes"] = sorted(admit_routes)
    ck.cov["parameter_request_outcomes"] = dict(admit_count)
    ck.cov["equations_executed"] = len(eqruns)
    ck.cov["equations_by_class"] = dict(eq_by_cls)
    ck.cov["evaluations"] = nroute + ngeo * 1 + len(pmap)
    ck.cov["route_values_compared"] = nroute
    ck.cov["anisotropy_runs"] = len(gouts)
    ck.cov["anisotropy_relations_judged"] = ngeo
    ck.cov["anisotropy_routes"] = sorted(geo_routes)
    ck.cov["worst_digits_among_accepted"] = worst_digits
    ck.cov["psd_runs"] = len(pmap)
    ck.cov["psd_largest_matrix"] = largest_n
    ck.cov["psd_plans_refused_by_the_library_where_not_claimed_valid"] = refused
    ck.cov["psd_classes"] = {"%s:%d" % k: v for k, v in sorted(cls_count.items())}
    ck.cov["psd_inconclusive"] = inconclusive[:40]
    ck.cov["psd_most_negative_by_obligation"] = {
        ob: sorted(({"s": k[0], "param": k[1], "d": k[2], "lmin/scale": v[0], "ps": v[1]["ps"], "rf": pstr(v[1]["rf"])}
                    for k, v in worst.items() if k[3] == ob), key=lambda x: x["lmin/scale"])[:12]
        for ob in ("psd", "cpsd", "invalid", "unclaimed")}
    ck.cov["catalogue_invalid_confirmed_numerically"] = ["%s p=%s d=%d (%d point sets)" % (k[0], k[1], k[2], v) for k, v in sorted(confirmed.items())]
    ck.cov["records_judged_by_tlc"] = len(judge)
    ck.cov["traces_validated_against_impl"] = len(judge)
    ck.cov["distinct_nontrivial"] = len(eqruns) + len(gouts) + len(pmap)
    ck.cov["rule"] = ("every case printed by TLC from CovStructures.tla for the tier: equations (closed forms on a rational lattice, "
                      "identities, stencils) executed in every dimension in which gstlearn lists all the structures involved; every "
                      "anisotropy geometry x every structure with a range x shape-parameter grid x 24 construction / evaluation routes; "
                      "every (structure, parameter, dimension, range class, anisotropy preset, point set) plan. Real numbers are "
                      "integerised (digits of agreement relative to max(1, magnitude of the terms); eigenvalue class 1 if "
                      "lambda_min >= -1e-9 n S, -1 if < -1e-6 S, else 0 = inconclusive, reported, not a violation; S = max|K| for "
                      "covariances, the largest eigenvalue of the projected matrix for generalised covariances, plus a round-off floor 1e-12 n max|K|) and "
                      "every record is judged by TLC (JudgeCovStructures). evaluations = route values + anisotropy relations + matrices")
    ck.assumptions += [
        "offered in dimension d = listed by CovFactory::getCovList(CovContext(1, d)) (the constructors refuse nothing, see known finding)",
        "rotation convention of anisotropy = that of the Rotation class documented for grids (Oz, Oy', Ox''), range k measured along the k-th column of R; confirmed by the 2-D angle convention of gstlearn",
        "closed forms: Chiles & Delfiner 2nd ed. (spherical, cubic, pentaspherical, exponential, Gaussian, stable, K-Bessel, Cauchy, J-Bessel, cardinal sine, power, splines, polynomial generalised covariances), Wendland 1995; REG1D has no published form known to us: its polynomial is a regression value transcribed from the code",
        "damped cosine exp(-h) cos(2 pi h / p): valid in R^d iff 2 pi / p <= tan(pi / 2d); only p <= 6 is claimed invalid (d >= 2) and p >= 7 / p >= 11 valid (d = 2 / 3)",
        "positive semi-definiteness is measured, not proved: point-set families of MC_CovStructures only; a structure is flagged invalid only by the catalogue (theory) and the flag is accompanied by a clearly negative eigenvalue on an explicit point set",
        "generalised covariances are compared modulo the even polynomials filtered by the authorised increments (stencils), their constants depend on the dimension and on the 'field' and are not examined"]
    return ck.finish()
