"""C18 -- data transforms and their inverses compose to the identity.

1. TLC (MC_Transforms on spec/Transforms.tla) enumerates every scenario of fit / copy / apply / invert steps
   (re-fits included) of the given length over the integer data sets of the specification and the kinds
   {AnamHermite, AnamEmpirical, PCA, MAF, normal score, Rotation}; it checks the laws of the history-term
   algebra (normal forms irreducible, round trip = identity term, no residue of a previous fit, rotations are
   an exact matrix group) and emits every scenario with, per produced array, its normal form and the earlier
   arrays it must equal.
2. harness transf_run executes every scenario on the real objects through every entry point and reports the
   projection of what happened (return codes, NA / validity-domain masks, rank patterns, agreement of entry
   points, algebraic identities of the fitted state, distances between arrays the specification equates and to
   the normal form evaluated by fresh objects, exact integer images of rotations).
3. TLC (TraceTransforms) judges every record with the accuracy constants and the integer facts of the
   specification; every rejection goes through Check.disagree.
"""
import json, os, subprocess, collections
import vlib
from vlib import Check, Broken, log

ALL_KINDS = ["AH", "AE", "PCA", "MAF", "NS", "ROT"]
KIND_NAME = {"AH": "AnamHermite", "AE": "AnamEmpirical", "PCA": "PCA", "MAF": "MAF", "NS": "normalScore", "ROT": "Rotation"}


def tla_set(xs):
    return "{" + ", ".join(('"%s"' % x) if isinstance(x, str) else str(x) for x in xs) + "}"


def cfg_common(p):
    return ("SPECIFICATION Spec\nCONSTANTS\n  Seed = %d\n  Orders = %s\n  RawSets = %s\n  MultiSets = %s\n  RotElems = %s\n  RCoefs = %s\n  TailSets = %s\n"
            % (p["seed"], tla_set(p["orders"]), tla_set(p["rawsets"]), tla_set(p["multisets"]), tla_set(p["rotelems"]),
               tla_set(p["rcoefs"]), tla_set(p["tailsets"])))


def run_harness_sharded(exe, datap, casesp, outbase, nshards, ncases):
    """Runs the harness on nshards processes; a crash of the library is recorded and the shard resumed after it."""
    crashes = []
    outs = ["%s.%d" % (outbase, s) for s in range(nshards)]
    for o in outs:
        open(o, "w").close()
    procs = {s: subprocess.Popen([exe, datap, casesp, outs[s], str(s), str(nshards), "0"]) for s in range(nshards)}
    restarts = 0
    while procs:
        for s, p in list(procs.items()):
            try:
                rc = p.wait(timeout=3000)
            except subprocess.TimeoutExpired:
                p.kill()
                raise Broken("transf_run timed out")
            del procs[s]
            if rc == 0:
                continue
            if rc != 88:
                raise Broken("transf_run failed (exit %d) on shard %d" % (rc, s))
            last = json.loads(open(outs[s]).read().strip().splitlines()[-1])
            crashes.append(last)
            restarts += 1
            if restarts > 50:
                raise Broken("transf_run: more than 50 crashing scenarios")
            procs[s] = subprocess.Popen([exe, datap, casesp, outs[s], str(s), str(nshards), str(last["id"] + 1)])
    recs = []
    for o in outs:
        recs += vlib.read_ndjson(o)
    recs.sort(key=lambda r: r["id"])
    done = [r for r in recs if "crash" not in r]
    crashed = [r for r in recs if "crash" in r]
    if len(done) + len(crashed) != ncases:
        raise Broken("transf_run handled %d of %d scenarios" % (len(done) + len(crashed), ncases))
    return done, crashed


def short_steps(steps):
    out = []
    for s in steps:
        if s["op"] == "fit":
            out.append("fit(%s,%s)" % (s["data"], s["opt"]))
        elif s["op"] == "copy":
            out.append("copy")
        elif s["op"] == "support":
            out.append("support(r=%.2f)" % (s["opt"] / 100.0))
        else:
            src = s["src"]["d"] if s["src"]["t"] == "d" else "a%d" % s["src"]["a"]
            out.append("%s[%s](%s)" % (s["op"], s["who"], src))
    return " ; ".join(out)


def refit_lineage(r):
    """(by step, by array): option of a C++ object that was fitted more than once and is involved -- the object
    fitted or copied at that step, the object applied at that step, or the producer of an array in the ancestry
    of its input; None when no re-fitted object is involved."""
    out = {}
    state = {"o": None, "c": None}
    taint = []
    for i, (st, ob) in enumerate(zip(r["steps"], r["obs"])):
        if st["op"] == "fit":
            state["o"] = st["opt"] if ob.get("reused", False) else None
            out[i + 1] = state["o"]
        elif st["op"] == "copy":
            state["c"] = state["o"]
            out[i + 1] = state["o"]
        elif st["op"] == "support":
            out[i + 1] = state["o"]
        else:
            t = state.get(st["who"])
            if t is None and st["src"]["t"] == "a":
                t = taint[st["src"]["a"] - 1]
            taint.append(t)
            out[i + 1] = t
    return out, taint


def blockfit_lineage(r):
    """(by step, by array): True when a Hermite object that was FITTED while its change-of-support coefficient was
    below 1 (constructed with rCoef < 1, or re-fitted after a support change) is involved in that step / array."""
    out = {}
    cur = 100
    state = {"o": False, "c": False}
    taint = []
    for i, st in enumerate(r["steps"]):
        if st["op"] == "support":
            cur = st["opt"]
            out[i + 1] = state["o"]
        elif st["op"] == "fit":
            state["o"] = cur < 100
            out[i + 1] = state["o"]
        elif st["op"] == "copy":
            state["c"] = state["o"]
            out[i + 1] = state["o"]
        else:
            t = state.get(st["who"], False)
            if not t and st["src"]["t"] == "a":
                t = taint[st["src"]["a"] - 1]
            taint.append(t)
            out[i + 1] = t
    return out, taint


def explore(ck, plan, stats, workers):
    w = ck.work
    tag = plan["tag"]
    # 1. scenarios from TLC
    mcfg = os.path.join(w, "mc_%s.cfg" % tag)
    open(mcfg, "w").write(cfg_common(plan) + "  Kinds = %s\n  MaxLen = %d\nCONSTRAINT Emit\n"
                          "INVARIANT SupportState TypeOK NormalFormsIrreducible RoundTripIsIdentity NoResidue RotationGroup SameIsSymmetricOnKeys\n"
                          "CHECK_DEADLOCK FALSE\n" % (tla_set(plan["kinds"]), plan["maxlen"]))
    casesp = os.path.join(w, "cases_%s.ndjson" % tag)
    cases = []
    with open(casesp, "w") as cf:
        def on_emit(v):
            cf.write(json.dumps(v, separators=(",", ":")) + "\n")
            cases.append(v)
        res = vlib.run_tlc("MC_Transforms", mcfg, workers=workers, timeout=3000, on_emit=on_emit)
    if res.violation:
        raise Broken("the algebra of Transforms.tla violates its own laws:\n" + res.violation)
    ck.add("states", res.distinct)
    ck.add("transitions", res.generated)
    if not cases:
        raise Broken("MC_Transforms emitted no scenario for plan " + tag)
    # 2. data sets from TLC, execution on the real library
    ecfg = os.path.join(w, "emit_%s.cfg" % tag)
    open(ecfg, "w").write(cfg_common(plan))
    datap = os.path.join(w, "data_%s.json" % tag)
    data = vlib.tlc_emit_json("EmitTransformsData", ecfg, datap)
    exe = plan["exe"]
    nshards = max(1, min(workers, len(cases) // 200 + 1))
    done, crashed = run_harness_sharded(exe, datap, casesp, os.path.join(w, "obs_%s" % tag), nshards, len(cases))
    for c in crashed:
        cs = cases[c["id"]]
        ck.disagree({"kind": cs["kind"], "sig": "crash", "signal": c["crash"], "what": c.get("what", "")},
                    {"plan": {k: v for k, v in plan.items() if k != "exe"}, "scenario": short_steps(cs["steps"]), "case": cs})
    # 3. judgement by TLC, in chunks (the whole log of a large plan does not fit the heap comfortably)
    jcfg = os.path.join(w, "judge_%s.cfg" % tag)
    open(jcfg, "w").write(cfg_common(plan) + "POSTCONDITION AllExamined\nCHECK_DEADLOCK FALSE\n")
    CH = 15000
    jemitted = []
    jwall = 0.0
    for c0 in range(0, len(done), CH):
        obsp = os.path.join(w, "obs_%s_%d.ndjson" % (tag, c0))
        vlib.write_ndjson(obsp, done[c0:c0 + CH])
        jres = vlib.run_tlc("TraceTransforms", jcfg, workers=workers, env={"OBS": obsp}, timeout=3000)
        if jres.violation or "NOT-ALL-EXAMINED" in jres.stdout:
            raise Broken("TraceTransforms did not examine the whole log:\n" + (jres.violation or jres.stdout[-2000:]))
        jemitted += jres.emitted
        jwall += jres.wall
        os.remove(obsp)
    byid = {r["id"]: r for r in done}
    nrej = 0
    for rj in jemitted:
        r = byid[rj["id"]]
        cs = cases[rj["id"]]
        for f in rj["fails"]:
            bystep, byarr = refit_lineage(r)
            ropt = bystep.get(f["step"])
            if ropt is None and f["tag"] == "same" and f["j"] >= 1:      # the array it is compared with
                ropt = byarr[f["j"] - 1]
            bstep, barr = blockfit_lineage(r)
            bfit = bool(bstep.get(f["step"], False)) or (f["tag"] == "same" and f["j"] >= 1 and barr[f["j"] - 1])
            rec = {"kind": rj["kind"], "sig": "%s:%s" % (f["tag"], f["name"]), "op": f["op"], "opt": f["opt"],
                   "refit_same_object": ropt is not None, "refit_opt": ropt, "rcoef": f["rcoef"], "fitted_in_block_state": bfit, "masked": f["masked"], "hasna": f["hasna"], "e": f["e"],
                   "base": f["base"], "fitdata": f["fitdata"], "step": f["step"], "array": f["k"]}
            used = sorted(set([f["base"], f["fitdata"]] + [s["data"] for s in cs["steps"] if s["op"] == "fit"]) & set(data["data"].keys()))
            replay = {"plan": {k: v for k, v in plan.items() if k != "exe"}, "scenario": short_steps(cs["steps"]), "case": cs, "observed": r,
                      "datasets": {d: data["data"][d] for d in used},
                      "how": "write 'case' as the single line of cases.ndjson and the EmitTransformsData output for the plan "
                             "constants as data.json, then .build/bin/transf_run data.json cases.ndjson out.ndjson 0 1 0; "
                             "judge out.ndjson with spec/TraceTransforms.tla (env OBS)"}
            if ck.disagree(rec, replay):
                nrej += 1
    # statistics / vacuity counters
    # worst error among the comparisons TLC accepted (documents the margin of the accuracy constants)
    blocksteps = {}
    rejected = set()
    for rj in jemitted:
        for f in rj["fails"]:
            rejected.add((rj["id"], f["tag"], f["step"], f["name"] if f["tag"] in ("form", "alg") else "", f["k"]))

    def worst(key, e):
        if e < 9000 and e > stats["worst"].get(key, -10000):
            stats["worst"][key] = e
    for r in done:
        k = r["kind"]
        prod = [i + 1 for i, st in enumerate(r["steps"]) if st["op"] in ("fwd", "inv")]
        for i, ob in enumerate(r["obs"]):
            for f in ob["forms"]:
                if (r["id"], "form", i + 1, f["name"], 0) not in rejected:
                    worst(k + " entry points", f["e"])
            if "rt" in ob and (r["id"], "roundtrip", i + 1, "", 0) not in rejected:
                worst(k + " per-step round trip", ob["rt"]["e"])
            for a_ in ob["alg"]:
                if a_["name"] not in ("out-mean=0", "out-cov=I") and (r["id"], "alg", i + 1, a_["name"], 0) not in rejected:
                    worst(k + " " + a_["name"], a_["e"])
        for s_ in r["same"]:
            if (r["id"], "same", prod[s_["k"] - 1], "", s_["k"]) not in rejected:
                worst(k + " arrays with equal normal forms", s_["e"])
        for s_ in r["fresh"]:
            if (r["id"], "fresh", prod[s_["k"] - 1], "", s_["k"]) not in rejected:
                worst(k + " array vs fresh evaluation of its normal form", s_["e"])
        for s_ in r["exact"]:
            if (r["id"], "exact", prod[s_["k"] - 1], "", s_["k"]) not in rejected:
                worst(k + " exact image residual", s_["res"])
        stats["cases"][k] += 1
        nfit = 0
        # apply steps of a Hermite object whose support coefficient is < 1 at that moment
        cur = 100
        blocksteps.setdefault(r["id"], set())
        for i_, st in enumerate(r["steps"]):
            if st["op"] == "support":
                cur = st["opt"]
            elif st["op"] in ("fwd", "inv") and st["who"] == "o" and cur < 100 and k == "AH":
                blocksteps[r["id"]].add(i_ + 1)
        for i_, (st, ob) in enumerate(zip(r["steps"], r["obs"])):
            stats["ops"][k + ":" + st["op"]] += 1
            if st["op"] == "fit":
                nfit += 1
                if nfit >= 2:
                    stats["refits"][k] += 1
            for f in ob["forms"]:
                stats["forms"][k + ":" + f["name"]] += 1
                stats["elements"] += f["n"]
            for a in ob["alg"]:
                stats["alg"][k + ":" + a["name"]] += 1
            if st["op"] in ("fit", "support") and ob.get("tailcfg") in ("L", "U", "LU") and ob.get("err") == 0 and not ob.get("reused", False):
                stats["hermite_tail_states"][ob["tailcfg"]] += 1
            if ob.get("ntail", 0) > 0:
                stats["tail_elements"][k + ":" + st["op"]] += ob["ntail"]
            if "rt" in ob:
                stats["roundtrip_steps"][k] += 1
                if ob["rt"]["n"] > 0 and (i_ + 1) in blocksteps[r["id"]]:
                    stats["roundtrip_block_support"][k] += 1
            if "rin" in ob:
                stats["mono"][k + ":" + st["op"]] += 1
                stats["mono_elements"] += sum(1 for x in ob["rin"] if x >= 0)
        nz = 0
        for s in r["same"]:
            stats["same"][k] += 1
            stats["elements"] += s["n"]
            nz += s["n"]
            if s["ref"]["t"] == "d" and s["n"] > 0:
                stats["roundtrips"][k] += 1
        for s in r["fresh"]:
            stats["fresh"][k] += 1
            stats["elements"] += s["n"]
            nz += s["n"]
        for s in r["exact"]:
            stats["exact"][k] += 1
            nz += len(s["num"])
        stats["comparisons"] += len(r["same"]) + len(r["fresh"]) + len(r["exact"])
        if nz > 0:
            stats["nontrivial"] += 1
    ck.add("traces_validated_against_impl", len(done))
    for r in done[:: max(1, len(done) // 2)][:2]:
        ck.sample({"plan": tag, "kind": r["kind"], "scenario": short_steps(r["steps"]),
                   "arrays": cases[r["id"]]["arrs"], "same": r["same"], "fresh": r["fresh"], "exact": r["exact"]})
    log("[C18] %s: %d scenarios (TLC %d states in %.1fs), executed on %d shard(s), judged by TLC in %.1fs, %d new rejection(s)" %
        (tag, len(cases), res.distinct, res.wall, nshards, jwall, nrej))


def run(tier):
    ck = Check("C18", "model_checking", tier)
    vlib.build_lib()
    exe = vlib.build_harness("transf_run")
    workers = int(os.environ.get("VERIF_C18_WORKERS", "6"))
    seed = vlib.seed() % 1000
    full = dict(orders=[5, 12, 20, 40], rawsets=["skew", "ties", "tsel"], multisets=["m1", "m2", "m3"],
                rotelems=[1, 2, 3, 4, 5, 6, 7, 8, 9, 10, 11], rcoefs=[100, 90, 70, 50], tailsets=["upsk", "losk", "bosk"], kinds=ALL_KINDS)
    plans = []
    if tier == "quick":
        plans.append(dict(full, tag="len3", seed=seed, maxlen=3))
        # copy / re-fit aliasing needs four steps: one order, two data sets
        plans.append(dict(full, tag="len4small", seed=seed + 1, maxlen=4, orders=[12], rawsets=["skew", "tsel"], tailsets=["upsk"],
                          multisets=["m2", "m3"], rotelems=[2, 5, 7, 10], rcoefs=[100, 70], kinds=["AH", "AE", "PCA", "MAF", "ROT"]))
    else:
        plans.append(dict(full, tag="len4hermite", seed=seed, maxlen=4, orders=[5, 12, 20, 30, 40], tailsets=[], kinds=["AH"]))
        plans.append(dict(full, tag="len4tails", seed=seed, maxlen=4, orders=[12, 30], rawsets=["tsel"], rcoefs=[100, 70], kinds=["AH"]))
        plans.append(dict(full, tag="len4others", seed=seed, maxlen=4, kinds=["AE", "PCA", "MAF", "NS", "ROT"]))
        plans.append(dict(full, tag="len5small", seed=seed + 1, maxlen=5, orders=[20], rawsets=["tsel"], multisets=["m2"],
                          rotelems=[2, 5, 7, 10], rcoefs=[100, 50], tailsets=[]))
        for d in range(2, 6):
            plans.append(dict(full, tag="len3s%d" % d, seed=seed + d, maxlen=3, orders=[5, 8, 12, 20, 30, 40]))
    stats = {"cases": collections.Counter(), "ops": collections.Counter(), "refits": collections.Counter(),
             "forms": collections.Counter(), "alg": collections.Counter(), "mono": collections.Counter(),
             "same": collections.Counter(), "fresh": collections.Counter(), "exact": collections.Counter(),
             "roundtrips": collections.Counter(), "roundtrip_steps": collections.Counter(),
             "roundtrip_block_support": collections.Counter(), "hermite_tail_states": collections.Counter(),
             "tail_elements": collections.Counter(), "worst": {}, "elements": 0, "mono_elements": 0, "comparisons": 0, "nontrivial": 0}
    for p in plans:
        explore(ck, dict(p, exe=exe), stats, workers)
    if os.environ.get("VERIF_C18_DUMP"):      # development aid: all unlisted disagreements, one per line
        vlib.write_ndjson(os.environ["VERIF_C18_DUMP"], [rec for rec, _ in ck.violations])
    # vacuity: every branch of the specification must have been exercised
    need = []
    for k in ALL_KINDS:
        need.append(("cases", k))
        if k != "NS":
            need += [("refits", k), ("ops", k + ":fit"), ("ops", k + ":copy"), ("ops", k + ":inv"), ("roundtrips", k)]
        need.append(("ops", k + ":fwd"))
        need.append(("exact" if k == "ROT" else "fresh", k))
        need.append(("same", k))
    need += [("mono", "AH:fwd"), ("mono", "AH:inv"), ("mono", "AE:fwd"), ("mono", "AE:inv"), ("mono", "NS:fwd"),
             ("alg", "AH:hermite-gram"), ("ops", "AH:support"), ("forms", "AH:anamPointToBlock-coeff"),
             ("alg", "AH:variance->r->variance"), ("roundtrip_block_support", "AH"),
             ("hermite_tail_states", "L"), ("hermite_tail_states", "U"), ("hermite_tail_states", "LU"),
             ("tail_elements", "AH:fwd"), ("tail_elements", "AH:inv"), ("alg", "AH:tails-inverse"), ("alg", "PCA:z2f'Cz2f=I"), ("alg", "MAF:z2f'Cz2f=I"), ("alg", "ROT:RinvR=I"),
             ("forms", "AH:db-name"), ("forms", "AE:db-locator"), ("forms", "PCA:public-matrices"), ("forms", "NS:db-name"),
             ("forms", "ROT:angles")]
    for cat, key in need:
        if stats[cat][key] <= 0:
            raise Broken("vacuous: no %s for %s" % (cat, key))
    ck.cov["plans"] = [{k: v for k, v in p.items()} for p in plans]
    ck.cov["scenarios_per_kind"] = {KIND_NAME[k]: v for k, v in stats["cases"].items()}
    ck.cov["steps_executed"] = dict(stats["ops"])
    ck.cov["refit_steps"] = dict(stats["refits"])
    ck.cov["entry_point_agreements_checked"] = dict(stats["forms"])
    ck.cov["algebraic_identities_evaluated"] = dict(stats["alg"])
    ck.cov["monotonicity_checks"] = dict(stats["mono"])
    ck.cov["round_trips_back_to_a_data_set"] = dict(stats["roundtrips"])
    ck.cov["hermite_fitted_states_by_tail_configuration"] = dict(stats["hermite_tail_states"])
    ck.cov["elements_compared_in_linear_tails"] = dict(stats["tail_elements"])
    ck.cov["per_step_round_trips"] = dict(stats["roundtrip_steps"])
    ck.cov["per_step_round_trips_in_block_support_state"] = dict(stats["roundtrip_block_support"])
    ck.cov["worst_accepted_error_x100_log10"] = dict(sorted(stats["worst"].items()))
    ck.cov["array_elements_compared"] = stats["elements"]
    ck.cov["rank_pattern_elements"] = stats["mono_elements"]
    ck.cov["evaluations"] = stats["comparisons"]
    ck.cov["distinct_nontrivial"] = stats["nontrivial"]
    ck.cov["exhaustive"] = True
    ck.cov["rule"] = ("every sequence of exactly MaxLen steps (fit on a data set with an option / copy / apply / invert through the "
                      "object or its copy, on a base data set or an earlier array, typed by scale and variable count) enumerated by "
                      "TLC per kind; executed on the real objects through every entry point; evaluations = array comparisons dictated "
                      "by coinciding normal forms (+ fresh evaluation of the normal form, + exact rotation images); a scenario is "
                      "non-trivial when at least one element was compared inside the reported validity domains")
    ck.assumptions += [
        "accuracy constants are those of spec/Transforms.tla (Hermite 1e-5 of the spread |Phi(1)-Phi(-1)|, the stopping rule of the "
        "inversion; empirical anamorphosis / PCA / MAF / rotations 1e-9; identical arithmetic 1e-11)",
        "for anamorphoses two arrays agree when they agree in the raw OR in the Gaussian scale (a monotone function is compared "
        "in its better conditioned scale); elements that left the practical interval reported by the object at any step are not compared",
        "refit_same_object in a disagreement = a re-fitted C++ object is in the lineage of the step; a re-fit with other constructor options (polynomial count, dilution mode) is a new C++ object; the same object is re-fitted "
        "when the options are unchanged",
        "normal scores: ties are broken arbitrarily (only strict order is demanded); the Db entry point is compared with the score of "
        "the selected samples",
        "quality of the Hermite fit (how close Phi(Y) is to the data) is not judged, except the exact mean and Bessel's inequality",
    ]
    return ck.finish()
