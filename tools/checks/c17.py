"""C17 -- automatic model fitting always returns a usable, constraint-abiding model.

The fitting procedure is a black-box transition with a contract (spec/FitContract.tla):
1. TLC explores the request space (MC_FitContract: base requests varied in one dimension - quick -
   or in pairs of dimensions - thorough -, option flags combined by a pairwise covering array that
   TLC checks) and emits every valid request.
2. harness fit_run executes every request on the REAL entry points (Model::fit, fitFromCovIndices,
   fitFromVMap, ModelOptimSillsVario::fit, ModelOptimVario::fit), one child process per request
   (crash / hang containment), and records the integerised projection of what came back
   (status, sill eigenvalues, ranges, rotations, constrained parameters, save + reload, kriging).
3. TLC (TraceFitContract) judges every recorded outcome with the contract Violations(request, outcome)
   and lists the categories of requests for which no successful fit exists (vacuity guard).
Nothing is asserted about the quality of the fit; a call may always report failure.
"""
import json, os, subprocess, time, zlib, collections
import vlib
from vlib import Check, Broken, log

JOBS = {"quick": 4, "thorough": 8}


def _key(e):
    d = {k: v for k, v in e.items() if k not in ("id",)}
    return json.dumps(d, sort_keys=True, separators=(",", ":"))


def _cost(e):
    """Expected cost class: long requests first so that they overlap with the others."""
    c = 0
    if e["csill"] > 0 and e["nvar"] > 1:
        c += 100 * len(e["types"])
    if e["entry"] == "optim" and e["recipe"] == "linear":
        c += 1000
    if e["entry"] == "vmap":
        c += 20
    if e["ndim"] == 3:
        c += 10
    return -c


def run_requests(ck, exe, reqs, jobs):
    """Execute the requests with a pool of harness processes working on chunks; returns the log path."""
    rp = os.path.join(ck.work, "req.ndjson")
    vlib.write_ndjson(rp, reqs)
    n = len(reqs)
    chunk = 6
    chunks = [(a, min(n, a + chunk)) for a in range(0, n, chunk)]
    outs = {}
    running = []
    nxt = 0
    t0 = time.time()
    scratch = os.path.join(ck.work, "scratch")
    os.makedirs(scratch, exist_ok=True)
    while nxt < len(chunks) or running:
        while nxt < len(chunks) and len(running) < jobs:
            a, b = chunks[nxt]
            op = os.path.join(ck.work, "out-%06d.ndjson" % a)
            p = subprocess.Popen([exe, rp, op, str(a), str(b), str(vlib.seed()), scratch],
                                 stdout=subprocess.DEVNULL, stderr=subprocess.DEVNULL)
            running.append((p, a, b, op, time.time()))
            nxt += 1
        time.sleep(0.05)
        still = []
        for (p, a, b, op, ts) in running:
            rc = p.poll()
            if rc is None:
                if time.time() - ts > 3000 * (b - a):      # the harness limits the CPU of each request itself (600 s)
                    p.kill()
                    raise Broken("harness fit_run stuck on requests %d..%d" % (a, b))
                still.append((p, a, b, op, ts))
            else:
                if rc != 0:
                    raise Broken("harness fit_run failed (exit %s) on requests %d..%d" % (rc, a, b))
                outs[a] = op
        running = still
    lp = os.path.join(ck.work, "fitlog.ndjson")
    nrec = 0
    with open(lp, "w") as fo:
        for a, _ in chunks:
            with open(outs[a]) as f:
                for line in f:
                    if line.strip():
                        fo.write(line)
                        nrec += 1
    if nrec != n:
        raise Broken("harness wrote %d records for %d requests" % (nrec, n))
    log("[C17] %d requests executed in %.1fs with %d jobs" % (n, time.time() - t0, jobs))
    return lp


def judge_selftest(ck, recs, rejected_idx):
    """The judge must reject corrupted copies of a successful record, clause by clause (binding self-test:
    a clause that cannot fire would make the contract vacuous)."""
    import copy
    base = None
    for want_all in (True, False):
        for ir, r in enumerate(recs, 1):
            q = r["req"]
            o = r.get("out")
            if ir in rejected_idx:
                continue
            if o and o["status"] == 0 and not o["exception"] and q["nvar"] == 2 and len(o["model"]["covs"]) >= 2 and not q["cons"] \
                    and q["csill"] == 0 and not q["optrow"] and q["ndim"] == 2 and o["model"]["covs"][-1]["hasrange"] == 1 \
                    and o["model"]["covs"][-1]["anis"] > 100000 and q["entry"] == "fit" \
                    and (len(o["model"]["covs"]) == len(q["types"]) or not want_all):
                base = r
                break
        if base:
            break
    if base is None:
        if rejected_idx:
            ck.cov["judge_selftest_corruptions_rejected"] = "skipped: every suitable record is itself rejected"
            return
        raise Broken("no record suitable for the self-test of the judge")
    cases = []

    def case(clause, f):
        r = copy.deepcopy(base)
        f(r)
        cases.append((clause, r))
    k = len(base["out"]["model"]["covs"]) - 1
    case(None, lambda r: None)
    case("sill-not-psd", lambda r: r["out"]["model"]["covs"][k]["eig"].update(minrel=-1000))
    case("range-not-positive", lambda r: r["out"]["model"]["covs"][k]["rpos"].__setitem__(0, False))
    case("reload", lambda r: r["out"]["reload"].update(diff=1000000))
    case("kriging", lambda r: r["out"]["krig"]["uni"][0].update(err=1))
    case("cokriging", lambda r: (r["out"]["krig"]["co"].update(finite=False), r["out"]["model"]["total"].update(minrel=5000000)))
    case("dims", lambda r: r["out"]["model"].update(nvar=3))
    case("structures-not-requested", lambda r: r["out"]["model"]["covs"][k].update(type="CAUCHY"))
    case("noreduce", lambda r: (r["req"]["opt"].update(noreduce=True), r["req"]["types"].append("CUBIC")))
    case("auth-aniso", lambda r: r["req"]["opt"].update(aniso=False))
    case("lock-iso2d", lambda r: r["req"]["opt"].update(iso2d=True))
    case("constraint-RANGE", lambda r: r["req"]["cons"].append({"elem": "RANGE", "icov": len(r["req"]["types"]) - 1, "iv1": 0, "iv2": 0, "type": "UPPER",
                                                              "val": r["out"]["model"]["covs"][k]["ranges"][0] // 2}))
    case("constraint-SILL", lambda r: r["req"]["cons"].append({"elem": "SILL", "icov": len(r["req"]["types"]) - 1, "iv1": 1, "iv2": 1, "type": "EQUAL",
                                                             "val": r["out"]["model"]["covs"][k]["sill"][3] + 1000 + abs(r["out"]["model"]["covs"][k]["sill"][3]) // 1000}))
    case("constant-sill", lambda r: r["req"].update(csill=r["out"]["model"]["sumsill"][0] + 1000 + abs(r["out"]["model"]["sumsill"][0]) // 1000))
    case("crash", lambda r: (r.pop("out"), r.update(crash="signal 11")))
    if len(base["req"]["types"]) != len(base["out"]["model"]["covs"]):
        cases = [c for c in cases if c[0] not in ("constraint-RANGE", "constraint-SILL")]
    lp = os.path.join(ck.work, "selftest.ndjson")
    vlib.write_ndjson(lp, [c[1] for c in cases])
    jr = vlib.run_tlc("TraceFitContract", "TraceFitContract.cfg", workers=1, env={"FITLOG": lp}, timeout=600)
    if jr.violation or "NOT-ALL-EXAMINED" in jr.stdout:
        raise Broken("judge self-test: TLC did not examine the corrupted records:\n" + (jr.violation or jr.stdout[-2000:]))
    got = {e["idx"]: set(e["fails"]) for e in jr.emitted if "idx" in e}
    for i, (clause, _) in enumerate(cases, 1):
        have = got.get(i, set())
        if clause is None and have:
            raise Broken("judge self-test: the unmodified record is rejected: %s" % sorted(have))
        if clause is not None and clause not in have:
            raise Broken("judge self-test: corrupted record not rejected by clause %s (got %s)" % (clause, sorted(have)))
    ck.cov["judge_selftest_corruptions_rejected"] = len(cases) - 1


def describe(req, out, fails):
    """Record used for the known-finding match: the clause + the narrow circumstances."""
    kinds = sorted(set("%s-%s" % (c["elem"], c["type"]) for c in req["cons"]))
    flips = {"flip_" + f: (f in req["optrow"]) for f in ("noreduce", "aniso", "rot", "samerot", "rot2d", "no3d", "iso2d", "goulard", "keepint", "intrinsic")}
    ndir, ndim = len(req["dirs"]), req["ndim"]
    directional = req["entry"] != "vmap"
    # parameters that the fit does not infer (rules of st_alter_model_optvar): rotation unless there are more
    # directions than space dimensions, anisotropy unless there are two directions, third range unless one
    # direction leaves the horizontal plane; also what the caller switched off himself
    rot_inferable = (not directional) or (ndir > ndim and ndim >= 2)
    aniso_inferable = (not directional) or (ndir >= 2 and ndim >= 2)
    r3_inferable = (not directional) or any(d[1] != 0 for d in req["dirs"])
    # where the library itself keeps lock_iso2d / lock_no3d in force (st_alter_model_optvar): in 3-D, lock_iso2d with
    # at most one horizontal direction (a map: as requested), lock_no3d without any non-horizontal direction;
    # elsewhere the requested flag is ignored (2-D) or overwritten (3-D)
    n_hor = sum(1 for d in req["dirs"] if d[1] == 0)
    iso2d_effective = ndim == 3 and (not directional or n_hor <= 1)
    no3d_effective = ndim == 3 and directional and n_hor == ndir
    unf = False
    for c in req["cons"]:
        # second range locked to the first one (3-D with at most one horizontal direction; 3-D map with lock_iso2d)
        if c["elem"] == "RANGE" and c["iv1"] == 1 and iso2d_effective and (directional or "iso2d" in req["optrow"]):
            unf = True
        if c["elem"] == "ANGLE" and (not rot_inferable or "rot" in req["optrow"] or "aniso" in req["optrow"] or "iso2d" in req["optrow"]):
            unf = True
        if c["elem"] == "RANGE" and c["iv1"] >= 1 and (not aniso_inferable or "aniso" in req["optrow"]):
            unf = True
        if c["elem"] == "RANGE" and c["iv1"] == 2 and (not r3_inferable or "no3d" in req["optrow"]):
            unf = True
    dropped = bool(out) and "model" in out and len(out["model"]["covs"]) < len(req["types"])
    # a sill item whose structure (by type) is no longer in the returned model
    sill_on_dropped = False
    if dropped:
        kept = [c["type"] for c in out["model"]["covs"]]
        for c in req["cons"]:
            t = req["types"][c["icov"]]
            if c["elem"] == "SILL" and kept.count(t) < req["types"].count(t):
                sill_on_dropped = True
    rec = {"clause": None, "entry": req["entry"], "nvar": req["nvar"], "multivariate": req["nvar"] > 1, "ndim": ndim,
           "geom": req["geom"], "ndir": ndir, "recipe": req["recipe"], "empty": req["empty"],
           "types": "+".join(req["types"]), "nstruct": len(req["types"]), "consname": req["consname"], "conskinds": "+".join(kinds),
           "item_on_uninferred_parameter": unf, "structures_dropped": dropped,
           "iso2d_lock_effective": iso2d_effective, "no3d_lock_effective": no3d_effective, "sill_item_on_discarded_structure": sill_on_dropped,
           "csill": req["csill"] > 0, "optrow": "+".join(sorted(req["optrow"])), "maxiter": req["maxiter"],
           "wmode": req["wmode"], "truth": req["truthname"], "fails": fails}
    rec.update(flips)
    return rec


def run(tier):
    ck = Check("C17", "model_checking", tier)
    if os.environ.get("VERIF_C17_KNOWN"):          # trial runs against a repaired tree: another list of known findings
        with open(os.environ["VERIF_C17_KNOWN"]) as f:
            ck.known = [e for e in json.load(f).get("findings", []) if e.get("property") == "C17" and e.get("status") == "known"]
    try:
        return _run(ck, tier)
    except Broken:
        import shutil
        shutil.rmtree(ck.work, ignore_errors=True)
        raise


def _run(ck, tier):
    vlib.build_lib()
    exe = vlib.build_harness("fit_run")
    # 1. the request space
    res = vlib.run_tlc("MC_FitContract", "MC_FitContract_%s.cfg" % tier, workers=4, timeout=1200)
    if res.violation:
        raise Broken("MC_FitContract: the request space is not well formed:\n" + res.violation)
    ck.cov["states"] = res.distinct
    ck.cov["transitions"] = res.generated
    seen = {}
    for e in res.emitted:
        seen.setdefault(_key(e), e)
    reqs = []
    ids = set()
    for k in sorted(seen):
        e = dict(seen[k])
        i = zlib.crc32(k.encode()) & 0x3FFFFFFF       # stable identity: the pseudo-noise of a request does not depend on the tier
        while i in ids:
            i = (i + 1) & 0x3FFFFFFF
        ids.add(i)
        e["id"] = i
        reqs.append(e)
    if len(reqs) < 100:
        raise Broken("only %d requests emitted" % len(reqs))
    reqs.sort(key=lambda e: (_cost(e), e["id"]))
    ck.cov["requests"] = len(reqs)
    # 2. the real fits
    lp = run_requests(ck, exe, reqs, JOBS[tier])
    recs = vlib.read_ndjson(lp)
    keep = os.path.join(vlib.WORK, "C17-last-%s.ndjson" % tier)      # kept for inspection (overwritten by the next run)
    try:
        import shutil
        shutil.copyfile(lp, keep)
    except OSError:
        pass
    # 3. the verdicts
    jr = vlib.run_tlc("TraceFitContract", "TraceFitContract.cfg", workers=1, env={"FITLOG": lp}, timeout=1800)
    if jr.violation or "NOT-ALL-EXAMINED" in jr.stdout:
        raise Broken("TraceFitContract did not examine the whole log:\n" + (jr.violation or jr.stdout[-2000:]))
    ck.cov["states"] += jr.distinct
    ck.cov["transitions"] += jr.generated
    gaps = None
    rejected = []
    for e in jr.emitted:
        if "gaps" in e:
            gaps = e["gaps"]
        else:
            rejected.append(e)
    if gaps is None:
        raise Broken("TraceFitContract did not report the coverage gaps")
    judge_selftest(ck, recs, set(e["idx"] for e in rejected))
    nok = nfail = nexc = ncrash = 0
    per_entry = collections.defaultdict(lambda: [0, 0])
    slow = 0
    for r in recs:
        q = r["req"]
        if "crash" in r:
            ncrash += 1
            continue
        if "harness_error" in r["out"]:
            raise Broken("harness error on request %s: %s" % (q["id"], r["out"]["harness_error"]))
        if r["out"]["exception"]:
            nexc += 1
        if r["out"]["status"] == 0 and not r["out"]["exception"]:
            nok += 1
            per_entry["%s/nvar%d" % (q["entry"], q["nvar"])][0] += 1
        else:
            nfail += 1
            per_entry["%s/nvar%d" % (q["entry"], q["nvar"])][1] += 1
        if r["ms"] > 20000:
            slow += 1
    unlisted = set()          # records with at least one disagreement that is not a known finding
    listed = set()
    for e in rejected:
        r = recs[e["idx"] - 1]
        for clause in sorted(e["fails"]):
            rec = describe(r["req"], r.get("out"), sorted(e["fails"]))
            rec["clause"] = clause
            if "crash" in r:
                rec["crash"] = r["crash"]
            if ck.disagree(rec, {"request": r["req"], "outcome": r.get("out", {"crash": r.get("crash")}),
                                 "how": "fit_run <file with this request on one line> out.ndjson 0 1 %d <scratch dir>" % vlib.seed()}):
                unlisted.add(e["idx"])
            else:
                listed.add(e["idx"])
    # vacuity: every category of the request space (with every number of variables) has a successful fit, unless
    # every request of the category runs into a recorded known finding (then the category is not vacuous: it fails)
    blocked = []
    open_gaps = []
    for g in gaps:
        if g["idx"] and all(i in listed and i not in unlisted for i in g["idx"]):
            blocked.append(g["tag"])
        elif all(i in unlisted or i in listed for i in g["idx"]):
            pass                       # the violations reported above explain it
        else:
            open_gaps.append(g["tag"])
    if open_gaps:
        raise Broken("vacuous: no successful fit for the categories (nvar, tag...): %s" % json.dumps(open_gaps[:40]))
    ck.cov["categories_without_success_because_of_known_findings"] = blocked
    if nok < 0.5 * len(recs):
        raise Broken("vacuous: only %d of %d requests were fitted successfully" % (nok, len(recs)))
    ck.cov["traces_validated_against_impl"] = len(recs)
    ck.cov["evaluations"] = len(recs)
    ck.cov["distinct_nontrivial"] = nok
    ck.cov["fits_ok"] = nok
    ck.cov["fits_reported_failure"] = nfail
    ck.cov["of_which_exceptions"] = nexc
    ck.cov["crashes_or_hangs"] = ncrash
    ck.cov["requests_slower_than_20s"] = slow
    ck.cov["rejected_by_contract"] = len(rejected)
    ck.cov["per_entry_nvar_ok_fail"] = dict(per_entry)
    ck.cov["rule"] = ("request = base request (5 bases x nvar 1..3) varied in %s among entry point, geometry, true model, recipe, "
                      "empty lags, structures, constraint set, constant sill, option row, weighting, max iterations; each executed "
                      "on the real fitting entry points in its own process; each outcome judged by TLC with Violations(request, outcome); "
                      "TLC also lists the categories without a successful fit (none allowed)"
                      % ("one dimension" if tier == "quick" else "one dimension or one of the listed pairs of dimensions"))
    for r in recs[:: max(1, len(recs) // 4)][:4]:
        o = r.get("out", {})
        ck.sample({"request": {k: r["req"][k] for k in ("entry", "nvar", "geom", "recipe", "empty", "types", "consname", "csill", "optrow")},
                   "status": o.get("status"), "structures": [c["type"] for c in o.get("model", {}).get("covs", [])],
                   "min_eig_rel_1e-9": [c["eig"]["minrel"] for c in o.get("model", {}).get("covs", [])]})
    ck.assumptions += [
        "the optimiser is a black box: no claim about the quality of the fit, only the contract of the returned model",
        "experimental values are generated by the harness from closed-form nested models (deterministic pseudo-noise from VERIF_SEED), not computed from data",
        "tolerances (FitContract.tla): eigenvalue >= -1e-8 trace, constraint met to 2e-6 + 1e-6 |bound|, ranges equal to 1e-6, rotations to 2e-5, reload to 1e-9",
        "a C++ exception leaving the entry point counts as a reported failure; abort / crash / more than 600 s of CPU for one request is a violation",
        "angle constraints are judged modulo 180 degrees and only on anisotropic structures; one-sided angle bounds are not checkable",
        "requests refused by design (multivariate fit without Goulard, hence with a sill item; negative sill) are exempt from the vacuity guard"]
    log("[C17] %d requests: %d fitted, %d reported failure (%d by exception), %d crash/hang, %d rejected by the contract" %
        (len(recs), nok, nfail, nexc, ncrash, len(rejected)))
    return ck.finish()
