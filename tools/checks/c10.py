"""C10 -- results depend only on the arguments, not on what was called before.

Six TLA+ modules, each explored by TLC and replayed on the real objects:
  CopyIndep      class x copy mechanism x mutations of either object -> the other object's projection must not move
  KrigCalcCache  set/get histories of the lazy KrigingCalcul   -> vs freshly built object
  CovCache       optimised covariance evaluations on one Model -> vs pairwise loop / fresh Model
  NeighMemo      select() histories of a moving neighbourhood  -> vs freshly built neighbourhood
  CowVector      copy / modify histories of VectorT            -> vs value semantics computed by TLC
  ModelEdit      add / delete / filter structures of a Model   -> vs value semantics computed by TLC and a fresh Model
  Redefine       objects defined again (grid, DbGrid, Vario,   -> vs a new object defined with the last definition
                 CovAniso setters, ball-tree neighbourhood)
  Globals        (prefix, observed) call pairs                 -> two fresh processes, bit-identical
TLC checks the property on the intended protocol / the algorithm against its definition, predicts
the histories on which the transcription of the code would break it, and emits every history as a
replay script; the verdict comes from the replays.
"""
import json, os
import vlib
from vlib import Check, Broken, log
from checks import session_common

TOL = 1e-10


def cfg(ck, name, text):
    p = os.path.join(ck.work, name)
    open(p, "w").write(text)
    return p


def replay(ck, exe, mode, scripts, tag):
    sp = os.path.join(ck.work, tag + "_scripts.ndjson")
    op = os.path.join(ck.work, tag + "_obs.ndjson")
    vlib.write_ndjson(sp, scripts)
    open(op, "w").close()
    start, crashes = 0, []
    while True:
        r = vlib.run_harness(exe, [mode, sp, op, start], ok_codes=(0, 88), timeout=2400)
        if r.returncode == 0:
            break
        last = json.loads(open(op).read().strip().splitlines()[-1])
        crashes.append(last)
        start = last["script"]["idx"] + 1
        if len(crashes) > 20:
            raise Broken("more than 20 crashing scripts in " + tag)
    return [o for o in vlib.read_ndjson(op)]


def run(tier):
    ck = Check("C10", "model_checking", tier)
    vlib.build_lib()
    exe = vlib.build_harness("hist_run")
    gexe = vlib.build_harness("glob_run")
    thorough = tier == "thorough"
    states = trans = 0
    nscripts = 0
    predicted = {}

    # ---------------------------------------------------------------- KrigCalcCache
    c = cfg(ck, "kc.cfg", "SPECIFICATION Spec\nCONSTANTS\n  MaxLen = %d\n  Modes = {\"SK\", \"UK\", \"BAYES\", \"COLCOK\"}\n"
                          "INVARIANT FreshIntended\nCONSTRAINT EmitScripts\nCHECK_DEADLOCK FALSE\n" % (4 if thorough else 3))
    res = vlib.run_tlc("KrigCalcCache", c, workers=8, timeout=3000)
    if res.violation:
        raise Broken("KrigCalcCache: the intended invalidation protocol is not fresh:\n" + res.violation)
    states += res.distinct; trans += res.generated
    scripts = res.emitted
    predicted["KrigCalcCache"] = sum(1 for s in scripts if not s["predicted_fresh"])
    obs = replay(ck, exe, "krigcalc", scripts, "kc")
    nget = 0
    for o in obs:
        if "crash" in o:
            ck.disagree({"module": "KrigCalcCache", "kind": "crash"}, o); continue
        sc = scripts[o["idx"]]
        for ob in o["obs"]:
            nget += 1
            if ob["n"] == 0 and ob["nfresh"] == 0:
                continue
            if ob["reldiff"] > TOL or ob["n"] != ob["nfresh"]:
                ck.disagree({"module": "KrigCalcCache", "mode": sc["mode"], "style": sc.get("style", "address"), "getter": ob["g"],
                             "after": [h.get("g", h["op"]) for h in sc["hist"][:ob["step"] - 1]]},
                            {"script": sc, "observation": ob})
    if nget == 0:
        raise Broken("KrigCalcCache: nothing observed")
    nscripts += len(scripts)
    if not any(sc.get("style") == "inplace" for sc in scripts):
        raise Broken("KrigCalcCache: no in-place history")
    ck.cov["krigcalc_histories"] = len(scripts); ck.cov["krigcalc_getter_observations"] = nget
    ck.cov["krigcalc_styles"] = sorted(set(sc.get("style", "address") for sc in scripts))
    ck.sample({"module": "KrigCalcCache", "script": scripts[len(scripts) // 2]})
    log("[C10] KrigCalcCache: %d states, %d histories, %d getter observations" % (res.distinct, len(scripts), nget))

    # ---------------------------------------------------------------- CovCache
    c = cfg(ck, "cc.cfg", "SPECIFICATION Spec\nCONSTANTS\n  MaxLen = %d\n  EarlyReturnCleans = TRUE\nCONSTRAINT EmitScripts\nCHECK_DEADLOCK FALSE\n"
            % (4 if thorough else 3))
    res = vlib.run_tlc("CovCache", c, workers=8, timeout=3000)
    states += res.distinct; trans += res.generated
    scripts = res.emitted
    predicted["CovCache"] = sum(1 for s in scripts if not s["predicted_ok"])
    obs = replay(ck, exe, "covcache", scripts, "cc")
    nev = 0
    for o in obs:
        if "crash" in o:
            ck.disagree({"module": "CovCache", "kind": "crash"}, o); continue
        sc = scripts[o["idx"]]
        for ob in o["obs"]:
            nev += 1
            if ob["reldiff"] > TOL or ob["n"] != ob["nwant"]:
                ck.disagree({"module": "CovCache", "op": ob["op"],
                             "after": [[h["op"], h["db"], h["valid"]] for h in sc["hist"][:ob["step"] - 1]]},
                            {"script": sc, "observation": ob})
    nscripts += len(scripts)
    ck.cov["covcache_histories"] = len(scripts); ck.cov["covcache_evaluations"] = nev
    ck.sample({"module": "CovCache", "script": scripts[len(scripts) // 2]})
    log("[C10] CovCache: %d states, %d histories, %d evaluations" % (res.distinct, len(scripts), nev))

    # ---------------------------------------------------------------- NeighMemo
    c = cfg(ck, "nm.cfg", "SPECIFICATION Spec\nCONSTANTS\n  MaxLen = %d\n  MemoCleared = {\"setNMaxi\", \"setFlagXvalid\", \"setRankColCok\"}\n"
                          "CONSTRAINT EmitScripts\nCHECK_DEADLOCK FALSE\n" % (5 if thorough else 4))
    res = vlib.run_tlc("NeighMemo", c, workers=8, timeout=3000)
    states += res.distinct; trans += res.generated
    scripts = res.emitted
    predicted["NeighMemo"] = sum(1 for s in scripts if not s["predicted_fresh"])
    obs = replay(ck, exe, "neighmemo", scripts, "nm")
    nsel = 0
    for o in obs:
        if "crash" in o:
            ck.disagree({"module": "NeighMemo", "kind": "crash"}, o); continue
        sc = scripts[o["idx"]]
        earlier = []
        for ob in o["obs"]:
            nsel += 1
            if not ob["equal"]:
                # (is the answer the neighbourhood returned earlier in this history for another target?)
                stale = any(e["t"] != ob["t"] and e["got"] == ob["got"] for e in earlier)
                ck.disagree({"module": "NeighMemo", "layout": sc.get("layout", "plain"), "memo_of_previous_target": stale,
                             "after": [h["op"] for h in sc["hist"][:ob["step"] - 1]]},
                            {"script": sc, "observation": ob})
            earlier.append(ob)
    nscripts += len(scripts)
    if not any(sc.get("layout") == "sectors" for sc in scripts):
        raise Broken("NeighMemo: no history in the sectors layout")
    ck.cov["neighmemo_histories"] = len(scripts); ck.cov["neighmemo_selects"] = nsel
    ck.sample({"module": "NeighMemo", "script": scripts[len(scripts) // 2]})
    log("[C10] NeighMemo: %d states, %d histories, %d selects" % (res.distinct, len(scripts), nsel))

    # ---------------------------------------------------------------- ModelEdit
    c = cfg(ck, "me.cfg", "SPECIFICATION Spec\nCONSTANTS\n  MaxLen = %d\n  MaxCov = 3\nINVARIANTS Agree Distinct\nCONSTRAINT EmitScripts\nCHECK_DEADLOCK FALSE\n"
            % (5 if thorough else 4))
    res = vlib.run_tlc("ModelEdit", c, workers=8, timeout=3000)
    if res.violation:
        raise Broken("ModelEdit: the transcription of the parallel vectors violates value semantics in the model:\n" + res.violation)
    states += res.distinct; trans += res.generated
    scripts = res.emitted
    obs = replay(ck, exe, "modeledit", scripts, "me")
    nme = 0
    for o in obs:
        if "crash" in o:
            ck.disagree({"module": "ModelEdit", "kind": "crash"}, o); continue
        sc = scripts[o["idx"]]
        for k, st in enumerate(sc["hist"]):
            nme += 1
            got, fresh, exp = o["obs"][k]["got"], o["obs"][k]["fresh"], st["expect"]
            fails = []
            if got != exp:
                fails.append("differs-from-specification")
            if got != fresh:
                fails.append("differs-from-fresh-model")
            if fails:
                ck.disagree({"module": "ModelEdit", "op": st["op"], "fails": fails, "after": [h["op"] for h in sc["hist"][:k]]},
                            {"script": sc, "step": k, "observed": got, "fresh": fresh, "expected": exp})
    if nme == 0 or not any(st["op"] == "del" and any(c["f"] for c in st["expect"]["content"]) for sc in scripts for st in sc["hist"]):
        raise Broken("ModelEdit: no deletion in a model holding a filtered structure")
    nscripts += len(scripts)
    ck.cov["modeledit_histories"] = len(scripts); ck.cov["modeledit_steps_compared"] = nme
    ck.sample({"module": "ModelEdit", "script": scripts[len(scripts) // 2]})
    log("[C10] ModelEdit: %d states, %d histories, %d steps compared" % (res.distinct, len(scripts), nme))

    # ---------------------------------------------------------------- Redefine
    c = cfg(ck, "rd.cfg", "SPECIFICATION Spec\nCONSTANTS\n  MaxLen = %d\nINVARIANT Fresh\nCONSTRAINT EmitScripts\nCHECK_DEADLOCK FALSE\n" % (4 if thorough else 3))
    res = vlib.run_tlc("Redefine", c, workers=8, timeout=3000)
    if res.violation:
        raise Broken("Redefine: the model itself violates Fresh:\n" + res.violation)
    states += res.distinct; trans += res.generated
    scripts = res.emitted
    obs = replay(ck, exe, "redefine", scripts, "rd")
    nrd = 0
    seen_cls = set()
    for o in obs:
        if "crash" in o:
            ck.disagree({"module": "Redefine", "kind": "crash"}, o); continue
        sc = scripts[o["idx"]]
        seen_cls.add(sc["cls"])
        for k, st in enumerate(sc["hist"]):
            nrd += 1
            ob = o["obs"][k]
            if not ob["equal"]:
                prev = [h["d"] for h in sc["hist"][:k] if h["op"] == "define"]
                ck.disagree({"module": "Redefine", "class": sc["cls"], "op": st["op"], "definition": st["d"], "order": st["order"],
                             "previous_definition": prev[-1] if prev else None},
                            {"script": sc, "step": k, "observed": ob.get("got"), "fresh": ob.get("fresh")})
    if seen_cls != {"grid", "dbgrid", "vario", "covaniso", "ballneigh"}:
        raise Broken("Redefine: classes replayed: %s" % sorted(seen_cls))
    nscripts += len(scripts)
    ck.cov["redefine_histories"] = len(scripts); ck.cov["redefine_steps_compared"] = nrd
    ck.sample({"module": "Redefine", "script": scripts[len(scripts) // 2]})
    log("[C10] Redefine: %d states, %d histories, %d steps compared" % (res.distinct, len(scripts), nrd))

    # ---------------------------------------------------------------- CowVector
    c = cfg(ck, "cow.cfg", "SPECIFICATION Spec\nCONSTANTS\n  MaxLen = 2\n  MaxSize = 3\nINVARIANT Agree\nPROPERTY Isolation\n"
                           "CONSTRAINT EmitScripts\nCHECK_DEADLOCK FALSE\n")
    res = vlib.run_tlc("CowVector", c, workers=8, timeout=3000)
    if res.violation:
        raise Broken("CowVector: the transcription of the copy-on-write algorithm violates value semantics in the model:\n" + res.violation)
    states += res.distinct; trans += res.generated
    scripts = res.emitted
    if thorough:
        c3 = cfg(ck, "cow3.cfg", "SPECIFICATION Spec\nCONSTANTS\n  MaxLen = 4\n  MaxSize = 3\nINVARIANT Agree\n"
                                 "CONSTRAINT EmitScripts\nCHECK_DEADLOCK FALSE\n")
        r3 = vlib.run_tlc("CowVector", c3, workers=8, timeout=3000, simulate=300, depth=5)   # (per worker; 3.2 million histories with 4000: 33 GB in the driver)
        scripts = scripts + r3.emitted
        states += r3.generated
    obs = replay(ck, exe, "cow", scripts, "cow")
    nst = 0
    for o in obs:
        if "crash" in o:
            ck.disagree({"module": "CowVector", "kind": "crash"}, o); continue
        sc = scripts[o["idx"]]
        for cls, ob in o["obs"].items():
            for k, st in enumerate(sc["hist"]):
                nst += 1
                # (-1 in the expectation = any value: result of a random in-place helper)
                exp = st["expect"]
                same = set(ob[k]) == set(exp) and all(len(ob[k][h]) == len(exp[h]) and all(e == -1 or e == v for e, v in zip(exp[h], ob[k][h])) for h in exp)
                if not same:
                    ck.disagree({"module": "CowVector", "class": cls, "op": st["op"], "method": st.get("m") or st.get("k")},
                                {"script": sc, "step": k, "observed": ob[k], "expected": st["expect"]})
    nscripts += len(scripts)
    if not any(st["op"] == "helper" for sc in scripts for st in sc["hist"]):
        raise Broken("CowVector: no in-place helper in the histories")
    ck.cov["cow_histories"] = len(scripts); ck.cov["cow_steps_compared"] = nst
    ck.sample({"module": "CowVector", "script": scripts[len(scripts) // 2]})
    log("[C10] CowVector: %d histories, %d steps compared" % (len(scripts), nst))

    # ---------------------------------------------------------------- CopyIndep
    c = cfg(ck, "ci.cfg", "SPECIFICATION Spec\nCONSTANT MaxLen = %d\nPROPERTY Independent\nCONSTRAINT EmitScripts\nCHECK_DEADLOCK FALSE\n" % (3 if thorough else 2))
    res = vlib.run_tlc("CopyIndep", c, workers=8, timeout=3000)
    if res.violation:
        raise Broken("CopyIndep: " + res.violation)
    states += res.distinct; trans += res.generated
    scripts = res.emitted
    obs = replay(ck, exe, "copy", scripts, "ci")
    nsteps = 0
    effective = {}
    for o in obs:
        if "crash" in o:
            sc = o["script"]
            ck.disagree({"module": "CopyIndep", "kind": "crash", "class": sc["cls"], "copy": sc["kind"]}, o); continue
        sc = scripts[o["idx"]]
        if not o["obs"][0]["equal_after_copy"]:
            ck.disagree({"module": "CopyIndep", "class": sc["cls"], "copy": sc["kind"], "what": "copy differs from its source"}, {"script": sc})
        for st, ob in zip(sc["hist"], o["obs"][1:]):
            nsteps += 1
            other = ob["cpy_changed"] if st["who"] == "src" else ob["src_changed"]
            own = ob["src_changed"] if st["who"] == "src" else ob["cpy_changed"]
            if own:
                effective[(sc["cls"], st["m"])] = True
            else:
                effective.setdefault((sc["cls"], st["m"]), False)
            if other:
                ck.disagree({"module": "CopyIndep", "class": sc["cls"], "copy": sc["kind"], "mutator": st["m"], "applied_to": st["who"]},
                            {"script": sc, "observation": ob})
    dead = sorted("%s.%s" % k for k, v in effective.items() if not v)
    if dead:
        raise Broken("CopyIndep: mutators that never changed their own object (vacuous): %s" % dead)
    nscripts += len(scripts)
    ck.cov["copy_histories"] = len(scripts); ck.cov["copy_steps_observed"] = nsteps
    ck.sample({"module": "CopyIndep", "script": scripts[len(scripts) // 2]})
    log("[C10] CopyIndep: %d histories over %d classes, %d steps observed" % (len(scripts), len(set(s["cls"] for s in scripts)), nsteps))

    # ---------------------------------------------------------------- Globals
    c = cfg(ck, "g.cfg", "SPECIFICATION Spec\nCONSTANT MaxPrefix = %d\nCONSTRAINT EmitScripts\nCHECK_DEADLOCK FALSE\n" % (2 if thorough else 1))
    res = vlib.run_tlc("Globals", c, workers=8, timeout=3000)
    states += res.distinct; trans += res.generated
    scripts = res.emitted
    predicted["Globals"] = sum(1 for s in scripts if not s["predicted_independent"])
    sp = os.path.join(ck.work, "g_scripts.ndjson"); op = os.path.join(ck.work, "g_obs.ndjson")
    vlib.write_ndjson(sp, scripts)
    vlib.run_harness(gexe, [sp, op], timeout=3000)
    nempty = {}
    for o in vlib.read_ndjson(op):
        sc = scripts[o["idx"]]
        if o["crash_alone"] or o["crash_with_prefix"]:
            ck.disagree({"module": "Globals", "kind": "crash", "observed": sc["observed"], "prefix": sc["prefix"],
                         "alone": o["crash_alone"]}, {"script": sc, "result": o})
            continue
        if o["alone"]["n"] == 0:
            nempty[sc["observed"]] = True
        if o["with_prefix"]["hash"] != o["alone"]["hash"]:
            ck.disagree({"module": "Globals", "observed": sc["observed"], "prefix": sc["prefix"]}, {"script": sc, "result": o})
    if nempty:
        raise Broken("Globals: observed calls returning nothing (vacuous): %s" % sorted(nempty))
    nscripts += len(scripts)
    ck.cov["globals_pairs"] = len(scripts)
    ck.sample({"module": "Globals", "script": scripts[len(scripts) // 2]})
    log("[C10] Globals: %d (prefix, observed) pairs" % len(scripts))

    # ---------------------------------------------------------------- Session (cross-module freshness)
    ss = session_common.run_sessions(ck, tier)
    for ses, d in ss["fresh"]:
        if not (d <= 1e-10):
            ck.disagree({"module": "Session", "what": "final estimation differs from a session rebuilt from the final content"},
                        {"session": [h["op"]["name"] for h in ses["hist"]], "max_abs_diff": d})
    states += ss["states"]; trans += ss["transitions"]; nscripts += len(ss["fresh"])
    ck.cov["session_final_estimations_compared"] = len(ss["fresh"])

    ck.cov["states"] = states
    ck.cov["transitions"] = trans
    ck.cov["traces_validated_against_impl"] = nscripts
    ck.cov["stale_histories_predicted_by_the_transcribed_models"] = predicted
    ck.cov["rule"] = ("every history within the bounds of each module is emitted by TLC and replayed on the real objects; each observed "
                      "call is compared with the same call on a freshly built object / in a fresh process")
    ck.assumptions += ["numeric results compared to 1e-10 relative (same code path, same inputs: differences come from stale state only)",
                       "Globals: results compared bit-wise between two processes of the same binary"]
    return ck.finish()
