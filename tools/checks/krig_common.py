"""Shared driver of C01 / C02: configurations from KrigingSystem.tla, concretised runs through krig_run."""
import json, os, subprocess
import vlib
from vlib import Broken, log

NBFL = None


def configs(ck, tier):
    if tier == "quick":
        consts = dict(nvar=2, ns=3, drifts='{"SK", "OK", "LIN", "EXT"}', verr="{FALSE, TRUE}", targets='{"point", "block"}',
                      ndims="{2}", bigns="{7}")
    else:
        consts = dict(nvar=2, ns=4, drifts='{"SK", "OK", "LIN", "EXT", "QUAD"}', verr="{FALSE, TRUE}", targets='{"point", "block"}',
                      ndims="{1, 2, 3}", bigns="{6, 7}")
    cfg = os.path.join(ck.work, "ks.cfg")
    open(cfg, "w").write("SPECIFICATION Spec\nCONSTANTS\n  MaxNvar = %(nvar)d\n  MaxNs = %(ns)d\n  Drifts = %(drifts)s\n  WithVerr = %(verr)s\n"
                         "  Targets = %(targets)s\n  Ndims = %(ndims)s\n  BigNs = %(bigns)s\nINVARIANT AlgEqualsDef Symmetric Count HasUniversality PermuteLaw ExactLaw UniversalityLaw\nCONSTRAINT Emit\nCHECK_DEADLOCK FALSE\n" % consts)
    res = vlib.run_tlc("KrigingSystem", cfg, workers=8, timeout=3000)
    if res.violation:
        raise Broken("KrigingSystem.tla: the transcription of the system assembly differs from the definition:\n" + res.violation)
    ck.cov["states"] = res.distinct
    ck.cov["transitions"] = res.generated
    return res.emitted


def authorized(c):
    """the system is solvable: every variable has at least as many data as drift functions (and >= 1)"""
    cfg = c["cfg"]
    nb = len(cfg["funcs"])
    for v in range(cfg["nvar"]):
        nd = sum(1 for s in range(cfg["ns"]) if cfg["def"][s][v])
        if nd < max(1, nb):
            return False
    # three samples on LIN: the three fixed locations are not aligned, fine; two functions need 2 data
    return True


def run_cases(ck, cases, tag):
    exe = vlib.build_harness("krig_run")
    cp = os.path.join(ck.work, tag + "_cases.ndjson")
    vlib.write_ndjson(cp, cases)
    nproc = min(vlib.NCPU, max(1, len(cases) // 50))
    chunk = (len(cases) + nproc - 1) // nproc
    procs = []
    for k in range(nproc):
        op = os.path.join(ck.work, "%s_obs_%d.ndjson" % (tag, k))
        open(op, "w").close()
        procs.append((k, op))
    out = []
    running = []
    for k, op in procs:
        running.append((k, op, subprocess.Popen([exe, cp, op, str(k * chunk), str(chunk)], stdout=subprocess.DEVNULL, stderr=subprocess.PIPE)))
    for k, op, p in running:
        first = k * chunk
        while True:
            try:
                _, err = p.communicate(timeout=2400)
            except subprocess.TimeoutExpired:
                p.kill()
                raise Broken("krig_run timed out")
            if p.returncode == 0:
                break
            if p.returncode != 88:
                raise Broken("krig_run failed (exit %s): %s" % (p.returncode, err[-500:]))
            last = json.loads(open(op).read().strip().splitlines()[-1])
            nxt = last["case"]["idx"] + 1
            remaining = first + chunk - nxt
            if remaining <= 0:
                break
            p = subprocess.Popen([exe, cp, op, str(nxt), str(remaining)], stdout=subprocess.DEVNULL, stderr=subprocess.PIPE)
        out += vlib.read_ndjson(op)
    return out
