"""C02 -- kriging is exact, unbiased, linear and invariant under relabelling.

Same configurations as C01 (KrigingSystem.tla).  The specification states the relations the input
transformations induce on the solution of the documented system (Permute / Translate leave every
term unchanged; AddDrift changes Z only and, the universality rows X^t lambda = X0 being part of the
system, adds the same combination at the target; the solution is linear in Z; a target on a datum
without measurement error makes the right-hand side a column of the left-hand side, hence the unit
weight vector).  krig_run executes the pairs of real runs and measures the relations.
"""
import vlib
from vlib import Check, Broken, log
from checks import krig_common as kc

TOL = 1e-9


def run(tier):
    ck = Check("C02", "model_checking", tier)
    vlib.build_lib()
    confs = kc.configs(ck, tier)
    cases = []
    skipped = 0
    for c in confs:
        if not kc.authorized(c):
            skipped += 1
            continue
        for nk in ("unique", "moving"):
            for im in (0, 1, 2):
                if tier == "quick" and c["cfg"]["ns"] < 3 and im == 1:
                    continue
                cases.append({"cfg": c["cfg"], "run": {"mode": "meta", "neigh": nk, "model": im}})
                if c["cfg"]["target"] == "point" and c["cfg"]["ndim"] >= 2 and c["cfg"]["drift"] != "SK" and im != 1:
                    cases.append({"cfg": c["cfg"], "run": {"mode": "meta", "neigh": nk, "model": im, "tgrid": True}})
                if c["cfg"]["target"] == "point" and not c["cfg"]["verr"]:
                    cases.append({"cfg": c["cfg"], "run": {"mode": "exact", "neigh": nk, "model": im}})
                # exactness with angular sectors and a binding nmaxi (extra samples around the cluster): the datum on the
                # target is the closest sample of its sector and must always be retained
                if nk == "moving" and c["cfg"]["target"] == "point" and not c["cfg"]["verr"] and c["cfg"]["ndim"] >= 2 and im == 0 \
                        and c["cfg"]["drift"] in ("SK", "OK"):
                    cases.append({"cfg": c["cfg"], "run": {"mode": "exact", "neigh": nk, "model": im, "sectors": True}})
                # one error variance per variable, the second variable error free: exact for that variable
                if c["cfg"]["target"] == "point" and c["cfg"]["verr"] and c["cfg"]["nvar"] == 2 and im != 2:
                    cases.append({"cfg": c["cfg"], "run": {"mode": "exact", "neigh": nk, "model": im, "v2zero": True}})
    obs = kc.run_cases(ck, cases, "c02")
    counts = {}
    for o in obs:
        if "crash" in o:
            cs = cases[o["case"]["idx"]]
            ck.disagree({"kind": "crash", "mode": cs["run"]["mode"], "drift": cs["cfg"]["drift"]}, {"case": cs, "signal": o["crash"]})
            continue
        cs = cases[o["idx"]]
        cfg = cs["cfg"]
        ob = o["obs"]
        fails = []
        if ob["err"] != 0:
            fails.append("kriging-error-code")
        elif cs["run"]["mode"] == "meta":
            if not ob["finite"]:
                fails.append("finite-nonnegative")
            for k in ("perm_est", "perm_sd2", "trans_est", "trans_sd", "lin_est", "lin_sd", "drift_est", "drift_sd"):
                if k in ob:
                    counts[k] = counts.get(k, 0) + 1
                    # a translation by ~100 units multiplies the condition number of the drift block by ~shift^(2 x order):
                    # the round-off of an exactly invariant result grows accordingly (up to 3e-6 measured with a quadratic drift, block target)
                    tol = TOL if not k.startswith("trans_") else {"QUAD": 1e-4, "LIN": 1e-7}.get(cfg["drift"], TOL)
                    if not (ob[k] <= tol):
                        fails.append(k)
            if "sumw" in ob and ob["sumw_n"] > 0:
                counts["sumw"] = counts.get("sumw", 0) + 1
                if not (ob["sumw"] <= 1e-8):
                    fails.append("weights-do-not-reproduce-the-constant")
        else:
            counts["exact"] = counts.get("exact", 0) + (1 if ob["n"] > 0 else 0)
            if cs["run"].get("v2zero"):
                counts["exact_error_free_variable"] = counts.get("exact_error_free_variable", 0) + (1 if ob["n"] > 0 else 0)
            if cs["run"].get("sectors"):
                counts["exact_with_sectors"] = counts.get("exact_with_sectors", 0) + (1 if ob["n"] > 0 else 0)
            if ob.get("nfar"):
                counts["exact_changing_neighbourhoods"] = counts.get("exact_changing_neighbourhoods", 0) + 1
            if not ob.get("finite", True):
                fails.append("finite-nonnegative")
            # nugget component: exactness holds for the data (zero distance counted on both sides)
            if ob["n"] > 0 and not (ob["exact_est"] <= 1e-8):
                fails.append("exact_est")
            if ob["n"] > 0 and not (ob["exact_sd_rel"] <= 1e-5):
                fails.append("exact_sd")
            if not ob["sk_bounded"]:
                fails.append("sk-variance-exceeds-prior")
        if fails:
            ck.disagree({"kind": cs["run"]["mode"], "drift": cfg["drift"], "nvar": cfg["nvar"], "target": cfg["target"],
                         "neigh": cs["run"]["neigh"], "verr": cfg["verr"], "fails": sorted(fails)}, {"case": cs, "observed": ob})
    for k in ("perm_est", "trans_est", "lin_est", "drift_est", "sumw", "exact", "exact_error_free_variable", "exact_changing_neighbourhoods", "exact_with_sectors"):
        if counts.get(k, 0) == 0:
            raise Broken("vacuous: relation %s never evaluated" % k)
    ck.cov["traces_validated_against_impl"] = len(obs)
    ck.cov["relations_evaluated"] = counts
    ck.cov["configurations_not_solvable_skipped"] = skipped
    ck.cov["rule"] = "configuration (from TLC) x neighbourhood kind x model; each relation = a pair (or triple) of real kriging runs compared as the specification prescribes"
    ck.sample({"cfg": cases[0]["cfg"], "run": cases[0]["run"]})
    ck.sample({"cfg": cases[len(cases) // 2]["cfg"], "run": cases[len(cases) // 2]["run"]})
    ck.assumptions += ["standard deviations compared with an absolute floor of 1e-3 (an exact estimate has a standard deviation that is the square root of a round-off)",
                       "translation invariance is not evaluated with an external drift given as data (the drift values move with the points by construction)"]
    log("[C02] %d cases, relations evaluated: %s" % (len(obs), counts))
    return ck.finish()
