"""C01 -- kriging output is the solution of the documented (co)kriging system.

TLC (KrigingSystem.tla) enumerates the configurations (variables, neighbourhood samples, pattern of
undefined values, drift, measurement errors, target kind), checks that the transcription of the
assembly of KrigingSystem.cpp equals the system of doc/references/Kriging.md, and emits each
configuration with its symbolic system.  krig_run evaluates the terms with point-wise functions and
measures the real krigtest() / kriging() results against it.
"""
import vlib
from vlib import Check, Broken, log
from checks import krig_common as kc

TOL = {"cvv_diff": 1e-10, "lhs_diff": 1e-10, "rhs_diff": 1e-10, "residual": 1e-9, "estim_diff": 1e-9, "stdev_var_diff": 1e-9, "c00_diff": 1e-12}


def run(tier):
    ck = Check("C01", "model_checking", tier)
    vlib.build_lib()
    confs = kc.configs(ck, tier)
    cases = []
    skipped = 0
    for c in confs:
        if not kc.authorized(c):
            skipped += 1
            continue
        for nk in ("unique", "moving"):
            for im in (0, 1, 2):
                for tg in (0, 1):
                    if tier == "quick" and (im + tg + (1 if nk == "moving" else 0)) % 2 == 1 and c["cfg"]["ns"] < 3:
                        continue
                    cases.append({"cfg": c["cfg"], "sys": c["sys"], "run": {"mode": "system", "neigh": nk, "model": im, "target": tg, "perm": 0}})
                    # the same point kriging at the nodes of a ROTATED grid (the drift must be evaluated at the real node)
                    if c["cfg"]["target"] == "point" and c["cfg"]["ndim"] >= 2 and im == (tg + 1) % 3:
                        cases.append({"cfg": c["cfg"], "sys": c["sys"], "run": {"mode": "system", "neigh": nk, "model": im, "target": tg,
                                                                              "perm": 0, "tgrid": True}})
        # block support defined per target cell (krigcell / flagPerCell): second cell with its own extension
        if c["cfg"]["target"] == "block":
            for nk in ("unique", "moving"):
                for tg in (0, 1):
                    cases.append({"cfg": c["cfg"], "sys": c["sys"], "run": {"mode": "system", "neigh": nk, "model": (tg + 1) % 3, "target": tg, "perm": 0, "percell": True}})
        # a target lying exactly on a datum (the discontinuous structures contribute to the right-hand side there)
        if c["cfg"]["target"] == "point":
            for nk in ("unique", "moving"):
                im = 1   # the model with a nugget effect
                cases.append({"cfg": c["cfg"], "sys": c["sys"], "run": {"mode": "system", "neigh": nk, "model": im, "target": 1, "perm": 0, "tcoin": True}})
        # consecutive targets with different neighbourhoods in one run (first one possibly heterotopic)
        # (the second cluster holds 4 samples: not enough for the functions of a quadratic drift)
        if c["cfg"]["target"] == "point" and c["cfg"]["drift"] != "QUAD":
            for im in (0, 1):
                cases.append({"cfg": c["cfg"], "sys": c["sys"], "run": {"mode": "cluster", "neigh": "moving", "model": im}})
    if not cases:
        raise Broken("no case")
    obs = kc.run_cases(ck, cases, "c01")
    cat = {}
    nchecked = 0
    ncluster = 0
    for o in obs:
        if "crash" in o:
            cs = cases[o["case"]["idx"]]
            ck.disagree({"kind": "crash", "drift": cs["cfg"]["drift"], "target": cs["cfg"]["target"]}, {"case": cs, "signal": o["crash"]})
            continue
        cs = cases[o["idx"]]
        cfg = cs["cfg"]
        ob = o["obs"]
        if cs["run"]["mode"] == "cluster":
            ncluster += 1
            fails = []
            if ob["err"] != 0 or ob["errB"] != 0:
                fails.append("kriging-error-code")
            else:
                if not ob["finite"]:
                    fails.append("undefined-or-non-finite-result")
                if not (ob["cluster_est"] <= 1e-9):
                    fails.append("cluster_est")
                if not (ob["cluster_var"] <= 1e-9):
                    fails.append("cluster_var")
            if fails:
                ck.disagree({"kind": "cluster", "drift": cfg["drift"], "nvar": cfg["nvar"], "verr": cfg["verr"], "fails": fails},
                            {"case": {"cfg": cfg, "run": cs["run"]}, "observed": ob})
            continue
        key = (cfg["drift"], cfg["nvar"], cfg["target"], cs["run"]["neigh"], "hetero" if not all(all(r) for r in cfg["def"]) else "iso", cfg["verr"])
        cat[key] = cat.get(key, 0) + 1
        fails = []
        if not ob.get("shapes_ok"):
            fails.append("shape/neq (expected %s equations, got %s)" % (ob.get("neq_expected"), ob.get("neq")))
        else:
            if not ob["nbgh_ok"]:
                fails.append("neighbourhood")
            if ob["kriging_err"] != 0:
                fails.append("kriging-error-code")
            if not ob["finite"]:
                fails.append("non-finite-or-negative-output")
            for k, t in TOL.items():
                if k in ob and not (ob[k] <= t):
                    fails.append(k)
            if not cfg["verr"] and not (ob["varz_diff"] <= 1e-9):
                fails.append("varz_diff")
        nchecked += 1
        if fails:
            ck.disagree({"kind": "system", "drift": cfg["drift"], "nvar": cfg["nvar"], "target": cfg["target"], "neigh": cs["run"]["neigh"],
                         "verr": cfg["verr"], "fails": sorted(f.split(" ")[0] for f in fails)}, {"case": cs, "observed": ob, "fails": fails})
    for d in ("SK", "OK", "LIN", "EXT"):
        for tg in ("point", "block"):
            if not any(k[0] == d and k[2] == tg for k in cat):
                raise Broken("vacuous: no case for drift %s target %s" % (d, tg))
    if not any(cs["run"].get("percell") for cs in cases):
        raise Broken("vacuous: no per-cell block case")
    ck.cov["per_cell_block_runs"] = sum(1 for cs in cases if cs["run"].get("percell"))
    if ncluster == 0:
        raise Broken("vacuous: no two-cluster case")
    ck.cov["two_cluster_runs"] = ncluster
    ck.cov["traces_validated_against_impl"] = nchecked + ncluster
    ck.cov["configurations"] = len(confs)
    ck.cov["configurations_not_solvable_skipped"] = skipped
    ck.cov["cases_per_category"] = {"/".join(map(str, k)): v for k, v in sorted(cat.items())}
    ck.cov["rule"] = ("configuration (from TLC) x neighbourhood kind x model (3) x target (2); each concretised on fixed irregular locations; "
                      "lhs/rhs compared entry by entry with the independently evaluated terms, weights verified by residual, outputs by the documented formulas")
    ck.sample({"cfg": cases[0]["cfg"], "eqs": cases[0]["sys"]["eqs"], "run": cases[0]["run"]})
    ck.sample({"cfg": cases[len(cases) // 2]["cfg"], "eqs": cases[len(cases) // 2]["sys"]["eqs"], "run": cases[len(cases) // 2]["run"]})
    ck.assumptions += ["covariance terms are evaluated with Model::eval on two points (the covariance functions themselves are C03, not claimed)",
                       "variance of the estimator compared only without measurement errors (the document does not say which Sigma applies with them)",
                       "block variance C00 taken from krigtest().var (randomised discretisation); block rhs recomputed on the regular discretisation"]
    log("[C01] %d configurations, %d cases checked, %d skipped (not solvable)" % (len(confs), nchecked, skipped))
    return ck.finish()
