"""C11 -- matrix and vector classes compute what linear algebra defines, in every storage.

1. TLC explores the register machine of MatrixAlg.tla (operation sequences on integer / rational
   matrices from the index-coded, 0/1, sparse-pattern, symmetric, L L^T families) and checks the
   algebraic identities that guard the operators of the specification (invariants), the laws of
   inversion / solve and the Kronecker inflation laws (action properties).
2. TLC emits every behaviour (history of operations + expected registers + storages in which the
   step is promised); harness matrix_run replays them into MatrixRectangular, MatrixSquareGeneral,
   MatrixSquareSymmetric, MatrixSparse (Eigen and cs back-ends) through every public route of each
   operation and compares what the real objects hold with the expected values.
3. Factorisation cases (Cholesky dense / sparse, LU, eigen) and vector-helper cases are emitted by
   TLC from MatrixAlgChol.tla / MatrixAlgVec.tla and bound the same way.
4. Thorough tier: longer sequences, all families at depth 2, thread counts 1/4/16 and Kronecker
   inflations A (x) J_n, A (x) I_n of the emitted transitions.
"""
import json, os, re, subprocess, time, collections
import vlib
from vlib import Check, Broken, log

PID = "C11"
WORKERS = int(os.environ.get("VERIF_TLC_WORKERS", "0")) or None
NPROC = int(os.environ.get("VERIF_HARNESS_PROCS", "8"))

MC_CFG = """SPECIFICATION Spec
CONSTANTS
  MaxLen = %(maxlen)d
  InitLevel = "%(init)s"
  OpsLevel = "%(ops)s"
  Limit = 20000
  Emit = %(emit)s
%(extra)sCHECK_DEADLOCK FALSE
"""
INVARIANTS = ("INVARIANT Inv_TransposeInvolution Inv_ProductTranspose Inv_IdentityNeutral Inv_MatVecIsProduct "
              "Inv_Associative\nINVARIANT Inv_Congruence Inv_Scaling Inv_Sampling Inv_Inverse Inv_Rational\n"
              "PROPERTY SolveLaw InvertLaw KronLaw\n")

_id_re = re.compile(r'^"\{\\"id\\":(\d+),')


def tlc_stream(module, cfg, outdir, tag, nbuckets, workers=None, timeout=3000, key_re=_id_re):
    """Runs TLC and distributes the JSON lines it prints over bucket files (by the id of the initial
    state / case) without decoding them.  Returns (generated, distinct, wall, bucket paths, nlines)."""
    md = os.path.join(outdir, "md_" + tag)
    cmd = ["tlc", "-workers", str(workers or vlib.NCPU), "-metadir", md, "-config", cfg, module + ".tla"]
    paths = [os.path.join(outdir, "%s_%02d.ndjson" % (tag, b)) for b in range(nbuckets)]
    files = [open(p, "w") for p in paths]
    t0 = time.time()
    other = []
    n = 0
    e = dict(os.environ)
    e["JAVA_TOOL_OPTIONS"] = (e.get("JAVA_TOOL_OPTIONS", "") + " -Xmx6g -Xss128m -XX:+UseParallelGC").strip()
    p = subprocess.Popen(cmd, cwd=vlib.SPEC, env=e, stdout=subprocess.PIPE, stderr=subprocess.STDOUT, text=True)
    try:
        for line in p.stdout:
            m = key_re.match(line)
            if m:
                files[int(m.group(1)) % nbuckets].write(line)
                n += 1
            else:
                other.append(line.rstrip("\n"))
            if time.time() - t0 > timeout:
                p.kill()
                raise Broken("TLC timeout on %s" % module)
        p.wait()
    finally:
        for f in files:
            f.close()
        subprocess.run(["rm", "-rf", md])
        for f in os.listdir(vlib.SPEC):
            if "_TTrace_" in f:
                try:
                    os.remove(os.path.join(vlib.SPEC, f))
                except OSError:
                    pass
    out = "\n".join(other)
    if p.returncode != 0 or "Error:" in out:
        raise Broken("TLC failed on %s/%s:\n%s" % (module, cfg, "\n".join(
            l for l in other if not l.startswith(("Parsing", "Semantic", "Linting")))[-3000:]))
    m = re.search(r"(\d[\d,]*) states generated, (\d[\d,]*) distinct states found", out)
    gen, dis = (int(m.group(1).replace(",", "")), int(m.group(2).replace(",", ""))) if m else (0, 0)
    return gen, dis, time.time() - t0, paths, n


def run_parallel(jobs, nproc):
    """jobs: list of (argv, label).  Runs them nproc at a time; returns list of (label, returncode, stderr)."""
    pending = list(jobs)
    running = []
    done = []
    while pending or running:
        while pending and len(running) < nproc:
            argv, label = pending.pop(0)
            running.append((subprocess.Popen(argv, stdout=subprocess.DEVNULL, stderr=subprocess.PIPE, text=True,
                                             env=dict(os.environ, OMP_WAIT_POLICY="passive")), label))
        still = []
        for pr, label in running:
            if pr.poll() is None:
                still.append((pr, label))
            else:
                done.append((label, pr.returncode, pr.stderr.read()[-2000:]))
        running = still
        if running:
            time.sleep(0.05)
    return done


def isolate_file(ck):
    """Routes of known findings that write outside their buffers are replayed in isolated processes."""
    path = os.path.join(ck.work, "isolate.txt")
    with open(path, "w") as f:
        for k in ck.known:
            for sig in k.get("isolate", []):
                f.write(sig + "\n")
    return path


def noinflate_file(ck):
    """Routes of the recorded findings are not replayed on inflated operands (they are wrong on the small
    operands already, and several of them write outside their buffers)."""
    path = os.path.join(ck.work, "noinflate.txt")
    aslist = lambda x: x if isinstance(x, list) else [x]
    with open(path, "w") as f:
        for k in ck.known:
            m = k.get("match", {})
            if "op" in m and "route" in m:
                for op in aslist(m["op"]):
                    for st in aslist(m.get("storage", ["rect", "sqg", "sym", "spe", "spc"])):
                        for rt in aslist(m["route"]):
                            f.write("%s|%s|%s\n" % (op, st, rt))
    return path


def classify(rec):
    """The keys on which known findings are matched (narrow: operation + route + storage + shape class)."""
    return {"kind": rec.get("kind"), "op": rec.get("op"), "storage": rec.get("storage"), "route": rec.get("route"),
            "shape": rec.get("shape"), "transpose": rec.get("transpose"), "symptom": rec.get("symptom", ""),
            "what": rec.get("what"), "nonsquare": rec.get("shape") != "square", "variant": rec.get("variant", ""),
            "route_family": (rec.get("route") or "").split(" [")[0], "nonsquareB": rec.get("shapeB", "square") != "square",
            "case": rec.get("case", "")}


def collect(ck, outs, stats_total, samples_key=None):
    nrec = 0
    for path in outs:
        if not os.path.exists(path):
            raise Broken("harness output missing: " + path)
        got_stats = False
        with open(path) as f:
            for line in f:
                line = line.strip()
                if not line:
                    continue
                r = json.loads(line)
                if "stats" in r:
                    got_stats = True
                    for k, v in r["stats"].items():
                        if k in ("omp_max_threads", "eigen_threads", "omp_max_threads_seen"):
                            stats_total[k] = max(stats_total.get(k, 0), v)
                        else:
                            stats_total[k] = stats_total.get(k, 0) + v
                    continue
                nrec += 1
                c = classify(r)
                replay = {k: r[k] for k in ("id", "h", "pre", "expected", "observed", "note", "class", "variant", "case", "input")
                          if k in r}
                ck.disagree(c, replay)
        if not got_stats:
            raise Broken("harness output truncated: " + path)
    return nrec


def machine_phase(ck, exe, tag, maxlen, init, ops, nbuckets, harness_opts=(), emit_workers=None, nproc=None):
    """Emission by TLC + replay into the real classes."""
    cfg = os.path.join(ck.work, "emit_%s.cfg" % tag)
    open(cfg, "w").write(MC_CFG % dict(maxlen=maxlen, init=init, ops=ops, emit="TRUE", extra="CONSTRAINT EmitState\n"))
    gen, dis, wall, buckets, n = tlc_stream("MC_MatrixAlg", cfg, ck.work, tag, nbuckets, workers=emit_workers or WORKERS)
    log("[C11] %s: TLC emitted %d behaviours (%d states) in %.1fs" % (tag, n, dis, wall))
    if n == 0 or n != dis:
        raise Broken("emission of %s incomplete: %d lines for %d states" % (tag, n, dis))
    iso = isolate_file(ck)
    jobs = []
    outs = []
    for b in buckets:
        if os.path.getsize(b) == 0:
            continue
        o = b.replace(".ndjson", ".out")
        outs.append(o)
        jobs.append(([exe, "machine", b, o, "isolate=" + iso, "noinflate=" + noinflate_file(ck)] + list(harness_opts), b))
    t0 = time.time()
    res = run_parallel(jobs, nproc or NPROC)
    for label, rc, err in res:
        if rc != 0:
            raise Broken("matrix_run failed on %s (exit %s): %s" % (label, rc, err))
    stats = {}
    nrec = collect(ck, outs, stats)
    log("[C11] %s: replay of %d nodes in %.1fs: %d steps, %d routes executed, %d disagreement records" %
        (tag, stats.get("nodes", 0), time.time() - t0, stats.get("steps", 0), stats.get("routes_executed", 0), nrec))
    # sample behaviours for the evidence
    with open(buckets[0]) as f:
        for i, line in enumerate(f):
            if i in (5, 50, 500):
                v = json.loads(json.loads(line))
                ck.sample({"initial_state_id": v["id"], "history": [o["op"] for o in v["h"]], "ops": v["h"], "expected_A": v["A"],
                           "expected_v": v["v"], "storages": v["pf"]})
    for b in buckets:
        os.remove(b)
    return dis, gen, stats


def add_stats(ck, stats, prefix=""):
    per_op = collections.Counter()
    for k, v in stats.items():
        if k.startswith("op:"):
            _, op, prof = k.split(":")
            per_op[op] += v
        elif k.startswith("inflthreads:"):
            _, th, nn = k.split(":")
            d = ck.cov.setdefault("inflated_executions_by_threads_and_size", {})
            key = "threads=%s n=%s" % (th, nn)
            d[key] = d.get(key, 0) + v
        elif k.startswith(("refused:", "infl:")):
            continue
        elif k in ("omp_max_threads", "eigen_threads", "omp_max_threads_seen"):
            ck.cov[prefix + k] = max(ck.cov.get(prefix + k, 0), v)
        else:
            ck.cov[prefix + k] = ck.cov.get(prefix + k, 0) + v if isinstance(v, int) else v
    return per_op


CHOL_CFG = "SPECIFICATION Spec\nCONSTANTS\n  OpsLevel = \"all\"\n  Limit = 20000\n"
VEC_CFG = "SPECIFICATION Spec\nCONSTANTS\n  MaxLen = %d\n"
CHOL_FUNCS = ["CholeskyDense::getLowerTriangle", "CholeskyDense::getUpperTriangleInverse", "ACholesky::LX", "ACholesky::LtX",
              "ACholesky::InvLX", "ACholesky::InvLtX", "ACholesky::solve", "ACholesky::solveMatrix",
              "CholeskyDense::computeLogDeterminant", "CholeskySparse::computeLogDeterminant", "CholeskyDense::matProductInPlace",
              "CholeskyDense::normMatInPlace", "CholeskySparse::stdev", "MatrixSquareGeneral::decomposeLU",
              "MatrixSquareSymmetric::computeEigen", "MatrixSquareSymmetric::getEigenValues",
              "MatrixSquareSymmetric::computeGeneralizedEigen", "MatrixSquareSymmetric::computeGeneralizedInverse"]
VEC_FUNCS = ["VectorNumT<double>::sum", "VectorNumT<double>::minimum", "VectorNumT<double>::maximum", "VectorNumT<double>::mean",
             "VectorNumT<double>::norm", "VectorNumT<double>::innerProduct", "VectorNumT<double>::add(vector)",
             "VectorNumT<double>::divide(scalar)", "VH::sort", "VH::orderRanks", "VH::sortRanks", "VH::cumsum", "VH::sequence(int)",
             "VH::minimum", "VH::maximum", "VH::mean", "VH::variance", "VH::median", "VH::unique", "VH::filter", "VH::complement"]


def case_phase(ck, exe, mode, module, cfgtext, tag, harness_opts=()):
    cfg = os.path.join(ck.work, tag + ".cfg")
    open(cfg, "w").write(cfgtext)
    cases_path = os.path.join(ck.work, tag + ".json")
    t0 = time.time()
    doc = vlib.tlc_emit_json(module, cfg, cases_path)
    ncases = len(doc) if isinstance(doc, list) else len(doc["cases"]) + len(doc["seqs"])
    out = os.path.join(ck.work, tag + ".out")
    vlib.run_harness(exe, [mode, cases_path, out] + list(harness_opts), timeout=3000)
    stats = {}
    nrec = collect(ck, [out], stats)
    log("[C11] %s: %d cases emitted by TLC (%s), %d checks on the real classes, %d disagreement records (%.1fs)" %
        (tag, ncases, module, stats.get("case_checks", 0), nrec, time.time() - t0))
    if stats.get("cases", 0) != ncases:
        raise Broken("%s: %d cases executed for %d emitted" % (tag, stats.get("cases", 0), ncases))
    if mode == "chol":
        c = doc[0]
        ck.sample({"case": "cholesky", "L": c["L"], "A": c["A"], "y": c["y"], "expected_L_y": c["Ly"], "expected_det": c["det"]})
    else:
        c = doc["cases"][len(doc["cases"]) // 2]
        ck.sample({"case": "vector helpers", "u": c["u"], "w": c["w"], "expected_sortasc": c["sortasc"], "expected_orderdesc": c["orderdesc"],
                   "expected_variance_num_den": c["var1"]})
    return ncases, stats


def run_cases(ck, exe, tier):
    quick = tier == "quick"
    total = 0
    n, st = case_phase(ck, exe, "chol", "MatrixAlgChol", CHOL_CFG, "chol")
    total += n
    ck.cov["case_checks"] = ck.cov.get("case_checks", 0) + st.get("case_checks", 0)
    ck.cov["factorisation_cases"] = {k[6:]: v for k, v in st.items() if k.startswith("cases_")}
    missing = [f for f in CHOL_FUNCS if st.get("fn:" + f, 0) == 0]
    if missing:
        raise Broken("factorisation functions never executed (vacuous): %s" % missing)
    n, st = case_phase(ck, exe, "vec", "MatrixAlgVec", VEC_CFG % (3 if quick else 4), "vec")
    total += n
    ck.cov["case_checks"] += st.get("case_checks", 0)
    ck.cov["vector_helper_cases"] = n
    ck.cov["vector_helper_functions"] = len([k for k in st if k.startswith("fn:")])
    missing = [f for f in VEC_FUNCS if st.get("fn:" + f, 0) == 0]
    if missing:
        raise Broken("vector helpers never executed (vacuous): %s" % missing)
    if not quick:
        for th in (1, 4, 16):
            n, st = case_phase(ck, exe, "chol", "MatrixAlgChol", CHOL_CFG, "chol_thr%d" % th, ["threads=%d" % th, "infl=%d" % 32])
            total += n
            ck.cov["case_checks"] += st.get("case_checks", 0)
    return total


ALL_OPS = ["SetValue", "SetSym", "SetRow", "SetCol", "SetDiag", "SetDiagConst", "TransposeInPlace", "AddScalar",
           "AddScalarDiag", "ProdScalar", "Fill", "SetIdentity", "MultiplyRow", "MultiplyColumn", "DivideRow",
           "DivideColumn", "AddMat", "LinComb", "ProdMatMat", "ProdNormMatMat", "ProdNormMatVec", "ProdNormMat",
           "Pick", "PickInv", "Glue", "Invert", "Solve", "Swap", "Copy", "MatVec", "VecMat", "GetRow", "GetCol", "GetDiag"]


def run(tier):
    ck = Check(PID, "model_checking", tier)
    alt = os.environ.get("VERIF_C11_KNOWN")      # alternative list of known findings (trial of a repaired tree)
    if alt:
        ck.known = [e for e in json.load(open(alt)).get("findings", []) if e.get("property") == PID and e.get("status") == "known"]
    vlib.build_lib()
    exe = vlib.build_harness("matrix_run", extra_flags=["-fopenmp"])
    quick = tier == "quick"

    # 1. model checking of the specification itself (identities, laws)
    mc_runs = [("full", 1, "all")] if quick else [("full", 1, "all"), ("reduced", 2, "all")]
    states = trans = 0
    for init, maxlen, ops in mc_runs:
        cfg = os.path.join(ck.work, "mc_%s_%d.cfg" % (init, maxlen))
        open(cfg, "w").write(MC_CFG % dict(maxlen=maxlen, init=init, ops=ops, emit="FALSE", extra=INVARIANTS))
        res = vlib.run_tlc("MC_MatrixAlg", cfg, workers=WORKERS, timeout=3000)
        if res.violation:
            raise Broken("MatrixAlg.tla violates its own identities:\n" + res.violation)
        states += res.distinct
        trans += res.generated
        log("[C11] MC_MatrixAlg %s/%d: %d states, %d transitions, identities and laws hold (%.1fs)" %
            (init, maxlen, res.distinct, res.generated, res.wall))
    ck.cov["mc_identity_states"] = states

    # 2. behaviours replayed into the real classes
    per_op = collections.Counter()
    # thread independence: the first operation of every behaviour is also replayed on operands inflated by
    # A (x) J_n / A (x) I_n with sizes that are NOT multiples of the thread counts (any chunking remainder is
    # exposed), through every route including the generic mixed-storage ones
    # (threads : size); the generic n^4 congruence product is inflated up to dimension 22 only, the other generic
    # routes up to 40: the sizes are chosen so that rows >= 2 threads and rows % threads != 0 within those caps
    combos = "combos=1:5,2:7,3:7,5:7,7:5,16:11"
    phases = [("all1", 1, "full", "all", 16, []), ("red2", 2, "reduced", "std", 32, []), ("thrq", 1, "inflate", "std", 16, [combos])] \
        if quick else \
             [("all1", 1, "full", "all", 16, []), ("all2", 2, "full", "std", 96, []), ("core3", 3, "reduced", "core", 96, []),
              ("thrq", 1, "inflate", "all", 16, [combos])]
    nodes = 0
    for tag, maxlen, init, ops, nb, hopts in phases:
        dis, gen, stats = machine_phase(ck, exe, tag, maxlen, init, ops, nb, harness_opts=hopts)
        if hopts and (stats.get("inflated_executed", 0) == 0 or stats.get("inflated_generic_routes", 0) == 0):
            raise Broken("thread-independence pass of %s executed nothing (vacuous)" % tag)
        states += dis
        trans += gen
        nodes += stats.get("nodes", 0)
        per_op += add_stats(ck, stats)
    if ck.cov.get("routes_mixed_storage", 0) == 0:
        raise Broken("no mixed-storage route executed (vacuous)")
    missing = [o for o in ALL_OPS if per_op.get(o, 0) == 0]
    if missing:
        raise Broken("operations never executed on the real classes (vacuous): %s" % missing)
    ck.cov["routes_executed_per_operation"] = dict(per_op)

    # 3. factorisations and vector helpers
    ncases = run_cases(ck, exe, tier)

    # 4. thorough tier: thread counts and Kronecker inflations
    if not quick:
        for th in (1, 4, 16):
            dis, gen, stats = machine_phase(ck, exe, "thr%d" % th, 1, "reduced", "all", 16,
                                            harness_opts=["threads=%d" % th, "infl=%d" % (97 if th > 1 else 65)],
                                            nproc=NPROC)
            states += dis
            trans += gen
            nodes += stats.get("nodes", 0)
            ck.cov["inflated_executed_threads_%d" % th] = stats.get("inflated_executed", 0)
            ck.cov["omp_threads_seen_%d" % th] = stats.get("omp_max_threads_seen", 0)
            if stats.get("inflated_executed", 0) == 0:
                raise Broken("no inflated transition executed with %d threads" % th)

    ck.cov["states"] = states
    ck.cov["transitions"] = trans
    ck.cov["traces_validated_against_impl"] = nodes + ncases
    ck.cov["evaluations"] = ck.cov.get("routes_executed", 0) + ck.cov.get("case_checks", 0)
    ck.cov["distinct_nontrivial"] = nodes
    ck.cov["rule"] = ("TLC enumerates every operation of the catalogue (element/row/column/diagonal assignment, transposition, "
                      "scalar/row/column scaling, sums, products with both transposition flags, congruence products, "
                      "sub-sampling, gluing, inversion, solve, vector products, getters) in every state reached from the "
                      "initial families (index-coded with two stride codings, scaled identities, all 0/1 matrices up to 2x2, "
                      "sparse patterns with empty rows/columns, symmetric, L L^T, unimodular) for shapes 1..3 x 1..3; each "
                      "emitted behaviour is replayed step by step into the five storages through every public route; a node is "
                      "distinct when its (initial state, history) differs; non-trivial = it executes at least one library call")
    ck.assumptions += [
        "registers are read back through getValue(i,j); the other reading routes are cross-checked against it",
        "integer results are compared exactly, results after a division / inversion / solve to 1e-9 relative",
        "sparse storages: addScalar is promised on matrices without zero term only (documented: acts on stored terms); "
        "inversion and solve on symmetric positive definite matrices only (Cholesky based)",
        "cs storage: in-place assignment of a new non-zero term may be refused (documented); refusals are counted, not judged",
        "the two sparse back-ends are never mixed in one expression (documented restriction of setGlobalFlagEigen)",
        "glue without any shift and getDiagonal with a negative shift are outside the catalogue (semantics not documented)"]
    return ck.finish()
