"""C13 -- simulations are reproducible from their seed and honour their conditioning.

1. SimSeed.tla (process-wide random state, simulator profiles transcribed from the code): TLC
   enumerates every history of <= 2 (quick) / <= 3 (thorough) calls before every observed call,
   checks Reproducible / Distinct / NonPosIgnored on the model and emits every (history, call,
   stream term).  Harness simu_run executes each script in a fresh child process; scripts whose
   stream terms are equal must give bit-identical outputs, seeded calls with different seeds
   different outputs.
2. SimCond.tla: TLC checks the transcription of the truncated Gaussian draw (zones partition the
   interval and the value stays within the bounds, for every ordering class of the bounds), the
   Gibbs step machine (InBounds at every step, for the intended burn-in decay and for the decay
   as coded; a refutation by TLC is reported), the
   exactness of the conditioning for every rank map, the storage layouts of the Gaussian values
   between Gibbs sampler and turning bands, the lithotype rules; it emits the case catalogue with
   the expectations.  Each case is replayed on the real library and compared as the spec says.
3. When the guarded hooks of hooks/C13.patch are present in the library, the per-step events
   (every truncated draw, every Gibbs update, every copy of a datum onto a coinciding target, the
   storage indices) are validated by TLC (TraceSimCond.tla).
"""
import json, os, collections, math
import vlib
from vlib import Check, Broken, log

NAJ = -99999          # undefined bound in the JSON emitted by TLC
D4 = [[1, 1, 5], [3, 1, -12], [2, 3, 20], [0, 4, 3]]


def seeds():
    s = vlib.seed()
    return [1000 + 13 * (s % 100000), 500000 + 17 * (s % 100000)]


def na(v):
    return None if v == NAJ else v


# --------------------------------------------------------------------------- concrete calls

def gibbs_data(sites, bounds):
    return [[x, y, na(b[0]), na(b[1])] for (x, y), b in zip(sites, bounds)]


GIBBS_HIST = gibbs_data([[0, 0], [1, 1], [2, 0], [3, 1], [4, 0]],
                        [[-10, 0], [NAJ, NAJ], [NAJ, -5], [10, NAJ], [-3, 3]])


def sim_call(p, seed, fail=False):
    """The concrete call standing for simulator profile p of SimSeed.tla."""
    if p == "simtub":
        c = {"op": "simtub", "cond": False, "nbsimu": 2, "seed": seed, "model": "sph"}
        if fail:
            c.update(cond=True, noneigh=True, data=D4)
    elif p == "simtubc":
        c = {"op": "simtub", "cond": True, "data": D4, "nbsimu": 2, "seed": seed, "model": "exp"}
        if fail:
            c.update(noneigh=True)
    elif p == "simfft":
        c = {"op": "simfft", "nbsimu": 2, "seed": seed, "model": "biv" if fail else "sph"}
    elif p in ("spde", "spdec"):
        c = {"op": "spde", "nbsimu": -1 if fail else 2, "cond": p == "spdec", "data": D4}
    elif p == "gibbs":
        c = {"op": "gibbs", "data": GIBBS_HIST, "nbsimu": 2, "seed": seed, "nburn": 2, "niter": 6, "mode": "umulti"}
        if fail:
            c.update(nomodel=True)
    elif p == "simpgs":
        c = {"op": "simpgs", "cond": True, "rule": "ST3", "props": [0.25, 0.25, 0.5],
             "data": [[1, 1, 1], [3, 1, 2], [2, 3, 3], [0, 4, 1]], "nbsimu": 1, "seed": seed, "gaus": True}
        if fail:
            c.update(norule=True)
    elif p == "simbipgs":
        c = {"op": "simbipgs", "cond": True, "rule": "S2", "rule2": "S2", "props": [0.25] * 4,
             "data": [[1, 1, 1, 2], [3, 1, 2, 1], [2, 3, 1, 1], [0, 4, 2, 2]], "nbsimu": 1, "seed": seed, "gaus": True}
        if fail:
            c.update(norule=True)
    else:
        raise Broken("no concrete call for profile " + p)
    return c


def hist_call(h):
    op = h["op"]
    if op in ("draw", "gdraw"):
        return {"op": op, "n": 1}
    if op == "setseed":
        return {"op": "setseed", "seed": h["seed"]}
    if op == "sim":
        return sim_call(h["p"], h["seed"])
    if op == "fail":
        return sim_call(h["p"], h["seed"], fail=True)
    raise Broken("unknown history op " + op)


# --------------------------------------------------------------------------- part 1: SimSeed

SEED_CFG = """SPECIFICATION Spec
CONSTANTS
  MaxHist = %(maxhist)d
  Seeds = {%(s1)d, %(s2)d}
  NonPos <- NonPosSet
  Sims = {%(sims)s}
  BareUnseeded = %(bare)s
  Styles = {%(styles)s}
  MaxHistNew = %(maxhistnew)d
INVARIANT Reproducible NonPosIgnored
%(extra)s
CHECK_DEADLOCK FALSE
"""


def seed_part(ck, tier, scripts, expect):
    s1, s2 = seeds()
    sims = ["simtub", "simtubc", "simfft", "spde", "gibbs", "simpgs"] if tier == "quick" else \
           ["simtub", "simtubc", "simfft", "spde", "spdec", "gibbs", "simpgs", "simbipgs"]
    maxhist = 2 if tier == "quick" else 3
    cfgp = os.path.join(ck.work, "seed.cfg")
    sims_h = sims
    open(cfgp, "w").write(SEED_CFG % dict(maxhist=maxhist, s1=s1, s2=s2, sims=", ".join('"%s"' % s for s in sims_h),
                                          bare="FALSE", extra="ACTION_CONSTRAINT Emit", styles='"old", "new"',
                                          maxhistnew=1 if tier == "quick" else 2))
    groups = collections.defaultdict(list)
    count = [0]
    nstyle = collections.Counter()

    def on_emit(e):
        count[0] += 1
        sid = "h%d" % count[0]
        call = e["call"]
        calls = [hist_call(h) for h in e["hist"]]
        if e["style"] == "new":
            calls.insert(0, {"op": "setstyle", "old": False})
        if call["via"] == "global":
            calls.append({"op": "setseed", "seed": call["seed"]})
        obs = dict(sim_call(call["p"], call["seed"]))
        obs["capture"] = "hash"
        calls.append(obs)
        scripts.append({"id": sid, "calls": calls})
        key = json.dumps([e["style"], call["p"], e["stream"], e["stage2"]], sort_keys=True)
        groups[key].append(sid)
        expect[sid] = {"part": "seed", "hist": e["hist"], "call": call, "stream": e["stream"], "seeded": e["seeded"],
                       "key": key, "style": e["style"]}
        nstyle[e["style"]] += 1

    res = vlib.run_tlc("MC_SimSeed", cfgp, workers=min(vlib.NCPU, 6), on_emit=on_emit, timeout=3000)
    if res.violation:
        raise Broken("SimSeed.tla violates its own properties with the transcribed profiles:\n" + res.violation)
    ck.add("states", res.distinct)
    ck.add("transitions", res.generated)
    ck.cov["seed_histories_scripts"] = count[0]
    ck.cov["seed_scripts_by_generator_style"] = dict(nstyle)
    if not nstyle["old"] or not nstyle["new"]:
        raise Broken("vacuous: a generator style has no script")
    ck.cov["seed_stream_terms"] = len(groups)
    log("[C13] MC_SimSeed: %d states, %d scripts, %d distinct (simulator, stream term) in %.1fs" %
        (res.distinct, count[0], len(groups), res.wall))
    # the same model with the unseeded simulators observed bare: TLC must find the counterexample
    cfgb = os.path.join(ck.work, "seed_bare.cfg")
    open(cfgb, "w").write(SEED_CFG % dict(maxhist=1, s1=s1, s2=s2, sims=", ".join('"%s"' % s for s in sims),
                                          bare="TRUE", extra="", styles='"old"', maxhistnew=0))
    resb = vlib.run_tlc("MC_SimSeed", cfgb, workers=1, timeout=600)
    if not resb.violation or "Reproducible is violated" not in resb.violation:
        raise Broken("expected TLC to refute Reproducible for a simulator observed without reseeding")
    ck.cov["model_note_unseeded"] = ("TLC refutes Reproducible when simulateSPDE (no seed argument, no reseed at entry) is observed "
                                     "without law_set_random_seed before it: counterexample history = [draw], stream term differs "
                                     "from the fresh one; the property is therefore checked for it as the composite "
                                     "'law_set_random_seed(seed); simulateSPDE(..)'")
    ck.add("states", resb.distinct)
    ck.add("transitions", resb.generated)
    return groups


def judge_seed(ck, groups, expect, obs):
    """Equal stream terms => bit-identical outputs; seeded fresh calls with different seeds => different."""
    nchecked = 0
    fresh = {}
    for key, ids in groups.items():
        hashes = {}
        for sid in ids:
            o = obs.get(sid)
            if o is None:
                raise Broken("no output for script " + sid)
            if "crash" in o:
                e = expect[sid]
                ck.disagree({"kind": "crash", "part": "seed", "simulator": e["call"]["p"], "signal": o["crash"]},
                            {"history": e["hist"], "call": e["call"]})
                continue
            c = o["calls"][-1]
            hashes.setdefault((c["hash"], c["err"], c["ncol"]), []).append(sid)
            nchecked += 1
        if len(hashes) > 1:
            ref = max(hashes.values(), key=len)[0]
            for h, sids in hashes.items():
                if ref in sids:
                    continue
                e = expect[sids[0]]
                ck.disagree({"kind": "not-reproducible", "simulator": e["call"]["p"], "seeded": e["seeded"], "generator": e["style"],
                             "via": e["call"]["via"], "history_ops": [x["op"] + ":" + x.get("p", "") for x in e["hist"]]},
                            {"generator_style": e["style"], "history": e["hist"], "call": e["call"], "stream_term": e["stream"],
                             "same_stream_as": {"history": expect[ref]["hist"], "call": expect[ref]["call"]},
                             "outputs": [obs[sids[0]]["calls"][-1], obs[ref]["calls"][-1]]})
        e0 = expect[ids[0]]
        if e0["seeded"] and e0["stream"]["pos"] == [] and hashes:
            fresh.setdefault(e0["style"] + ":" + e0["call"]["p"], {})[e0["stream"]["base"]] = (list(hashes.keys())[0], ids[0])
        if any(o_ for o_ in hashes if o_[1] != 0 or o_[2] == 0):
            ck.disagree({"kind": "call-failed", "simulator": e0["call"]["p"]}, {"history": e0["hist"], "call": e0["call"]})
    for p, byseed in fresh.items():
        if len(byseed) < 2:
            raise Broken("vacuous Distinct for " + p)
        hs = [v[0][0] for v in byseed.values()]
        ck.add("distinct_seed_pairs")
        if len(set(hs)) != len(hs):
            ck.disagree({"kind": "seeds-not-distinct", "simulator": p}, {"simulator": p, "seeds": list(byseed.keys()),
                        "calls": [expect[v[1]]["call"] for v in byseed.values()]})
    ck.cov["seed_scripts_compared"] = nchecked
    return nchecked


# --------------------------------------------------------------------------- part 3: SimHist

def req_calls(r, seed, nbsimu=1):
    """The concrete call(s) of a request of SimHist.tla (the last one is the simulation)."""
    sim = r["sim"]
    model = {"struct": r["struct"], "range": r["sc"] / 10.0, "sill": 1.0}
    if r["par"]:
        model["param"] = r["par"] / 10.0
    if sim == "simtub":
        return [{"op": "simtub", "cond": False, "model": model, "nbsimu": nbsimu, "seed": seed, "nbtuba": 10}]
    if sim == "simtubc":
        return [{"op": "simtub", "cond": True, "data": D4, "model": model, "nbsimu": nbsimu, "seed": seed, "nbtuba": 10}]
    if sim == "simfft":
        return [{"op": "simfft", "model": model, "nbsimu": nbsimu, "seed": seed}]
    if sim == "spde":
        return [{"op": "setseed", "seed": seed}, {"op": "spde", "model": model, "nbsimu": nbsimu, "cond": False}]
    if sim == "gibbs":
        bounds = [[-10, 0], [5, 15], [-30, -20], [0, 1], [12, 25]] if r["par"] == 1 else \
                 [[-10, 0], [NAJ, NAJ], [NAJ, -5], [10, NAJ], [-3, 3]]
        data = gibbs_data([[0, 0], [1, 1], [2, 0], [3, 1], [4, 0]], bounds)
        return [{"op": "gibbs", "data": data, "mode": r["struct"], "nbsimu": nbsimu, "seed": seed, "nburn": 2, "niter": 6}]
    if sim == "simpgs":
        if r["struct"] == "S2":
            return [{"op": "simpgs", "cond": True, "rule": "S2", "props": [0.5, 0.5], "gaus": True,
                     "data": [[1, 1, 1], [3, 1, 2], [2, 3, 1], [0, 4, 2]], "nbsimu": nbsimu, "seed": seed}]
        return [{"op": "simpgs", "cond": True, "rule": "ST3", "props": [0.25, 0.25, 0.5], "gaus": True,
                 "data": [[1, 1, 1], [3, 1, 2], [2, 3, 3], [0, 4, 1]], "nbsimu": nbsimu, "seed": seed}]
    raise Broken("no concrete call for request " + json.dumps(r))


def hist_part(ck, tier, scripts, expect):
    """SimHist.tla: every ordered pair (A, B) of the request catalogue as the sequence A, B, A; every call must give
    what its request gives in a fresh process; per request: another seed and the ranks give other realisations."""
    s1, s2 = seeds()
    cfgp = os.path.join(ck.work, "hist.cfg")
    open(cfgp, "w").write("SPECIFICATION Spec\nCONSTANTS\n  NBands = %d\n  Styles = {\"old\", \"new\"}\n  FullNew = %s\n"
                          "INVARIANT HistReproducible\nACTION_CONSTRAINT Emit\nCHECK_DEADLOCK FALSE\n" %
                          (2 if tier == "quick" else 3, "FALSE" if tier == "quick" else "TRUE"))
    res = vlib.run_tlc("MC_SimHist", cfgp, workers=min(vlib.NCPU, 6), timeout=3000)
    if res.violation:
        raise Broken("SimHist.tla: the transcribed static memos violate HistReproducible (a refresh condition of the code "
                     "lets a constant of an earlier simulation through):\n" + res.violation)
    ck.add("states", res.distinct)
    ck.add("transitions", res.generated)
    reqs = {}
    n = 0
    nsty = collections.Counter()
    for e in res.emitted:
        if e.get("kind") != "aba":
            continue
        if not e["same"]:
            raise Broken("SimHist.tla emitted a pair it does not hold reproducible")
        n += 1
        sid = "a%d" % n
        calls = [{"op": "setstyle", "old": False}] if e["style"] == "new" else []
        cap = []
        for r in (e["a"], e["b"], e["a"]):
            cc = [dict(c) for c in req_calls(r, s1)]
            cc[-1]["capture"] = "hash"
            calls += cc
            cap.append(e["style"] + "|" + json.dumps(r, sort_keys=True))
        scripts.append({"id": sid, "calls": calls})
        expect[sid] = {"part": "aba", "a": e["a"], "b": e["b"], "keys": cap, "style": e["style"]}
        nsty[e["style"]] += 1
        if e["style"] == "old":
            reqs[cap[0]] = e["a"]
    for i, (key, r) in enumerate(sorted(reqs.items())):
        c2 = [dict(c) for c in req_calls(r, s2)]
        c2[-1]["capture"] = "hash"
        scripts.append({"id": "q%d.s" % i, "calls": c2})
        cr = [dict(c) for c in req_calls(r, s1, nbsimu=2)]
        cr[-1]["capture"] = "full"
        scripts.append({"id": "q%d.r" % i, "calls": cr})
        expect["q%d" % i] = {"part": "req", "req": r, "key": key}
    structs = set(r["struct"] for r in reqs.values() if r["sim"] == "simtub")
    if len(structs) < 15:
        raise Broken("vacuous: the request catalogue does not cover the 15 basic structures of the turning bands")
    if not nsty["new"]:
        raise Broken("vacuous: no A,B,A sequence under the new-style generator")
    ck.cov["hist_pairs_by_generator_style"] = dict(nsty)
    ck.cov["hist_requests"] = len(reqs)
    ck.cov["hist_pairs_ABA"] = n
    ck.cov["hist_tb_structures"] = sorted(structs)
    log("[C13] MC_SimHist: %d states, %d requests, %d sequences A,B,A in %.1fs" % (res.distinct, len(reqs), n, res.wall))


def judge_hist(ck, expect, obs):
    """All the outputs of one request (first, after another request, third in A,B,A) are bit-identical."""
    fresh = {}
    allout = collections.defaultdict(list)          # request key -> (hash, script id, position)
    for sid, ex in expect.items():
        if ex["part"] != "aba":
            continue
        o = obs[sid]
        if "crash" in o:
            ck.disagree({"kind": "crash", "part": "history", "simulator": ex["a"]["sim"], "struct": ex["a"]["struct"], "signal": o["crash"]},
                        {"sequence": [ex["a"], ex["b"], ex["a"]]})
            continue
        for pos, (key, c) in enumerate(zip(ex["keys"], o["calls"])):
            sig = (c["hash"], c["err"], c["ncol"])
            if c["err"] != 0 or c["ncol"] == 0:
                ck.disagree({"kind": "call-failed", "part": "history", "simulator": json.loads(key.split("|", 1)[1])["sim"],
                             "struct": json.loads(key.split("|", 1)[1])["struct"]},
                            {"sequence": [ex["a"], ex["b"], ex["a"]], "position": pos + 1})
            allout[key].append((sig, sid, pos))
            if pos == 0:
                fresh.setdefault(key, sig)
    ncmp = 0
    for key, lst in allout.items():
        ref = fresh[key]
        reported = set()
        for sig, sid, pos in lst:
            ncmp += 1
            if sig != ref:
                ex = expect[sid]
                seq = [ex["a"], ex["b"], ex["a"]]
                prev = seq[pos - 1]
                tag = (prev["sim"], prev["struct"], prev["par"], prev["sc"])
                if tag in reported:
                    continue
                reported.add(tag)
                r = json.loads(key.split("|", 1)[1])
                ck.disagree({"kind": "history-dependent", "simulator": r["sim"], "struct": r["struct"], "after": prev["sim"] + ":" + prev["struct"],
                             "generator": ex["style"]},
                            {"generator_style": ex["style"], "request": r, "sequence_executed_in_one_process": seq, "position_of_the_deviating_call": pos + 1,
                             "output_hash": sig[0], "hash_in_a_fresh_process": ref[0],
                             "concrete_calls": [req_calls(x, seeds()[0]) for x in seq]})
    nreq = 0
    for qid, ex in expect.items():
        if ex["part"] != "req":
            continue
        nreq += 1
        r = ex["req"]
        os_, or_ = obs[qid + ".s"], obs[qid + ".r"]
        base = {"simulator": r["sim"], "struct": r["struct"]}
        if "crash" in os_ or "crash" in or_:
            ck.disagree(dict(base, kind="crash", part="history"), {"request": r})
            continue
        if ex["key"] in fresh and os_["calls"][-1]["hash"] == fresh[ex["key"]][0]:
            ck.disagree(dict(base, kind="seeds-not-distinct"), {"request": r, "seeds": seeds()})
        call = or_["calls"][-1]
        cols = columns(call)
        if call["ncol"] < 2 or call["ncol"] % 2:
            ck.disagree(dict(base, kind="ranks-missing", ncol=call["ncol"]), {"request": r, "nbsimu": 2})
        elif all(cols[2 * k] == cols[2 * k + 1] for k in range(call["ncol"] // 2)):
            # columns are ordered rank + nbsimu * (function): ranks 1 and 2 are the columns 2k and 2k+1
            ck.disagree(dict(base, kind="ranks-not-distinct"), {"request": r, "nbsimu": 2})
    ck.cov["hist_calls_compared"] = ncmp
    ck.cov["hist_requests_seed_rank_checked"] = nreq
    return ncmp + nreq


# --------------------------------------------------------------------------- part 2: SimCond

COND_CFG = """SPECIFICATION Spec
CONSTANTS
  Parts = {%(parts)s}
  Seeds = {%(s1)d, %(s2)d}
  MaxNbSimu = %(maxnb)d
  GN = %(gn)d
  GSweeps = %(gsweeps)d
  CaseSweeps = %(casesweeps)d
  Tier = "%(tier)s"
%(extra)s
CHECK_DEADLOCK FALSE
"""


def cond_cfg(ck, name, parts, tier, extra):
    s1, s2 = seeds()
    b = dict(parts=", ".join('"%s"' % p for p in parts), s1=s1, s2=s2, tier=tier, extra=extra,
             maxnb=3, gn=2 if tier == "quick" else 3, gsweeps=3, casesweeps=10 if tier == "quick" else 80)
    p = os.path.join(ck.work, name)
    open(p, "w").write(COND_CFG % b)
    return p


def cond_part(ck, tier, scripts, expect):
    cfgp = cond_cfg(ck, "cond.cfg", ["tgb", "cond", "layout", "rule", "cases"], tier,
                    "INVARIANT Inv_Tgb Inv_Cond Inv_Rule\nCONSTRAINT Emit")
    res = vlib.run_tlc("MC_SimCond", cfgp, workers=min(vlib.NCPU, 6), timeout=3000)
    if res.violation:
        raise Broken("SimCond.tla violates its own invariants:\n" + res.violation)
    ck.add("states", res.distinct)
    ck.add("transitions", max(res.generated, res.distinct))
    log("[C13] MC_SimCond (cases): %d states in %.1fs, %d records emitted" % (res.distinct, res.wall, len(res.emitted)))
    # Gibbs step machine: intended decay (invariant must hold) and decay as coded (TLC must refute it)
    cfgg = cond_cfg(ck, "gibbs.cfg", ["gibbs"], tier, "INVARIANT Inv_Gibbs")
    resg = vlib.run_tlc("MC_SimCond", cfgg, workers=min(vlib.NCPU, 6), timeout=3000)
    if resg.violation:
        raise Broken("Gibbs step machine (intended semantics) violates InBounds:\n" + resg.violation)
    ck.add("states", resg.distinct)
    ck.add("transitions", resg.generated)
    # the decay AS CODED (until /repo 65d897251 TLC refuted InBounds on it: nburn = 0 gave a 0/0 ratio and an
    # unconstrained first sweep; the transcription follows the repaired code and must now satisfy the invariant)
    cfga = cond_cfg(ck, "gibbs_ascoded.cfg", ["gibbs-ascoded"], "quick", "INVARIANT Inv_Gibbs")
    resa = vlib.run_tlc("MC_SimCond", cfga, workers=min(vlib.NCPU, 6), timeout=3000)
    ck.cov["gibbs_machine_states"] = resg.distinct
    ck.cov["gibbs_ascoded_refuted"] = bool(resa.violation)
    if resa.violation:
        tail = [l for l in resa.violation.splitlines() if l.startswith("/\\ st =") or "nburn" in l]
        ck.cov["model_note_gibbs_decay"] = ("TLC refutes InBounds on the burn-in decay as transcribed from the code "
                                            "(AGibbs::_getBoundsDecay); counterexample state: " + " ".join(tail)[-400:])
    else:
        ck.add("states", resa.distinct)
        ck.add("transitions", resa.generated)
        ck.cov["model_note_gibbs_decay"] = ("the burn-in decay as coded satisfies InBounds (before /repo commit 65d897251 TLC refuted it: "
                                            "nburn = 0 gave ratio 0/0 and an unconstrained first sweep; the nburn = 0 cases stay in the catalogue)")
    log("[C13] Gibbs machine: %d states (intended: invariant holds) in %.1fs; as coded refuted by TLC: %s" %
        (resg.distinct, resg.wall, ck.cov["gibbs_ascoded_refuted"]))

    rules = {}
    layouts = {}
    ncase = collections.Counter()
    for e in res.emitted:
        if e["kind"] == "rule":
            rules[e["name"]] = e
        elif e["kind"] == "layout":
            layouts[(e["npgs"], tuple(e["ngrf"]), e["nbsimu"])] = e["ok"]
    ck.cov["layout_configs_ok"] = sum(1 for v in layouts.values() if v)
    ck.cov["layout_configs_refuted"] = sum(1 for v in layouts.values() if not v)
    n = 0
    for e in res.emitted:
        if e["kind"] == "tgb":
            n += 1
            sid = "t%d" % n
            scripts.append({"id": sid, "calls": [{"op": "tgb", "binf": na(e["binf"]), "bsup": na(e["bsup"]),
                                                  "n": 1000, "seed": seeds()[0], "capture": "full"}]})
            scripts.append({"id": sid + ".h", "trace": True, "calls": [{"op": "tgb", "binf": na(e["binf"]), "bsup": na(e["bsup"]),
                                                                         "n": 40, "seed": seeds()[1], "capture": "hash"}]})
            expect[sid] = {"part": "tgb", "e": e}
            ncase["tgb-" + e["tkind"]] += 1
        elif e["kind"] == "case":
            c = e["c"]
            sim = c["sim"]
            n += 1
            sid = "c%d" % n
            ncase[sim] += 1
            if c.get("mask"):
                ncase[sim + "-selection"] += 1
            if sim in ("simtub", "simtub-near"):
                call = {"op": "simtub", "cond": True, "data": e["data"], "model": c["model"], "nbsimu": c["nbsimu"],
                        "seed": c["seed"], "nbtuba": 20, "capture": "full"}
                if c["layout"] != "grid":
                    call["targets"] = e["targets"]
                if sim == "simtub-near":
                    call["data_dx"] = 2e-5
                scripts.append({"id": sid, "trace": sim == "simtub", "calls": [call]})
            elif sim == "simtub-mv":
                nv = c["nvar"]
                cut = (lambda rows: [r[:2 + nv] for r in rows])
                base = {"op": "simtub", "cond": True, "nvar": nv, "model": "bivgau" if nv == 2 else "gau",
                        "data_dx": e["dx_e6"] * 1e-6, "nbsimu": c["nbsimu"], "seed": c["seed"], "nbtuba": 20, "capture": "full"}
                scripts.append({"id": sid + ".z", "trace": c["place"] == "exact", "calls": [dict(base, data=cut(e["data"]))]})
                scripts.append({"id": sid + ".zd", "calls": [dict(base, data=cut(e["datasum"]))]})
                scripts.append({"id": sid + ".k", "calls": [dict(base, data=cut(e["incr"]), krige=True)]})
                if not e["cols_ok"]:
                    raise Broken("SimCond.tla: the transcribed error columns of the multivariate conditioning are inconsistent")
            elif sim in ("simfft", "spde", "spdec", "simtub-nc"):
                if sim == "simfft":
                    calls = [{"op": "simfft", "nbsimu": c["nbsimu"], "seed": c["seed"], "capture": "full"}]
                elif sim == "simtub-nc":
                    calls = [{"op": "simtub", "cond": False, "nbsimu": c["nbsimu"], "seed": c["seed"], "capture": "full"}]
                else:
                    calls = [{"op": "setseed", "seed": c["seed"]},
                             {"op": "spde", "cond": sim == "spdec", "data": e["data"], "nbsimu": c["nbsimu"], "capture": "full"}]
                scripts.append({"id": sid, "calls": calls})
            elif sim == "gibbs":
                data = gibbs_data(e["sites"], e["bounds"])
                for k in range(1, e["sweeps"] + 1):
                    call = {"op": "gibbs", "data": data, "mode": c["mode"], "nbsimu": c["nbsimu"],
                            "seed": c["seed"], "nburn": c["nburn"], "niter": k, "capture": "full"}
                    if c["mask"]:
                        call["sel"] = e["sel"]
                    scripts.append({"id": "%s.%d" % (sid, k), "trace": k == e["sweeps"], "calls": [call]})
            elif sim in ("simpgs", "simbipgs"):
                r1 = rules[c["rule"]]
                if sim == "simpgs":
                    data = [[x, y, f] for (x, y), f in zip(e["data"], c["fac"])]
                    props = [p / 100.0 for p in e["props"]]
                    base = {"op": "simpgs", "cond": True, "rule": c["rule"], "props": props, "data": data,
                            "nbsimu": c["nbsimu"], "seed": c["seed"], "nburn": 5, "niter": 20, "capture": "full"}
                else:
                    data = [[x, y, f, f2] for (x, y), f, f2 in zip(e["data"], c["fac"], c["fac2"])]
                    props = [p / 10000.0 for p in e["props"]]
                    base = {"op": "simbipgs", "cond": True, "rule": c["rule"], "rule2": c["rule2"], "props": props,
                            "data": data, "nbsimu": c["nbsimu"], "seed": c["seed"], "nburn": 5, "niter": 20,
                            "capture": "full"}
                if c["mask"]:
                    base["sel"] = e["sel"]
                if c["prop"] == "nonstat":
                    ncase[sim + "-nonstat"] += 1
                    base["propfield"] = {"split_x": e["split_x"], "a": [v / float(e["unit"]) for v in e["propa"]],
                                         "b": [v / float(e["unit"]) for v in e["propb"]]}
                scripts.append({"id": sid + ".f", "trace": True, "calls": [dict(base, gaus=False)]})
                if c["prop"] == "stat":     # the thresholds are known (0) for the stationary half/half proportions only
                    scripts.append({"id": sid + ".g", "calls": [dict(base, gaus=True)]})
            expect[sid] = {"part": "case", "e": e}
    need = ["simtub-mv", "tgb-regular", "tgb-degenerate", "tgb-swapped", "simtub", "simtub-near", "simfft", "spde", "spdec", "simtub-nc",
            "gibbs", "simpgs", "simbipgs", "gibbs-selection", "simpgs-selection", "simbipgs-selection",
            "simpgs-nonstat", "simbipgs-nonstat"]
    for k in need:
        if ncase[k] == 0:
            raise Broken("vacuous: no case of category " + k)
    ck.cov["cases_by_category"] = dict(ncase)
    return rules


TOL_EXACT = 1e-6      # conditioning: |sim - datum| <= TOL_EXACT * max(1, |datum|)  (kriging exact to ~1e-13 here)
TOL_NEAR = 0.02       # smooth model, datum 2e-5 off the node: measured deviation <= 4e-5
TOL_NEAR_MV = 0.1     # Gaussian model, datum 2e-4 mesh off the node: measured deviation <= 1e-3 (0.1 sigma demanded)
TOL_LINEAR = 1e-6     # cond(Z + D) - cond(Z) = kriging(D): measured 1e-15
TOL_BOUND = 1e-9      # bounds: rounding of yk + sk * x
TOL_THRESH = 1e-4     # thresholds: invcdf(1/2) is computed by bisection (1e-7)


def columns(call):
    n = call["nrow"]
    v = call["vals"]
    return [v[i * n:(i + 1) * n] for i in range(call["ncol"])]


def judge_tgb(ck, sid, ex, obs):
    e = ex["e"]
    o = obs[sid]
    rec_base = {"kind": "tgb", "tkind": e["tkind"], "ca": e["ca"], "cb": e["cb"], "ascoded_predicted": not e["within"]}
    if "crash" in o:
        ck.disagree(dict(rec_base, what="crash", signal=o["crash"]), {"binf": na(e["binf"]), "bsup": na(e["bsup"])})
        return
    c = o["calls"][0]
    vals = c["vals"]
    lo = None if e["binf"] == NAJ else e["binf"] / 10.0
    up = None if e["bsup"] == NAJ else e["bsup"] / 10.0
    bad = None
    if c["nonfinite"] or any(v is None for v in vals):
        bad = "non-finite value"
    elif e["tkind"] != "swapped":
        vmin, vmax = min(vals), max(vals)
        if lo is not None and vmin < lo - TOL_BOUND * max(1, abs(lo)):
            bad = "value %r below binf" % vmin
        if up is not None and vmax > up + TOL_BOUND * max(1, abs(up)):
            bad = "value %r above bsup" % vmax
        if e["tkind"] == "degenerate" and not bad and (vmin != lo or vmax != lo):
            bad = "degenerate interval not returned exactly"
    if bad:
        ck.disagree(dict(rec_base, what=bad.split(" ")[0] + "-" + bad.split(" ")[-1]),
                    {"call": "law_gaussian_between_bounds", "binf": lo, "bsup": up, "zones_of_the_spec": e["types"],
                     "observed": bad, "draws": 1000})
    elif not e["within"] and e["tkind"] != "swapped":
        # the transcription predicts a value outside the bounds and the real code stays inside:
        # the transcription is wrong
        raise Broken("SimCond.tla predicts law_gaussian_between_bounds(%s, %s) outside its bounds, the real code stays inside" % (lo, up))


def judge_tb(ck, sid, ex, obs):
    e = ex["e"]
    c = e["c"]
    o = obs[sid]
    base = {"simulator": "simtub", "target": "grid" if c["layout"] == "grid" else "points", "layout": c["layout"]}
    replay = {"call": "simtub(dbin, dbout, model, NeighUnique, nbsimu=%d, seed=%d, nbtuba=20)" % (c["nbsimu"], c["seed"]),
              "model": c["model"], "data_xyz10": e["data"], "targets": e["targets"] or "5x5 grid", "layout": c["layout"]}
    if "crash" in o:
        ck.disagree(dict(base, kind="crash", signal=o["crash"]), replay)
        return
    call = o["calls"][0]
    if call["err"] != 0 or call["ncol"] != c["nbsimu"]:
        ck.disagree(dict(base, kind="ranks-missing", ncol=call["ncol"]), replay)
        return
    cols = columns(call)
    near = c["sim"] == "simtub-near"
    nd = len(e["data"])
    for t, i in e["coincide"]:
        z = e["data"][i - 1][2] / 10.0
        for r, col in enumerate(cols):
            v = col[t - 1]
            tol = TOL_NEAR if near else TOL_EXACT * max(1.0, abs(z))
            if v is None or abs(v - z) > tol:
                same_idx = (not near) and t <= nd and v is not None and v == e["data"][t - 1][2] / 10.0
                ck.disagree(dict(base, kind="near-datum" if near else "cond-exact", equals_same_index_datum=same_idx),
                            dict(replay, target_index=t, datum_index=i, datum=z, rank=r + 1, simulated=v))
                break
    if not near:
        for t in e["free"]:
            if t <= nd:
                zt = e["data"][t - 1][2] / 10.0
                if all(col[t - 1] == zt for col in cols):
                    ck.disagree(dict(base, kind="free-target-overwritten", equals_same_index_datum=True),
                                dict(replay, target_index=t, value=zt,
                                     note="target coincides with no datum but holds the value of the datum of the same index for every rank"))
    if c["nbsimu"] > 1:
        for a in range(len(cols)):
            for b in range(a + 1, len(cols)):
                if cols[a] == cols[b]:
                    ck.disagree(dict(base, kind="ranks-not-distinct"), dict(replay, ranks=[a + 1, b + 1]))


def judge_mv(ck, sid, ex, obs):
    """Multivariate conditional turning bands: data reproduced (exactly on a node, within the continuity of the model
    2e-4 mesh off it) for every variable and simulation; conditioning linear in the data: Z + D versus Z = kriging of D."""
    e = ex["e"]
    c = e["c"]
    nv, nb = c["nvar"], c["nbsimu"]
    base = {"simulator": "simtub", "nvar": nv, "nbsimu": nb, "place": c["place"]}
    replay = {"call": "simtub(dbin with %d Z variables, dbout 5x5, model %s, NeighUnique, nbsimu=%d, seed=%d, nbtuba=20)" %
                      (nv, "bivariate Gaussian(1.5; 1, 0.3, 0.3, 1)" if nv == 2 else "Gaussian(1.5, 1)", nb, c["seed"]),
              "data_xy_z10": [r[:2 + nv] for r in e["data"]], "increment_D10": [r[:2 + nv] for r in e["incr"]],
              "data_offset_x": e["dx_e6"] * 1e-6}
    oz, ozd, ok = obs[sid + ".z"], obs[sid + ".zd"], obs[sid + ".k"]
    for o in (oz, ozd, ok):
        if "crash" in o:
            ck.disagree(dict(base, kind="crash", signal=o["crash"]), replay)
            return
    cz, czd, ckr = oz["calls"][0], ozd["calls"][0], ok["calls"][0]
    if cz["err"] or czd["err"] or ckr["err"] or cz["ncol"] != nv * nb or czd["ncol"] != nv * nb or ckr["ncol"] != nv:
        ck.disagree(dict(base, kind="call-failed", ncol=cz["ncol"], ncol_krig=ckr["ncol"]), replay)
        return
    Z, ZD, K = columns(cz), columns(czd), columns(ckr)
    tol = TOL_NEAR_MV if c["place"] == "near" else None
    for iv in range(nv):
        for isimu in range(nb):
            col = Z[isimu + nb * iv]                 # Db::getSimRank: simulation + nbsimu * variable
            for t, i in e["coincide"]:
                z = e["data"][i - 1][2 + iv] / 10.0
                v = col[t - 1]
                lim = tol if tol is not None else TOL_EXACT * max(1.0, abs(z))
                if v is None or abs(v - z) > lim:
                    ck.disagree(dict(base, kind="near-datum" if tol else "cond-exact", variable=iv + 1),
                                dict(replay, variable=iv + 1, rank=isimu + 1, target_index=t, datum=z, simulated=v))
                    return
            colD = ZD[isimu + nb * iv]
            for t in range(len(col)):
                dev = abs(colD[t] - col[t] - K[iv][t])
                if dev > TOL_LINEAR * max(1.0, abs(K[iv][t])):
                    ck.disagree(dict(base, kind="cond-not-linear", variable=iv + 1),
                                dict(replay, variable=iv + 1, rank=isimu + 1, target_index=t + 1, sim_Z=col[t], sim_Z_plus_D=colD[t],
                                     kriging_of_D=K[iv][t], deviation=dev))
                    return
    ck.add("mv_values_checked", nv * nb * 25)


def judge_ranks(ck, sid, ex, obs):
    c = ex["e"]["c"]
    o = obs[sid]
    base = {"simulator": c["sim"]}
    replay = {"call": c["sim"], "nbsimu": c["nbsimu"], "seed": c["seed"], "grid": "5x5"}
    if "crash" in o:
        ck.disagree(dict(base, kind="crash", signal=o["crash"]), replay)
        return
    call = o["calls"][-1]
    if call["ncol"] != c["nbsimu"]:
        ck.disagree(dict(base, kind="ranks-missing", nbsimu=c["nbsimu"], ncol=call["ncol"]),
                    dict(replay, observed_columns=call["ncol"]))
        return
    cols = columns(call)
    if call["nonfinite"]:
        ck.disagree(dict(base, kind="non-finite"), replay)
    for a in range(len(cols)):
        for b in range(a + 1, len(cols)):
            if cols[a] == cols[b]:
                ck.disagree(dict(base, kind="ranks-not-distinct"), dict(replay, ranks=[a + 1, b + 1]))


def judge_gibbs(ck, sid, ex, obs):
    e = ex["e"]
    c = e["c"]
    base = {"simulator": "gibbs_sampler", "mode": c["mode"], "selection": bool(c["mask"])}
    nsteps = 0
    for k in range(1, e["sweeps"] + 1):
        o = obs["%s.%d" % (sid, k)]
        replay = {"call": "gibbs_sampler(db, model exp(4,1), nbsimu=%d, seed=%d, gibbs_nburn=%d, gibbs_niter=%d, mode %s)" %
                          (c["nbsimu"], c["seed"], c["nburn"], k, c["mode"]),
                  "sites": e["sites"], "bounds10_L_U": [[na(b[0]), na(b[1])] for b in e["bounds"]], "selection": e["sel"]}
        if "crash" in o:
            ck.disagree(dict(base, kind="crash", signal=o["crash"]), replay)
            return
        call = o["calls"][0]
        if call["err"] != 0 or call["ncol"] != c["nbsimu"]:
            ck.disagree(dict(base, kind="call-failed"), replay)
            return
        it = k - 1                      # the state observed is the one after sweep 'it'
        if it < e["ok_from"]:
            continue                    # documented relaxation of the bounds during the burn-in
        bad = None
        for r, col in enumerate(columns(call)):
            for i, b in enumerate(e["bounds"]):
                if not e["sel"][i]:
                    continue            # masked sample: not simulated, nothing is promised
                v = col[i]
                lo, up = na(b[0]), na(b[1])
                nsteps += 1
                out = v is None or (lo is not None and v < lo / 10.0 - TOL_BOUND * 10) or (up is not None and v > up / 10.0 + TOL_BOUND * 10)
                if out and bad is None:
                    bad = dict(replay, sweep=it, site=i + 1, rank=r + 1, value=v, lower=None if lo is None else lo / 10.0,
                               upper=None if up is None else up / 10.0)
        if bad:                         # one disagreement per sweep; later sweeps are still examined
            ck.disagree(dict(base, kind="gibbs-bounds", nburn=c["nburn"], ascoded_predicted=it < e["ascoded_ok_from"]), bad)
    ck.add("gibbs_site_states_checked", nsteps)


def judge_pgs(ck, sid, ex, obs, rules):
    e = ex["e"]
    c = e["c"]
    bi = c["sim"] == "simbipgs"
    nb = c["nbsimu"]
    base = {"simulator": c["sim"], "layout_predicted": not e["layout_ok"], "selection": bool(c["mask"]),
            "proportions": c["prop"]}
    replay = {"selection": e["sel"], "call": "%s(dbin, dbout 5x5, ruleprop, models cub/exp/sph/mat, NeighUnique, nbsimu=%d, seed=%d, nbtuba=20, nburn=5, niter=20)" %
                      (c["sim"], nb, c["seed"]),
              "rule": c["rule"], "rule2": c.get("rule2"), "props": e["props"], "data_xy": e["data"], "facies": c["fac"],
              "facies2": c.get("fac2")}
    if c["prop"] == "nonstat":
        # proportions varying in space: the thresholds vary with them; the property still demands the observed
        # facies at every datum, for both variables of simbipgs
        replay["proportion_grid"] = {"split_x": e["split_x"], "x<=split": e["propa"], "beyond": e["propb"], "unit": e["unit"]}
        of = obs[sid + ".f"]
        if "crash" in of:
            ck.disagree(dict(base, kind="crash", signal=of["crash"]), replay)
            return
        cf = of["calls"][0]
        npgs = 2 if bi else 1
        if cf["err"] or cf["ncol"] != npgs * nb:
            ck.disagree(dict(base, kind="call-failed", ncol_f=cf["ncol"]), replay)
            return
        F = columns(cf)
        facs = [c["fac"]] + ([c["fac2"]] if bi else [])
        for ipgs in range(npgs):
            for isimu in range(nb):
                fcol = F[isimu + nb * ipgs]
                for i, (x, y) in enumerate(e["data"]):
                    if e["sel"][i] and fcol[x + 5 * y] != facs[ipgs][i]:
                        ck.disagree(dict(base, kind="facies-at-data"),
                                    dict(replay, pgs=ipgs + 1, rank=isimu + 1, datum=i + 1, observed_facies=facs[ipgs][i],
                                         simulated_facies=fcol[x + 5 * y]))
                        return
        ck.add("pgs_nonstationary_data_checked", npgs * nb * len(e["data"]))
        return
    of, og = obs[sid + ".f"], obs[sid + ".g"]
    for o in (of, og):
        if "crash" in o:
            ck.disagree(dict(base, kind="crash", signal=o["crash"]), replay)
            return
    cf, cg = of["calls"][0], og["calls"][0]
    npgs = 2 if bi else 1
    rl = [rules[c["rule"]]] + ([rules[c["rule2"]]] if bi else [])
    ngrf = e["ngrf"]
    ngrftot = sum(ngrf[:npgs])
    if cf["err"] or cg["err"] or cf["ncol"] != npgs * nb or cg["ncol"] != ngrftot * nb:
        ck.disagree(dict(base, kind="call-failed", ncol_f=cf["ncol"], ncol_g=cg["ncol"]), replay)
        return
    F = columns(cf)
    G = columns(cg)
    facs = [c["fac"]] + ([c["fac2"]] if bi else [])
    nodes = [x + 5 * y for x, y in e["data"]]
    nskip = 0
    for ipgs in range(npgs):
        off = 0 if ipgs == 0 else ngrf[0]
        signs = {(s[0], s[1]): s[2] for s in rl[ipgs]["signs"]}
        for isimu in range(nb):
            fcol = F[isimu + nb * ipgs]
            g = [G[isimu + nb * (off + k)] for k in range(ngrf[ipgs])]
            # (d) facies = Rule(gaussians) at every node
            for node in range(25):
                gs = [gk[node] for gk in g]
                if any(abs(x) < TOL_THRESH for x in gs):
                    nskip += 1
                    continue
                key = (1 if gs[0] > 0 else -1, (1 if gs[1] > 0 else -1) if len(gs) > 1 else 1)
                if fcol[node] != signs[key]:
                    ck.disagree(dict(base, kind="facies-rule", layout_predicted=False),
                                dict(replay, pgs=ipgs + 1, rank=isimu + 1, node=node, gaussians=gs, facies=fcol[node], rule_says=signs[key]))
                    return
            # facies at data = observed facies; Gaussians at data within the thresholds of the observed facies
            for i, node in enumerate(nodes):
                if not e["sel"][i]:
                    continue            # masked datum: does not condition
                want = facs[ipgs][i]
                box = rl[ipgs]["boxes"][want - 1]
                gs = [gk[node] for gk in g] + [0.0]
                inbox = all((na(box[2 * k]) is None or gs[k] >= na(box[2 * k]) - TOL_THRESH) and
                            (na(box[2 * k + 1]) is None or gs[k] <= na(box[2 * k + 1]) + TOL_THRESH) for k in range(ngrf[ipgs]))
                if fcol[node] != want or not inbox:
                    ck.disagree(dict(base, kind="facies-at-data"),
                                dict(replay, pgs=ipgs + 1, rank=isimu + 1, datum=i + 1, observed_facies=want,
                                     simulated_facies=fcol[node], gaussians_at_datum=gs[:ngrf[ipgs]], thresholds_box=[na(b) for b in box]))
                    return
    ck.add("pgs_nodes_on_threshold_skipped", nskip)


def run(tier):
    ck = Check("C13", "model_checking", tier)
    vlib.build_lib()
    exe = vlib.build_harness("simu_run")
    scripts, expect = [], {}
    groups = seed_part(ck, tier, scripts, expect)
    rules = cond_part(ck, tier, scripts, expect)
    hist_part(ck, tier, scripts, expect)
    sp = os.path.join(ck.work, "scripts.ndjson")
    op = os.path.join(ck.work, "out.ndjson")
    td = os.path.join(ck.work, "trace")
    os.makedirs(td)
    vlib.write_ndjson(sp, scripts)
    r = vlib.run_harness(exe, [sp, op, min(vlib.NCPU, 8), td], timeout=3000, env={"OMP_NUM_THREADS": "1"})
    stats = json.loads(r.stderr.strip().splitlines()[-1])
    obs = {o["id"]: o for o in vlib.read_ndjson(op)}
    if len(obs) != len(scripts):
        raise Broken("harness produced %d records for %d scripts" % (len(obs), len(scripts)))
    log("[C13] %d scripts executed (%d crashes)" % (stats["scripts"], stats["crashes"]))
    ncmp = judge_seed(ck, groups, expect, obs)
    ncmp += judge_hist(ck, expect, obs)
    for sid, ex in expect.items():
        if ex["part"] == "tgb":
            judge_tgb(ck, sid, ex, obs)
            ncmp += 1
        elif ex["part"] == "case":
            sim = ex["e"]["c"]["sim"]
            if sim in ("simtub", "simtub-near"):
                judge_tb(ck, sid, ex, obs)
            elif sim == "simtub-mv":
                judge_mv(ck, sid, ex, obs)
            elif sim in ("simfft", "spde", "spdec", "simtub-nc"):
                judge_ranks(ck, sid, ex, obs)
            elif sim == "gibbs":
                judge_gibbs(ck, sid, ex, obs)
            else:
                judge_pgs(ck, sid, ex, obs, rules)
            ncmp += 1
    ck.cov["traces_validated_against_impl"] = ncmp
    ck.cov["evaluations"] = len(scripts)
    ck.cov["distinct_nontrivial"] = ck.cov["seed_stream_terms"] + sum(v for k, v in ck.cov["cases_by_category"].items())
    ck.cov["rule"] = ("scripts = every (history <= %d calls, observed call) of SimSeed.tla and every case of SimCond.tla, all emitted by TLC; "
                      "distinct = distinct (simulator, stream term) classes + distinct cases; each script runs in a fresh child process "
                      "of the real library, single thread" % (2 if tier == "quick" else 3))
    for sid in list(expect)[:: max(1, len(expect) // 5)][:5]:
        ex = expect[sid]
        ck.sample({"script": next(s for s in scripts if s["id"].split(".")[0] == sid), "expectation": {k: v for k, v in ex.items() if k != "key"}})
    ck.assumptions += ["both generator styles (law_set_old_style): every reproducibility obligation is replayed under the congruential generator "
                       "and under std::mt19937; distinctness of ranks is demanded under the old style",
                       "bit-identical comparison only between runs of the same binary, OMP_NUM_THREADS=1",
                       "exactness of the conditioning is demanded with a unique neighbourhood and no measurement error "
                       "(the assumptions under which kriging is exact)",
                       "SPDE conditioning is not exact by construction (regularised precision): only reproducibility and "
                       "distinctness are demanded of simulateSPDE",
                       "thresholds of the rules are 0 by choice of half/half proportions; nodes whose Gaussian value is within "
                       "1e-4 of a threshold are skipped and counted"]
    trace_part(ck, tier, td, scripts, expect)
    return ck.finish()


C13_EVENTS = ("Tgb", "GibbsStep", "GibbsStore", "TBReadGaus", "TBCondAt")


def trace_part(ck, tier, td, scripts, expect):
    files = [f for f in os.listdir(td) if f.endswith(".ndjson")]
    events = 0
    for f in files:
        events += sum(1 for l in open(os.path.join(td, f)) if any(('"e":"%s"' % k) in l for k in C13_EVENTS))
    if events == 0:
        ck.cov["hooks_present"] = False
        ck.cov["trace_note"] = ("the library under test carries no C13 hooks (hooks/C13.patch not applied): per-step trace validation "
                                "skipped; the per-sweep states of the Gibbs sampler were observed through the public API instead")
        log("[C13] no hook events recorded: trace validation skipped")
        return
    validate_trace(ck, tier, td, scripts, expect)


def validate_trace(ck, tier, td, scripts, expect):
    """TLC (TraceSimCond.tla) judges every recorded hook event; each script's events are preceded by a
    header carrying what the spec knows about the case (coinciding targets, GRF counts, exactness)."""
    lines = []
    events = []          # parallel to lines: (script id, event dict, case expectation)
    nscripts = 0
    for sc in scripts:
        if not sc.get("trace"):
            continue
        path = os.path.join(td, sc["id"] + ".ndjson")
        if not os.path.exists(path):
            continue
        ex = expect[sc["id"].split(".")[0]]
        hdr = {"e": "Script", "sid": sc["id"], "sim": "tgb", "exact": False, "coincide": [], "ngrf": [1, 1], "nbsimu": 1}
        if ex["part"] == "case":
            e = ex["e"]
            c = e["c"]
            hdr["sim"] = c["sim"]
            hdr["nbsimu"] = c.get("nbsimu", 1)
            if c["sim"] == "simtub":
                hdr["exact"] = c["model"] != "nugsph"
                hdr["coincide"] = e["coincide"]
            elif c["sim"] == "simtub-mv":
                hdr["exact"] = True
                hdr["coincide"] = e["coincide"]
            elif c["sim"] in ("simpgs", "simbipgs"):
                hdr["ngrf"] = e["ngrf"]
                hdr["coincide"] = [[x + 5 * y + 1, i + 1] for i, (x, y) in enumerate(e["data"])]
        evs = []
        for l in open(path):
            if any(('"e":"%s"' % k) in l for k in C13_EVENTS):
                evs.append(json.loads(l))
        if not evs:
            continue
        nscripts += 1
        lines.append(hdr)
        events.append((sc["id"], hdr, ex))
        for ev in evs:
            lines.append(ev)
            events.append((sc["id"], ev, ex))
    tp = os.path.join(ck.work, "trace.ndjson")
    vlib.write_ndjson(tp, lines)
    res = vlib.run_tlc("TraceSimCond", "TraceSimCond.cfg", workers=1, env={"TRACE": tp}, timeout=3000, heap="8g")
    if res.violation or "NOT-ALL-EXAMINED" in res.stdout:
        raise Broken("TraceSimCond did not examine the whole trace:\n" + (res.violation or res.stdout[-2000:]))
    kinds = collections.Counter(ev["e"] for _, ev, _ in events)
    for k in C13_EVENTS:
        if kinds[k] == 0:
            raise Broken("vacuous trace validation: no event of type " + k)
    nrej = 0
    for r in res.emitted:
        if r.get("kind") != "trace":
            continue
        sid, ev, ex = events[r["idx"] - 1]
        rec = {"kind": "trace", "ev": r["ev"], "fails": "+".join(sorted(r["fails"]))}
        if ex["part"] == "case":
            c = ex["e"]["c"]
            rec["simulator"] = c["sim"]
            if "layout" in c:
                rec["layout"] = c["layout"]
            if "layout_ok" in ex["e"]:
                rec["layout_predicted"] = not ex["e"]["layout_ok"]
        if r["ev"] == "Tgb":
            rec["ca"], rec["cb"] = ev["ca"], ev["cb"]
        if r["ev"] == "GibbsStep":
            rec["nburn"], rec["iter"] = ev["nburn"], ev["iter"]
        nrej += 1
        ck.disagree(rec, {"script": next(s for s in scripts if s["id"] == sid), "event": ev, "event_index_in_trace": r["idx"]})
    ck.cov["hooks_present"] = True
    ck.cov["trace_events_judged"] = len(lines) - nscripts
    ck.cov["trace_events_by_type"] = dict(kinds)
    ck.cov["trace_events_rejected"] = nrej
    ck.add("traces_validated_against_impl", nscripts)
    ck.add("states", res.distinct)
    ck.add("transitions", res.generated)
    log("[C13] TraceSimCond: %d events of %d scripts judged by TLC in %.1fs, %d rejected" % (len(lines) - nscripts, nscripts, res.wall, nrej))
