"""C15 -- SPDE operators, projections and solvers are mutually consistent.

Part A (projection clause, exact): TLC enumerates SpdeMesh.tla (MC_SpdeMesh): every regular (turbo) mesh of the
  tier in 1-3 D, its explicit unstructured variants (same / alternative triangulations, perturbed inner node),
  every quarter-cell lattice point inside, on inner faces / edges / nodes and outside; it checks on the model that
  the barycentric row is non-negative, sums to one, reproduces the affine functions and does not depend on the
  containing simplex, and prints every (mesh, point) with its expected row (exact rationals).  harness spde_run
  (mode proj) builds the real MeshETurbo / MeshEStandard in real geometries (origin, mesh sizes, rotations emitted
  by the spec: none, right angles, 3-4-5 angle; plus a seeded rational rotation of the whole scene), the Dbs in
  several layouts and the ProjMatrix through every public route.  Rows compared to 1e-10.
Part B (operator / solver clauses, relations between real executions): TLC enumerates SpdeOps.tla (MC_SpdeOps):
  the configurations and, per configuration, the proof obligations with their tolerances (constants of the spec);
  it checks that the obligations cover every configuration and the exact laws of the polynomial part.  harness
  spde_run (mode ops) executes the real objects and MEASURES each relation; this file compares the measures with
  the tolerances stated by the spec.
"""
import json, math, os, random, collections, time, shutil, concurrent.futures, hashlib, multiprocessing
from fractions import Fraction as Fr
import vlib
from vlib import Check, Broken, log

TOL_ROW = 1e-10          # weights are small rationals (multiples of 1/4 on regular meshes)
TOL_COORD = 1e-9         # relative to the size of the scene
T345 = math.degrees(math.atan2(4.0, 3.0))
FAMILIES_TURBO = ("turbo", "turbopol", "turbomask")
NPROC = int(os.environ.get("VERIF_C15_JOBS", "4"))


def stable(text):
    return int.from_bytes(hashlib.blake2b(text.encode(), digest_size=6).digest(), "big")


# --------------------------------------------------------------------------- exact geometry (plumbing)

def code_deg(a):
    return 90.0 * (a % 4) + (T345 if a >= 4 else 0.0)


def fr_matmul(a, b):
    n = len(a)
    return [[sum(a[i][k] * b[k][j] for k in range(n)) for j in range(n)] for i in range(n)]


def rational_rotation(rng, nd):
    """A rotation with rational entries and an arbitrary angle (t = p/q -> cos = (1-t^2)/(1+t^2), sin = 2t/(1+t^2)),
    with the angles (degrees) of the convention R = Rz(a1).Ry(a2).Rx(a3) of DbGrid::reset."""
    def cs():
        t = Fr(rng.randint(-40, 40), rng.randint(7, 41))
        c, s = (1 - t * t) / (1 + t * t), 2 * t / (1 + t * t)
        return c, s, math.degrees(math.atan2(float(s), float(c)))
    if nd == 1:
        return [[Fr(1)]], [0.0]
    if nd == 2:
        c, s, a = cs()
        return [[c, -s], [s, c]], [a, 0.0]
    (c1, s1, a1), (c2, s2, a2), (c3, s3, a3) = cs(), cs(), cs()
    rz = [[c1, -s1, 0], [s1, c1, 0], [0, 0, 1]]
    ry = [[c2, 0, s2], [0, 1, 0], [-s2, 0, c2]]
    rx = [[1, 0, 0], [0, c3, -s3], [0, s3, c3]]
    return fr_matmul(fr_matmul(rz, ry), rx), [a1, a2, a3]


class Geom:
    """x = x0 + R.(dx o u/4), everything as exact rationals, rounded once to doubles."""

    def __init__(self, nd, R, ang, dx, x0, name, rotated, exact):
        self.nd, self.R, self.ang, self.dx, self.x0 = nd, R, ang, dx, x0
        self.name, self.rotated, self.exact = name, rotated, exact
        self.codes = None

    @staticmethod
    def from_spec(g):
        nd = g["nd"]
        R = [[Fr(g["n"][i][k], g["d"]) for k in range(nd)] for i in range(nd)]
        ang = [code_deg(a) for a in g["ang"]]
        if nd == 2:
            ang = [ang[0], 0.0]
        dx = [Fr(n, g["dxd"]) for n in g["dxn"]]
        r = Geom(nd, R, ang, dx, [Fr(x) for x in g["x0"]], "spec:" + "".join(map(str, g["ang"])) + ":" + "/".join(map(str, g["dxn"])),
                 any(R[i][k] != (1 if i == k else 0) for i in range(nd) for k in range(nd)), True)
        r.codes = g["ang"]
        return r

    @staticmethod
    def seeded(nd, key):
        rng = random.Random("%d|%s" % (vlib.seed(), key))
        R, ang = rational_rotation(rng, nd)
        dx = [Fr(rng.randint(3, 40), 10) for _ in range(nd)]
        x0 = [Fr(rng.randint(-500, 500), 10) for _ in range(nd)]
        return Geom(nd, R, ang, dx, x0, "seeded", nd > 1, False)

    def world(self, u):
        """u: integer point in quarter-cell units"""
        v = [self.dx[k] * Fr(u[k], 4) for k in range(self.nd)]
        return [float(self.x0[i] + sum(self.R[i][k] * v[k] for k in range(self.nd))) for i in range(self.nd)]

    def scale(self):
        return max(1.0, max(abs(float(x)) for x in self.x0) + 20.0 * max(float(d) for d in self.dx))


# --------------------------------------------------------------------------- part A

ROUTES_ALL = ["single@ProjMatrix(db,mesh)", "all@ProjMatrix::create", "rev@AMesh::createProjMatrix",
              "inside@ProjMatrix::resetFromMeshAndDb", "inside@ProjMatrix(copy)",
              "inside@IProjMatrix::point2mesh(unit vectors)", "inside@ProjMultiMatrix::createFromDbAndMeshes",
              "insidesel@ProjMatrix::resetFromMeshAndDb", "insidezdef@ProjMatrix(db,mesh,rankZ=0)"]
ROUTES_TURBO = ["inside@MeshETurbo::create", "inside@MeshETurbo::createFromGrid", "inside@MeshETurbo::createFromGridInfo",
                "inside@MeshETurbo::initFromGridByAngles", "inside@MeshETurbo(copy)", "inside@MeshEStandard::resetFromTurbo"]
ROUTES_TURBO_MASK = ["inside@MeshETurbo::createFromGrid", "inside@MeshETurbo::initFromGridByAngles", "inside@MeshETurbo(copy)",
                     "inside@MeshEStandard::resetFromTurbo"]
ROUTES_STD = ["inside@MeshEStandard::createFromExternal", "inside@MeshEStandard::reset(byRow)",
              "inside@MeshEStandard::reset(byCol)", "inside@MeshEStandard(copy)"]


class MeshCases:
    def __init__(self, rec):
        self.key = rec["key"]
        self.nd, self.nx, self.fam = rec["key"]["nd"], rec["key"]["nx"], rec["key"]["fam"]
        self.ap, self.sx, self.sel = rec["ap"], rec["sx"], rec.get("sel") or None
        self.points = []

    def finish(self):
        self.points.sort(key=lambda p: p["q"])
        self.use = [p for p in self.points if p["kind"] != "bnd"]       # the property excludes the outer boundary


def mesh_id(key):
    return json.dumps([key["nd"], key["nx"], key["fam"]])


def build_scene(sid, m, g):
    pts = [g.world(p["q"]) for p in m.use]
    inside = [0 if p["kind"] == "out" else 1 for p in m.use]
    # layouts: a selection that masks one inside point out of three, a variable undefined at one out of four
    sel, zdef, k = [], [], 0
    for p, ins in zip(m.use, inside):
        if ins:
            sel.append(0 if k % 3 == 1 else 1)
            zdef.append(0 if k % 4 == 2 else 1)
            k += 1
        else:
            sel.append(1)
            zdef.append(1)
    sc = {"id": sid, "nd": m.nd, "type": "turbo" if m.fam in FAMILIES_TURBO else "std", "pts": pts, "inside": inside,
          "sel": sel, "zdef": zdef}
    want_ap = [g.world(a) for a in m.ap]
    if sc["type"] == "turbo":
        sc["turbo"] = {"nx": m.nx, "dx": [float(d) for d in g.dx], "x0": [float(x) for x in g.x0], "ang": g.ang,
                       "pol": 1 if m.fam == "turbopol" else 0}
        if m.sel:
            sc["turbo"]["sel"] = m.sel
    else:
        sc["apices"] = want_ap
        sc["meshes"] = m.sx
    # what the comparison needs (ignored by the harness): the cases of the specification and the geometry
    sc["_key"] = m.key
    sc["_use"] = [{"q": p["q"], "kind": p["kind"], "row": p["row"]} for p in m.use]
    sc["_sx"] = m.sx
    sc["_g"] = {"name": g.name, "rotated": bool(g.rotated), "exact": bool(g.exact), "scale": g.scale(), "want_ap": want_ap}
    return sc


def exp_row(p):
    return {a: n / d for a, n, d in p["row"]}


def row_bad(obs_pairs, exp):
    obs = {}
    for col, val in obs_pairs:
        obs[col] = obs.get(col, 0.0) + val
    for col in set(obs) | set(exp):
        if abs(obs.get(col, 0.0) - exp.get(col, 0.0)) > TOL_ROW:
            return True
    return False


def compare_matrix(mat, exp_rows, napices):
    """-> (clause, list of indices of bad rows)"""
    if not isinstance(mat, dict) or "null" in mat:
        return "null", []
    if "exception" in mat:
        return "exception", []
    if mat["nrows"] != len(exp_rows):
        return "nrows", []
    if mat["ncols"] != napices:
        return "ncols", []
    bad = [i for i, (o, e) in enumerate(zip(mat["rows"], exp_rows)) if row_bad(o, e)]
    return ("row" if bad else None), bad


def shifted_signature(mat, pts, exp_rows):
    """Recognises (never accepts) the rows produced when the points below the grid are skipped without advancing
    the row counter (MeshETurbo::resetProjMatrix): the rows of the other points, compacted."""
    if not isinstance(mat, dict) or "rows" not in mat:
        return None
    keep = [e for p, e in zip(pts, exp_rows) if not (p["kind"] == "out" and any(x < 0 for x in p["q"]))]
    if len(keep) == len(exp_rows):
        return None
    comp = keep + [{} for _ in range(len(exp_rows) - len(keep))]
    if mat["nrows"] == len(exp_rows) and not any(row_bad(o, e) for o, e in zip(mat["rows"], comp)):
        return "rows_compacted_over_points_below_the_grid"
    return None


def other_signature(mat, exp_rows, clause):
    """Recognisers (never acceptors) of two other recorded defects."""
    if not isinstance(mat, dict) or "rows" not in mat:
        return None
    if clause == "nrows":
        # MeshEStandard::resetProjMatrix: the empty rows after the last non-empty one are not created
        last = max([i for i, e in enumerate(exp_rows) if e], default=-1)
        if mat["nrows"] == last + 1 and not any(row_bad(o, e) for o, e in zip(mat["rows"], exp_rows[:last + 1])):
            return "trailing_empty_rows_missing"
    if clause == "row" and mat["nrows"] == len(exp_rows) and not any(mat["rows"]):
        return "all_rows_empty"
    return None


class _NS:
    pass


def compare_scene(sc, o, stats):
    """-> list of (rec, replay) disagreements of one scene"""
    out = []
    m, g = _NS(), _NS()
    m.key, m.use, m.sx = sc["_key"], sc["_use"], sc["_sx"]
    m.nd, m.fam = m.key["nd"], m.key["fam"]
    g.name, g.rotated, g.exact = sc["_g"]["name"], sc["_g"]["rotated"], sc["_g"]["exact"]
    base = {"part": "proj", "type": sc["type"], "fam": m.fam, "nd": m.nd, "rotated": bool(g.rotated), "geom": "spec" if g.exact else "seeded"}

    def dis(clause, route, kinds, signature=None, detail=None):
        rec = dict(base, clause=clause, route=route, kinds="+".join(sorted(set(kinds))), signature=signature)
        out.append((rec, {"scene": {k: sc[k] for k in sc if k not in ("pts", "inside", "sel", "zdef") and not k.startswith("_")}, "mesh": m.key,
                          "geometry": g.name, "detail": detail,
                          "how": "scene = one line of the file given to .build/bin/spde_run proj <scenes> <out>"}))

    if "crash" in o or "exception" in o:
        dis("crash", "scene", [], detail=o.get("crash", o.get("exception")))
        return out
    want_ap = sc["_g"]["want_ap"]
    napices = len(want_ap)
    use = m.use
    exp_all = [exp_row(p) for p in use]
    # ---- structure of the real mesh
    ms = o["mesh"]
    scale = sc["_g"]["scale"]
    ok = ms["ndim"] == m.nd and ms["napices"] == napices and ms["nmeshes"] == len(m.sx) and ms["ncorner"] == m.nd + 1
    if ok:
        ok = all(abs(a - b) <= TOL_COORD * scale for pa, pb in zip(ms["apices"], want_ap) for a, b in zip(pa, pb))
        ok = ok and sorted(tuple(sorted(s)) for s in ms["meshes"]) == sorted(tuple(sorted(s)) for s in m.sx)
        ok = ok and all(abs(c - want_ap[a][d]) <= TOL_COORD * scale
                        for s, cs in zip(ms["meshes"], ms["corners"]) for a, cc in zip(s, cs) for d, c in enumerate(cc))
    stats["structure"] += 1
    if not ok:
        dis("mesh_structure", "getApex/getApexCoor/getCoor", [], detail={"observed": ms if len(json.dumps(ms)) < 3000 else "large"})
    routes = o["routes"]
    wanted = ROUTES_ALL + (ROUTES_STD if sc["type"] == "std" else ROUTES_TURBO_MASK if m.fam == "turbomask" else ROUTES_TURBO)
    ins_idx = [i for i, f in enumerate(sc["inside"]) if f]
    for name in wanted:
        if name not in routes:
            if ins_idx or not name.startswith("inside"):
                raise Broken("spde_run did not produce the route %s" % name)
            continue
        layout = name.split("@")[0]
        mat = routes[name]
        if layout == "single":
            bad, clause = [], None
            for i, (one, e) in enumerate(zip(mat, exp_all)):
                cl, b = compare_matrix(one, [e], napices)
                if cl:
                    bad.append(i)
                    clause = clause or cl
            pts = use
            stats["rows"] += len(use)
            for p in use:
                stats["cat:%d:%s:%s:%s" % (m.nd, sc["type"], "rot" if g.rotated else "norot", p["kind"])] += 1
                stats["fam:%s:%s" % (m.fam, p["kind"])] += 1
        else:
            if layout == "all":
                idx = list(range(len(use)))
            elif layout == "rev":
                idx = list(range(len(use) - 1, -1, -1))
            elif layout == "inside":
                idx = ins_idx
            elif layout == "insidesel":
                idx = [i for i in ins_idx if sc["sel"][i]]
            elif layout == "insidezdef":
                idx = [i for i in ins_idx if sc["zdef"][i]]
            else:
                raise Broken("unknown layout " + layout)
            pts = [use[i] for i in idx]
            exp = [exp_all[i] for i in idx]
            clause, bad = compare_matrix(mat, exp, napices)
            stats["rows"] += len(idx)
        stats["route:" + name] += 1
        if clause:
            kinds = [pts[i]["kind"] for i in bad] if bad else [p["kind"] for p in pts]
            sig = None
            if layout != "single":
                sig = (shifted_signature(mat, pts, exp) if layout in ("all", "rev") else None) or other_signature(mat, exp, clause)
            detail = {"first_bad_points": [{"q": pts[i]["q"], "kind": pts[i]["kind"], "expected_row": pts[i]["row"],
                                            "observed_row": (mat[i]["rows"][0] if layout == "single" and "rows" in mat[i] and mat[i]["rows"] else
                                                             (mat[i] if layout == "single" else mat["rows"][i]))} for i in bad[:4]],
                      "nrows": (mat.get("nrows") if isinstance(mat, dict) else None), "expected_nrows": len(pts),
                      "ncols": (mat.get("ncols") if isinstance(mat, dict) else None), "expected_ncols": napices, "nbad": len(bad)}
            dis(clause, name, kinds, sig, detail)
    # ---- affine functions through mesh2point (inside points)
    if ins_idx:
        aff = o.get("affine@IProjMatrix::mesh2point")
        if aff is None:
            raise Broken("spde_run did not produce the affine functions")
        bad = []
        for d in range(m.nd + 1):
            col = aff[d]
            if col is None or len(col) != len(ins_idx):
                bad.append(("size", d))
                continue
            for j, i in enumerate(ins_idx):
                want = sc["pts"][i][d] if d < m.nd else 1.0
                if col[j] is None or abs(col[j] - want) > TOL_COORD * scale:
                    bad.append((use[i]["q"], d, col[j], want))
        stats["affine"] += len(ins_idx) * (m.nd + 1)
        if bad:
            dis("affine", "IProjMatrix::mesh2point", ["in"], detail=bad[:5])
    return out


def run_shard(exe, mode, casep, obsp):
    start, crashes = 0, []
    for attempt in range(60):
        r = vlib.run_harness(exe, [mode, casep, obsp, start], ok_codes=(0, 88), timeout=6000)
        if r.returncode == 0:
            return crashes
        with open(obsp, "rb") as f:
            f.seek(max(0, os.path.getsize(obsp) - 4096))
            last = f.read().decode().strip().splitlines()[-1]
        rec = json.loads(last)
        if "crash" not in rec:
            raise Broken("spde_run stopped without a crash record: " + r.stderr[-500:])
        crashes.append(rec)
        start = rec["line"] + 1
    raise Broken("spde_run: more than 60 crashing cases in one shard")


def run_sharded(ck, exe, mode, scenes, tag):
    """-> {id: observed}"""
    nsh = max(1, min(NPROC, len(scenes)))
    paths = []
    for s in range(nsh):
        cp = os.path.join(ck.work, "%s_cases_%d.ndjson" % (tag, s))
        vlib.write_ndjson(cp, scenes[s::nsh])
        paths.append((cp, os.path.join(ck.work, "%s_obs_%d.ndjson" % (tag, s))))
    with concurrent.futures.ThreadPoolExecutor(nsh) as ex:
        crashes = sum(ex.map(lambda p: run_shard(exe, mode, p[0], p[1]), paths), [])
    obs = {}
    for _, op in paths:
        for rec in vlib.read_ndjson(op):
            obs[rec["id"]] = rec
    for sc in scenes:
        if sc["id"] not in obs:
            raise Broken("spde_run (%s) produced nothing for case %s" % (mode, sc["id"]))
    return obs, crashes


def geoms_for(m, k, gl, tier):
    """The geometries in which a mesh is executed: all those of the specification (three of them, chosen by a fixed
    rule, for the largest 3-D meshes) plus a seeded rational rotation of the whole scene (quick: one mesh out of three)."""
    mg = [g for g in gl if g.nd == m.nd]
    if m.nd == 3 and max(m.nx) >= 4:
        h = stable(k)
        mg = [mg[(h + i * 3) % len(mg)] for i in range(3)]
        mg = [g for i, g in enumerate(mg) if g not in mg[:i]]
    if tier != "quick" or stable(k) % 3 == 0:
        mg = mg + [Geom.seeded(m.nd, k)]
    return mg


def proj_worker(args):
    exe, casep, obsp = args
    out = {"dis": [], "stats": collections.Counter(), "samples": [], "crashes": 0, "error": None, "n": 0}
    try:
        crashes = run_shard(exe, "proj", casep, obsp)
        out["crashes"] = len(crashes)
        nreplay = 0
        with open(casep) as fc, open(obsp) as fo:
            for lc in fc:
                sc = json.loads(lc)
                lo = fo.readline()
                o = json.loads(lo) if lo else None
                if o is None or o.get("id") != sc["id"]:
                    out["error"] = "spde_run (proj) output out of step at scene %s" % sc["id"]
                    return out
                out["n"] += 1
                for rec, replay in compare_scene(sc, o, out["stats"]):
                    nreplay += 1
                    out["dis"].append((sc["id"], rec, replay if nreplay <= 40 else {"scene_id": sc["id"], "mesh": sc["_key"], "geometry": sc["_g"]["name"]}))
                if len(out["samples"]) < 1 and sc["_use"] and "routes" in o:
                    i = next((i for i, p in enumerate(sc["_use"]) if p["kind"] == "inface"), 0)
                    p = sc["_use"][i]
                    out["samples"].append({"part": "proj", "mesh": sc["_key"], "geometry": sc["_g"]["name"], "point_q": p["q"], "kind": p["kind"],
                                           "expected_row": p["row"], "observed_row": o["routes"].get("single@ProjMatrix(db,mesh)", [{}] * (i + 1))[i]})
    except Broken as b:
        out["error"] = str(b)
    finally:
        for f in (casep, obsp):
            try:
                os.remove(f)
            except OSError:
                pass
    return out


def part_a(ck, tier, exe):
    t0 = time.time()
    geoms, meshes = [], {}
    pend = collections.defaultdict(list)

    def on(v):
        if v["k"] == "geom":
            geoms.append(v)
        elif v["k"] == "mesh":
            meshes[mesh_id(v["key"])] = MeshCases(v)
        else:
            pend[mesh_id(v["key"])].append(v)
    res = vlib.run_tlc("MC_SpdeMesh", "MC_SpdeMesh_%s.cfg" % tier, workers=int(os.environ.get("VERIF_TLC_WORKERS", "4")),
                       on_emit=on, heap="3g", timeout=6000)
    if res.violation:
        raise Broken("SpdeMesh.tla violates its own invariant (the model is wrong):\n" + res.violation)
    npts = 0
    for k, lst in pend.items():
        if k not in meshes:
            raise Broken("TLC printed points of a mesh it did not print")
        meshes[k].points = lst
        npts += len(lst)
    if len(geoms) + len(meshes) + npts != res.distinct:
        raise Broken("TLC printed %d cases for %d distinct states" % (len(geoms) + len(meshes) + npts, res.distinct))
    log("[C15] MC_SpdeMesh %s: %d states = %d geometries + %d meshes + %d (mesh, point) cases, invariant holds, %.1fs" %
        (tier, res.distinct, len(geoms), len(meshes), npts, res.wall))
    gl = [Geom.from_spec(g["g"]) for g in sorted(geoms, key=lambda g: json.dumps(g["g"]))]
    # scenes, written as they are built: many small shards, executed and compared by a pool of processes
    nscene, shard, shards, weight = 0, [], [], 0

    def flush():
        nonlocal shard, weight
        if shard:
            cp = os.path.join(ck.work, "proj_cases_%d.ndjson" % len(shards))
            vlib.write_ndjson(cp, shard)
            shards.append((exe, cp, os.path.join(ck.work, "proj_obs_%d.ndjson" % len(shards))))
            shard, weight = [], 0
    for k in sorted(meshes):
        m = meshes[k]
        m.finish()
        for g in geoms_for(m, k, gl, tier):
            shard.append(build_scene(nscene, m, g))
            nscene += 1
            weight += len(m.use)
            if weight > 12000:
                flush()
    flush()
    with multiprocessing.Pool(min(NPROC, len(shards))) as pool:
        parts = pool.map(proj_worker, shards, chunksize=1)
    stats = collections.Counter()
    dis, ncrash, ndone = [], 0, 0
    for p in parts:
        if p["error"]:
            raise Broken(p["error"])
        stats.update(p["stats"])
        dis += p["dis"]
        ncrash += p["crashes"]
        ndone += p["n"]
        for smp in p["samples"][:1]:
            ck.sample(smp, cap=3)
    if ndone != nscene:
        raise Broken("%d scenes compared for %d written" % (ndone, nscene))
    dis.sort(key=lambda d: d[0])
    for _, rec, replay in dis:
        ck.disagree(rec, replay)
    ndis = len(dis)
    # vacuity guards
    for nd in (1, 2, 3):
        for ty in ("turbo", "std"):
            for rot in (("norot",) if nd == 1 else ("norot", "rot")):
                for kind in ("in1", "inface", "out"):
                    if stats["cat:%d:%s:%s:%s" % (nd, ty, rot, kind)] == 0:
                        raise Broken("vacuous: no %s point on a %s mesh in %d-D (%s)" % (kind, ty, nd, rot))
    for fam in ("turbo", "turbopol", "turbomask", "std_same", "std_alt", "std_alt2", "std_pert"):
        for kind in ("in1", "inface", "out"):
            if stats["fam:%s:%s" % (fam, kind)] == 0:
                raise Broken("vacuous: no %s point on a mesh of the family %s" % (kind, fam))
    for r in ROUTES_ALL + ROUTES_TURBO + ROUTES_STD:
        if stats["route:" + r] == 0:
            raise Broken("vacuous: route %s never exercised" % r)
    if stats["affine"] == 0 or stats["structure"] == 0:
        raise Broken("vacuous: affine functions / mesh structure never compared")
    ck.cov["states"] = ck.cov.get("states", 0) + res.distinct
    ck.cov["transitions"] = ck.cov.get("transitions", 0) + res.generated
    ck.cov["proj_meshes"] = len(meshes)
    ck.cov["proj_mesh_point_cases"] = npts
    ck.cov["proj_scenes_executed"] = nscene
    ck.cov["proj_rows_compared"] = stats["rows"]
    ck.cov["proj_affine_values_compared"] = stats["affine"]
    ck.cov["proj_categories"] = {k[4:]: v for k, v in sorted(stats.items()) if k.startswith("cat:")}
    ck.cov["proj_families"] = {k[4:]: v for k, v in sorted(stats.items()) if k.startswith("fam:")}
    ck.cov["proj_routes"] = {k[6:]: v for k, v in sorted(stats.items()) if k.startswith("route:")}
    ck.cov["proj_library_crashes"] = ncrash
    ck.add("traces_validated_against_impl", nscene)
    ck.add("evaluations", stats["rows"] + stats["affine"])
    ck.add("distinct_nontrivial", sum(v for k, v in stats.items() if k.startswith("cat:") and (":in1" in k or ":inface" in k)))
    log("[C15] part A: %d scenes, %d rows compared, %d disagreement(s), %.1fs" % (nscene, stats["rows"], ndis, time.time() - t0))
    return gl, meshes


# --------------------------------------------------------------------------- part B

def tolval(t):
    return t["m"] * 10.0 ** t["e"]


def grid_nodes(nx):
    nd = len(nx)
    out = []
    tot = 1
    for n in nx:
        tot *= n
    for r in range(tot):
        idx, q = [], r
        for k in range(nd):
            idx.append(q % nx[k])
            q //= nx[k]
        out.append([4 * i for i in idx])
    return out


def build_config(cid, v, gl, meshes):
    c = v["c"]
    nd = c["nd"]
    cands = [g for g in gl if g.nd == nd and g.codes == c["rot"]]
    if not cands:
        raise Broken("SpdeOps uses the rotation %s that SpdeMesh does not emit in %d-D" % (c["rot"], nd))
    g = cands[-1]
    fam, nx = c["mesh"]["fam"], c["mesh"]["nx"]
    if fam in FAMILIES_TURBO:
        mesh = {"type": "turbo", "nx": nx, "dx": [float(d) for d in g.dx], "x0": [float(x) for x in g.x0], "ang": g.ang,
                "pol": 1 if fam == "turbopol" else 0}
        nodes = grid_nodes(nx)
        if fam == "turbomask":
            m = meshes.get(mesh_id({"nd": nd, "nx": nx, "fam": fam}))
            if m is None:
                raise Broken("SpdeOps uses the mesh %s %s that SpdeMesh does not emit in this tier" % (fam, nx))
            mesh["sel"] = m.sel
            nodes = m.ap
    else:
        m = meshes.get(mesh_id({"nd": nd, "nx": nx, "fam": fam}))
        if m is None:
            raise Broken("SpdeOps uses the mesh %s %s that SpdeMesh does not emit in this tier" % (fam, nx))
        mesh = {"type": "std", "apices": [g.world(a) for a in m.ap], "meshes": m.sx}
        nodes = m.ap
    if len(nodes) != v["n"]:
        raise Broken("number of apices of %s %s: %d for the spec, %d emitted" % (fam, nx, v["n"], len(nodes)))
    sill = c["sill2"] / 2.0
    h = float(g.dx[0])
    ang = [0.0] * nd
    if nd >= 2:
        ang[0] = code_deg(v["anisoang"])
    return {"id": cid, "k": "config", "nd": nd, "mesh": mesh,
            "model": dict({"nu": v["nu2"] / 2.0, "ranges": [r * h for r in v["ranges"]], "angles": ang, "sill": sill,
                           "nugget": sill / v["nuggetinv"]},
                          **({"struct2": {"nu": v["nu2b"] / 2.0, "ranges": [r * h for r in v["struct2"]["ranges"]],
                                          "sill": v["struct2"]["sill2"] / 2.0}} if c["nstruct"] == 2 else {})),
            "driftorder": v["driftorder"],
            "data": dict({"x": [g.world(q) for q in v["data"]], "z": [float(z) for z in v["z"]]},
                         **({"verr": [(sill + (v["struct2"]["sill2"] / 2.0 if c["nstruct"] == 2 else 0.0)) * f[0] / f[1] for f in v["verrfrac"]]}
                            if v["verrfrac"] else {})),
            "targets": [g.world(a) for a in nodes] + [g.world(q) for q in v["data"]],
            "v1": v["v1"], "v2": v["v2"], "lincoefs": v["lincoefs"],
            "cgeps": tolval(v["cgeps"]), "cgepsset": sorted(tolval(t) for t in v["cgepsset"]), "cgnitermax": v["cgnitermax"], "cgrestarts": v["cgrestarts"],
            "eigentolset": sorted(tolval(t) for t in v["eigentolset"]), "eigentolnew": tolval(v["eigentolnew"]),
            "seed": 1000 + vlib.seed(), "nbsimu": 10, "nlogdet": 400, "heavy": 1 if cid % v["heavyevery"] == 0 else 0}, g


def judge_config(v, g, o, table, stats, heavy):
    """-> list of (rec, replay)"""
    c = v["c"]
    base = {"part": "ops", "nd": c["nd"], "fam": c["mesh"]["fam"], "type": "turbo" if c["mesh"]["fam"] in FAMILIES_TURBO else "std",
            "rotated": bool(g.rotated), "alpha_integer": c["alpha2"] % 2 == 0, "aniso": c["aniso"], "layout": c["layout"], "verr": c["verr"], "nstruct": c["nstruct"], "drift": c["drift"]}
    out = []

    def dis(name, clause, tag, detail):
        out.append((dict(base, obligation=name, clause=clause, tag=tag),
                    {"config": v, "geometry": g.name, "detail": detail, "info": o.get("info"),
                     "how": "case = one line of the file given to .build/bin/spde_run ops <cases> <out> (built by tools/checks/c15.py)"}))
    if "crash" in o or "exception" in o:
        dis("all", "crash", "config", o.get("crash", o.get("exception")))
        return out
    ms = o["measures"]
    for ob in table:
        name = ob["name"]
        lst = ms.get(name)
        if ob["heavy"] and not heavy:
            continue
        if name.startswith("Drift.") and c["drift"] == "none":       # NeedsDrift of the specification
            continue
        if not lst:
            dis(name, ob["clause"], "missing", "the harness produced no measure")
            continue
        tol = tolval(ob["tol"])
        worst = {}
        for x in lst:
            tag = x.get("tag", "")
            fam_tag = tag
            if "failed" in x:
                worst.setdefault("failed", ("failed", x["failed"], None))
                continue
            stats["ob:" + name] += 1
            stats["ob:%s:%dD" % (ob["clause"], c["nd"])] += 1
            if ob["rel"] == "le":
                e, r = x.get("err"), x.get("ref")
                bad = e is None or r is None or not (e <= tol * r)
                ratio = (e / (tol * r)) if (e is not None and r) else float("inf")
            elif ob["rel"] == "pos":
                e = x.get("value")
                bad = e is None or not (e > 0)
                ratio = float("inf")
            else:
                e = x.get("value")
                bad = e != 1
                ratio = float("inf")
            stats["ratio:" + name] = max(stats["ratio:" + name], 0 if ratio == float("inf") else ratio) if ob["rel"] == "le" and not bad else stats["ratio:" + name]
            if bad and (fam_tag not in worst or ratio > worst[fam_tag][2]["ratio"]):
                worst[fam_tag] = (fam_tag, x, {"ratio": ratio, "tolerance": tol, "rel": ob["rel"]})
        for fam_tag, (tg, x, extra) in worst.items():
            dis(name, ob["clause"], tg, {"measure": x, "judgement": extra, "what": ob["what"]})
    return out


POLY_TOL = 1e-12


def judge_poly(v, o):
    out = []
    if "crash" in o or "exception" in o:
        return [({"part": "poly", "api": "all", "quantity": "crash", "ncoefs": len(v["coefs"])}, {"case": v, "observed": o})]
    seen = 0
    for key, obs in o["results"].items():
        q, _, api = key.partition("@")
        exp = v[q]
        if q.startswith("cheb"):
            exp = [e / v["chebden"] for e in exp]
        seen += 1
        ok = isinstance(obs, list) and len(obs) == len(exp) and all(a is not None and abs(a - e) <= POLY_TOL * max(1.0, abs(e)) for a, e in zip(obs, exp))
        if not ok:
            out.append(({"part": "poly", "api": api, "quantity": q, "ncoefs": len(v["coefs"])},
                        {"case": v, "observed": obs, "expected": exp, "how": "spde_run ops on the case (k = poly)"}))
    return out, seen


def part_b(ck, tier, exe, partA):
    t0 = time.time()
    gl, meshes = partA
    recs = []
    res = vlib.run_tlc("MC_SpdeOps", "MC_SpdeOps_%s.cfg" % tier, workers=int(os.environ.get("VERIF_TLC_WORKERS", "4")),
                       on_emit=recs.append, heap="2g", timeout=3000)
    if res.violation:
        raise Broken("SpdeOps.tla violates its own invariant (the model is wrong):\n" + res.violation)
    if len(recs) != res.distinct:
        raise Broken("TLC printed %d cases for %d distinct states" % (len(recs), res.distinct))
    tables = [r for r in recs if r["k"] == "obligations"]
    if len(tables) != 1:
        raise Broken("expected one table of obligations")
    table = sorted(tables[0]["list"], key=lambda o: o["name"])
    configs = sorted((r for r in recs if r["k"] == "config"), key=lambda r: json.dumps(r["c"], sort_keys=True))
    polys = sorted((r for r in recs if r["k"] == "poly"), key=lambda r: json.dumps([r["coefs"], r["diag"]]))
    log("[C15] MC_SpdeOps %s: %d states = %d configurations + %d polynomial cases + the table of %d obligations, invariant holds, %.1fs" %
        (tier, res.distinct, len(configs), len(polys), len(table), res.wall))
    cases, info = [], {}
    for v in configs:
        cid = len(cases)
        case, g = build_config(cid, v, gl, meshes)
        cases.append(case)
        info[cid] = (v, g)
    for v in polys:
        cid = len(cases)
        cases.append(dict(v, id=cid))
        info[cid] = (v, None)
    obs, crashes = run_sharded(ck, exe, "ops", cases, "ops")
    stats = collections.Counter()
    ndis, npoly = 0, 0
    for case in cases:
        v, g = info[case["id"]]
        o = obs[case["id"]]
        if v["k"] == "poly":
            r = judge_poly(v, o)
            if isinstance(r, tuple):
                lst, seen = r
            else:
                lst, seen = r, 0
            npoly += seen
            for k in o.get("results", {}):
                stats["poly:" + k] += 1
        else:
            lst = judge_config(v, g, o, table, stats, case["heavy"])
            c = v["c"]
            stats["cfg:%dD:%s" % (c["nd"], "turbo" if c["mesh"]["fam"] in FAMILIES_TURBO else "std")] += 1
            stats["cfg:rot" if g.rotated else "cfg:norot"] += 1
            stats["cfg:alpha_integer" if c["alpha2"] % 2 == 0 else "cfg:alpha_noninteger"] += 1
            stats["cfg:" + c["aniso"]] += 1
            stats["cfg:layout:" + c["layout"]] += 1
            stats["cfg:verr:" + c["verr"]] += 1
            stats["cfg:nstruct:%d" % c["nstruct"]] += 1
            stats["cfg:drift:" + c["drift"]] += 1
            stats["cfg:nstruct%d:drift:%s" % (c["nstruct"], c["drift"])] += 1
        for rec, replay in lst:
            ck.disagree(rec, replay)
            ndis += 1
    # vacuity guards
    for nd in (1, 2, 3):
        for ty in ("turbo", "std"):
            if stats["cfg:%dD:%s" % (nd, ty)] == 0:
                raise Broken("vacuous: no configuration in %d-D on a %s mesh" % (nd, ty))
        for cl in sorted(set(ob["clause"] for ob in table)):
            if stats["ob:%s:%dD" % (cl, nd)] == 0:
                raise Broken("vacuous: clause %s never measured in %d-D" % (cl, nd))
    for key in ("cfg:rot", "cfg:norot", "cfg:alpha_integer", "cfg:alpha_noninteger", "cfg:iso", "cfg:aniso", "cfg:rotaniso",
                "cfg:layout:spread", "cfg:layout:cluster", "cfg:layout:nodes", "cfg:layout:outside",
                "cfg:verr:const", "cfg:verr:distinct", "cfg:verr:extreme", "cfg:nstruct:1", "cfg:nstruct:2",
                "cfg:nstruct2:drift:none", "cfg:nstruct2:drift:const", "cfg:nstruct2:drift:linear", "cfg:nstruct1:drift:linear"):
        if stats[key] == 0:
            raise Broken("vacuous: no configuration of category %s" % key[4:])
    for ob in table:
        if stats["ob:" + ob["name"]] == 0 and not any(k["match"].get("obligation") == ob["name"] for k in ck.known):
            raise Broken("vacuous: obligation %s never measured" % ob["name"])
    for api in ("scalar@ClassicalPolynomial::eval", "classical@ClassicalPolynomial::evalOp", "classical@ClassicalPolynomial::evalOpCumul",
                "classical@ClassicalPolynomial::addEvalOp", "classical@ClassicalPolynomial::evalOpTraining",
                "scalar@ClassicalPolynomial::evalOpByRank", "chebscalar@Chebychev::eval", "cheb@Chebychev::evalOp"):
        if stats["poly:" + api] == 0:
            raise Broken("vacuous: polynomial entry point %s never exercised" % api)
    ck.cov["states"] = ck.cov.get("states", 0) + res.distinct
    ck.cov["transitions"] = ck.cov.get("transitions", 0) + res.generated
    ck.cov["ops_configurations_executed"] = len(configs)
    ck.cov["ops_polynomial_cases"] = len(polys)
    ck.cov["ops_polynomial_vectors_compared"] = npoly
    ck.cov["ops_obligations"] = {ob["name"]: {"relation": ob["rel"], "tolerance": tolval(ob["tol"]), "measures": stats["ob:" + ob["name"]],
                                              "worst_measure_over_tolerance": round(stats["ratio:" + ob["name"]], 6) if ob["rel"] == "le" else None}
                                 for ob in table}
    ck.cov["ops_categories"] = {k[4:]: v for k, v in sorted(stats.items()) if k.startswith("cfg:")}
    ck.cov["ops_library_crashes"] = len(crashes)
    ck.add("traces_validated_against_impl", len(cases))
    ck.add("evaluations", sum(v for k, v in stats.items() if k.startswith("ob:") and k.count(":") == 1) + npoly)
    ck.add("distinct_nontrivial", len(configs))
    cid = len(configs) // 2
    v, g = info[cid]
    ck.sample({"part": "ops", "configuration": v["c"], "geometry": g.name, "info": obs[cid].get("info"),
               "some_measures": {k: obs[cid]["measures"][k][:2] for k in list(obs[cid].get("measures", {}))[:8]}})
    log("[C15] part B: %d configurations, %d polynomial cases, %d disagreement(s), %.1fs" % (len(configs), len(polys), ndis, time.time() - t0))

# --------------------------------------------------------------------------- driver

def run(tier):
    ck = Check("C15", "model_checking", tier)
    try:
        return check(ck, tier)
    finally:
        shutil.rmtree(ck.work, ignore_errors=True)


def check(ck, tier):
    vlib.build_lib()
    exe = vlib.build_harness("spde_run")
    pa = part_a(ck, tier, exe)
    part_b(ck, tier, exe, pa)
    summary = collections.Counter(json.dumps({k: v for k, v in rec.items()}, sort_keys=True) for rec, _ in ck.violations)
    for text, n in summary.most_common(40):
        log("   %6d x %s" % (n, text))
    ck.cov["mc_config"] = ["spec/MC_SpdeMesh_%s.cfg" % tier, "spec/MC_SpdeOps_%s.cfg" % tier]
    ck.cov["rule"] = ("part A (exact): every (mesh, quarter-cell lattice point) case of SpdeMesh.tla within the constants of the tier, "
                      "expected row computed exactly by TLC, executed on the real meshes in the geometries emitted by the spec (plus a "
                      "seeded rational rotation of the scene) through every route; rows compared to 1e-10; distinct cases are distinct "
                      "(mesh, geometry, point, layout). part B (relations): every configuration of SpdeOps.tla kept by the tier executed "
                      "on the real objects, each obligation of the table measured (err, ref) and compared with the tolerance stated by the "
                      "spec; polynomial cases compared with the integers computed by TLC. evaluations = rows + affine values + measures "
                      "+ polynomial vectors compared; distinct_nontrivial = rows of inside points + configurations")
    ck.assumptions += [
        "points exactly on the outer boundary of a mesh are not examined (the property speaks of points inside / outside)",
        "rotation convention = documentation of DbGrid::reset (R = Rz(a1).Ry(a2).Rx(a3), origin invariant)",
        "the split of a grid cell into simplices is the one transcribed from MSS / MeshETurbo::getApex; another valid triangulation "
        "would be reported as a disagreement of clause mesh_structure",
        "row count of a ProjMatrix = active samples (with rankZ >= 0: whose variable is defined), as documented in resetProjMatrix",
        "'every vector' is decided on the canonical basis plus the laws of linearity measured on integer vectors",
        "iterative solvers: tolerance = Safety (100) x the bound of the stopping rule of the code (ALinearOpMulti: r'r / sum|b_i| <= eps, "
        "default 1e-8 in the SPDE class; Eigen CG: |r| <= tol |b|); differences of solutions are bounded by residual / smallest eigenvalue "
        "of the assembled system (dense eigenvalues computed by the harness from the matrices gstlearn assembled)",
        "the matrix-free log-determinants are Monte-Carlo estimates by design: bound statistically (8 standard errors + 1e-3 n), "
        "not at the solver tolerance; heavy obligations (Chebyshev fits) are measured on one configuration out of HeavyEvery",
        "smallest admissible smoothness: nu = alpha - d/2 > 0; non-integer alpha uses the polynomial of the closest integer in both forms"]
    return ck.finish()
