// Minimal reproducer of known finding C06-ball-xvalid-fewer:
// leave-one-out cross-validation with ball search returns nmaxi-1 neighbours.
//   g++ -std=c++20 -I/repo/include -I<builddir> -I/usr/include/eigen3 repro_ball_xvalid.cpp -L<builddir>/Release -lgstlearn
// expected (plain search):  1 2      observed with setBallSearch(true):  1
#include "Db/Db.hpp"
#include "Neigh/NeighMoving.hpp"
#include "Space/ASpaceObject.hpp"
#include <cstdio>
static void show(const char* t, const VectorInt& v) { fprintf(stderr, "%-28s:", t); for (int i : v) fprintf(stderr, " %d", i); fprintf(stderr, "\n"); }
int main()
{
  if (!freopen("/dev/null", "w", stdout)) return 1;
  defineDefaultSpace(ESpaceType::RN, 2);
  Db* db = Db::create();
  db->addColumns({0, 1, 2, 3}, "x", ELoc::X, 0);
  db->addColumns({0, 0, 0, 0}, "y", ELoc::X, 1);
  db->addColumns({1, 1, 1, 1}, "v", ELoc::Z, 0);
  db->addColumns({7, 7, 8, 8}, "fold", ELoc::C, 0);
  VectorInt r;
  for (int kfold = 0; kfold < 2; kfold++)
    for (int ball = 0; ball < 2; ball++)
    {
      NeighMoving* nm = NeighMoving::create(true, 2, 10.);   // flag_xvalid, nmaxi = 2, radius 10
      nm->setFlagKFold(kfold == 1);
      if (ball) nm->setBallSearch(true, 2);
      nm->attach(db, db);                                     // the data base is its own target
      nm->select(0, r);
      show(kfold ? (ball ? "k-fold, ball search" : "k-fold, plain search") : (ball ? "leave-one-out, ball search" : "leave-one-out, plain search"), r);
      delete nm;
    }
  return 0;
}
