// C18 finding: AnamHermite reports an absolute interval strictly INSIDE the practical one (lower side)
#include "Anamorphosis/AnamHermite.hpp"
#include <cstdio>
int main(){
  FILE* out = fopen("repro_bounds.out","w");
  if (!freopen("/dev/null","w",stdout)) {}
  VectorDouble d; for (int i = 1; i <= 40; i++) { int k = ((i * 7 + 1) % 40) / 3 * 3; d.push_back(1 + k + (k * k * k) / 200); }
  AnamHermite h(8); h.fitFromArray(d);
  fprintf(out,"practical z [%g,%g] y [%g,%g]; absolute z [%g,%g] y [%g,%g]\n",h.getPzmin(),h.getPzmax(),h.getPymin(),h.getPymax(),h.getAzmin(),h.getAzmax(),h.getAymin(),h.getAymax());
  double z = 2.0, y = h.rawToTransformValue(z);
  fprintf(out,"z = %g (inside the practical interval) -> y = %g -> z = %g\n", z, y, h.transformToRawValue(y));
  fclose(out);
}
