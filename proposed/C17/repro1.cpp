// minimal reproducer: constant-sill constraint, 2 variables, nugget + spherical, exact data
#include "Model/Model.hpp"
#include "Model/Constraints.hpp"
#include "Variogram/Vario.hpp"
#include "Variogram/VarioParam.hpp"
#include "Variogram/DirParam.hpp"
#include "Space/ASpaceObject.hpp"
#include <cmath>
#include <cstdio>
int main(int argc, char** argv)
{
  int maxiter = argc > 1 ? atoi(argv[1]) : 1000;
  defineDefaultSpace(ESpaceType::RN, 2);
  VarioParam vp;
  vp.addDir(DirParam(10, 10.));
  Vario* vario = Vario::create(vp);
  vario->setNVar(2); vario->internalVariableResize(); vario->internalDirectionResize();
  vario->setCalcul(ECalcVario::VARIOGRAM);
  double v2 = argc > 2 ? atof(argv[2]) : 2.; double S[2][2] = {{1., 0.5 * sqrt(v2)}, {0.5 * sqrt(v2), v2}};
  for (int i = 0; i < 2; i++) for (int j = 0; j < 2; j++) vario->setVar(S[i][j], i, j);
  for (int ip = 0; ip < 10; ip++)
    for (int i = 0; i < 2; i++) for (int j = 0; j <= i; j++)
    {
      double h = ip == 0 ? 3. : 10. * ip, d = h / 35.;
      double sph = d < 1 ? 1.5 * d - 0.5 * d * d * d : 1.;
      int iad = vario->getDirAddress(0, i, j, ip, false, 0);
      vario->setGgByIndex(0, iad, S[i][j] * (0.2 + 0.8 * sph));
      vario->setHhByIndex(0, iad, h);
      vario->setSwByIndex(0, iad, 100.);
    }
  Model* model = Model::createFromEnvironment(2, 2);
  Constraints cons(1.);      // the sills of each variable must add up to 1 (they do in the data)
  Option_AutoFit mauto; mauto.setMaxiter(maxiter);
  int err = model->fit(vario, {ECov::NUGGET, ECov::SPHERICAL}, cons, Option_VarioFit(), mauto, false);
  printf("err=%d\n", err);
  for (int ic = 0; ic < model->getCovaNumber(); ic++)
    printf("structure %d: sill = [%g %g ; %g %g]\n", ic, model->getSill(ic,0,0), model->getSill(ic,0,1), model->getSill(ic,1,0), model->getSill(ic,1,1));
  return 0;
}
