// sill constraint with Goulard switched off by the caller (monovariate): value applied to the square-root coefficient
#include "Model/Model.hpp"
#include "Model/Constraints.hpp"
#include "Variogram/Vario.hpp"
#include "Variogram/VarioParam.hpp"
#include "Variogram/DirParam.hpp"
#include "Space/ASpaceObject.hpp"
#include <cmath>
#include <cstdio>
int main(int argc, char** argv)
{
  defineDefaultSpace(ESpaceType::RN, 2);
  VarioParam vp;
  vp.addDir(DirParam(10, 10.));
  Vario* vario = Vario::create(vp);
  vario->setNVar(1); vario->internalVariableResize(); vario->internalDirectionResize();
  vario->setCalcul(ECalcVario::VARIOGRAM);
  vario->setVar(1., 0, 0);
  for (int ip = 0; ip < 10; ip++)
  {
    double h = ip == 0 ? 3. : 10. * ip, d = h / 35.;
    int iad = vario->getDirAddress(0, 0, 0, ip, false, 0);
    vario->setGgByIndex(0, iad, 0.2 + 0.8 * (d < 1 ? 1.5 * d - 0.5 * d * d * d : 1.));
    vario->setHhByIndex(0, iad, h);
    vario->setSwByIndex(0, iad, 100.);
  }
  for (int goulard = 1; goulard >= 0; goulard--)
  {
    Model* model = Model::createFromEnvironment(1, 2);
    Constraints cons;
    cons.addItemFromParamId(EConsElem::SILL, 0, 0, 0, EConsType::EQUAL, 0.4);   // nugget = 0.4
    Option_VarioFit optvar(true); optvar.setFlagGoulardUsed(goulard);
    int err = model->fit(vario, {ECov::NUGGET, ECov::SPHERICAL}, cons, optvar);
    printf("goulard=%d err=%d nugget sill=%g\n", goulard, err, model->getSill(0,0,0));
  }
  return 0;
}
