// minimal reproducer: user constraints forgotten when the fit restarts after discarding a structure
#include "Model/Model.hpp"
#include "Model/Constraints.hpp"
#include "Variogram/Vario.hpp"
#include "Variogram/VarioParam.hpp"
#include "Variogram/DirParam.hpp"
#include "Space/ASpaceObject.hpp"
#include <cmath>
#include <cstdio>
int main(int argc, char** argv)
{
  int maxiter = argc > 1 ? atoi(argv[1]) : 3;
  defineDefaultSpace(ESpaceType::RN, 2);
  VarioParam vp;
  vp.addDir(DirParam(10, 10.));
  Vario* vario = Vario::create(vp);
  vario->setNVar(1); vario->internalVariableResize(); vario->internalDirectionResize();
  vario->setCalcul(ECalcVario::VARIOGRAM);
  vario->setVar(1., 0, 0);
  for (int ip = 0; ip < 10; ip++)
  {
    double h = ip == 0 ? 3. : 10. * ip, d = h / 35.;
    int iad = vario->getDirAddress(0, 0, 0, ip, false, 0);
    vario->setGgByIndex(0, iad, 0.2 + 0.8 * (d < 1 ? 1.5 * d - 0.5 * d * d * d : 1.));
    vario->setHhByIndex(0, iad, h);
    vario->setSwByIndex(0, iad, 100.);
  }
  Model* model = Model::createFromEnvironment(1, 2);
  Constraints cons;
  cons.addItemFromParamId(EConsElem::RANGE, 1, 0, 0, EConsType::UPPER, 20.);   // range of the spherical <= 20
  Option_AutoFit mauto; mauto.setMaxiter(maxiter);
  int err = model->fit(vario, {ECov::NUGGET, ECov::SPHERICAL, ECov::EXPONENTIAL}, cons, Option_VarioFit(), mauto, false);
  printf("err=%d, %d structures\n", err, model->getCovaNumber());
  for (int ic = 0; ic < model->getCovaNumber(); ic++)
    printf("  %s sill=%g range=%g\n", model->getCovName(ic).c_str(), model->getSill(ic,0,0), model->getCova(ic)->getRange());
  return 0;
}
