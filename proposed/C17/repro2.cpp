// minimal reproducer: flag_intrinsic crashes Model::fit
#include "Model/Model.hpp"
#include "Model/Constraints.hpp"
#include "Variogram/Vario.hpp"
#include "Variogram/VarioParam.hpp"
#include "Variogram/DirParam.hpp"
#include "Space/ASpaceObject.hpp"
#include <cmath>
#include <cstdio>
int main()
{
  defineDefaultSpace(ESpaceType::RN, 2);
  VarioParam vp;
  vp.addDir(DirParam(10, 10.));
  Vario* vario = Vario::create(vp);
  vario->setNVar(1); vario->internalVariableResize(); vario->internalDirectionResize();
  vario->setCalcul(ECalcVario::VARIOGRAM);
  vario->setVar(1., 0, 0);
  for (int ip = 0; ip < 10; ip++)
  {
    double h = ip == 0 ? 3. : 10. * ip, d = h / 35.;
    int iad = vario->getDirAddress(0, 0, 0, ip, false, 0);
    vario->setGgByIndex(0, iad, d < 1 ? 1.5 * d - 0.5 * d * d * d : 1.);
    vario->setHhByIndex(0, iad, h);
    vario->setSwByIndex(0, iad, 100.);
  }
  Model* model = Model::createFromEnvironment(1, 2);
  Option_VarioFit optvar; optvar.setFlagIntrinsic(true);
  int err = model->fit(vario, {ECov::SPHERICAL}, Constraints(), optvar);
  printf("err=%d sill=%g range=%g\n", err, model->getSill(0,0,0), model->getCova(0)->getRange());
  return 0;
}
