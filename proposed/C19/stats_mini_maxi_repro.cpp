// dbStatisticsOnGrid(MINI / MAXI): the output variable is created with the value 0, the engine expects +-1.e30
#include "Db/Db.hpp"
#include "Db/DbGrid.hpp"
#include "Calculators/CalcStatistics.hpp"
#include "Enum/EStatOption.hpp"
#include "Enum/ELoadBy.hpp"
#include "Space/ASpaceObject.hpp"
#include "Enum/ESpaceType.hpp"
#include <cstdio>
int main()
{
  defineDefaultSpace(ESpaceType::RN, 2);
  freopen("/dev/null", "w", stdout);
  // three samples, all POSITIVE, in cell (0,0) of a 2 x 1 grid; cell (1,0) is empty
  Db* db = Db::createFromSamples(3, ELoadBy::COLUMN, {0.2, 0.5, 0.7,  0.3, 0.6, 0.4,  2.5, 1.5, 4.0}, {"x1", "x2", "z"}, {"x1", "x2", "z1"}, false);
  DbGrid* g = DbGrid::create({2, 1}, {1., 1.}, {0.5, 0.5});
  dbStatisticsOnGrid(db, g, EStatOption::MINI);
  dbStatisticsOnGrid(db, g, EStatOption::MAXI, 0, NamingConvention("Max"));
  VectorDouble mn = g->getColumn("Stats.z"), mx = g->getColumn("Max.z");
  fprintf(stderr, "MINI: cell with data {2.5,1.5,4.0} -> %g (expected 1.5); empty cell -> %g (expected NA=%g)\n", mn[0], mn[1], TEST);
  fprintf(stderr, "MAXI: cell with data -> %g (expected 4); empty cell -> %g (expected NA)\n", mx[0], mx[1]);
  return 0;
}
