// Minimal reproducers of the C19 defects recorded in /verif/known/C19.json (one function per defect).
// build: g++ -std=c++20 -O1 -w -I/repo/include -I/verif/.build/lib -I/usr/include/eigen3 repro.cpp \
//        -L/verif/.build/lib/Release -lgstlearn -Wl,-rpath,/verif/.build/lib/Release -o repro
// run:   ./repro <case number 1..13>     (cases 6, 7, 13 crash on the unpatched tree)
#include "geoslib_f.h"
#include "Db/Db.hpp"
#include "Db/DbGrid.hpp"
#include "Model/Model.hpp"
#include "Neigh/NeighUnique.hpp"
#include "Neigh/NeighImage.hpp"
#include "Estimation/CalcKriging.hpp"
#include "Estimation/CalcKrigingFactors.hpp"
#include "Estimation/CalcImage.hpp"
#include "Simulation/CalcSimuTurningBands.hpp"
#include "Simulation/CalcSimuPartition.hpp"
#include "Simulation/SimuPartitionParam.hpp"
#include "Simulation/CalcSimuEden.hpp"
#include "Simulation/SimuBoolean.hpp"
#include "Simulation/SimuBooleanParam.hpp"
#include "Boolean/ModelBoolean.hpp"
#include "Boolean/ShapeParallelepiped.hpp"
#include "Calculators/CalcSimuPost.hpp"
#include "Anamorphosis/AnamHermite.hpp"
#include "Anamorphosis/CalcAnamTransform.hpp"
#include "Matrix/MatrixSquareSymmetric.hpp"
#include "Space/ASpaceObject.hpp"
#include "Enum/ESpaceType.hpp"
#include "Enum/ELoadBy.hpp"
#include "Enum/EKrigOpt.hpp"
#include "Enum/EPostStat.hpp"
#include "Enum/EPostUpscale.hpp"
#include <cstdio>

static void show(const char* what, const Db* db)
{
  fprintf(stderr, "  %-12s:", what);
  for (int i = 0; i < db->getColumnNumber(); i++)
  {
    ELoc lt; int li;
    bool ok = db->getLocatorByColIdx(i, &lt, &li);
    fprintf(stderr, " %s", db->getNameByColIdx(i).c_str());
    if (ok) fprintf(stderr, "[%s%d]", std::string{lt.getKey()}.c_str(), li + 1);
  }
  fprintf(stderr, "\n");
}
static Db* data(bool withZ = true)
{
  VectorDouble tab = {0.31, 1.72, 2.55, 0.93, 2.11, 1.37, 0.58,  0.42, 0.27, 1.61, 2.33, 2.48, 1.29, 1.77,
                      1.2, -0.4, 0.7, 2.1, -1.3, 0.2, 0.9};
  return Db::createFromSamples(7, ELoadBy::COLUMN, tab, {"x1", "x2", "z1"}, {"x1", "x2", withZ ? "z1" : ""}, false);
}
static DbGrid* grid() { return DbGrid::create({3, 3}, {1., 1.}, {0.25, 0.25}); }
static AnamHermite* anamFit() { AnamHermite* a = AnamHermite::create(12); Db* d = data(); a->fitFromLocator(d); delete d; return a; }

int main(int argc, char** argv)
{
  int c = argc > 1 ? atoi(argv[1]) : 0;
  defineDefaultSpace(ESpaceType::RN, 2);
  if (!freopen("/dev/null", "w", stdout)) return 2;
  Db* in = data(); DbGrid* out = grid();
  Model* model = Model::createFromParam(ECov::SPHERICAL, 3., 1.);
  NeighUnique* nu = NeighUnique::create();
  int err = -1;
  if (c == 1)
  { // success reported for a refused neighbourhood
    NeighImage* ni = NeighImage::create({1, 1});
    err = kriging(in, out, model, ni);
    fprintf(stderr, "1 kriging with an IMAGE neighbourhood returns %d (expected 1)\n", err); show("dbout", out);
  }
  if (c == 2 || c == 3)
  {
    AnamHermite* a = anamFit(); a->rawToFactor(in, 2); model->setAnam(a);
    show("dbin before", in);
    if (c == 2)
    { // any failure: here the discretization is missing
      err = krigingFactors(in, out, model, nu, EKrigOpt::BLOCK, VectorInt());
      fprintf(stderr, "2 krigingFactors(BLOCK, no ndisc) returns %d\n", err); show("dbin after", in);
    }
    else
    {
      Db* pts = Db::createFromSamples(2, ELoadBy::COLUMN, {0.5, 1.5, 1.1, 0.6}, {"x1", "x2"}, {"x1", "x2"}, false);
      err = krigingFactors(in, pts, model, nu, EKrigOpt::BLOCK, {2, 2});
      fprintf(stderr, "3 krigingFactors(BLOCK) onto points returns %d (expected 1)\n", err); show("dbout", pts);
    }
  }
  if (c == 5)
  { // DGM kriging failing in _run (total sill 1.5): X roles of dbin lost
    AnamHermite* a = anamFit(); a->setRCoef(0.85);
    Model* m = Model::createFromParam(ECov::SPHERICAL, 3., 1.5); m->setAnam(a);
    show("dbin before", in);
    err = kriging(in, out, m, nu, EKrigOpt::DGM);
    fprintf(stderr, "5 kriging(DGM, sill 1.5) returns %d\n", err); show("dbin after", in);
  }
  if (c == 6)
  {
    DbGrid* g = DbGrid::create({5, 5}); g->addColumnsByConstant(1, 1.2, "Var", ELoc::Z);
    NeighImage* ni = NeighImage::create({1, 1});
    fprintf(stderr, "6 krimage without model: expected an error code, observed:\n");
    err = krimage(g, nullptr, ni);
    fprintf(stderr, "  returns %d\n", err);
  }
  if (c == 7)
  {
    Db* noz = data(false); model->setDriftIRF(0);
    MatrixSquareSymmetric pc(1); pc.setValue(0, 0, 0.5);
    fprintf(stderr, "7 simbayes with a dbin without Z-variable: expected an error code, observed:\n");
    err = simbayes(noz, out, model, nu, 2, 4321, {0.3}, pc, 20);
    fprintf(stderr, "  returns %d\n", err);
  }
  if (c == 8 || c == 9)
  {
    DbGrid* g = DbGrid::create({6, 6}, {0.5, 0.5}, {0.25, 0.25});
    if (c == 9) { int u = g->addColumnsByConstant(1, 0., "tmp"); g->deleteColumnByUID(u); }   // any earlier deletion
    show("grid before", g);
    err = tessellation_poisson(g, model, SimuPartitionParam(20, c == 8 ? 0. : 1.5), 3322);
    fprintf(stderr, "%d tessellation_poisson returns %d\n", c, err); show("grid after", g);
  }
  if (c == 10)
  {
    int u = in->getUID("z1"); for (int i = 0; i < 7; i++) in->setArray(i, u, (i == 0 || i == 4) ? 1. : 0.);
    DbGrid* g = DbGrid::create({10, 10}, {0.3, 0.3}, {0.15, 0.15});
    ModelBoolean tokens(2., true); ShapeParallelepiped tok(1., 0.3, 0.3, 1.); tokens.addToken(tok);
    SimuBooleanParam bp; bp.setMaxiter(2);
    err = simbool(in, g, &tokens, bp);
    fprintf(stderr, "10 simbool (2 grains, maxiter 2) returns %d\n", err); show("dbin after", in); show("dbout after", g);
  }
  if (c == 11)
  {
    DbGrid* g = DbGrid::create({6, 6}, {0.5, 0.5}, {0.25, 0.25});
    VectorDouble fac(36), flu(36, TEST); for (int i = 0; i < 36; i++) fac[i] = 1 + ((i / 3) % 2); flu[0] = 1.;
    g->addColumns(fac, "Facies"); g->addColumns(flu, "Fluid");
    err = fluid_propagation(g, "Facies", "Fluid", "", "", 2, 1);
    VectorDouble after = g->getColumn("Fluid"), res = g->getColumn("Eden.Fluid");
    int changed = 0, nz = 0; for (int i = 0; i < 36; i++) { if (!(after[i] == flu[i]) && !(FFFF(after[i]) && FFFF(flu[i]))) changed++; if (res[i] != 0.) nz++; }
    fprintf(stderr, "11 fluid_propagation returns %d: %d cells of the INPUT 'Fluid' modified, %d non-zero cells in 'Eden.Fluid'\n", err, changed, nz);
  }
  if (c == 12)
  {
    VectorDouble a(7, 1.), b(7, 2.); in->addColumns(a, "SimA.1"); in->addColumns(b, "SimA.2");
    show("dbin before", in);
    err = simuPost(in, nullptr, {"SimA*"}, false, EPostUpscale::MEAN, {EPostStat::MEAN});
    fprintf(stderr, "12 simuPost returns %d\n", err); show("dbin after", in);
  }
  if (c == 13)
  {
    AnamHermite* a = anamFit();
    VectorDouble e(9, 0.1), s(9, 0.4); out->addColumns(e, "K.estim"); out->addColumns(s, "K.stdev"); out->addColumns(e, "z1", ELoc::Z);
    fprintf(stderr, "13 ConditionalExpectation with the default selectivity (nullptr): expected an error code, observed:\n");
    err = ConditionalExpectation(out, a, nullptr, "K.estim", "K.stdev");
    fprintf(stderr, "  returns %d\n", err);
  }
  return 0;
}
