#include "Mesh/MeshETurbo.hpp"
#include "Model/Model.hpp"
#include "LinearOp/PrecisionOpMulti.hpp"
#include "LinearOp/PrecisionOpMultiMatrix.hpp"
#include "Space/ASpaceObject.hpp"
#include "Enum/ESpaceType.hpp"
#include <cstdio>
#include <cmath>
int main()
{
  defineDefaultSpace(ESpaceType::RN, 2);
  MeshETurbo* mesh = MeshETurbo::create({3, 3}, {1., 1.}, {0., 0.}, {0., 0.});
  std::vector<const AMesh*> meshes(1, mesh);
  Model* model = Model::createFromParam(ECov::MATERN, 1., 1., 1., {3., 3.}, {2., 0.5, 0.5, 1.}, {0., 0.});
  PrecisionOpMulti pm(model, meshes);
  PrecisionOpMultiMatrix pmm(model, meshes);
  int n = pm.getSize();
  fprintf(stderr, "nvar=%d sizes %d %d\n", model->getVariableNumber(), n, pmm.getSize());
  double worst = 0, scale = 0, asym = 0;
  for (int i = 0; i < n; i++)
  {
    VectorDouble e(n, 0.), a, b; e[i] = 1.;
    pm.evalDirect(e, a); pmm.evalDirect(e, b);
    for (int j = 0; j < n; j++)
    {
      double q = pmm.getQ()->getValue(j, i);
      worst = std::max(worst, std::abs(a[j] - q)); scale = std::max(scale, std::abs(q));
      asym = std::max(asym, std::abs(b[j] - q));
    }
  }
  fprintf(stderr, "max |matrix-free - Q| = %g, max|Q| = %g (relative %g); assembled apply - Q = %g\n", worst, scale, worst / scale, asym);
  return 0;
}
