// Minimal reproducers of the C15 findings (unchanged tree).
#include "Mesh/MeshETurbo.hpp"
#include "Mesh/MeshEStandard.hpp"
#include "Matrix/MatrixRectangular.hpp"
#include "Matrix/MatrixInt.hpp"
#include "LinearOp/ProjMatrix.hpp"
#include "LinearOp/ProjMultiMatrix.hpp"
#include "LinearOp/PrecisionOp.hpp"
#include "LinearOp/PrecisionOpCs.hpp"
#include "LinearOp/PrecisionOpMultiConditional.hpp"
#include "LinearOp/PrecisionOpMultiConditionalCs.hpp"
#include "Model/Model.hpp"
#include "API/SPDE.hpp"
#include "Db/Db.hpp"
#include "Space/ASpaceObject.hpp"
#include "Enum/ESpaceType.hpp"
#include "Enum/ELoadBy.hpp"
#include <cstdio>
#define P(...) fprintf(stderr, __VA_ARGS__)
static void show(const char* t, const MatrixSparse& m)
{
  P("%s: %d x %d\n", t, m.getNRows(), m.getNCols());
  for (int i = 0; i < m.getNRows(); i++) { P("   row %d:", i); for (int j = 0; j < m.getNCols(); j++) P(" %5.2f", m.getValue(i, j)); P("\n"); }
}
int main()
{
  defineDefaultSpace(ESpaceType::RN, 1);
  // 1-D mesh with nodes 0, 1, 2
  MeshETurbo* turbo = MeshETurbo::create({3}, {1.}, {0.}, {0.});
  Db* db1 = Db::createFromSamples(3, ELoadBy::COLUMN, {-0.5, 0.25, 1.5}, {"x"}, {"x1"}, false);
  P("D1  turbo mesh nodes 0,1,2; samples x = -0.5 (outside), 0.25, 1.5: expected rows: empty | .75 .25 0 | 0 .5 .5\n");
  show("    ProjMatrix(turbo)", ProjMatrix(db1, turbo));

  MatrixRectangular ap(3, 1); ap.setValue(0, 0, 0.); ap.setValue(1, 0, 1.); ap.setValue(2, 0, 2.);
  MatrixInt ms(2, 2); ms.setValue(0, 0, 0); ms.setValue(0, 1, 1); ms.setValue(1, 0, 1); ms.setValue(1, 1, 2);
  MeshEStandard* st = MeshEStandard::createFromExternal(ap, ms);
  Db* db2 = Db::createFromSamples(3, ELoadBy::COLUMN, {0.25, 1.5, 2.5}, {"x"}, {"x1"}, false);
  P("D2  standard mesh, samples x = 0.25, 1.5, 2.5 (outside): expected 3 rows, the last one empty\n");
  show("    ProjMatrix(standard)", ProjMatrix(db2, st));

  MeshETurbo copy(*turbo);
  P("D3  copy of the turbo mesh: getNMeshes() = %d (original %d)\n", copy.getNMeshes(), turbo->getNMeshes());

  MeshEStandard fromTurbo;
  try { fromTurbo.resetFromTurbo(*turbo); P("D4  resetFromTurbo: ndim = %d, apices per mesh = %d\n", fromTurbo.getNDim(), fromTurbo.getNApexPerMesh()); }
  catch (const std::exception& e) { P("D4  MeshEStandard::resetFromTurbo throws: %s\n", e.what()); }
  catch (...) { P("D4  MeshEStandard::resetFromTurbo throws\n"); }

  Model* model = Model::createFromParam(ECov::MATERN, 1., 1., 0.5, {2.}, VectorDouble(), {0.});
  PrecisionOp pop(turbo, model->getCova(0));
  PrecisionOpCs pcs(turbo, model->getCova(0));
  VectorDouble x = {1., 0., 0.}, d1 = {10., 10., 10.}, d2 = {10., 10., 10.};
  pop.addToDest(constvect(x.data(), 3), vect(d1.data(), 3));
  pcs.addToDest(constvect(x.data(), 3), vect(d2.data(), 3));
  P("D5  addToDest(e_0, dest = (10,10,10)): matrix-free (%g %g %g)  assembled (%g %g %g)\n", d1[0], d1[1], d1[2], d2[0], d2[1], d2[2]);

  Db* dat = Db::createFromSamples(2, ELoadBy::COLUMN, {0.25, 1.5, 1., -1.}, {"x", "z"}, {"x1", "z1"}, false);
  Db* out = Db::createFromSamples(3, ELoadBy::COLUMN, {0., 1., 2., 0., 0., 0.}, {"x", "dummy"}, {"x1", "z1"}, false);  // krigingSPDENew needs a Z locator in the target Db
  Model* model2 = Model::createFromParam(ECov::MATERN, 1., 1., 0.5, {2.}, VectorDouble(), {0.});
  model2->addCovFromParam(ECov::NUGGET, 0., 0.1);
  std::vector<const AMesh*> meshes(1, turbo);
  VectorDouble k1 = krigingSPDENew(dat, out, model2, meshes, 1), k0 = krigingSPDENew(dat, out, model2, meshes, 0);
  P("sizes %d %d\n", (int)k1.size(), (int)k0.size()); if (k1.size() < 3 || k0.size() < 3) return 1;
  P("D6  krigingSPDENew at the nodes: useCholesky=1 (%g %g %g)   useCholesky=0 (%g %g %g)\n", k1[0], k1[1], k1[2], k0[0], k0[1], k0[2]);

  SPDE s1(model2, out, dat, ESPDECalcMode::KRIGING, turbo, 1), s0(model2, out, dat, ESPDECalcMode::KRIGING, turbo, 0);
  double l1 = s1.computeLogLikelihood(50), l0 = s0.computeLogLikelihood(50);
  P("D7  SPDE::computeLogLikelihood: useCholesky=1 %g   useCholesky=0 %g ; computeLogDetOp: chol %g, matrix-free %g\n", l1, l0,
    s1.getPrecisionKrig()->computeLogDetOp(50), s0.getPrecisionKrig()->computeLogDetOp(50));
  return 0;
}
