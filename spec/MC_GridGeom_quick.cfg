SPECIFICATION Spec
CONSTANTS
  NDims = {1, 2, 3}
  MaxNx = 3
  DxVecs <- DxQuick
  X0Vecs <- X0Quick
  AngVecs <- AngQuick
  MultVecs <- MultQuick
  ShiftVecs <- ShiftQuick
  Kinds = {"node", "point", "multiple", "divider", "dilate", "subgrid", "migrate", "history"}
  HistoryGrid <- HistGrid
INVARIANT Inv_C16
CONSTRAINT Emit
CHECK_DEADLOCK FALSE
