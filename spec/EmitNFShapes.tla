--------------------------- MODULE EmitNFShapes ---------------------------
(* Writes, for every class in scope and every structure of its schema, the radices of the value    *)
(* slots (sizes of the slot domains) as JSON: the driver draws the digit vectors (all of them when  *)
(* the product is small, a seeded covering sample otherwise) that MC_NeutralFile turns into         *)
(* abstract instances.  hist: the structure is a starting point of the histories (MC_NeutralHist). *)
EXTENDS NeutralFile, Json, IOUtils, SequencesExt
CONSTANT Classes
Shapes == Flat([k \in 1..Cardinality(Classes) |-> LET c == SetToSeq(Classes)[k] IN
             [si \in DOMAIN Structs(c) |-> [c |-> c, s |-> si, rad |-> Radices(c, si), hist |-> HistStruct(c, Structs(c)[si])]]])
ASSUME JsonSerialize(IOEnv.OUT, Shapes)
VARIABLE x
Spec == x = 0 /\ [][UNCHANGED x]_x
=============================================================================
