SPECIFICATION TSpec
CONSTANTS
  Parts = {}
  Seeds = {1}
  MaxNbSimu = 1
  GN = 1
  GSweeps = 1
  CaseSweeps = 1
  Tier = "quick"
POSTCONDITION AllExamined
CHECK_DEADLOCK FALSE
