SPECIFICATION Spec
CONSTANTS
  MaxLen = 2
  MaxSize = 3
INVARIANT Agree
PROPERTY Isolation
CONSTRAINT EmitScripts
CHECK_DEADLOCK FALSE
