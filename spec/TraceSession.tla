---------------------------- MODULE TraceSession ----------------------------
(* Judges the steps of the sessions of Session.tla executed on the real library   *)
(* (harness session_run): each record pairs the table the specification expects   *)
(* after the step (abstract columns [tag, role]) with the projection of the real  *)
(* data bases (names, roles, content hashes) before and after the step.           *)
EXTENDS Integers, Sequences, FiniteSets, TLC, Json, IOUtils

Log == ndJsonDeserialize(IOEnv.SESSIONLOG)
VARIABLE k

IsPrefixOf(p, q) == Len(p) <= Len(q) /\ SubSeq(q, 1, Len(p)) = p
Chars(str) == CASE str = "x1" -> <<"x", "1">> [] str = "x2" -> <<"x", "2">> [] str = "z" -> <<"z">>
                [] str = "aux1" -> <<"a", "u", "x", "1">> [] str = "aux2" -> <<"a", "u", "x", "2">>
                [] str = "gx1" -> <<"x", "1">> [] str = "gx2" -> <<"x", "2">>
                [] str = "Kriging" -> <<"K", "r", "i", "g", "i", "n", "g">>
                [] str = "Xvalid" -> <<"X", "v", "a", "l", "i", "d">>
                [] str = "Simu" -> <<"S", "i", "m", "u">>
                [] str = "Migrate" -> <<"M", "i", "g", "r", "a", "t", "e">>
Prefix(tag) == CASE tag \in {"Kriging:stdev", "Kriging:estim"} -> "Kriging"
                 [] tag \in {"Xvalid:stderr", "Xvalid:esterr"} -> "Xvalid"
                 [] tag = "Simu:1" -> "Simu" [] tag = "Migrate:grid" -> "Migrate" [] OTHER -> ""
NameOK(tag, name) == IF Prefix(tag) = "" THEN name = Chars(tag) ELSE IsPrefixOf(Chars(Prefix(tag)), name)

DbFails(which, exp, real) ==
     (IF Len(exp) = Len(real) THEN {} ELSE {which \o "-column-count"})
\cup (IF Len(exp) = Len(real) /\ \A i \in DOMAIN exp : exp[i].role = real[i].role THEN {} ELSE {which \o "-roles"})
\cup (IF Len(exp) = Len(real) /\ \A i \in DOMAIN exp : NameOK(exp[i].tag, real[i].name) THEN {} ELSE {which \o "-names"})
\cup (IF \A i, j \in DOMAIN real : i # j => real[i].name # real[j].name THEN {} ELSE {which \o "-names-unique"})

\* content frame: what the specification leaves unchanged must be bit-identical in the real data bases;
\* a calculator only appends: the existing columns keep name and content
\* (save + reload keeps 15 significant digits: names and roles are compared, contents are the matter of C08)
NoHash(db) == [i \in DOMAIN db |-> [name |-> db[i].name, role |-> db[i].role]]
FrameFails(r) ==
     (IF r.exp.data = r.prev_exp.data /\ (IF r.op = "reload" THEN NoHash(r.real.data) # NoHash(r.prev_real.data)
                                                             ELSE r.real.data # r.prev_real.data) THEN {"data-changed"} ELSE {})
\cup (IF r.exp.grid = r.prev_exp.grid /\ r.real.grid # r.prev_real.grid THEN {"grid-changed"} ELSE {})
\cup (IF r.op \in {"krige", "simtub"} /\ Len(r.real.grid) >= Len(r.prev_real.grid) /\
         \E i \in DOMAIN r.prev_real.grid : r.real.grid[i].name # r.prev_real.grid[i].name \/ r.real.grid[i].h # r.prev_real.grid[i].h
      THEN {"grid-old-columns-touched"} ELSE {})
\cup (IF r.op \in {"xvalid", "migrate", "addcol", "setzlast", "clearz"} /\ Len(r.real.data) >= Len(r.prev_real.data) /\
         \E i \in DOMAIN r.prev_real.data : r.real.data[i].name # r.prev_real.data[i].name \/ r.real.data[i].h # r.prev_real.data[i].h
      THEN {"data-old-columns-touched"} ELSE {})

Fails(r) == (IF r.exp.ok = r.real.ok THEN {} ELSE {"outcome"})
            \cup DbFails("data", r.exp.data, r.real.data) \cup DbFails("grid", r.exp.grid, r.real.grid) \cup FrameFails(r)

Init == k = 0
Next == /\ k < Len(Log)
        /\ k' = k + 1
        /\ LET r == Log[k']  f == Fails(r) IN f = {} \/ PrintT(ToJson([idx |-> k', fails |-> f]))
Spec == Init /\ [][Next]_k
AllExamined == TLCGet("stats").diameter = Len(Log) + 1 \/ PrintT(<<"NOT-ALL-EXAMINED", TLCGet("stats").diameter>>)
=============================================================================
