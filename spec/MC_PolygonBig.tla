--------------------------- MODULE MC_PolygonBig ---------------------------
(* Polygons with hundreds of vertices: every simple polygon of the G x G lattice (canonical      *)
(* start) refined by Subdivide (every edge cut into K collinear pieces) or Staircase (every      *)
(* oblique edge replaced by K steps).  The refined polygon is checked and emitted like a small   *)
(* one: simple (staircases that are not simple are skipped and counted), truth by RefInside on   *)
(* the refined polygon itself, transcription of PolyElem::inside against it.  Query points:      *)
(* the half-lattice of the base polygon scaled by K, and the same shifted by a few fine units    *)
(* (so that many of them are level with the steps).                                              *)
EXTENDS Polygon, Json

CONSTANTS G, MaxV,
          Kinds,    \* subset of {"sub", "stair"}
          Ks        \* refinement factors

VARIABLES p, r      \* base polygon under construction; r = <<>> or <<kind, k>>

Lattice == {<<2 * i, 2 * j>> : i, j \in 0..(G - 1)}
LexLess(a, b) == a[1] < b[1] \/ (a[1] = b[1] /\ a[2] < b[2])

NC == 2 * G + 1
QCoord(i) == IF i = 1 THEN -2 ELSE IF i = NC THEN 2 * G ELSE i - 2
NQ0 == NC * NC
QBase == TLCEval([i \in 1..NQ0 |-> <<QCoord(((i - 1) \div NC) + 1), QCoord(((i - 1) % NC) + 1)>>])
Offs == << <<0, 0>>, <<1, 2>>, <<-2, -1>>, <<0, -2>> >>
NQ == NQ0 * Len(Offs)
QOf(k) == [i \in 1..NQ |-> LET b == QBase[((i - 1) % NQ0) + 1]
                               o == Offs[((i - 1) \div NQ0) + 1]
                           IN <<k * b[1] + o[1], k * b[2] + o[2]>>]

Init == p = <<>> /\ r = <<>>
AddVertex(v) == /\ r = <<>> /\ Len(p) < MaxV
                /\ ChainOK(p, v)
                /\ Len(p) >= 1 => LexLess(p[1], v)
                /\ p' = Append(p, v) /\ UNCHANGED r
Refine(kind, k) == /\ r = <<>> /\ Len(p) >= 3 /\ ClosingOK(p)
                   /\ r' = <<kind, k>> /\ UNCHANGED p
Next == (\E v \in Lattice : AddVertex(v)) \/ (\E kind \in Kinds, k \in Ks : Refine(kind, k))
Spec == Init /\ [][Next]_<<p, r>>

Big == IF r[1] = "sub" THEN Subdivide(p, r[2]) ELSE Staircase(p, r[2])

Inv_Big ==
  r # <<>> =>
    LET b == TLCEval(Big)
        k == r[2]
        simple == r[1] = "sub" \/ SimplePolygon(b)
    IN IF ~simple
       THEN PrintT(ToJson([k |-> "skip", kind |-> r[1], fac |-> k, v |-> p]))
       ELSE
         LET mx == MaxX(b)
             qs == TLCEval(QOf(k))
             e == TLCEval([i \in 1..NQ |-> IF OnBoundary(b, qs[i]) THEN 2
                                          ELSE IF RefInsideM(b, mx, qs[i]) THEN 1 ELSE 0])
             off == {i \in 1..NQ : e[i] # 2}
             cb == TLCEval(ClosePolyElem(b))
         IN /\ \A i \in off : (IF AlgInside(cb, qs[i]) THEN 1 ELSE 0) = e[i]
            \* a subdivided polygon is the same point set as its base polygon
            /\ r[1] = "sub" =>
                 \A i \in 1..NQ0 : e[i] = (IF OnBoundary(p, QBase[i]) THEN 2
                                           ELSE IF RefInside(p, QBase[i]) THEN 1 ELSE 0)
            /\ PrintT(ToJson([k |-> "poly", kind |-> r[1], fac |-> k, base |-> p, v |-> b, q |-> qs, exp |-> e,
                              ccw |-> IF Area2(b) > 0 THEN 1 ELSE 0,
                              convex |-> IF Convex(b) THEN 1 ELSE 0,
                              flat |-> IF HasFlatVertex(b) THEN 1 ELSE 0,
                              nin |-> Cardinality({i \in off : e[i] = 1}),
                              lv |-> Cardinality({i \in off : \E j \in 1..Len(b) : b[j][2] = qs[i][2]}),
                              lm |-> Cardinality({i \in off : Cardinality({j \in 1..Len(b) : b[j][2] = qs[i][2]}) >= 2}),
                              lh |-> Cardinality({i \in off : \E j \in 1..Len(b) : b[j][2] = qs[i][2] /\ Nxt(b, j)[2] = qs[i][2]})]))

\* small K only: a subdivided polygon is simple too (the emission above relies on it)
Inv_SubSimple == (r # <<>> /\ r[1] = "sub") => SimplePolygon(Subdivide(p, r[2]))
=============================================================================
