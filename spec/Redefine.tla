------------------------------ MODULE Redefine ------------------------------
(***************************************************************************)
(* Objects that are DEFINED (or computed) by a call and can be defined        *)
(* again later with other arguments (property C10: an object updated          *)
(* incrementally answers as a freshly built one with the same final content;  *)
(* results do not depend on what was called before).                          *)
(*                                                                         *)
(* The abstract object is nothing but its last definition: whatever was       *)
(* defined, used or computed before, the observable state after Define(d) is  *)
(* the one of a new object defined with d.  Every part of the previous        *)
(* definition that d does not mention (a rotation, accumulators, a search     *)
(* tree, the order in which two independent setters were called) must not     *)
(* survive.  The classes bound by the harness:                                *)
(*   grid       Grid::resetFromVector          (rotated / unrotated / other)  *)
(*   dbgrid     DbGrid::reset                  (idem, coordinates re-written) *)
(*   vario      Vario::compute                 (data set A / B / A masked)    *)
(*   covaniso   CovAniso setAnisoAngles + setRanges, in both orders           *)
(*   ballneigh  NeighMoving with the ball-tree search, re-attached to the     *)
(*              SAME Db whose coordinates were rewritten in place             *)
(* "use" stands for queries that exercise the work state of the object        *)
(* between two definitions.                                                   *)
(* TLC emits every history; the harness replays it on one real object and     *)
(* compares its complete public projection, after every step, with the one    *)
(* of a fresh object defined with the current definition.                     *)
(***************************************************************************)
EXTENDS Integers, Sequences, TLC, Json

CONSTANT MaxLen
Classes == {"grid", "dbgrid", "vario", "covaniso", "ballneigh"}
Defs    == 1..3
Orders  == {1, 2}         \* order of the independent setters inside one definition (classes that have several)

VARIABLES cls, cur, hist
vars == <<cls, cur, hist>>

Init == cls \in Classes /\ cur = 0 /\ hist = <<>>
Define(d, o) == /\ cur' = d /\ UNCHANGED cls
                /\ hist' = Append(hist, [op |-> "define", d |-> d, order |-> o, expect |-> d])
Use == /\ cur # 0 /\ UNCHANGED <<cls, cur>>
       /\ hist' = Append(hist, [op |-> "use", d |-> cur, order |-> 0, expect |-> cur])
Next == /\ Len(hist) < MaxLen
        /\ (Use \/ \E d \in Defs : \E o \in Orders : Define(d, o))
Spec == Init /\ [][Next]_vars

\* the observable content is the last definition, whatever the history
Fresh == hist = <<>> \/ hist[Len(hist)].expect = cur
\* (a history with a single definition says nothing)
Interesting == \E i, j \in DOMAIN hist : i < j /\ hist[i].op = "define" /\ hist[j].op = "define"
EmitScripts == Len(hist) < MaxLen \/ ~Interesting \/ PrintT(ToJson([cls |-> cls, hist |-> hist]))
=============================================================================
