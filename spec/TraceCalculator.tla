-------------------------- MODULE TraceCalculator --------------------------
(* Judges calculator runs recorded from the REAL library (harness calc_run):      *)
(* each record holds the scenario, the reported outcome and the full projection  *)
(* of dbin / dbout before and after the call.                                     *)
(*   ret = "fail" => both data bases exactly as before          (Atomic)          *)
(*   ret = "ok"   => each data base = its old columns (names and content          *)
(*                   untouched; a role may only be lost to the outputs, as the    *)
(*                   naming convention documents) + exactly the documented number *)
(*                   of new, uniquely named columns carrying the prefix (Exact);  *)
(*                   the documented numbers come from Calculator.tla (permanent   *)
(*                   groups of the profile, per data base)                        *)
(*   an injected fault that struck, or an input reaching an error branch of a     *)
(*   stage, must be reported as a failure (entry points with an error code only)  *)
EXTENDS Integers, Sequences, FiniteSets, TLC, Json, IOUtils

Log == ndJsonDeserialize(IOEnv.CALCLOG)
VARIABLE k

SameDb(a, b) == a.nech = b.nech /\ a.cols = b.cols
IsPrefixOf(p, q) == Len(p) <= Len(q) /\ SubSeq(q, 1, Len(p)) = p
Injected(f) == f \in {"after_check", "after_preprocess", "after_run", "addvar1", "addvar2", "addvar3", "addvar4"}
Refused(f)  == f \in {"check_r1", "run_r1"}

\* pre + nnew documented new columns = post ?  (tags prefixed by t)
Grown(pre, post, nnew, prefix, t) ==
  LET old == pre.cols
      new == post.cols
      n0 == Len(old)
      newRoles == {new[i].role : i \in (n0 + 1)..Len(new)}
  IN (IF post.nech = pre.nech THEN {} ELSE {t \o "-nech"})
    \cup (IF Len(new) = n0 + nnew THEN {} ELSE {t \o "-new-count"})
    \cup (IF Len(new) >= n0 /\ \A i \in 1..n0 : new[i].name = old[i].name THEN {} ELSE {t \o "-old-names"})
    \cup (IF Len(new) >= n0 /\ \A i \in 1..n0 : new[i].h = old[i].h THEN {} ELSE {t \o "-old-values"})
    \cup (IF Len(new) >= n0 /\ \A i \in 1..n0 :
               \/ (new[i].role = old[i].role /\ new[i].rank = old[i].rank)
               \/ (new[i].role = "none" /\ old[i].role \in newRoles)
          THEN {} ELSE {t \o "-roles"})
    \cup (IF Len(new) >= n0 /\ \A i \in (n0 + 1)..Len(new) :
               /\ IsPrefixOf(prefix, new[i].name)
               /\ \A j \in 1..Len(new) : j # i => new[j].name # new[i].name
          THEN {} ELSE {t \o "-new-names"})

\* what differs between two states of a data base that should be identical (tags prefixed by t):
\* the columns (count or names), else the roles, and / or the contents
Differs(a, b, t) ==
  IF SameDb(a, b) THEN {}
  ELSE IF a.nech # b.nech \/ Len(a.cols) # Len(b.cols) \/ \E i \in 1..Len(a.cols) : a.cols[i].name # b.cols[i].name
       THEN {t \o "-columns"}
  ELSE (IF \E i \in 1..Len(a.cols) : a.cols[i].role # b.cols[i].role \/ a.cols[i].rank # b.cols[i].rank THEN {t \o "-roles"} ELSE {})
       \cup (IF \E i \in 1..Len(a.cols) : a.cols[i].h # b.cols[i].h THEN {t \o "-values"} ELSE {})

Fails(r) ==
  IF r.ret = "fail"
  THEN (IF r.same THEN {} ELSE Differs(r.in_pre, r.in_post, "atomic-dbin"))
    \cup Differs(r.out_pre, r.out_post, "atomic-dbout")
  ELSE (IF r.same THEN {}
        ELSE IF r.scen.exp_in = 0 THEN Differs(r.in_pre, r.in_post, "exact-dbin")
        ELSE Grown(r.in_pre, r.in_post, r.scen.exp_in, r.prefix_in, "exact-dbin"))
    \cup Grown(r.out_pre, r.out_post, r.scen.exp_out, r.prefix, "exact")
    \cup (IF ~r.noerrcode /\ ((Injected(r.scen.fault) /\ ~r.second /\ r.struck) \/ Refused(r.scen.fault))
          THEN {"failure-reported-as-success"} ELSE {})

Init == k = 0
Next == /\ k < Len(Log)
        /\ k' = k + 1
        /\ LET r == Log[k']
               f == IF "crash" \in DOMAIN r THEN {"crash"} ELSE Fails(r)
           IN f = {} \/ PrintT(ToJson([idx |-> k', fails |-> f]))
Spec == Init /\ [][Next]_k
AllExamined == TLCGet("stats").diameter = Len(Log) + 1 \/ PrintT(<<"NOT-ALL-EXAMINED", TLCGet("stats").diameter>>)
=============================================================================
