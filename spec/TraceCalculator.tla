-------------------------- MODULE TraceCalculator --------------------------
(* Judges calculator runs recorded from the REAL library (harness calc_run):      *)
(* each record holds the scenario, the reported outcome and the full projection  *)
(* of dbin / dbout before and after the call.                                     *)
(*   ret = "fail" => both data bases exactly as before          (Atomic)          *)
(*   ret = "ok"   => dbin unchanged; dbout = old columns (names and content       *)
(*                   untouched; a role may only be lost to the outputs, as the    *)
(*                   naming convention documents) + exactly the documented number *)
(*                   of new, uniquely named columns carrying the prefix (Exact)   *)
(*   an injected fault must be reported as a failure (entry points with an error  *)
(*   code only: krigtest returns a result structure and no code)                  *)
EXTENDS Integers, Sequences, FiniteSets, TLC, Json, IOUtils

Log == ndJsonDeserialize(IOEnv.CALCLOG)
VARIABLE k

SameDb(a, b) == a.nech = b.nech /\ a.cols = b.cols
IsPrefixOf(p, q) == Len(p) <= Len(q) /\ SubSeq(q, 1, Len(p)) = p
Injected(f) == f \in {"after_check", "after_preprocess", "after_run", "addvar1", "addvar2", "addvar3"}

Fails(r) ==
  LET old == r.out_pre.cols
      post == r.out_post.cols
      n0 == Len(old)
      newRoles == {post[i].role : i \in (n0 + 1)..Len(post)}
  IN
  IF r.ret = "fail"
  THEN (IF r.same \/ SameDb(r.in_pre, r.in_post) THEN {} ELSE {"atomic-dbin"})
    \cup (IF SameDb(r.out_pre, r.out_post) THEN {} ELSE {"atomic-dbout"})
  ELSE (IF r.same \/ SameDb(r.in_pre, r.in_post) THEN {} ELSE {"exact-dbin-changed"})
    \cup (IF Injected(r.scen.fault) /\ ~r.second /\ ~r.noerrcode /\ ~(r.scen.fault \in {"addvar1", "addvar2", "addvar3"} /\ r.addvar_visits < 1)
          THEN {"failure-reported-as-success"} ELSE {})
    \cup (IF r.out_post.nech = r.out_pre.nech THEN {} ELSE {"exact-nech"})
    \cup (IF Len(post) = n0 + r.expected_new THEN {} ELSE {"exact-new-count"})
    \cup (IF Len(post) >= n0 /\ \A i \in 1..n0 : post[i].name = old[i].name /\ post[i].h = old[i].h
          THEN {} ELSE {"exact-old-columns"})
    \cup (IF Len(post) >= n0 /\ \A i \in 1..n0 :
               \/ (post[i].role = old[i].role /\ post[i].rank = old[i].rank)
               \/ (post[i].role = "none" /\ old[i].role \in newRoles)
          THEN {} ELSE {"exact-roles"})
    \cup (IF Len(post) >= n0 /\ \A i \in (n0 + 1)..Len(post) :
               /\ IsPrefixOf(r.prefix, post[i].name)
               /\ \A j \in 1..Len(post) : j # i => post[j].name # post[i].name
          THEN {} ELSE {"exact-new-names"})

Init == k = 0
Next == /\ k < Len(Log)
        /\ k' = k + 1
        /\ LET r == Log[k']
               f == IF "crash" \in DOMAIN r THEN {"crash"} ELSE Fails(r)
           IN f = {} \/ PrintT(ToJson([idx |-> k', fails |-> f]))
Spec == Init /\ [][Next]_k
AllExamined == TLCGet("stats").diameter = Len(Log) + 1 \/ PrintT(<<"NOT-ALL-EXAMINED", TLCGet("stats").diameter>>)
=============================================================================
