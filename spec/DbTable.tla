------------------------------ MODULE DbTable ------------------------------
(***************************************************************************)
(* Abstract model of gstlearn's Db seen as a table with several index maps  *)
(* (property C07).                                                          *)
(*                                                                         *)
(* A state is a record                                                     *)
(*   [ nech : Nat,            number of samples                            *)
(*     nuid : Nat,            number of persistent identifiers allocated    *)
(*     cols : Seq([uid, name, cells])   live columns in column order;       *)
(*            name is a sequence of one-character strings, cells a         *)
(*            sequence of nech integer value tokens                        *)
(*     loc  : [Types -> Seq(uid)]       role lists (rank = position)       *)
(*     grid : BOOLEAN ]       TRUE for a DbGrid (sample count is frozen)    *)
(*                                                                         *)
(* Every public editing operation is a deterministic reference function    *)
(* Do(c, s) (what the documentation of Db.hpp promises) together with a     *)
(* relation Judge(c, pre, post) that says what is promised of ANY           *)
(* implementation (names are only promised to be unique and to start with   *)
(* the requested radix).  The relation is used both to validate the         *)
(* reference semantics (MC_DbTable: Judge(c, s, Do(c, s)) for all reachable *)
(* s) and to judge transitions recorded from the real library               *)
(* (TraceDbTable).                                                          *)
(***************************************************************************)
EXTENDS Integers, Sequences, FiniteSets, TLC

CONSTANTS Types,      \* role types in scope, e.g. {"x","z","sel"}
          MaxCols, MaxUid, MaxNech

NoRole == "none"
TEST == -999           \* token of the undefined value

Ch(str) == <<str>>      \* names are sequences of 1-char strings; helper for 1-char names

-----------------------------------------------------------------------------
(* Basic observers                                                          *)

Range(f) == {f[i] : i \in DOMAIN f}
Uids(s)  == {s.cols[i].uid : i \in DOMAIN s.cols}
NCol(s)  == Len(s.cols)
ColOf(s, u) == IF \E i \in DOMAIN s.cols : s.cols[i].uid = u
               THEN CHOOSE i \in DOMAIN s.cols : s.cols[i].uid = u ELSE 0
ColByName(s, n) == IF \E i \in DOMAIN s.cols : s.cols[i].name = n
                   THEN CHOOSE i \in DOMAIN s.cols : s.cols[i].name = n ELSE 0
HasRole(s, u) == \E t \in Types : \E r \in DOMAIN s.loc[t] : s.loc[t][r] = u
RoleType(s, u) == IF HasRole(s, u)
                  THEN CHOOSE t \in Types : \E r \in DOMAIN s.loc[t] : s.loc[t][r] = u
                  ELSE NoRole
RoleRank(s, u) == IF HasRole(s, u)
                  THEN LET t == RoleType(s, u) IN CHOOSE r \in DOMAIN s.loc[t] : s.loc[t][r] = u
                  ELSE 0
Names(s) == {s.cols[i].name : i \in DOMAIN s.cols}
IsPrefixOf(p, q) == Len(p) <= Len(q) /\ SubSeq(q, 1, Len(p)) = p
SelectIdx(seq, P(_)) == LET F[i \in 0..Len(seq)] ==
                              IF i = 0 THEN <<>> ELSE IF P(i) THEN Append(F[i-1], seq[i]) ELSE F[i-1]
                        IN F[Len(seq)]
RemoveAt(seq, k) == SubSeq(seq, 1, k-1) \o SubSeq(seq, k+1, Len(seq))
Rev(seq) == [i \in 1..Len(seq) |-> seq[Len(seq) + 1 - i]]

-----------------------------------------------------------------------------
(* C07, literally: the consistency of one state                             *)

NamesUnique(s)  == \A i, j \in DOMAIN s.cols : i # j => s.cols[i].name # s.cols[j].name
UidsUnique(s)   == /\ \A i, j \in DOMAIN s.cols : i # j => s.cols[i].uid # s.cols[j].uid
                   /\ \A i \in DOMAIN s.cols : s.cols[i].uid \in 0..(s.nuid - 1)
RolesLive(s)    == \A t \in Types : \A r \in DOMAIN s.loc[t] : s.loc[t][r] \in Uids(s)
OneRolePerCol(s) == \A t1, t2 \in Types : \A r1 \in DOMAIN s.loc[t1] : \A r2 \in DOMAIN s.loc[t2] :
                       (s.loc[t1][r1] = s.loc[t2][r2]) => (t1 = t2 /\ r1 = r2)
Rectangular(s)  == \A i \in DOMAIN s.cols : Len(s.cols[i].cells) = s.nech
Consistent(s)   == NamesUnique(s) /\ UidsUnique(s) /\ RolesLive(s) /\ OneRolePerCol(s) /\ Rectangular(s)

ConsistentFails(s) ==
     (IF NamesUnique(s) THEN {} ELSE {"NamesUnique"})
\cup (IF UidsUnique(s) THEN {} ELSE {"UidsUnique"})
\cup (IF RolesLive(s) THEN {} ELSE {"RolesLive"})
\cup (IF OneRolePerCol(s) THEN {} ELSE {"OneRolePerCol"})
\cup (IF Rectangular(s) THEN {} ELSE {"Rectangular"})

-----------------------------------------------------------------------------
(* Reference semantics                                                      *)

Strip(loc, u) == [t \in Types |-> SelectSeq(loc[t], LAMBDA x : x # u)]
StripAll(loc, us) == [t \in Types |-> SelectSeq(loc[t], LAMBDA x : x \notin us)]
Cleared(loc, t) == IF t \in Types THEN [loc EXCEPT ![t] = <<>>] ELSE loc

\* effective 0-based rank of a role assignment of uid u with requested rank r (r < 0: next free)
EffRank(loc, t, r, u) == IF r < 0 THEN Len(Strip(loc, u)[t]) ELSE r
\* an assignment is "in range" when the rank does not exceed the count of the other holders
InRange(loc, t, r, u) == t \notin Types \/ EffRank(loc, t, r, u) <= Len(Strip(loc, u)[t])

Place(loc, t, r, u) ==
  LET l0 == Strip(loc, u)
      rr == EffRank(loc, t, r, u)
  IN IF t \notin Types THEN l0
     ELSE IF rr < Len(l0[t]) THEN [l0 EXCEPT ![t][rr + 1] = u]     \* previous holder loses the role
     ELSE [l0 EXCEPT ![t] = Append(l0[t], u)]                      \* rr = count (in range) : appended

\* Successive placement of a list of uids at ranks r, r+1, ... ; dead uids are skipped
RECURSIVE PlaceList(_, _, _, _, _)
PlaceList(s, loc, t, r, us) ==
  IF us = <<>> THEN loc
  ELSE LET u == Head(us)
           l1 == IF u \in Uids(s) THEN Place(loc, t, r, u) ELSE loc
       IN PlaceList(s, l1, t, IF r < 0 THEN r ELSE r + 1, Tail(us))

RECURSIVE AllInRange(_, _, _, _, _)
AllInRange(s, loc, t, r, us) ==
  IF us = <<>> THEN TRUE
  ELSE LET u == Head(us) IN
       IF u \in Uids(s)
       THEN InRange(loc, t, r, u) /\ AllInRange(s, Place(loc, t, r, u), t, IF r < 0 THEN r ELSE r + 1, Tail(us))
       ELSE AllInRange(s, loc, t, IF r < 0 THEN r ELSE r + 1, Tail(us))

\* A fresh unique name built from a radix (reference choice: append ".1" while used)
RECURSIVE FreshName(_, _)
FreshName(n, used) == IF n \notin used THEN n ELSE FreshName(n \o <<".", "1">>, used)

Digit(k) == CASE k = 1 -> "1" [] k = 2 -> "2" [] k = 3 -> "3" [] k = 4 -> "4" [] k = 5 -> "5" [] k = 6 -> "6"
              [] k = 7 -> "7" [] k = 8 -> "8" [] OTHER -> "9"

DelUid(s, u) ==
  IF u \notin Uids(s) THEN s
  ELSE [s EXCEPT !.cols = RemoveAt(s.cols, ColOf(s, u)), !.loc = Strip(s.loc, u)]
RECURSIVE DelUids(_, _)
DelUids(s, us) == IF us = <<>> THEN s ELSE DelUids(DelUid(s, Head(us)), Tail(us))

\* rank (from 0) of a live uid among the live uids in increasing order
UidRank(s, u) == Cardinality({v \in Uids(s) : v < u})

WriteCell(s, u, iech, v) ==
  IF u \notin Uids(s) \/ iech < 0 \/ iech >= s.nech THEN s
  ELSE [s EXCEPT !.cols[ColOf(s, u)].cells[iech + 1] = v]

\* Catalogue entries are records with field "op" and the arguments of that entry point.
\* Designators: uid (persistent id), col (0-based column index), name (sequence of chars),
\* role type t with 0-based rank.
UidOfCol(s, c) == IF c >= 0 /\ c < NCol(s) THEN s.cols[c + 1].uid ELSE -1
UidOfName(s, n) == IF ColByName(s, n) > 0 THEN s.cols[ColByName(s, n)].uid ELSE -1
UidOfRole(s, t, r) == IF t \in Types /\ r >= 0 /\ r < Len(s.loc[t]) THEN s.loc[t][r + 1] ELSE -1

KnownUids(s, names) == LET F[k \in 0..Len(names)] ==
                             IF k = 0 THEN <<>>
                             ELSE IF UidOfName(s, names[k]) >= 0 THEN Append(F[k-1], UidOfName(s, names[k])) ELSE F[k-1]
                       IN F[Len(names)]

AddCols(s, nadd, radix, t, r, val) ==
  LET base == IF nadd = 1 THEN <<radix>> ELSE [k \in 1..nadd |-> radix \o <<"-", Digit(k)>>]
      F[k \in 0..nadd] ==
         IF k = 0 THEN s
         ELSE LET p == F[k-1]
                  nm == FreshName(base[k], Names(p))
                  newc == [uid |-> p.nuid, name |-> nm, cells |-> [i \in 1..p.nech |-> val + 10 * (s.nuid + 1)]]
              IN [p EXCEPT !.cols = Append(p.cols, newc), !.nuid = p.nuid + 1]
      s1 == F[nadd]
      us == [k \in 1..nadd |-> s.nuid + k - 1]
  IN [s1 EXCEPT !.loc = PlaceList(s1, s1.loc, t, r, us)]

Do(c, s) ==
  CASE c.op = "addColumnsByConstant" -> AddCols(s, c.nadd, c.radix, c.t, c.r, c.val)
    [] c.op = "deleteColumnByUID"    -> DelUid(s, c.uid)
    [] c.op = "deleteColumnByColIdx" -> DelUid(s, UidOfCol(s, c.col))
    [] c.op = "deleteColumn"         -> DelUid(s, UidOfName(s, c.name))
    [] c.op = "deleteColumnsByLocator" -> DelUids(s, IF c.t \in Types THEN s.loc[c.t] ELSE <<>>)
    [] c.op = "deleteColumnsByUID"   -> DelUids(s, c.uids)
    [] c.op = "deleteColumnsByColIdx" -> DelUids(s, [k \in DOMAIN c.cols |-> UidOfCol(s, c.cols[k])])
    [] c.op = "setLocatorByUID" ->
         IF c.uid \in Uids(s)
         THEN [s EXCEPT !.loc = Place(IF c.clean THEN Cleared(s.loc, c.t) ELSE s.loc, c.t, c.r, c.uid)]
         ELSE s
    [] c.op = "setLocatorByColIdx" ->
         IF UidOfCol(s, c.col) >= 0
         THEN [s EXCEPT !.loc = Place(IF c.clean THEN Cleared(s.loc, c.t) ELSE s.loc, c.t, c.r, UidOfCol(s, c.col))]
         ELSE s
    [] c.op = "setLocator" ->
         IF UidOfName(s, c.name) >= 0
         THEN [s EXCEPT !.loc = Place(IF c.clean THEN Cleared(s.loc, c.t) ELSE s.loc, c.t, c.r, UidOfName(s, c.name))]
         ELSE s
    [] c.op = "setLocatorsByUID" ->
         LET l0 == IF c.clean THEN Cleared(s.loc, c.t) ELSE s.loc
         IN [s EXCEPT !.loc = PlaceList(s, l0, c.t, c.r, c.uids)]
    [] c.op = "setLocatorsByColIdx" ->
         LET l0 == IF c.clean THEN Cleared(s.loc, c.t) ELSE s.loc
         IN [s EXCEPT !.loc = PlaceList(s, l0, c.t, c.r, [k \in DOMAIN c.cols |-> UidOfCol(s, c.cols[k])])]
    [] c.op = "clearLocators" -> [s EXCEPT !.loc = Cleared(s.loc, c.t)]
    [] c.op = "switchLocator" ->
         IF c.t = c.t2 THEN s
         ELSE [s EXCEPT !.loc = [s.loc EXCEPT ![c.t2] = s.loc[c.t2] \o s.loc[c.t], ![c.t] = <<>>]]
    [] c.op \in {"setName", "setNameByUID", "setNameByColIdx"} ->
         LET u == CASE c.op = "setName" -> UidOfName(s, c.name)
                    [] c.op = "setNameByUID" -> c.uid
                    [] OTHER -> UidOfCol(s, c.col)
         IN IF u \notin Uids(s) THEN s
            ELSE LET i == ColOf(s, u)
                     others == {s.cols[j].name : j \in DOMAIN s.cols \ {i}}
                 IN [s EXCEPT !.cols[i].name = FreshName(c.new, others)]
    [] c.op = "addSamples" ->
         IF s.grid \/ c.n <= 0 THEN s
         ELSE [s EXCEPT !.nech = s.nech + c.n,
                        !.cols = [i \in DOMAIN s.cols |->
                                    [s.cols[i] EXCEPT !.cells = s.cols[i].cells \o [k \in 1..c.n |-> c.val]]]]
    [] c.op = "deleteSample" ->
         IF s.grid \/ c.iech < 0 \/ c.iech >= s.nech THEN s
         ELSE [s EXCEPT !.nech = s.nech - 1,
                        !.cols = [i \in DOMAIN s.cols |->
                                    [s.cols[i] EXCEPT !.cells = RemoveAt(s.cols[i].cells, c.iech + 1)]]]
    [] c.op = "setArray"        -> WriteCell(s, c.uid, c.iech, c.val)
    [] c.op = "setValueByColIdx" -> WriteCell(s, UidOfCol(s, c.col), c.iech, c.val)
    [] c.op = "setValue"        -> WriteCell(s, UidOfName(s, c.name), c.iech, c.val)
    [] c.op = "setLocVariable"  -> WriteCell(s, UidOfRole(s, c.t, c.r), c.iech, c.val)
    \* row-wise and table-wise writers: values are handed over in the order of the LIVE UIDS (increasing uid),
    \* whatever the column order and whatever uids were retired before
    [] c.op = "setArrayBySample" ->
         IF c.iech < 0 \/ c.iech >= s.nech THEN s
         ELSE [s EXCEPT !.cols = [i \in DOMAIN s.cols |->
                 [s.cols[i] EXCEPT !.cells[c.iech + 1] = c.val + UidRank(s, s.cols[i].uid)]]]
    [] c.op = "setAllColumns" ->
         [s EXCEPT !.cols = [i \in DOMAIN s.cols |->
                 [s.cols[i] EXCEPT !.cells = [k \in 1..s.nech |-> c.val + 10 * UidRank(s, s.cols[i].uid) + k - 1]]]]
    [] c.op = "updArray" ->            \* EOperator::ADD
         IF c.uid \notin Uids(s) \/ c.iech < 0 \/ c.iech >= s.nech THEN s
         ELSE [s EXCEPT !.cols[ColOf(s, c.uid)].cells[c.iech + 1] = IF @ = -999 THEN -999 ELSE @ + c.val]   \* NA is absorbing
    [] c.op = "setColumnByColIdx" ->
         IF c.col >= 0 /\ c.col < NCol(s) THEN [s EXCEPT !.cols[c.col + 1].cells = [k \in 1..s.nech |-> c.val + k - 1]] ELSE s
    [] c.op = "setColumnByUID"  ->
         IF c.uid \in Uids(s) THEN [s EXCEPT !.cols[ColOf(s, c.uid)].cells = [k \in 1..s.nech |-> c.val + k - 1]] ELSE s
    [] c.op = "duplicateColumnByUID" ->
         IF c.uid \in Uids(s) /\ c.uid2 \in Uids(s)
         THEN [s EXCEPT !.cols[ColOf(s, c.uid2)].cells = s.cols[ColOf(s, c.uid)].cells] ELSE s
    [] c.op = "copyByUID" ->
         IF c.uid \in Uids(s) /\ c.uid2 \in Uids(s)
         THEN [s EXCEPT !.cols[ColOf(s, c.uid2)].cells = s.cols[ColOf(s, c.uid)].cells] ELSE s
    [] c.op = "addSelection" ->          \* new 0/1 column holding the (unique) selection role
         LET s1 == AddCols(s, 1, c.radix, "sel", 0, 0)
         IN [s1 EXCEPT !.cols[Len(s1.cols)].cells = [i \in 1..s.nech |-> (i + c.k) % 2]]
    [] c.op = "addColumns" ->            \* one column loaded from an array
         LET s1 == AddCols(s, 1, c.radix, c.t, c.r, 0)
         IN [s1 EXCEPT !.cols[Len(s1.cols)].cells = [i \in 1..s.nech |-> c.val + i - 1]]
    [] c.op = "deleteColumnsByUIDRange" -> DelUids(s, [k \in 1..c.n |-> c.uid + k - 1])
    [] c.op = "setLocatorsByUIDRange" ->
         LET l0 == IF c.clean THEN Cleared(s.loc, c.t) ELSE s.loc
         IN [s EXCEPT !.loc = PlaceList(s, l0, c.t, c.r, [k \in 1..c.n |-> c.uid + k - 1])]
    [] c.op = "setLocators" ->           \* names are patterns: those matching no column are dropped
         LET us == KnownUids(s, c.names)
             l0 == IF c.clean THEN Cleared(s.loc, c.t) ELSE s.loc
         IN IF us = <<>> THEN s ELSE [s EXCEPT !.loc = PlaceList(s, l0, c.t, c.r, us)]
    [] c.op = "deleteSamples" ->
         IF s.grid \/ \E k \in DOMAIN c.iechs : c.iechs[k] < 0 \/ c.iechs[k] >= s.nech THEN s
         ELSE LET keep == {i \in 1..s.nech : \A k \in DOMAIN c.iechs : c.iechs[k] + 1 # i} IN
              [s EXCEPT !.nech = Cardinality(keep),
                        !.cols = [i \in DOMAIN s.cols |->
                                    [s.cols[i] EXCEPT !.cells = SelectIdx(s.cols[i].cells, LAMBDA e : e \in keep)]]]
    [] c.op = "copy" -> s
    [] OTHER -> s

\* Arguments for which the documentation promises nothing that the property could be held to:
\* a role rank beyond the number of other holders ("no check is performed to see if items are
\* consecutive", Db.cpp) -- the reference appends; implementations padding the list are reported
\* as the known finding C07-rank-beyond-count, not judged by Do.
RankInRange(c, s) ==
  CASE c.op = "setLocatorByUID" ->
         c.uid \notin Uids(s) \/ InRange(IF c.clean THEN Cleared(s.loc, c.t) ELSE s.loc, c.t, c.r, c.uid)
    [] c.op = "setLocatorByColIdx" ->
         UidOfCol(s, c.col) < 0 \/ InRange(IF c.clean THEN Cleared(s.loc, c.t) ELSE s.loc, c.t, c.r, UidOfCol(s, c.col))
    [] c.op = "setLocator" ->
         UidOfName(s, c.name) < 0 \/ InRange(IF c.clean THEN Cleared(s.loc, c.t) ELSE s.loc, c.t, c.r, UidOfName(s, c.name))
    [] c.op = "setLocatorsByUID" ->
         LET l0 == IF c.clean THEN Cleared(s.loc, c.t) ELSE s.loc
         IN AllInRange(s, l0, c.t, c.r, c.uids)
    [] c.op = "setLocatorsByColIdx" ->
         LET l0 == IF c.clean THEN Cleared(s.loc, c.t) ELSE s.loc
         IN AllInRange(s, l0, c.t, c.r, [k \in DOMAIN c.cols |-> UidOfCol(s, c.cols[k])])
    [] c.op = "setLocatorsByUIDRange" ->
         AllInRange(s, IF c.clean THEN Cleared(s.loc, c.t) ELSE s.loc, c.t, c.r, [k \in 1..c.n |-> c.uid + k - 1])
    [] c.op = "setLocators" ->
         LET us == KnownUids(s, c.names) IN
         us = <<>> \/ AllInRange(s, IF c.clean THEN Cleared(s.loc, c.t) ELSE s.loc, c.t, c.r, us)
    [] c.op \in {"addColumnsByConstant", "addColumns"} ->
         c.t \notin Types \/ c.r < 0 \/ c.r <= Len(s.loc[c.t])
    [] OTHER -> TRUE

-----------------------------------------------------------------------------
(* What is promised of any implementation: Judge(c, pre, post)              *)

\* post equals the reference up to the names chosen for the columns the operation names
EqualButNames(a, b) ==
  /\ a.nech = b.nech /\ a.nuid = b.nuid /\ a.loc = b.loc /\ a.grid = b.grid
  /\ Len(a.cols) = Len(b.cols)
  /\ \A i \in DOMAIN a.cols : a.cols[i].uid = b.cols[i].uid /\ a.cols[i].cells = b.cols[i].cells

\* names: untouched columns keep their names; a (re)named column gets a unique name that starts
\* with the requested radix, and exactly the requested name when that name is free
NamesOK(c, pre, post) ==
  LET ref == Do(c, pre) IN
  \A i \in DOMAIN post.cols :
     LET u == post.cols[i].uid IN
     IF u \in Uids(pre) /\ pre.cols[ColOf(pre, u)].name = ref.cols[i].name
     THEN post.cols[i].name = ref.cols[i].name                     \* frame
     ELSE LET want == CASE c.op \in {"addColumnsByConstant", "addSelection", "addColumns"} -> c.radix
                        [] c.op \in {"setName", "setNameByUID", "setNameByColIdx"} -> c.new
                        [] OTHER -> ref.cols[i].name
              others == {post.cols[j].name : j \in DOMAIN post.cols \ {i}}
          IN /\ IsPrefixOf(want, post.cols[i].name)
             /\ (c.op # "addColumnsByConstant" \/ c.nadd = 1) /\ want \notin {pre.cols[j].name : j \in DOMAIN pre.cols \ {ColOf(pre, u)}}
                   => post.cols[i].name = want

JudgeFails(c, pre, post) ==
       LET ref == Do(c, pre) IN
          (IF EqualButNames(ref, post) THEN {}
           ELSE  (IF ref.nech = post.nech THEN {} ELSE {"nech"})
            \cup (IF ref.nuid = post.nuid THEN {} ELSE {"nuid"})
            \cup (IF ref.loc = post.loc THEN {} ELSE {"roles"})
            \cup (IF Len(ref.cols) = Len(post.cols) THEN {} ELSE {"ncol"})
            \cup (IF Len(ref.cols) = Len(post.cols) /\ \A i \in DOMAIN ref.cols : ref.cols[i].uid = post.cols[i].uid
                  THEN {} ELSE {"uids"})
            \cup (IF Len(ref.cols) = Len(post.cols) /\ \A i \in DOMAIN ref.cols : ref.cols[i].cells = post.cols[i].cells
                  THEN {} ELSE {"cells"}))
     \cup (IF Len(ref.cols) = Len(post.cols) /\ (\A i \in DOMAIN ref.cols : ref.cols[i].uid = post.cols[i].uid)
              /\ ~NamesOK(c, pre, post) THEN {"names"} ELSE {})

\* role ranks beyond the count are outside what is promised (see RankInRange)
Judge(c, pre, post) == RankInRange(c, pre) => JudgeFails(c, pre, post) = {}

-----------------------------------------------------------------------------
(* The catalogue of operations explored (arguments within the bounds).      *)
(* The same catalogue drives TLC (MC_DbTable) and the exploration of the    *)
(* real object (harness db_explore reads it as JSON).                       *)

RoleArgs  == Types \cup {NoRole}
UidArgs   == 0..(MaxUid - 1)
ColArgs   == 0..(MaxCols - 1)
RankArgs  == {-1, 0, 1, 2}
NameArgs  == {<<"a">>, <<"b">>, <<"a", ".", "1">>, <<"q">>}
RadixArgs == {<<"a">>, <<"b">>}
IechArgs  == 0..(MaxNech - 1)
Pairs(S)  == {<<x, y>> : x \in S, y \in S}
DPairs(S) == {p \in Pairs(S) : p[1] # p[2]}

Catalogue ==
       \* (names are regular expressions for the name-based entry points: "a.1" would also match
       \*  "a-1", so multiple creation -- which names its columns radix-1, radix-2 -- uses a radix of its own, "c")
       {[op |-> "addColumnsByConstant", nadd |-> 1, radix |-> x, t |-> t, r |-> r, val |-> 1] :
            x \in RadixArgs, t \in RoleArgs, r \in {-1, 0, 1}}
  \cup {[op |-> "addColumnsByConstant", nadd |-> 2, radix |-> <<"c">>, t |-> t, r |-> r, val |-> 1] :
            t \in RoleArgs, r \in {-1, 0, 1}}
  \cup {[op |-> "deleteColumnByUID", uid |-> u] : u \in UidArgs}
  \cup {[op |-> "deleteColumnByColIdx", col |-> k] : k \in ColArgs}
  \cup {[op |-> "deleteColumn", name |-> n] : n \in NameArgs}
  \cup {[op |-> "deleteColumnsByLocator", t |-> t] : t \in Types}
  \cup {[op |-> "deleteColumnsByUID", uids |-> p] : p \in Pairs(UidArgs)}   \* incl. a repeated uid
  \cup {[op |-> "deleteColumnsByColIdx", cols |-> p] : p \in Pairs(ColArgs)}   \* incl. a repeated index
  \cup {[op |-> "setLocatorByUID", uid |-> u, t |-> t, r |-> r, clean |-> b] :
            u \in UidArgs, t \in RoleArgs, r \in RankArgs, b \in BOOLEAN}
  \cup {[op |-> "setLocatorByColIdx", col |-> k, t |-> t, r |-> r, clean |-> b] :
            k \in ColArgs, t \in RoleArgs, r \in {-1, 0, 1}, b \in BOOLEAN}
  \cup {[op |-> "setLocator", name |-> n, t |-> t, r |-> r, clean |-> b] :
            n \in NameArgs, t \in RoleArgs, r \in {-1, 0}, b \in BOOLEAN}
  \cup {[op |-> "setLocatorsByUID", uids |-> p, t |-> t, r |-> r, clean |-> b] :
            p \in DPairs(UidArgs), t \in Types, r \in {-1, 0, 1}, b \in BOOLEAN}
  \cup {[op |-> "setLocatorsByColIdx", cols |-> p, t |-> t, r |-> r, clean |-> b] :
            p \in DPairs(ColArgs), t \in Types, r \in {-1, 0}, b \in BOOLEAN}
  \cup {[op |-> "clearLocators", t |-> t] : t \in Types}
  \cup {[op |-> "switchLocator", t |-> p[1], t2 |-> p[2]] : p \in DPairs(Types)}
  \cup {[op |-> "setName", name |-> n, new |-> x] : n \in NameArgs, x \in RadixArgs}
  \cup {[op |-> "setNameByUID", uid |-> u, new |-> x] : u \in UidArgs, x \in RadixArgs}
  \cup {[op |-> "setNameByColIdx", col |-> k, new |-> x] : k \in ColArgs, x \in RadixArgs}
  \cup {[op |-> "addSamples", n |-> 1, val |-> 7]}
  \cup {[op |-> "deleteSample", iech |-> i] : i \in IechArgs}
  \cup {[op |-> "setArray", uid |-> u, iech |-> i, val |-> 3] : u \in UidArgs, i \in IechArgs}
  \cup {[op |-> "setValueByColIdx", col |-> k, iech |-> i, val |-> 3] : k \in ColArgs, i \in IechArgs}
  \cup {[op |-> "setValueByColIdx", col |-> k, iech |-> i, val |-> -999] : k \in ColArgs, i \in IechArgs}   \* -999 = undefined (NA)
  \cup {[op |-> "setValue", name |-> n, iech |-> i, val |-> 3] : n \in NameArgs, i \in IechArgs}
  \cup {[op |-> "setLocVariable", t |-> t, r |-> r, iech |-> i, val |-> 3] : t \in Types, r \in {0, 1}, i \in IechArgs}
  \cup {[op |-> "setColumnByUID", uid |-> u, val |-> 40] : u \in UidArgs}
  \cup {[op |-> "setArrayBySample", iech |-> i, val |-> 70] : i \in IechArgs}
  \cup {[op |-> "setAllColumns", val |-> 100]}
  \cup {[op |-> "updArray", uid |-> u, iech |-> i, val |-> 5] : u \in UidArgs, i \in IechArgs}
  \cup {[op |-> "setColumnByColIdx", col |-> k, val |-> 50] : k \in ColArgs}
  \cup {[op |-> "duplicateColumnByUID", uid |-> p[1], uid2 |-> p[2]] : p \in DPairs(UidArgs)}
  \cup {[op |-> "copyByUID", uid |-> p[1], uid2 |-> p[2]] : p \in DPairs(UidArgs)}
  \cup (IF "sel" \in Types THEN {[op |-> "addSelection", radix |-> x, k |-> k] : x \in RadixArgs, k \in {0, 1}} ELSE {})
  \cup {[op |-> "addColumns", radix |-> x, t |-> t, r |-> r, val |-> 60] : x \in RadixArgs, t \in RoleArgs, r \in {-1, 0}}
  \cup {[op |-> "deleteColumnsByUIDRange", uid |-> u, n |-> n] : u \in UidArgs, n \in {1, 2}}
  \cup {[op |-> "setLocatorsByUIDRange", uid |-> u, n |-> 2, t |-> t, r |-> r, clean |-> b] :
            u \in UidArgs, t \in Types, r \in {-1, 0}, b \in BOOLEAN}
  \cup {[op |-> "setLocators", names |-> p, t |-> t, r |-> r, clean |-> b] :
            p \in DPairs({<<"a">>, <<"b">>, <<"q">>}), t \in Types, r \in {-1, 0}, b \in BOOLEAN}
  \cup {[op |-> "deleteSamples", iechs |-> p] : p \in DPairs(IechArgs)}
  \cup {[op |-> "copy"]}

\* Entries that would leave the bounds are not applied (same rule in the harness)
WithinBounds(c, s) ==
  CASE c.op = "addColumnsByConstant" -> NCol(s) + c.nadd <= MaxCols /\ s.nuid + c.nadd <= MaxUid
    \* ("if the input array is empty, nothing is done": a Db without sample is left aside)
    [] c.op \in {"addSelection", "addColumns"} -> NCol(s) + 1 <= MaxCols /\ s.nuid + 1 <= MaxUid /\ s.nech >= 1
    [] c.op = "addSamples" -> s.nech + c.n <= MaxNech
    \* (an increment is only applied to a small value: keeps the cell contents bounded)
    [] c.op = "updArray" -> (c.uid \in Uids(s) /\ c.iech >= 0 /\ c.iech < s.nech) => s.cols[ColOf(s, c.uid)].cells[c.iech + 1] < 10
    [] OTHER -> TRUE

EmptyDb(nech, grid) == [nech |-> nech, nuid |-> 0, cols |-> <<>>, loc |-> [t \in Types |-> <<>>], grid |-> grid]

=============================================================================
