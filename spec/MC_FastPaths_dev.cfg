SPECIFICATION Spec
CONSTANTS
  Pairs = {"covmat"}
  Models = {"A", "C"}
  Small = TRUE
INVARIANT Inv_PairHolds Inv_MigDeviationsClassified
CONSTRAINT Emit
CHECK_DEADLOCK FALSE
