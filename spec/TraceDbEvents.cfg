SPECIFICATION Spec
CONSTANTS
  Types = {"X","Z","V","F","G","L","U","P","W","C","SEL","DOM","BLEX","ADIR","ADIP","SIZE","BU","BD","TIME","LAYER","NOSTAT","TGTE","SIMU","FACIES","GAUSFAC","DATE","RKLOW","RKUP","SUM"}
  MaxCols = 3
  MaxUid = 3
  MaxNech = 1
POSTCONDITION AllExamined
CHECK_DEADLOCK FALSE
