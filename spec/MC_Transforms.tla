--------------------------- MODULE MC_Transforms ---------------------------
(* Enumerates every scenario (sequence of fit / copy / apply / invert steps,  *)
(* re-fits included) of exactly MaxLen steps for every kind in Kinds, checks  *)
(* the laws of the history-term algebra on each of them, and emits each       *)
(* scenario that produced at least one array together with, per array, its    *)
(* normal form (to be evaluated by FRESH objects) and the earlier arrays it   *)
(* must be equal to.                                                          *)
EXTENDS Transforms, Json, SequencesExt

CONSTANTS Kinds, MaxLen

VARIABLES kind, st, steps
vars == <<kind, st, steps>>

Init == kind \in Kinds /\ st = InitSt /\ steps = <<>>
Next == /\ Len(steps) < MaxLen
        /\ \E s \in StepAlphabet(kind, st) :
             /\ StepEnabled(kind, st, s)
             /\ st' = DoStep(kind, st, s)
             /\ steps' = Append(steps, s)
        /\ UNCHANGED kind
Spec == Init /\ [][Next]_vars

NArr == Len(st.arrs)
ArrOut(k) == LET a == st.arrs[k]
                 key == RefKey(kind, st, ARef(k))
             IN [k |-> k, base |-> a.base, scale |-> a.scale,
                 nf |-> IF kind = "ROT" THEN <<>> ELSE key.nf,
                 mat |-> IF kind = "ROT" THEN key.nf[1] ELSE MatId(1),
                 same |-> SetToSeq(SameAs(kind, st, k))]
CaseRec == [kind |-> kind, steps |-> steps, arrs |-> [k \in 1..NArr |-> ArrOut(k)]]

\* emission (state constraint: evaluated once per state of the scenario tree)
Emit == Len(steps) < MaxLen \/ NArr = 0 \/ PrintT(ToJson(CaseRec))

---------------------------------------------------------------------------
(* Laws of the algebra, checked in every reachable state                     *)
TypeOK == /\ AllEnabled(kind, InitSt, steps) /\ Replay(kind, InitSt, steps) = st
          /\ \A k \in 1..NArr : st.arrs[k].scale \in {"raw", "gauss", "vars", "fac", "pts"}
\* normal forms are irreducible and reducing again changes nothing
NormalFormsIrreducible ==
  kind # "ROT" => \A k \in 1..NArr :
     LET nf == NF(kind, st.arrs[k].base, st.arrs[k].hist) IN
       /\ Reduce(kind, <<>>, nf) = nf
       /\ \A i \in 1..(Len(nf) - 1) : ~CanCancel(kind, nf[i], nf[i + 1], SubSeq(nf, i + 2, Len(nf)))
\* an array obtained by applying a transform and then its inverse with the SAME fitted state to x has the normal form of x
RoundTripIsIdentity ==
  kind \notin {"ROT", "NS"} => \A k \in 1..NArr :
     LET a == st.arrs[k] IN
       (a.src.t = "a" /\ st.arrs[a.src.a].dir # a.dir
          /\ st.arrs[a.src.a].hist[Len(st.arrs[a.src.a].hist)].fit = a.hist[Len(a.hist)].fit)
       => RefKey(kind, st, ARef(k)) = RefKey(kind, st, st.arrs[a.src.a].src)
\* re-fitting leaves no residue: the term of an array only mentions the state of the last fit before its production
NoResidue ==
  \A k \in 1..NArr : LET h == st.arrs[k].hist[Len(st.arrs[k].hist)] IN
     kind # "NS" => /\ IsFitted(h.fit) /\ \E i \in 1..Len(steps) : steps[i].op = "fit" /\ steps[i].data = h.fit.data /\ steps[i].opt = h.fit.opt
                    /\ h.fit.r = 100 \/ \E i \in 1..Len(steps) : steps[i].op = "support" /\ steps[i].opt = h.fit.r
\* rotations form a group of exact matrices: every normal form is a rotation; inverse is the transpose
RotationGroup ==
  kind = "ROT" => \A k \in 1..NArr :
     LET m == NF(kind, st.arrs[k].base, st.arrs[k].hist)[1] IN
       /\ IsRotation(m)
       /\ MatMul(MatT(m), m) = MatId(m.dim)
\* the support coefficient only exists for the Hermite anamorphosis and is the one of the last support step
SupportState ==
  /\ kind # "AH" => st.obj.r = 100 /\ st.cpy.r = 100
  /\ LET S == {i \in 1..Len(steps) : steps[i].op = "support"} IN
       st.obj.r = IF S = {} THEN 100 ELSE steps[CHOOSE i \in S : \A j \in S : j <= i].opt
SameIsSymmetricOnKeys ==
  \A k \in 1..NArr : \A r \in SameAs(kind, st, k) : RefKey(kind, st, r) = RefKey(kind, st, ARef(k))
=============================================================================
