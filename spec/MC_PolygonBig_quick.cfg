\* manual run:  cd spec && JAVA_TOOL_OPTIONS=-Xss256m tlc -workers 4 -config MC_PolygonBig_quick.cfg MC_PolygonBig.tla
SPECIFICATION Spec
CONSTANTS
  G = 2
  MaxV = 4
  Kinds = {"sub", "stair"}
  Ks = {40}
INVARIANT Inv_Big
CHECK_DEADLOCK FALSE
