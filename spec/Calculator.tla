----------------------------- MODULE Calculator -----------------------------
(***************************************************************************)
(* Life-cycle of a gstlearn calculator (ACalculator::run and the            *)
(* bookkeeping of ACalcDbToDb / ACalcDbVarCreator), property C19:           *)
(* a calculation either completes, adding exactly its documented output     *)
(* variables, or fails and leaves its data bases as they were.              *)
(*                                                                         *)
(* run() = _check ; _preprocess ; _run ; _postprocess, any stage may fail   *)
(* (natural failure or fault injected between/inside the stages), a failure *)
(* is followed by _rollback.  _preprocess creates groups of columns through *)
(* _addVariableDb(whichDb, status, ...) (status "perm" or "temp"), may      *)
(* create unregistered columns (_expandInformation) and may move roles      *)
(* (DGM centring of the coordinates).  _postprocess removes the temporary   *)
(* groups, restores roles, renames the permanent groups.                    *)
(*                                                                         *)
(* Two protocols are model-checked:                                         *)
(*   "intended"    roll-back removes permanent AND temporary groups,         *)
(*                 unregistered columns, and restores moved roles           *)
(*   "transcribed" roll-back as written in the calculators of the tree      *)
(*                 being verified (field rb of the profile)                 *)
(* Atomic / Exact are invariants of the intended protocol; for the          *)
(* transcribed protocol TLC lists the (profile, fault) pairs that break     *)
(* them: these are predictions about the code, decided by the conformance   *)
(* run on the real calculators (TraceCalculator).                           *)
(***************************************************************************)
EXTENDS Integers, Sequences, FiniteSets, TLC, Json, SequencesExt

\* A profile = one public entry point.
\*  groups : sequence of [db |-> "in"|"out", status |-> "perm"|"temp", n |-> Nat]  (creation order)
\*  same   : dbin and dbout are the same object (cross-validation, single-db calculators)
\*  unreg  : number of columns created outside the bookkeeping during _preprocess
\*  moves  : TRUE when _preprocess re-assigns roles of dbin (DGM centring)
\*  rb     : what the transcribed _rollback undoes, subset of {"perm","temp","unreg","roles"}
Profiles ==
  { [name |-> "kriging",     same |-> FALSE, groups |-> <<[db |-> "out", status |-> "perm", n |-> 1], [db |-> "out", status |-> "perm", n |-> 1]>>,
       unreg |-> 0, moves |-> FALSE, rb |-> {"perm", "temp"}],
    [name |-> "krigtest",    same |-> FALSE, groups |-> <<[db |-> "out", status |-> "temp", n |-> 1], [db |-> "out", status |-> "temp", n |-> 1]>>,
       unreg |-> 0, moves |-> FALSE, rb |-> {"perm", "temp"}],
    [name |-> "xvalid",      same |-> TRUE,  groups |-> <<[db |-> "out", status |-> "perm", n |-> 1], [db |-> "out", status |-> "perm", n |-> 1]>>,
       unreg |-> 0, moves |-> FALSE, rb |-> {"perm", "temp"}],
    [name |-> "test_neigh",  same |-> FALSE, groups |-> <<[db |-> "out", status |-> "perm", n |-> 5]>>,
       unreg |-> 0, moves |-> FALSE, rb |-> {"perm", "temp"}],
    [name |-> "simtub_nc",   same |-> FALSE, groups |-> <<[db |-> "out", status |-> "perm", n |-> 2]>>,
       unreg |-> 0, moves |-> FALSE, rb |-> {"perm", "temp"}],
    [name |-> "simtub_cond", same |-> FALSE, groups |-> <<[db |-> "in", status |-> "temp", n |-> 2], [db |-> "out", status |-> "perm", n |-> 2]>>,
       unreg |-> 0, moves |-> FALSE, rb |-> {"perm", "temp"}],
    [name |-> "kriging_extdrift", same |-> FALSE, groups |-> <<[db |-> "out", status |-> "perm", n |-> 1], [db |-> "out", status |-> "perm", n |-> 1]>>,
       unreg |-> 1, moves |-> FALSE, rb |-> {"perm", "temp"}],
    [name |-> "kriging_dgm", same |-> FALSE, groups |-> <<[db |-> "out", status |-> "perm", n |-> 1], [db |-> "out", status |-> "perm", n |-> 1], [db |-> "in", status |-> "temp", n |-> 2]>>,
       unreg |-> 0, moves |-> TRUE, rb |-> {"perm", "temp"}],
    [name |-> "migrate",     same |-> FALSE, groups |-> <<[db |-> "out", status |-> "perm", n |-> 1]>>,
       unreg |-> 0, moves |-> FALSE, rb |-> {"perm", "temp"}],
    [name |-> "stats_grid",  same |-> FALSE, groups |-> <<[db |-> "out", status |-> "perm", n |-> 1]>>,
       unreg |-> 0, moves |-> FALSE, rb |-> {"perm", "temp"}],
    [name |-> "simple_interp", same |-> FALSE, groups |-> <<[db |-> "out", status |-> "perm", n |-> 1]>>,
       unreg |-> 0, moves |-> FALSE, rb |-> {"perm", "temp"}],
    [name |-> "simfft",      same |-> TRUE,  groups |-> <<[db |-> "out", status |-> "perm", n |-> 1]>>,
       unreg |-> 0, moves |-> FALSE, rb |-> {"perm", "temp"}],
    [name |-> "anam_transform", same |-> TRUE, groups |-> <<[db |-> "out", status |-> "perm", n |-> 1]>>,
       unreg |-> 0, moves |-> FALSE, rb |-> {"perm", "temp"}],
    [name |-> "regression",  same |-> TRUE,  groups |-> <<[db |-> "in", status |-> "perm", n |-> 1]>>,
       unreg |-> 0, moves |-> FALSE, rb |-> {"perm", "temp"}],
    [name |-> "nearest_neighbor", same |-> FALSE, groups |-> <<[db |-> "out", status |-> "perm", n |-> 1]>>,
       unreg |-> 0, moves |-> FALSE, rb |-> {"perm", "temp"}],
    [name |-> "moving_average", same |-> FALSE, groups |-> <<[db |-> "out", status |-> "perm", n |-> 1]>>,
       unreg |-> 0, moves |-> FALSE, rb |-> {"perm", "temp"}],
    [name |-> "least_squares", same |-> FALSE, groups |-> <<[db |-> "out", status |-> "perm", n |-> 1]>>,
       unreg |-> 0, moves |-> FALSE, rb |-> {"perm", "temp"}],
    [name |-> "migrate_multi", same |-> FALSE, groups |-> <<[db |-> "out", status |-> "perm", n |-> 2]>>,
       unreg |-> 0, moves |-> FALSE, rb |-> {"perm", "temp"}],
    [name |-> "migrate_locator", same |-> FALSE, groups |-> <<[db |-> "out", status |-> "perm", n |-> 1]>>,
       unreg |-> 0, moves |-> FALSE, rb |-> {"perm", "temp"}],
    [name |-> "kribayes",    same |-> FALSE, groups |-> <<[db |-> "out", status |-> "perm", n |-> 1], [db |-> "out", status |-> "perm", n |-> 1]>>,
       unreg |-> 0, moves |-> FALSE, rb |-> {"perm", "temp"}] }

Protocols == {"intended", "transcribed"}

AddvarName(k) == CASE k = 1 -> "addvar1" [] k = 2 -> "addvar2" [] k = 3 -> "addvar3" [] OTHER -> "addvar9"
\* where a failure strikes
Faults(p) == {"none", "check", "after_check", "after_preprocess", "run", "after_run", "postprocess"}
             \cup {AddvarName(k) : k \in 1..Len(p.groups)}

VARIABLES prof, proto, fault,
          stage,     \* "idle","checked","preprocessing","preprocessed","ran","done","rolledback"
          made,      \* sequence of groups created so far (still present)
          unregd,    \* unregistered columns present
          moved,     \* roles of dbin currently moved
          renamed,   \* permanent groups renamed by _postprocess
          ret        \* "none","ok","fail"
vars == <<prof, proto, fault, stage, made, unregd, moved, renamed, ret>>

Init == /\ prof \in Profiles /\ proto \in Protocols /\ fault \in Faults(prof)
        /\ stage = "idle" /\ made = <<>> /\ unregd = 0 /\ moved = FALSE /\ renamed = FALSE /\ ret = "none"

Fail == stage' = "failing"

Check == /\ stage = "idle"
         /\ IF fault = "check" THEN Fail ELSE stage' = "checked"
         /\ UNCHANGED <<prof, proto, fault, made, unregd, moved, renamed, ret>>

AfterCheck == /\ stage = "checked"
              /\ IF fault = "after_check" THEN Fail ELSE stage' = "preprocessing"
              /\ UNCHANGED <<prof, proto, fault, made, unregd, moved, renamed, ret>>

\* _preprocess: unregistered columns first (ACalcInterpolator), then the groups one by one, then the role move
Create == /\ stage = "preprocessing"
          /\ Len(made) < Len(prof.groups)
          /\ LET k == Len(made) + 1 IN
             IF fault = AddvarName(k)
             THEN Fail /\ UNCHANGED <<made, unregd>>
             ELSE /\ made' = Append(made, prof.groups[k])
                  /\ unregd' = prof.unreg
                  /\ UNCHANGED stage
          /\ UNCHANGED <<prof, proto, fault, moved, renamed, ret>>

PreDone == /\ stage = "preprocessing"
           /\ Len(made) = Len(prof.groups)
           /\ moved' = prof.moves
           /\ unregd' = prof.unreg
           /\ IF fault = "after_preprocess" THEN Fail ELSE stage' = "preprocessed"
           /\ UNCHANGED <<prof, proto, fault, made, renamed, ret>>

Run == /\ stage = "preprocessed"
       /\ IF fault = "run" THEN Fail ELSE stage' = "ran"
       /\ UNCHANGED <<prof, proto, fault, made, unregd, moved, renamed, ret>>

AfterRun == /\ stage = "ran"
            /\ IF fault = "after_run" THEN Fail ELSE stage' = "postprocessing"
            /\ UNCHANGED <<prof, proto, fault, made, unregd, moved, renamed, ret>>

\* _postprocess: temporary groups removed first, roles restored, unregistered columns removed, then renaming
Post == /\ stage = "postprocessing"
        /\ made' = SelectSeq(made, LAMBDA g : g.status = "perm")
        /\ moved' = FALSE
        /\ unregd' = 0
        /\ IF fault = "postprocess"
           THEN Fail /\ UNCHANGED <<renamed, ret>>
           ELSE stage' = "done" /\ renamed' = TRUE /\ ret' = "ok"
        /\ UNCHANGED <<prof, proto, fault>>

Undone == IF proto = "intended" THEN {"perm", "temp", "unreg", "roles"} ELSE prof.rb

Rollback == /\ stage = "failing"
            /\ made' = SelectSeq(made, LAMBDA g : g.status \notin Undone)
            /\ unregd' = IF "unreg" \in Undone THEN 0 ELSE unregd
            /\ moved' = IF "roles" \in Undone THEN FALSE ELSE moved
            /\ stage' = "rolledback" /\ ret' = "fail"
            /\ UNCHANGED <<prof, proto, fault, renamed>>

Next == Check \/ AfterCheck \/ Create \/ PreDone \/ Run \/ AfterRun \/ Post \/ Rollback
Spec == Init /\ [][Next]_vars

-----------------------------------------------------------------------------
Leftover == [groups |-> made, unreg |-> unregd, moved |-> moved]
Clean    == made = <<>> /\ unregd = 0 /\ ~moved

\* C19 on the model
Atomic == ret = "fail" => Clean
Exact  == ret = "ok" => /\ made = SelectSeq(prof.groups, LAMBDA g : g.status = "perm")
                        /\ unregd = 0 /\ ~moved /\ renamed
Terminates == ret # "none" => stage \in {"done", "rolledback"}

AtomicIntended == proto = "intended" => Atomic
ExactAll == Exact

-----------------------------------------------------------------------------
(* Natural ways of failing offered to the conformance run, per fault point:  *)
(* inputs that make the named stage of the real calculator fail by itself    *)
(* (the injected faults need no input).                                      *)
KrigLike == {"kriging", "krigtest", "xvalid", "test_neigh", "simtub_cond", "kriging_extdrift", "kribayes"}
NaturalVariants(pname, f) ==
  CASE f = "check" /\ pname \in KrigLike -> {"nvar_mismatch", "ndim_mismatch", "no_model", "no_neigh", "no_z"}
    [] f = "check" /\ pname = "simtub_nc" -> {"ndim_mismatch", "no_model"}
    [] f = "check" /\ pname \in {"migrate", "anam_transform", "regression"} -> {"bad_name"}
    [] f = "check" /\ pname = "anam_transform" -> {"bad_name", "anam_not_fitted"}
    [] f = "check" /\ pname = "stats_grid" -> {"points_out"}
    [] f = "check" /\ pname \in {"moving_average", "least_squares"} -> {"no_neigh", "ndim_mismatch"}
    [] f = "run" /\ pname \in {"kriging", "krigtest"} -> {"block_on_points"}
    [] f = "check" /\ pname = "kriging_extdrift" -> {"no_ext_out"}
    [] OTHER -> {}
\* input set-ups that select other code paths of the same entry point (all faults apply to them)
SetupVariants(pname) ==
  \* "nolocator": naming convention asked not to touch the roles (flag_locator = false)
  CASE pname = "kriging" -> {"std", "moving", "nolocator"}
    [] pname = "xvalid" -> {"std", "nolocator"}
    [] pname = "migrate" -> {"std", "nolocator"}
    [] pname = "kriging_extdrift" -> {"std", "expand"}     \* "expand": dbin lacks the external drift, _preprocess migrates it
    [] pname = "anam_transform" -> {"std", "by_name"}      \* "by_name": entry point designating the variable by its name
    [] OTHER -> {"std"}
Priors == {"plain", "clash"}
\* profiles for which the conformance harness has a binding
Bound == {"kriging", "krigtest", "xvalid", "test_neigh", "simtub_nc", "simtub_cond", "kriging_extdrift", "migrate",
          "stats_grid", "simple_interp", "simfft", "anam_transform", "regression", "nearest_neighbor", "moving_average",
          "least_squares", "migrate_multi", "migrate_locator", "kribayes"}

\* Every terminal state is emitted: the scenario catalogue of the conformance run, with the
\* prediction of the transcribed protocol.
Emit == ret = "none" \/ PrintT(ToJson([profile |-> prof.name, fault |-> fault, proto |-> proto, ret |-> ret,
                                         clean |-> Clean, leftover |-> Leftover, bound |-> prof.name \in Bound,
                                         variants |-> SetToSeq(NaturalVariants(prof.name, fault)),
                                         setups |-> SetToSeq(SetupVariants(prof.name)),
                                         expected_new |-> IF ret = "ok" THEN [k \in 1..Len(made) |-> made[k]] ELSE <<>>]))

=============================================================================
