----------------------------- MODULE Calculator -----------------------------
(***************************************************************************)
(* Life-cycle of a gstlearn calculator (ACalculator::run and the            *)
(* bookkeeping of ACalcDbToDb / ACalcDbVarCreator), property C19:           *)
(* a calculation either completes, adding exactly its documented output     *)
(* variables, or fails and leaves its data bases as they were.              *)
(*                                                                         *)
(* run() = _check ; _preprocess ; _run ; _postprocess, any stage may fail   *)
(* (natural failure or fault injected between/inside the stages), a failure *)
(* is followed by _rollback.  _preprocess creates groups of columns through *)
(* _addVariableDb(whichDb, status, ...) (status "perm" or "temp"), may      *)
(* create unregistered columns (_expandInformation) and may move roles      *)
(* (DGM centring of the coordinates).  _postprocess removes the temporary   *)
(* groups, restores roles, renames the permanent groups.                    *)
(* Some entry points of the family do not go through ACalculator::run       *)
(* (simbool, pointToBlock, ...): they create and delete their columns       *)
(* themselves; the same four steps describe them, with groups that no       *)
(* bookkeeping knows (reg = FALSE) and no roll-back at all.                 *)
(*                                                                         *)
(* Two protocols are model-checked:                                         *)
(*   "intended"    every failure is reported, and the roll-back removes     *)
(*                 permanent AND temporary groups, registered or not, the   *)
(*                 unregistered columns, and restores every moved role      *)
(*   "transcribed" roll-back as written in the calculators of the tree      *)
(*                 being verified (fields rb, lies, postUnreg of the        *)
(*                 profile)                                                 *)
(* Atomic / Exact / Honest are invariants of the intended protocol; for the *)
(* transcribed protocol TLC lists the (profile, fault) pairs that break     *)
(* them: these are predictions about the code, decided by the conformance   *)
(* run on the real calculators (TraceCalculator).                           *)
(***************************************************************************)
EXTENDS Integers, Sequences, FiniteSets, TLC, Json, SequencesExt

\* A group of columns created by one _addVariableDb call (or one addColumns* call of an entry point
\* that keeps no books):
\*  db     : "in" | "out"
\*  status : "perm" (kept and renamed on success) | "temp" (removed on success)
\*  n      : number of columns
\*  reg    : registered in the bookkeeping lists (what _cleanVariableDb can see)
\*  mv     : the X roles of dbin are moved onto these columns right after their creation (centring)
G(db, st, n)  == [db |-> db, status |-> st, n |-> n, reg |-> TRUE,  mv |-> FALSE]
GX(n)         == [db |-> "in", status |-> "temp", n |-> n, reg |-> TRUE,  mv |-> TRUE]
GU(db, st, n) == [db |-> db, status |-> st, n |-> n, reg |-> FALSE, mv |-> FALSE]

\* A profile = one public entry point x one OPTION CLASS: the values of the options of the entry point that create the
\* same groups (outputs and work columns).  Each class has its own group list, so that Exact (exactly the documented
\* outputs, no work column left) is judged per option value; the option values of a class are its set-ups
\* (SetupVariants), all executed with every fault.
\*  entry    : the public entry point (C++ name) the profile belongs to
\*  same     : dbin and dbout are the same object (cross-validation, single-db calculators)
\*  hooks    : the entry point goes through ACalculator::run (faults can be injected between stages)
\*  noerr    : the entry point returns no error code (a result structure instead)
\*  unreg    : number of columns created outside the bookkeeping during _preprocess (_expandInformation)
\*  postUnreg: the transcribed _postprocess removes them (turning bands only)
\*  cmoves   : the entry point / _check re-assigns roles of dbin BEFORE the first test that can fail
\*  runUnreg : columns created by _run itself (nested calculators) and removed at its end
\*  lies     : stages having error branches that return 1 (= true) from a bool function; "center": the centring
\*             does not test the allocation of the coordinate copies and centres the original coordinates
\*  scribbles: _run writes its progress into pre-existing (input) variables
\*  postClears: the transcribed _postprocess clears a role of pre-existing variables without giving it to an output
\*  rb       : what the transcribed _rollback undoes, subset of
\*             {"perm","temp","unreg","roles","croles","runcols","values","raw"}; only registered groups can be
\*             removed, unless "raw" is there (the entry point deletes the columns it created itself)
\* The transcription follows the tree being verified.  Before the repairs of the calculators TLC predicted on it
\* (and the replay confirmed): kriging with an IMAGE neighbourhood reported as a success (lies = {"check"});
\* krigingFactors leaving the Z / X roles of dbin moved after ANY failure and reporting a failed _run as a success
\* (rb without "croles" / "roles", lies = {"run"}); the centring going on after a failed allocation (lies = {"center"});
\* DGM kriging / simulation losing the X roles after a failure in or after _preprocess (rb without "roles");
\* tessellation_poisson keeping its work field when _run fails (rb without "runcols"); simbool keeping "Cover" and
\* its outputs (rb = {}); simuPost clearing the Z roles on success (postClears).
P(name, same, groups) ==
  [name |-> name, entry |-> name, same |-> same, hooks |-> TRUE, noerr |-> FALSE, groups |-> groups, unreg |-> 0, postUnreg |-> FALSE,
   cmoves |-> FALSE, runUnreg |-> 0, lies |-> {}, scribbles |-> FALSE, postClears |-> FALSE, rb |-> {"perm", "temp"}]
\* entry points outside ACalculator::run: no bookkeeping, no roll-back
Q(name, same, groups) == [P(name, same, groups) EXCEPT !.hooks = FALSE, !.rb = {}]

Est1Std1 == <<G("out", "perm", 1), G("out", "perm", 1)>>
One      == <<G("out", "perm", 1)>>
Two      == <<G("out", "perm", 2)>>
\* an option class of an entry point
O(name, entry, same, groups) == [P(name, same, groups) EXCEPT !.entry = entry]

ProfilesKriging ==
  { P("kriging", FALSE, Est1Std1),
    [P("krigtest", FALSE, <<G("out", "temp", 1), G("out", "temp", 1)>>) EXCEPT !.noerr = TRUE],
    P("xvalid", TRUE, Est1Std1),
    P("test_neigh", FALSE, <<G("out", "perm", 5)>>),
    [P("kriging_extdrift", FALSE, Est1Std1) EXCEPT !.unreg = 1],
    \* DGM: estimation groups first, then the centred copies of the coordinates (temporary, in dbin) take the X roles
    \* (_rollback gives the X roles back)
    [P("kriging_dgm", FALSE, <<G("out", "perm", 1), G("out", "perm", 1), GX(2)>>) EXCEPT !.rb = {"perm", "temp", "roles"}],
    P("kribayes", FALSE, Est1Std1),
    P("krigcell", FALSE, Est1Std1),
    P("krigprof", FALSE, Est1Std1),
    P("kriggam", FALSE, Est1Std1),
    O("kriging_varz", "kriging", FALSE, <<G("out", "perm", 1), G("out", "perm", 1), G("out", "perm", 1)>>),
    O("kriging_one", "kriging", FALSE, One),                       \* a single one of flag_est / flag_std / flag_varz
    O("kriging_2var", "kriging", FALSE, <<G("out", "perm", 2), G("out", "perm", 2)>>),
    O("kriging_lc", "kriging", FALSE, Est1Std1),                   \* matLC with one row on a bivariate model
    O("kriging_colcok", "kriging", FALSE, <<G("out", "perm", 2), G("out", "perm", 2)>>),
    O("xvalid_one", "xvalid", TRUE, One),
    O("xvalid_varz", "xvalid", TRUE, <<G("out", "perm", 1), G("out", "perm", 1), G("out", "perm", 1)>>),
    \* CalcKrigingFactors: _check clears Z in dbin and gives it to the first factor only, before any test
    \* (_rollback gives Z back to all factors); with a change of support the centring comes BEFORE the outputs
    [P("krig_factors", FALSE, <<G("out", "perm", 2), G("out", "perm", 2)>>) EXCEPT !.cmoves = TRUE, !.rb = {"perm", "temp", "croles"}],
    [P("krig_factors_cs", FALSE, <<GX(2), G("out", "perm", 2), G("out", "perm", 2)>>)
       EXCEPT !.cmoves = TRUE, !.rb = {"perm", "temp", "croles", "roles"}],
    [O("krig_factors_one", "krigingFactors", FALSE, Two) EXCEPT !.cmoves = TRUE, !.rb = {"perm", "temp", "croles"}],
    \* CalcImage (dbin = dbout = the grid)
    P("krimage", TRUE, One),
    P("db_smoother", TRUE, One),
    P("morpho", TRUE, One),
    P("morpho_gradient", TRUE, <<G("out", "perm", 2)>>),
    \* CalcGlobal: no column at all, result structure
    [P("global_arithmetic", FALSE, <<>>) EXCEPT !.noerr = TRUE],
    [P("global_kriging", FALSE, <<>>) EXCEPT !.noerr = TRUE],
    \* CalcSimpleInterpolation
    P("simple_interp", FALSE, One),
    O("invdist_std", "inverseDistance", FALSE, Est1Std1),
    O("invdist_stdonly", "inverseDistance", FALSE, One),
    O("nearest_neighbor_std", "nearestNeighbor", FALSE, Est1Std1),
    O("moving_average_std", "movingAverage", FALSE, Est1Std1),
    O("moving_median_std", "movingMedian", FALSE, Est1Std1),
    P("nearest_neighbor", FALSE, One),
    P("moving_average", FALSE, One),
    P("moving_median", FALSE, One),
    P("least_squares", FALSE, One) }

ProfilesSimu ==
  { [P("simtub_nc", FALSE, <<G("out", "perm", 2)>>) EXCEPT !.postUnreg = TRUE, !.lies = {"check"}],    \* nbtuba <= 0: return 1
    [P("simtub_cond", FALSE, <<G("in", "temp", 2), G("out", "perm", 2)>>) EXCEPT !.postUnreg = TRUE],
    [P("simbayes", FALSE, <<G("in", "temp", 2), G("out", "perm", 2)>>) EXCEPT !.postUnreg = TRUE],
    [P("simtub_dgm", FALSE, <<G("in", "temp", 2), G("out", "perm", 2), GX(2)>>) EXCEPT !.postUnreg = TRUE, !.rb = {"perm", "temp", "roles"}],
    P("simfft", TRUE, One),
    P("simfft_multi", TRUE, <<G("out", "perm", 2)>>),
    P("tess_voronoi", FALSE, One),
    \* Poisson polyhedra: _run simulates a Gaussian field into the grid with a nested simtub and deletes it at its end
    \* (and when it fails)
    [P("tess_poisson", FALSE, One) EXCEPT !.runUnreg = 1, !.rb = {"perm", "temp", "runcols"}],
    P("substitution", FALSE, One),
    \* CalcSimuEden propagates in place in the Facies / Fluid variables given as input
    [P("eden", FALSE, Est1Std1) EXCEPT !.scribbles = TRUE],                   \* Fluid, Date
    [P("eden_stats", FALSE, <<G("out", "perm", 2), G("out", "perm", 1), G("out", "perm", 1), G("out", "perm", 1)>>) EXCEPT !.scribbles = TRUE],
    P("simu_refine", FALSE, <<>>),                                            \* returns a new grid, touches no db
    \* SimuBoolean / SimuSpherical derive from ACalcSimulation but their entry points never call run():
    \* they add the work column "Cover" to dbin and the outputs to dbout themselves (simbool deletes them when it fails)
    [Q("simbool", FALSE, <<GU("in", "temp", 1), GU("out", "perm", 1), GU("out", "perm", 1)>>) EXCEPT !.rb = {"perm", "temp", "raw"}],
    [Q("simbool_nc", FALSE, <<GU("out", "perm", 1), GU("out", "perm", 1)>>) EXCEPT !.rb = {"perm", "temp", "raw"}],
    Q("simsph", TRUE, <<GU("out", "perm", 1)>>) }

ProfilesDbToDb ==
  { P("migrate", FALSE, One),
    P("migrate_multi", FALSE, <<G("out", "perm", 2)>>),
    P("migrate_locator", FALSE, One),
    P("migrate_attr", FALSE, <<G("out", "perm", 3)>>),
    \* dbStatisticsOnGrid: the engine (dbStatisticsInGridTool) adds work columns to the grid during _run and
    \* deletes them at its end: none for NUM / MINI / MAXI / CORR / PLUS / MOINS / ZERO, a count for MEAN,
    \* a count and a sum for VAR / STDV
    O("stats_grid", "dbStatisticsOnGrid", FALSE, One),
    [O("stats_grid_mean", "dbStatisticsOnGrid", FALSE, One) EXCEPT !.runUnreg = 1],
    [O("stats_grid_var", "dbStatisticsOnGrid", FALSE, One) EXCEPT !.runUnreg = 2],
    [O("stats_grid_multi", "dbStatisticsOnGrid", FALSE, Two) EXCEPT !.runUnreg = 2],          \* two variables
    P("regression", TRUE, <<G("in", "perm", 1)>>),
    P("g2g_copy", FALSE, One),
    P("g2g_expand", FALSE, One),
    P("g2g_shrink", FALSE, <<G("out", "perm", 1), G("out", "temp", 1)>>),
    P("g2g_interp", FALSE, One),
    \* CalcSimuPost renames with a variable count of 0: the naming convention then leaves the roles alone
    P("simupost_up", FALSE, <<G("out", "perm", 2)>>),
    O("simupost_up1", "simuPost", FALSE, One),                     \* a single statistic
    O("simupost_up8", "simuPost", FALSE, <<G("out", "perm", 8)>>), \* the eight statistics
    O("simupost_match", "simuPost", FALSE, <<G("out", "perm", 4)>>), \* two variables, matching ranks, two statistics
    P("simupost_self", TRUE, <<G("in", "perm", 2)>>),
    P("simupost_demo", FALSE, <<G("out", "perm", 4)>>),
    P("simupost_layer", FALSE, <<G("out", "perm", 3)>>),
    \* plain functions of CalcMigrate.cpp (no calculator object)
    Q("point_to_block", FALSE, <<GU("out", "perm", 1), GU("in", "temp", 1), GU("in", "perm", 3)>>),
    Q("interp_to_point", FALSE, <<>>),
    Q("expand_point_to_grid", FALSE, <<>>),
    Q("db_proportion", FALSE, <<GU("out", "perm", 2)>>) }

ProfilesAnam ==
  { \* the entry points designating the variable by its name ("by_name" set-up) give it the Z role before the run
    [P("anam_transform", TRUE, One) EXCEPT !.cmoves = TRUE],
    [P("gaussian_to_raw", TRUE, One) EXCEPT !.cmoves = TRUE],
    [P("normal_score", TRUE, One) EXCEPT !.cmoves = TRUE],       \* always by name: Z role assigned before the run
    P("raw_to_factor", TRUE, <<G("out", "perm", 2)>>),
    P("raw_to_factor_ranks", TRUE, <<G("out", "perm", 2)>>),
    \* the number of outputs is the number of recovery functions of the Selectivity
    P("cond_expectation", TRUE, <<G("out", "perm", 2)>>),
    O("cond_expectation_one", "ConditionalExpectation", TRUE, One),
    O("cond_expectation_tq", "ConditionalExpectation", TRUE, <<G("out", "perm", 8)>>),
    O("cond_expectation_tqbm", "ConditionalExpectation", TRUE, <<G("out", "perm", 6)>>),
    \* _uniformConditioning adds two work columns itself during _run and deletes them at its end
    [P("uniform_cond", TRUE, <<G("out", "perm", 2)>>) EXCEPT !.runUnreg = 2],
    [O("uniform_cond_tq", "UniformConditioning", TRUE, <<G("out", "perm", 8)>>) EXCEPT !.runUnreg = 2],
    P("disj_kriging", TRUE, <<G("out", "perm", 2)>>),
    O("disj_kriging_tq", "DisjunctiveKriging", TRUE, <<G("out", "perm", 8)>>) }

Profiles == ProfilesKriging \cup ProfilesSimu \cup ProfilesDbToDb \cup ProfilesAnam

Protocols == {"intended", "transcribed"}

AddvarName(k) == CASE k = 1 -> "addvar1" [] k = 2 -> "addvar2" [] k = 3 -> "addvar3" [] k = 4 -> "addvar4" [] OTHER -> "addvar9"
\* where a failure strikes.  "check" / "run": an error branch of the stage that reports the failure;
\* "check_r1" / "run_r1": an error branch written `return 1` in a bool stage
Faults(p) ==
  IF p.hooks
  THEN {"none", "check", "after_check", "after_preprocess", "run", "after_run", "postprocess"}
       \cup {AddvarName(k) : k \in {j \in 1..Len(p.groups) : p.groups[j].reg}}
       \cup (IF "check" \in p.lies THEN {"check_r1"} ELSE {})
       \cup (IF "run" \in p.lies THEN {"run_r1"} ELSE {})
  ELSE {"none", "check", "run"}

VARIABLES prof, proto, fault,
          stage,     \* "idle","checked","preprocessing","preprocessed","ran","postprocessing","done","failing","rolledback"
          made,      \* sequence of groups created so far (still present)
          unregd,    \* unregistered columns present (dbin)
          moved,     \* X roles of dbin currently moved (centring)
          cmoved,    \* roles of dbin re-assigned by the entry point / _check
          runcols,   \* columns created by _run itself still present
          dirty,     \* pre-existing values overwritten
          renamed,   \* permanent groups renamed by _postprocess
          lied,      \* a failed stage went on as if it had succeeded
          ret        \* "none","ok","fail"
vars == <<prof, proto, fault, stage, made, unregd, moved, cmoved, runcols, dirty, renamed, lied, ret>>

Init == /\ prof \in Profiles /\ proto \in Protocols /\ fault \in Faults(prof)
        /\ stage = "idle" /\ made = <<>> /\ unregd = 0 /\ moved = FALSE /\ cmoved = FALSE /\ runcols = 0 /\ dirty = FALSE
        /\ renamed = FALSE /\ lied = FALSE /\ ret = "none"

Fail == stage' = "failing"
\* does the stage go on after the failure f ?
LiesAbout(f) == proto = "transcribed" /\ f \in {"check_r1", "run_r1"}

Check == /\ stage = "idle"
         /\ cmoved' = prof.cmoves
         /\ IF fault \in {"check", "check_r1"} /\ ~LiesAbout(fault) THEN Fail /\ UNCHANGED lied
            ELSE stage' = "checked" /\ lied' = (fault = "check_r1")
         /\ UNCHANGED <<prof, proto, fault, made, unregd, moved, runcols, dirty, renamed, ret>>

AfterCheck == /\ stage = "checked"
              /\ IF fault = "after_check" THEN Fail ELSE stage' = "preprocessing"
              /\ UNCHANGED <<prof, proto, fault, made, unregd, moved, cmoved, runcols, dirty, renamed, lied, ret>>

\* _preprocess: unregistered columns first (ACalcInterpolator), then the groups one by one
Create == /\ stage = "preprocessing"
          /\ Len(made) < Len(prof.groups)
          /\ LET k == Len(made) + 1 IN
             IF fault = AddvarName(k) /\ prof.groups[k].reg
             THEN IF proto = "transcribed" /\ prof.groups[k].mv /\ "center" \in prof.lies
                  THEN \* the failed allocation goes unnoticed: the original coordinates are centred in place
                       /\ made' = Append(made, [prof.groups[k] EXCEPT !.n = 0])
                       /\ dirty' = TRUE /\ lied' = TRUE /\ unregd' = prof.unreg
                       /\ UNCHANGED <<stage, moved>>
                  ELSE Fail /\ UNCHANGED <<made, moved, dirty, lied>> /\ unregd' = prof.unreg
             ELSE /\ made' = Append(made, prof.groups[k])
                  /\ moved' = (moved \/ prof.groups[k].mv)
                  /\ unregd' = prof.unreg
                  /\ UNCHANGED <<stage, dirty, lied>>
          /\ UNCHANGED <<prof, proto, fault, cmoved, runcols, renamed, ret>>

PreDone == /\ stage = "preprocessing"
           /\ Len(made) = Len(prof.groups)
           /\ unregd' = prof.unreg
           /\ IF fault = "after_preprocess" THEN Fail ELSE stage' = "preprocessed"
           /\ UNCHANGED <<prof, proto, fault, made, moved, cmoved, runcols, dirty, renamed, lied, ret>>

\* _run: a failure strikes while the columns it created itself are there
Run == /\ stage = "preprocessed"
       /\ dirty' = (dirty \/ prof.scribbles)
       /\ IF fault \in {"run", "run_r1"}
          THEN /\ runcols' = prof.runUnreg
               /\ IF LiesAbout(fault) THEN stage' = "ran" /\ lied' = TRUE ELSE Fail /\ UNCHANGED lied
          ELSE stage' = "ran" /\ runcols' = 0 /\ UNCHANGED lied
       /\ UNCHANGED <<prof, proto, fault, made, unregd, moved, cmoved, renamed, ret>>

AfterRun == /\ stage = "ran"
            /\ IF fault = "after_run" THEN Fail ELSE stage' = "postprocessing"
            /\ UNCHANGED <<prof, proto, fault, made, unregd, moved, cmoved, runcols, dirty, renamed, lied, ret>>

\* _postprocess: temporary groups removed first, roles restored, (unregistered columns removed), then renaming
Post == /\ stage = "postprocessing"
        /\ made' = SelectSeq(made, LAMBDA g : g.status = "perm" /\ g.n > 0)
        /\ moved' = FALSE
        /\ cmoved' = (proto = "transcribed" /\ prof.postClears)
        /\ dirty' = IF proto = "intended" THEN FALSE ELSE dirty
        /\ unregd' = IF proto = "intended" \/ prof.postUnreg THEN 0 ELSE unregd
        /\ IF fault = "postprocess"
           THEN Fail /\ UNCHANGED <<renamed, ret>>
           ELSE stage' = "done" /\ renamed' = TRUE /\ ret' = "ok"
        /\ UNCHANGED <<prof, proto, fault, runcols, lied>>

Undone == IF proto = "intended" THEN {"perm", "temp", "unreg", "roles", "croles", "runcols", "values"} ELSE prof.rb

Rollback == /\ stage = "failing"
            /\ made' = SelectSeq(made, LAMBDA g : ~(g.status \in Undone /\ (g.reg \/ "raw" \in Undone \/ proto = "intended")))
            /\ unregd' = IF "unreg" \in Undone THEN 0 ELSE unregd
            /\ moved' = IF "roles" \in Undone THEN FALSE ELSE moved
            /\ cmoved' = IF "croles" \in Undone THEN FALSE ELSE cmoved
            /\ runcols' = IF "runcols" \in Undone THEN 0 ELSE runcols
            /\ dirty' = IF "values" \in Undone THEN FALSE ELSE dirty
            /\ stage' = "rolledback" /\ ret' = "fail"
            /\ UNCHANGED <<prof, proto, fault, renamed, lied>>

Next == Check \/ AfterCheck \/ Create \/ PreDone \/ Run \/ AfterRun \/ Post \/ Rollback
Spec == Init /\ [][Next]_vars

-----------------------------------------------------------------------------
Leftover == [groups |-> made, unreg |-> unregd, moved |-> moved, cmoved |-> cmoved, runcols |-> runcols, dirty |-> dirty]
Clean    == made = <<>> /\ unregd = 0 /\ ~moved /\ ~cmoved /\ runcols = 0 /\ ~dirty
PermOf(p) == SelectSeq(p.groups, LAMBDA g : g.status = "perm")

\* C19 on the model
Atomic == ret = "fail" => Clean
Exact  == ret = "ok" => /\ made = PermOf(prof)
                        /\ unregd = 0 /\ ~moved /\ ~cmoved /\ runcols = 0 /\ ~dirty /\ renamed
Honest == ret = "ok" => fault = "none" /\ ~lied
Terminates == ret # "none" => stage \in {"done", "rolledback"}

AtomicIntended == proto = "intended" => Atomic
ExactIntended  == proto = "intended" => Exact
HonestIntended == proto = "intended" => Honest
\* the transcription itself must at least terminate and never keep a temporary group after a success
NoTempAfterSuccess == ret = "ok" => \A i \in 1..Len(made) : made[i].status = "perm"

-----------------------------------------------------------------------------
(* Natural ways of failing offered to the conformance run, per fault point:  *)
(* inputs that make the named stage of the real calculator fail by itself    *)
(* (the injected faults need no input).                                      *)
KrigLike == {"kriging_one", "kriging_2var", "kriging_lc", "kriging_colcok", "xvalid_one", "xvalid_varz", "krigtest", "xvalid", "test_neigh", "simtub_cond", "kriging_extdrift", "kribayes",
             "krigcell", "krigprof", "kriggam", "kriging_varz", "simbayes"}
NaturalVariants(pname, f) ==
  CASE f = "check" /\ pname = "kriging" -> {"nvar_mismatch", "ndim_mismatch", "no_model", "no_neigh", "no_z", "image_neigh"}
    [] f = "check" /\ pname \in KrigLike -> {"nvar_mismatch", "ndim_mismatch", "no_model", "no_neigh", "no_z"}
    [] f = "check" /\ pname = "simtub_nc" -> {"ndim_mismatch", "no_model"}
    [] f = "check" /\ pname \in {"migrate", "regression", "normal_score", "gaussian_to_raw"} -> {"bad_name"}
    [] f = "check" /\ pname = "migrate_attr" -> {"bad_dist_type"}
    [] f = "check" /\ pname = "anam_transform" -> {"bad_name"}
    [] f = "check" /\ pname \in {"stats_grid", "stats_grid_mean", "stats_grid_var", "stats_grid_multi"} -> {"no_z"}
    [] f = "run" /\ pname \in {"stats_grid", "stats_grid_mean", "stats_grid_var", "stats_grid_multi"} -> {"invalid_oper"}
    [] f = "check" /\ pname \in {"moving_average", "least_squares", "moving_median", "moving_average_std", "moving_median_std"}
         -> {"no_neigh", "ndim_mismatch"}
    [] f = "check" /\ pname \in {"simple_interp", "nearest_neighbor"} -> {"ndim_mismatch", "no_z"}
    [] f = "check" /\ pname \in {"invdist_std", "invdist_stdonly", "nearest_neighbor_std"} -> {"no_model", "no_z"}
    [] f = "run" /\ pname \in {"kriging", "krigtest", "kriging_varz"} -> {"block_on_points"}
    [] f = "run" /\ pname = "kriggam" -> {"sill_above_one"}
    [] f = "run" /\ pname = "krigprof" -> {"no_code"}
    [] f = "run" /\ pname = "krigcell" -> {"block_on_points", "no_ndisc"}
    [] f = "check_r1" /\ pname = "simtub_nc" -> {"nbtuba_zero"}
    [] f = "check" /\ pname = "kriging_extdrift" -> {"no_ext_out"}
    [] f = "check" /\ pname \in {"kriging_dgm", "simtub_dgm"} -> {"points_out", "no_anam", "no_support"}
    [] f = "run" /\ pname = "kriging_dgm" -> {"sill_not_one"}
    [] f = "check" /\ pname \in {"krig_factors", "krig_factors_cs", "krig_factors_one"} -> {"no_anam", "nvar_model_two", "block_no_ndisc", "no_neigh"}
    [] f = "run" /\ pname = "krig_factors" -> {"block_on_points"}
    [] f = "check" /\ pname = "krimage" -> {"no_z", "no_model"}
    [] f = "check" /\ pname = "db_smoother" -> {"bad_type", "two_z", "no_z"}
    [] f = "check" /\ pname \in {"morpho", "morpho_gradient"} -> {"two_z", "no_z"}
    [] f = "run" /\ pname = "morpho" -> {"unknown_oper"}
    [] f = "check" /\ pname \in {"global_arithmetic", "global_kriging"} -> {"no_model", "bad_ivar", "ndim_mismatch"}
    [] f = "check" /\ pname \in {"simfft", "simfft_multi"} -> {"no_model", "nvar_model_two"}
    [] f = "check" /\ pname \in {"tess_voronoi", "tess_poisson"} -> {"no_model"}
    [] f = "run" /\ pname = "tess_poisson" -> {"no_plane"}
    [] f = "check" /\ pname \in {"eden", "eden_stats"} -> {"bad_name"}
    [] f = "run" /\ pname \in {"eden", "eden_stats"} -> {"zero_speed"}
    [] f = "check" /\ pname = "simu_refine" -> {"no_z", "no_model"}
    [] f = "check" /\ pname = "simbool" -> {"two_z"}
    [] f = "run" /\ pname = "simbool" -> {"cannot_cover"}
    [] f = "check" /\ pname \in {"g2g_copy", "g2g_expand", "g2g_shrink"} -> {"no_z", "wrong_dims"}
    [] f = "check" /\ pname = "g2g_interp" -> {"no_z", "wrong_dims", "bad_tops"}
    [] f = "check" /\ pname \in {"simupost_up", "simupost_demo", "simupost_layer", "simupost_up1", "simupost_up8", "simupost_match"}
         -> {"bad_name", "no_stat", "no_upscale"}
    [] f = "check" /\ pname = "simupost_self" -> {"bad_name", "no_stat"}
    [] f = "check" /\ pname = "point_to_block" -> {"ndim_mismatch"}
    [] f = "check" /\ pname = "interp_to_point" -> {"no_coord"}
    [] f = "check" /\ pname = "db_proportion" -> {"no_model", "no_z"}
    [] f = "check" /\ pname = "raw_to_factor" -> {"no_z"}
    [] f = "check" /\ pname = "raw_to_factor_ranks" -> {"bad_rank", "no_z"}
    [] f = "check" /\ pname \in {"cond_expectation", "uniform_cond", "disj_kriging", "cond_expectation_one", "cond_expectation_tq",
                                 "cond_expectation_tqbm", "uniform_cond_tq", "disj_kriging_tq"} -> {"bad_name", "no_selectivity"}
    [] f = "check" /\ pname = "migrate_locator" -> {"bad_dist_type"}
    [] OTHER -> {}
\* input set-ups that select other code paths of the same entry point (all faults apply to them)
SetupVariants(pname) ==
  \* "nolocator": naming convention asked not to touch the roles (flag_locator = false)
  CASE pname = "kriging" -> {"std", "moving", "nolocator"}
    [] pname = "xvalid" -> {"std", "nolocator", "raw"}             \* "raw": estimate and st. dev. instead of the errors
    [] pname = "kriging_one" -> {"est", "stdev", "varz"}
    [] pname = "xvalid_one" -> {"esterr", "estim", "stderr", "stdev"}
    [] pname = "krig_factors_one" -> {"est", "stdev"}
    \* migrate: point / grid to point / grid, with its filling, interpolation, ball-tree, distance options
    [] pname = "migrate" -> {"std", "nolocator", "fill", "fill_ball", "dist2", "dmax", "g2g", "g2g_fill", "g2p", "g2p_inter", "p2p", "p2p_ball"}
    [] pname = "stats_grid" -> {"num", "mini", "maxi", "corr", "plus", "moins", "zero", "num_radius1"}
    [] pname = "stats_grid_mean" -> {"mean", "mean_radius1"}
    [] pname = "stats_grid_var" -> {"var", "stdv", "stdv_radius1"}
    [] pname = "stats_grid_multi" -> {"num", "mean", "var", "stdv"}
    [] pname = "regression" -> {"std", "cst", "mode1"}
    [] pname = "simple_interp" -> {"std", "expand", "dmax", "exponent1"}
    [] pname = "least_squares" -> {"std", "order0", "order2"}
    [] pname = "simupost_up" -> {"std", "num", "mini", "maxi"}       \* upscaling rules
    [] pname = "simupost_up1" -> {"med", "mini", "maxi", "std", "stdp", "varp"}
    [] pname = "point_to_block" -> {"std", "block", "size"}
    [] pname = "cond_expectation_tq" -> {"std", "montecarlo"}
    [] pname = "kriging_extdrift" -> {"std", "expand"}     \* "expand": dbin lacks the external drift, _preprocess migrates it
    [] pname = "anam_transform" -> {"std", "by_name"}      \* "by_name": entry point designating the variable by its name
    [] pname = "gaussian_to_raw" -> {"std", "by_name"}
    [] pname = "morpho" -> {"erosion", "dilate", "thresh", "open", "nolocator", "negation", "close", "cc", "ccsize", "distance", "angle"}
    [] pname = "krigcell" -> {"std", "nolocator"}
    [] pname = "simbool" -> {"std", "nolocator"}
    [] pname = "db_smoother" -> {"uniform", "gaussian"}
    [] pname = "cond_expectation" -> {"std", "montecarlo"}
    [] OTHER -> {"std"}
Priors == {"plain", "clash"}
\* profiles for which the conformance harness has no binding (with the reason)
Unbound == {"simsph",          \* needs the process-wide default space switched to the sphere
            "db_proportion"}   \* db_proportion_estimate is not exported by the shared library (hidden symbol)
Bound == {p.name : p \in Profiles} \ Unbound

Count(groups, db) == LET S == {i \in 1..Len(groups) : groups[i].db = db /\ groups[i].status = "perm"}
                         Sum[T \in SUBSET S] == IF T = {} THEN 0 ELSE LET i == CHOOSE i \in T : TRUE IN groups[i].n + Sum[T \ {i}]
                     IN Sum[S]

\* Every terminal state is emitted: the scenario catalogue of the conformance run, with the
\* prediction of the transcribed protocol.
Emit == ret = "none" \/ PrintT(ToJson([profile |-> prof.name, fault |-> fault, proto |-> proto, ret |-> ret,
                                         clean |-> Clean, leftover |-> Leftover, bound |-> prof.name \in Bound,
                                         exact |-> (ret = "ok" => Exact), honest |-> (ret = "ok" => Honest),
                                         hooks |-> prof.hooks, noerr |-> prof.noerr, same |-> prof.same, entry |-> prof.entry,
                                         exp_in |-> IF prof.same THEN 0 ELSE Count(prof.groups, "in"),
                                         exp_out |-> IF prof.same THEN Count(prof.groups, "in") + Count(prof.groups, "out")
                                                     ELSE Count(prof.groups, "out"),
                                         nreg |-> Cardinality({j \in 1..Len(prof.groups) : prof.groups[j].reg}),
                                         variants |-> SetToSeq(NaturalVariants(prof.name, fault)),
                                         setups |-> SetToSeq(SetupVariants(prof.name))]))

=============================================================================
