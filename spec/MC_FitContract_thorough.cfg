SPECIFICATION Spec
CONSTANTS
  Rich = TRUE
  VaryOf <- VaryThorough
  PairDims <- PairsThorough
INVARIANT WellFormed
CONSTRAINT Emit
CHECK_DEADLOCK FALSE
