----------------------------- MODULE Transforms -----------------------------
(***************************************************************************)
(* Property C18: data transforms and their inverses compose to the          *)
(* identity.                                                                *)
(*                                                                         *)
(* Objects have the life-cycle  Unfitted -> Fitted(data id, options);        *)
(* re-fitting OVERWRITES the whole state (the fitted state is the pair of    *)
(* the LAST fit, nothing else), copying an object copies that state.         *)
(* Data arrays are opaque tokens carrying a HISTORY TERM: the base data set  *)
(* and the sequence of (direction, fitted state) applied to it.  The         *)
(* rewrite rules                                                            *)
(*      inv_F o fwd_F = id   on the validity domain F reports               *)
(*      fwd_F o inv_F = id   on the validity domain F reports               *)
(*      ns o ns = ns         (normal scores are rank based)                  *)
(*      rotations: the history denotes the exact product matrix             *)
(* give a NORMAL FORM; two arrays whose normal forms coincide must be       *)
(* numerically equal to the accuracy of the method (constants Acc below,     *)
(* part of this specification), on the elements that never left a validity   *)
(* domain.  On the integer data sets defined here the specification also     *)
(* derives discrete facts exactly: rank patterns (monotonicity, ties, NA),   *)
(* sums / cross-products fixing means and covariances of PCA/MAF, the normal *)
(* score ranks, exact images under right-angle and 3-4-5 rotations.          *)
(*                                                                         *)
(* The module is used three ways: MC_Transforms enumerates all step          *)
(* sequences (fit / apply / invert / re-fit / copy) and emits them with the  *)
(* normal forms; TraceTransforms judges what the real library did on each    *)
(* sequence; EmitTransformsData writes the data sets for the harness.        *)
(***************************************************************************)
EXTENDS Integers, Sequences, FiniteSets, TLC

CONSTANTS Seed,        \* integer folded into every data set (VERIF_SEED)
          Orders,      \* Hermite polynomial counts in scope, e.g. {5, 20, 40}
          RawSets,     \* one-variable raw data sets in scope, subset of {"skew","ties","tsel"}
          MultiSets,   \* multi-variable data sets in scope, subset of {"m1","m2","m3"}
          TailSets,    \* raw data sets (Hermite only) whose fit has linear tails, subset of {"upsk","losk","bosk"}
          RotElems,    \* rotation elements in scope (ids, see Rot below)
          RCoefs       \* change-of-support coefficients in scope, in percent (100 = point support), e.g. {100, 90, 70, 50}

NA == -999              \* token of the undefined value

-----------------------------------------------------------------------------
(* Accuracy constants of the methods, as decimal exponents * 100             *)
(* (error <= 10^(Acc/100)).  Errors are relative to the spread of the array  *)
(* scale (see the harness: max(1, max |value|), for Hermite the spread       *)
(* |Phi(1)-Phi(-1)| that the inversion itself uses for its stopping rule).   *)
(*  - Hermite: the inversion stops when the bracket in Z is below            *)
(*    spread/1e5 (then interpolates linearly): 1e-5 is the accuracy of the   *)
(*    method; measured worst case on the unchanged tree 1.3e-7.              *)
(*  - Empirical anamorphosis: piecewise linear both ways: rounding only      *)
(*    (measured 1e-15); PCA / MAF: two small matrix products (measured       *)
(*    1e-15); rotations of integer points (measured 1e-16).                  *)
(*  - same: two entry points computing the same function, or a copy of an    *)
(*    object: same arithmetic, rounding only.                                *)
(*  - ortho: Gram matrix of the normalised Hermite polynomials by            *)
(*    Gauss-Hermite quadrature (measured 3e-13 at order 40).                 *)
AccOf(kind) == CASE kind = "AH" -> -500
                 [] kind = "AE" -> -900
                 [] kind = "PCA" -> -900
                 [] kind = "MAF" -> -900
                 [] kind = "NS" -> -1100
                 [] kind = "ROT" -> -900
AccSame  == -1100
AccAlg   == -900      \* matrix identities of the fitted state, Hermite orthonormality
\* sum of psi_n H_n(y) recomputed from the public coefficients against transformToRawValue: an alternating
\* series of up to 40 terms, cancellation measured 1.4e-9 of the spread at order 40
AccSeries == -600
\* variance -> r -> variance: AAnam::invertVariance stops its dichotomy at |variance - target| < 1e-8 (absolute)
AlgAcc(name) == IF name \in {"psi-explains", "variance->r->variance", "variance->r"} THEN AccSeries ELSE AccAlg
\* normal scores: y = G^-1(k / (n+1)); the rank k is recovered as G(y) (n+1), to be an integer within 1e-3
\* (measured 2.4e-7, the accuracy of the library's inverse Gaussian cdf)
AccRank == -300
ExactZero == -9999    \* code of an error that is exactly 0

-----------------------------------------------------------------------------
(* Integer data sets.  A data set is                                        *)
(*  [scale, vars : Seq(Seq(Int)), sel : Seq(0/1), n, nvar]                   *)
(* scale: "raw" / "gauss" (one variable, two sides of an anamorphosis),      *)
(* "vars" / "fac" (several variables, two sides of PCA/MAF), "pts" (points,  *)
(* vars = one sequence per coordinate).  Samples sit on a lattice 4 wide     *)
(* (x = (i-1) % 4, y = (i-1) \div 4), which only matters to MAF.             *)

\* the values are vars / den (den = 1 but for the Gaussian-scale set in tenths); ranks and NA only need the numerators
DS(scale, vars, sel) == [scale |-> scale, vars |-> vars, sel |-> sel, n |-> Len(sel), nvar |-> Len(vars), den |-> 1]
All1(n) == [i \in 1..n |-> 1]
SkewVal(k) == 1 + k + (k * k * k) \div 60         \* strictly increasing, lognormal-like tail
Sq(x) == x * x

Data(name) ==
  CASE name = "skew" ->  \* 24 distinct skewed values, no NA, no selection
         DS("raw", << [i \in 1..24 |-> SkewVal((i * 7 + Seed) % 24)] >>, All1(24))
    [] name = "ties" ->  \* 20 samples, 6 distinct values, 3 undefined
         DS("raw", << [i \in 1..20 |-> IF i % 7 = 3 THEN NA ELSE 1 + Sq((i * 5 + Seed) % 6)] >>, All1(20))
    [] name = "tsel" ->  \* 22 samples, ties, undefined values and a selection
         DS("raw", << [i \in 1..22 |-> IF i % 9 = 4 THEN NA ELSE 2 + 3 * Sq((i * 5 + Seed) % 8)] >>,
            [i \in 1..22 |-> IF i % 5 = 2 THEN 0 ELSE 1])
    \* Data whose Hermite expansion (12 polynomials and more) stops being monotone INSIDE the data range, so that the
    \* practical interval is strictly inside the absolute one and data sit in the linear tail extension:
    [] name = "upsk" ->  \* negatively skewed: upper tail only (lower practical and absolute bounds coincide)
         DS("raw", << [i \in 1..24 |-> 717 - (1 + ((i * 7 + Seed) % 24) + (((i * 7 + Seed) % 24) * ((i * 7 + Seed) % 24) * ((i * 7 + Seed) % 24)) \div 20)] >>, All1(24))
    [] name = "losk" ->  \* positively skewed, heavier than "skew": lower tail only
         DS("raw", << [i \in 1..24 |-> 1 + ((i * 7 + Seed) % 24) + (((i * 7 + Seed) % 24) * ((i * 7 + Seed) % 24) * ((i * 7 + Seed) % 24)) \div 20] >>, All1(24))
    [] name = "bosk" ->  \* 40 values: tails on both sides at 12 polynomials
         DS("raw", << [i \in 1..40 |-> SkewVal((i * 7 + Seed) % 40)] >>, All1(40))
    [] name = "gt" ->    \* Gaussian-scale values in tenths, -2.9 .. 3.1 by 0.3: reach the intervals between practical and absolute bounds
         [DS("gauss", << [i \in 1..21 |-> ((i * 8 + Seed) % 21) * 3 - 29] >>, All1(21)) EXCEPT !.den = 10]
    [] name = "g" ->     \* Gaussian-scale integers with ties
         DS("gauss", << [i \in 1..15 |-> ((i * 4 + Seed) % 5) - 2] >>, All1(15))
    [] name = "m1" ->
         DS("vars", << [i \in 1..12 |-> 1 + ((i * 5 + Seed) % 7)] >>, All1(12))
    [] name = "m2" ->
         DS("vars", << [i \in 1..16 |-> 1 + ((i * 5 + Seed) % 7)],
                       [i \in 1..16 |-> 1 + ((i * 5 + Seed) % 7) + ((i * i) % 5)] >>, All1(16))
    [] name = "m3" ->    \* heterotopic (NA in one variable) and a selection
         DS("vars", << [i \in 1..20 |-> 1 + ((i * 5 + Seed) % 7)],
                       [i \in 1..20 |-> IF i = 4 THEN NA ELSE 1 + ((i * 5 + Seed) % 7) + ((i * i) % 5)],
                       [i \in 1..20 |-> IF i = 11 THEN NA ELSE SkewVal((i * 3 + Seed) % 11)] >>,
            [i \in 1..20 |-> IF i % 6 = 1 THEN 0 ELSE 1])
    [] name = "f1" -> DS("fac", << [i \in 1..10 |-> ((i * 3 + Seed) % 5) - 2] >>, All1(10))
    [] name = "f2" -> DS("fac", << [i \in 1..10 |-> ((i * 3 + Seed) % 5) - 2], [i \in 1..10 |-> ((i * 2) % 3) - 1] >>, All1(10))
    [] name = "f3" -> DS("fac", << [i \in 1..10 |-> ((i * 3 + Seed) % 5) - 2], [i \in 1..10 |-> ((i * 2) % 3) - 1],
                                   [i \in 1..10 |-> IF i = 6 THEN NA ELSE (i % 4) - 1] >>, All1(10))
    [] name = "p2" -> DS("pts", << <<0, 5, 3, -2, 10, 1>>, <<0, 0, 4, 7, -5, 1>> >>, All1(6))
    [] name = "p3" -> DS("pts", << <<0, 5, 3, -2, 1>>, <<0, 0, 4, 7, 1>>, <<0, 10, -5, 2, 1>> >>, All1(5))

AllDataNames == {"skew", "ties", "tsel", "upsk", "losk", "bosk", "gt", "g", "m1", "m2", "m3", "f1", "f2", "f3", "p2", "p3"}

\* a sample takes part in a computation when it is selected and all its variables are defined
Active(ds, i) == ds.sel[i] = 1
Isotopic(ds, i) == \A v \in 1..ds.nvar : ds.vars[v][i] # NA
Usable(ds, i) == Active(ds, i) /\ Isotopic(ds, i)
UsableSet(ds) == {i \in 1..ds.n : Usable(ds, i)}

\* exact sums (centring bookkeeping)
RECURSIVE SumOver(_, _)
SumOver(f, S) == IF S = {} THEN 0 ELSE LET i == CHOOSE i \in S : TRUE IN f[i] + SumOver(f, S \ {i})
SumVar(ds, v) == SumOver(ds.vars[v], UsableSet(ds))
SumProd(ds, v, w) == SumOver([i \in 1..ds.n |-> ds.vars[v][i] * ds.vars[w][i]], UsableSet(ds))
\* n (n-1) * sample covariance (n-1 normalisation) = n * Sum(xy) - Sum(x) Sum(y): an integer
CovNum(ds, v, w) == Cardinality(UsableSet(ds)) * SumProd(ds, v, w) - SumVar(ds, v) * SumVar(ds, w)

\* dense rank pattern of an integer sequence restricted to the index set S (other positions -1)
DenseRank(vals, S) ==
  [i \in 1..Len(vals) |-> IF i \in S THEN Cardinality({vals[j] : j \in {j \in S : vals[j] < vals[i]}}) ELSE -1]

-----------------------------------------------------------------------------
(* Rotation elements: exact matrices m / den (rows), m integer, m m^T = den^2 I. *)
Rot(g) ==
  CASE g = 1 -> [dim |-> 2, den |-> 1, m |-> << <<1, 0>>, <<0, 1>> >>]                \* identity
    [] g = 2 -> [dim |-> 2, den |-> 1, m |-> << <<0, -1>>, <<1, 0>> >>]               \* 90
    [] g = 3 -> [dim |-> 2, den |-> 1, m |-> << <<-1, 0>>, <<0, -1>> >>]              \* 180
    [] g = 4 -> [dim |-> 2, den |-> 1, m |-> << <<0, 1>>, <<-1, 0>> >>]               \* 270
    [] g = 5 -> [dim |-> 2, den |-> 5, m |-> << <<3, -4>>, <<4, 3>> >>]               \* 3-4-5
    [] g = 6 -> [dim |-> 2, den |-> 5, m |-> << <<4, 3>>, <<-3, 4>> >>]               \* 3-4-5, other one
    [] g = 7 -> [dim |-> 3, den |-> 1, m |-> << <<0, -1, 0>>, <<1, 0, 0>>, <<0, 0, 1>> >>]   \* 90 about z
    [] g = 8 -> [dim |-> 3, den |-> 1, m |-> << <<1, 0, 0>>, <<0, 0, -1>>, <<0, 1, 0>> >>]   \* 90 about x
    [] g = 9 -> [dim |-> 3, den |-> 1, m |-> << <<0, 0, 1>>, <<1, 0, 0>>, <<0, 1, 0>> >>]    \* 120 about (1,1,1)
    [] g = 10 -> [dim |-> 3, den |-> 5, m |-> << <<3, -4, 0>>, <<4, 3, 0>>, <<0, 0, 5>> >>]  \* 3-4-5 about z
    [] g = 11 -> [dim |-> 3, den |-> 1, m |-> << <<1, 0, 0>>, <<0, 1, 0>>, <<0, 0, 1>> >>]   \* identity 3-D

Rng(f) == {f[i] : i \in DOMAIN f}
Abs(x) == IF x < 0 THEN -x ELSE x
RECURSIVE GCD(_, _)
GCD(a, b) == IF b = 0 THEN a ELSE GCD(b, a % b)
RECURSIVE GcdSeq(_, _)
GcdSeq(s, acc) == IF s = <<>> THEN acc ELSE GcdSeq(Tail(s), GCD(Abs(Head(s)), acc))
Flat(m) == LET d == Len(m) IN [k \in 1..(d * d) |-> m[((k - 1) \div d) + 1][((k - 1) % d) + 1]]
MatNorm(r) == LET g == GcdSeq(Flat(r.m), r.den) IN
              [dim |-> r.dim, den |-> r.den \div g, m |-> [i \in 1..r.dim |-> [j \in 1..r.dim |-> r.m[i][j] \div g]]]
MatMul(a, b) ==   \* a after b
  MatNorm([dim |-> a.dim, den |-> a.den * b.den,
           m |-> [i \in 1..a.dim |-> [j \in 1..a.dim |-> SumOver([k \in 1..a.dim |-> a.m[i][k] * b.m[k][j]], 1..a.dim)]]])
MatT(a) == [dim |-> a.dim, den |-> a.den, m |-> [i \in 1..a.dim |-> [j \in 1..a.dim |-> a.m[j][i]]]]
MatId(d) == [dim |-> d, den |-> 1, m |-> [i \in 1..d |-> [j \in 1..d |-> IF i = j THEN 1 ELSE 0]]]
IsRotation(a) == MatMul(a, MatT(a)) = MatId(a.dim)
\* exact image of point i of a "pts" data set: numerators over a.den
Image(a, ds, i) == [r \in 1..a.dim |-> SumOver([k \in 1..a.dim |-> a.m[r][k] * ds.vars[k][i]], 1..a.dim)]

-----------------------------------------------------------------------------
(* Kinds of transform, their options, the data they are fitted on / applied to *)
AllKinds == {"AH", "AE", "PCA", "MAF", "NS", "ROT"}
HasObject(kind) == kind # "NS"

\* options: AH polynomial count; AE 0 = normal-score mode, 1 = Gaussian dilution, 2 = lognormal dilution;
\* PCA 1/0 = optionPositive; MAF h = distance class [h-1/2, h+1/2]; ROT element id
OptsOf(kind) == CASE kind = "AH" -> Orders
                  [] kind = "AE" -> {0, 1, 2}
                  [] kind = "PCA" -> {0, 1}
                  [] kind = "MAF" -> {1, 2}
                  [] kind = "ROT" -> RotElems
                  [] kind = "NS" -> {0}
FitSets(kind) == CASE kind = "AH" -> RawSets \cup TailSets
                   [] kind = "AE" -> RawSets
                   [] kind \in {"PCA", "MAF"} -> MultiSets
                   [] kind = "ROT" -> {"-"}
                   [] kind = "NS" -> {}
FacSetFor(nv) == IF nv = 1 THEN "f1" ELSE IF nv = 2 THEN "f2" ELSE "f3"
\* base data sets an operation may start from
BaseSets(kind) == CASE kind = "AH" -> RawSets \cup TailSets \cup {"g", "gt"}
                    [] kind = "AE" -> RawSets \cup {"g"}
                    [] kind \in {"PCA", "MAF"} -> MultiSets \cup {FacSetFor(Data(m).nvar) : m \in MultiSets}
                    [] kind = "NS" -> RawSets
                    [] kind = "ROT" -> {"p2", "p3"}

\* Fitted state = (data id, option, r).  r is the change-of-support coefficient in percent: 100 for every kind
\* but the Hermite anamorphosis, whose state machine has the action "support" (AnamHermite::updatePointToBlock,
\* anamPointToBlock, setRCoef, constructor argument): the coefficients become psi_n r^n, the mean is kept.  r is an
\* option of the object like the polynomial count: it survives a re-fit, a copy carries it.  The round-trip laws
\* hold in EVERY state (data, option, r).  (AnamDiscreteDD / AnamDiscreteIR also change support but offer no
\* raw <-> Gaussian transform at all -- hasGaussian() is false -- so there is no inverse pair to state for them.)
NoFit == [data |-> "?", opt |-> -1, r |-> 100]     \* Unfitted
NoObj == [data |-> "none", opt |-> -2, r |-> 100]  \* the copy does not exist yet

\* the two sides of each kind
SideIn(kind, dir) == CASE kind \in {"AH", "AE"} -> (IF dir = "fwd" THEN "raw" ELSE "gauss")
                       [] kind \in {"PCA", "MAF"} -> (IF dir = "fwd" THEN "vars" ELSE "fac")
                       [] kind = "ROT" -> "pts"
                       [] kind = "NS" -> "any"
SideOut(kind, dir) == CASE kind \in {"AH", "AE"} -> (IF dir = "fwd" THEN "gauss" ELSE "raw")
                        [] kind \in {"PCA", "MAF"} -> (IF dir = "fwd" THEN "fac" ELSE "vars")
                        [] kind = "ROT" -> "pts"
                        [] kind = "NS" -> "gauss"

-----------------------------------------------------------------------------
(* State of one scenario: st = [obj, cpy, arrs]                              *)
(*   obj, cpy : fitted state (NoFit / NoObj / [data, opt])                    *)
(*   arrs     : produced arrays [base, hist, scale, nvar, src, who, dir]      *)
(* A reference to an array is [t |-> "d", d |-> data set name, a |-> 0] or    *)
(* [t |-> "a", d |-> "", a |-> index in arrs].                                *)

DRef(name) == [t |-> "d", d |-> name, a |-> 0]
ARef(k) == [t |-> "a", d |-> "", a |-> k]
NoRef == [t |-> "-", d |-> "", a |-> 0]
InitSt == [obj |-> NoFit, cpy |-> NoObj, arrs |-> <<>>]

RefBase(st, r) == IF r.t = "d" THEN r.d ELSE st.arrs[r.a].base
RefHist(st, r) == IF r.t = "d" THEN <<>> ELSE st.arrs[r.a].hist
RefScale(st, r) == IF r.t = "d" THEN Data(r.d).scale ELSE st.arrs[r.a].scale
RefNvar(st, r) == IF r.t = "d" THEN Data(r.d).nvar ELSE st.arrs[r.a].nvar
Refs(kind, st) == {DRef(n) : n \in BaseSets(kind)} \cup {ARef(k) : k \in 1..Len(st.arrs)}

ObjOf(st, who) == IF who = "o" THEN st.obj ELSE IF who = "c" THEN st.cpy ELSE NoFit
IsFitted(f) == f # NoFit /\ f # NoObj
FitNvar(kind, f) == IF kind = "ROT" THEN Rot(f.opt).dim ELSE IF kind \in {"PCA", "MAF"} THEN Data(f.data).nvar ELSE 1

\* steps: [op, who, data, opt, src]
FitStep(d, o) == [op |-> "fit", who |-> "o", data |-> d, opt |-> o, src |-> NoRef]
CopyStep == [op |-> "copy", who |-> "c", data |-> "", opt |-> 0, src |-> NoRef]
SupportStep(d, r) == [op |-> "support", who |-> "o", data |-> d, opt |-> r, src |-> NoRef]   \* d = data the object is fitted on
ApplyStep(dir, who, r) == [op |-> dir, who |-> who, data |-> "", opt |-> 0, src |-> r]

StepEnabled(kind, st, s) ==
  CASE s.op = "fit" -> HasObject(kind) /\ s.data \in FitSets(kind) /\ s.opt \in OptsOf(kind)
    [] s.op = "copy" -> HasObject(kind) /\ IsFitted(st.obj) /\ st.cpy = NoObj
    [] s.op = "support" -> kind = "AH" /\ IsFitted(st.obj) /\ s.opt \in RCoefs /\ s.opt # st.obj.r /\ s.data = st.obj.data
    [] s.op \in {"fwd", "inv"} ->
         /\ s.src \in Refs(kind, st)
         /\ IF kind = "NS" THEN s.op = "fwd" /\ s.who = "-"
            ELSE /\ s.who \in {"o", "c"} /\ IsFitted(ObjOf(st, s.who))
                 /\ RefScale(st, s.src) = SideIn(kind, s.op)
                 /\ RefNvar(st, s.src) = FitNvar(kind, ObjOf(st, s.who))
    [] OTHER -> FALSE

DoStep(kind, st, s) ==
  CASE s.op = "fit" -> [st EXCEPT !.obj = [data |-> s.data, opt |-> s.opt, r |-> st.obj.r]]   \* overwrites the whole fitted state
    [] s.op = "support" -> [st EXCEPT !.obj.r = s.opt]
    [] s.op = "copy" -> [st EXCEPT !.cpy = st.obj]
    [] OTHER -> [st EXCEPT !.arrs = Append(st.arrs,
                    [base |-> RefBase(st, s.src),
                     hist |-> Append(RefHist(st, s.src), [dir |-> s.op, fit |-> ObjOf(st, s.who)]),
                     scale |-> SideOut(kind, s.op), nvar |-> RefNvar(st, s.src),
                     src |-> s.src, who |-> s.who, dir |-> s.op])]

StepAlphabet(kind, st) ==
     {FitStep(d, o) : d \in FitSets(kind), o \in OptsOf(kind)}
\cup {CopyStep}
\cup (IF kind = "AH" /\ IsFitted(st.obj) THEN {SupportStep(st.obj.data, r) : r \in RCoefs} ELSE {})
\cup {ApplyStep(dir, who, r) : dir \in {"fwd", "inv"}, who \in (IF kind = "NS" THEN {"-"} ELSE {"o", "c"}), r \in Refs(kind, st)}

RECURSIVE Replay(_, _, _)
Replay(kind, st, steps) == IF steps = <<>> THEN st ELSE Replay(kind, DoStep(kind, st, Head(steps)), Tail(steps))
RECURSIVE AllEnabled(_, _, _)
AllEnabled(kind, st, steps) == IF steps = <<>> THEN TRUE
                               ELSE StepEnabled(kind, st, Head(steps)) /\ AllEnabled(kind, DoStep(kind, st, Head(steps)), Tail(steps))

\* TRUE when the object used by array k had been fitted more than once (a re-fit precedes the use)
RECURSIVE CountFits(_)
CountFits(steps) == IF steps = <<>> THEN 0 ELSE (IF Head(steps).op = "fit" THEN 1 ELSE 0) + CountFits(Tail(steps))

-----------------------------------------------------------------------------
(* Normal forms                                                             *)

Cancels(kind, a, b) == IF kind = "NS" THEN TRUE     \* ns o ns = ns: the second application is absorbed
                       ELSE a.fit = b.fit /\ a.dir # b.dir
\* inv_F o fwd_F = id is an identity on the validity domain (fwd_F picks a pre-image), it may be used anywhere
\* in a term.  fwd_F o inv_F = id only holds MODULO inv_F for an anamorphosis (inv_F is constant on the
\* plateaus that ties of the fitted data create: y -> z -> y' with y' # y but inv_F(y') = inv_F(y)); the result
\* may be compared (in the scale of F) but not substituted under a different transform: the rule is applied
\* only at the end of a history or when inv_F follows.  PCA / MAF / rotations are bijections: no restriction.
GaussSideTrip(kind, a, b) == kind \in {"AH", "AE"} /\ a.dir = "inv" /\ b.dir = "fwd"
CanCancel(kind, a, b, after) == /\ Cancels(kind, a, b)
                                /\ GaussSideTrip(kind, a, b) => (after = <<>> \/ Head(after) = a)
RECURSIVE Reduce(_, _, _)
Reduce(kind, done, rest) ==
  IF rest = <<>> THEN done
  ELSE LET h == Head(rest) IN
       IF done # <<>> /\ CanCancel(kind, done[Len(done)], h, Tail(rest))
       THEN Reduce(kind, IF kind = "NS" THEN done ELSE SubSeq(done, 1, Len(done) - 1), Tail(rest))
       ELSE Reduce(kind, Append(done, h), Tail(rest))

RECURSIVE RotProduct(_, _)
RotProduct(hist, d) == IF hist = <<>> THEN MatId(d)
                       ELSE LET h == hist[Len(hist)]
                                m == IF h.dir = "fwd" THEN Rot(h.fit.opt) ELSE MatT(Rot(h.fit.opt))
                            IN MatMul(m, RotProduct(SubSeq(hist, 1, Len(hist) - 1), d))

NF(kind, base, hist) == IF kind = "ROT" THEN <<RotProduct(hist, Data(base).nvar)>> ELSE Reduce(kind, <<>>, hist)
NFKey(kind, base, hist) == [base |-> base, nf |-> NF(kind, base, hist)]
RefKey(kind, st, r) == NFKey(kind, RefBase(st, r), RefHist(st, r))
IsIdentityNF(kind, base, nf) == IF kind = "ROT" THEN nf = <<MatId(Data(base).nvar)>> ELSE nf = <<>>

\* the earlier arrays (and the base data set) that array k must be equal to
SameAs(kind, st, k) ==
  LET key == RefKey(kind, st, ARef(k)) IN
     {ARef(j) : j \in {j \in 1..(k - 1) : RefKey(kind, st, ARef(j)) = key}}
\cup (IF IsIdentityNF(kind, key.base, key.nf) THEN {DRef(key.base)} ELSE {})

-----------------------------------------------------------------------------
(* Validity domain of one application, as REPORTED by the fitted object.      *)
(* Hermite anamorphosis, point support: the OPEN absolute interval (raw side  *)
(* for fwd, Gaussian side for inv).  Between the practical and the absolute   *)
(* bound the transform is, by construction of both directions, the linear     *)
(* map sending (absolute bound, practical bound) of one scale to those of the *)
(* other: the round-trip law holds there exactly, and both directions are     *)
(* monotone across the junction.  Outside the absolute interval the transform *)
(* clamps: nothing is promised.  The absolute interval must contain the       *)
(* practical one ("bounds-nested"; when the library reports it the other way  *)
(* round -- a recorded finding -- the absolute interval is the domain anyway). *)
(* After a change of support the object keeps its (point) bounds: the domain  *)
(* is the open practical-and-absolute Gaussian interval and, on the raw side, *)
(* its image by the object's own (block) transformToRawValue inside the raw   *)
(* interval still reported.  Empirical anamorphosis: the interval of its      *)
(* table.  Everything for PCA / MAF / normal score / rotation.  An element    *)
(* that is masked, undefined or outside the domain at some step is never      *)
(* compared afterwards (the harness reports the mask, TraceTransforms checks  *)
(* that it is not shrunk where no restriction exists).                        *)
(*                                                                         *)
(* Monotonicity demanded of one application (its validity domain only):     *)
(*  "iso"    the rank pattern of the output equals that of the input         *)
(*  "weak"   non-decreasing, equal inputs give equal outputs                 *)
(*  "refine" strictly increasing on distinct inputs, ties broken anyhow      *)
(*  "none"   nothing (several variables, rotations)                          *)
MonoMode(kind, dir, opt) ==
  CASE kind = "AH" -> (IF dir = "fwd" THEN "iso" ELSE "weak")
    [] kind = "AE" -> (IF dir = "fwd" /\ opt = 0 THEN "iso" ELSE "weak")
    [] kind = "NS" -> "refine"
    [] OTHER -> "none"

MonoHolds(mode, rin, rout) ==
  LET D == {i \in 1..Len(rin) : rin[i] >= 0} IN
  CASE mode = "iso" -> rin = rout
    [] mode = "weak" -> /\ \A i \in 1..Len(rin) : (rin[i] >= 0) = (rout[i] >= 0)
                        /\ \A i, j \in D : /\ (rin[i] < rin[j] => rout[i] <= rout[j])
                                           /\ (rin[i] = rin[j] => rout[i] = rout[j])
    [] mode = "refine" -> /\ \A i \in 1..Len(rin) : (rin[i] >= 0) = (rout[i] >= 0)
                          /\ \A i, j \in D : rin[i] < rin[j] => rout[i] < rout[j]
    [] OTHER -> TRUE
=============================================================================
