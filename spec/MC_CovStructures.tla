-------------------------- MODULE MC_CovStructures --------------------------
(* Enumeration of the cases of CovStructures for a tier.  The state graph is a tree of depth 1:  *)
(* the root, then one state per catalogue entry, equation, anisotropy geometry, point set and     *)
(* positive-definiteness plan.  INVARIANT Inv: the exact checks of the catalogue, of every         *)
(* equation whose factors are published polynomials, of every geometry and point set.             *)
(* CONSTRAINT Emit prints every case as JSON for the driver (tools/checks/c03.py).                 *)
EXTENDS CovStructures, Json

CONSTANT Thorough

VARIABLE cs

\* ---- anisotropy geometries (ranges m/2, angle codes)
Geo1 == { GeoCase(1, <<m>>, <<0>>, 4) : m \in {1, 2, 3, 10} }
Ang2 == 0..11
Geo2 == { GeoCase(2, m, <<a, 0>>, IF Thorough THEN 3 ELSE 2) : m \in { <<4, 2>>, <<3, 1>>, <<2, 2>>, <<10, 1>>, <<1, 6>> }, a \in Ang2 }
        \cup { GeoCaseRep(2, m, <<a, 0>>, 2, <<r, 0>>) : m \in { <<4, 2>>, <<1, 6>> }, a \in {1, 4, 6, 9}, r \in {1, 2} }   \* negative / beyond 360
Key3(t) == 16 * t[1] + 4 * t[2] + t[3]
Rot24 == LET all == [1..3 -> 0..3] IN { t \in all : \A u \in all : RotOf(3, u).n = RotOf(3, t).n => Key3(u) >= Key3(t) }
Ang3 == { <<0, 0, 0>>, <<1, 0, 0>>, <<0, 1, 0>>, <<0, 0, 1>>, <<4, 0, 0>>, <<0, 4, 0>>, <<0, 0, 4>>, <<4, 4, 0>>, <<3, 1, 2>>, <<4, 1, 5>> }
        \cup (IF Thorough THEN Rot24 \cup { <<4, 0, 4>>, <<0, 4, 4>>, <<5, 1, 6>>, <<1, 7, 2>>, <<6, 4, 1>> } ELSE {})
Mul3 == { <<4, 2, 1>>, <<3, 6, 2>>, <<2, 2, 2>>, <<10, 2, 1>> }
\* angles beyond 180 degrees and negative angles, composed (the right angles alone only permute / flip the axes):
\* (T+180, T, 0), (T, T+180, T), (-T, T, 0), (T, 180-T, 90-T) ... and the same angles given minus / plus 360 degrees
Ang3Wide == { <<6, 4, 0>>, <<4, 6, 4>>, <<8, 4, 0>>, <<4, 9, 0>>, <<7, 0, 9>>, <<2, 4, 8>>, <<0, 8, 6>> }
            \cup (IF Thorough THEN { <<9, 5, 1>>, <<3, 8, 4>>, <<11, 10, 0>>, <<6, 7, 0>> } ELSE {})
Reps3 == { <<0, 0, 0>>, <<1, 0, 0>>, <<0, 1, 1>>, <<1, 1, 1>>, <<2, 0, 1>> }
Geo3Wide == { GeoCaseRep(3, m, a, 2, r) : m \in { <<4, 2, 1>>, <<3, 6, 2>> }, a \in Ang3Wide, r \in Reps3 }
            \cup { GeoCaseRep(3, m, a, 2, r) : m \in { <<4, 2, 1>>, <<1, 3, 4>> }, a \in { <<4, 9, 10>>, <<11, 8, 5>> }, r \in { <<0, 0, 0>>, <<1, 1, 0>> } }
            \cup { GeoCaseRep(3, <<4, 2, 1>>, a, 2, r) : a \in { <<4, 0, 0>>, <<0, 4, 0>>, <<0, 0, 4>>, <<3, 1, 2>>, <<4, 4, 0>> }, r \in { <<1, 1, 1>>, <<0, 2, 1>> } }
Geo3 == { GeoCase(3, m, a, 2) : m \in Mul3, a \in Ang3 } \cup Geo3Wide
        \cup { GeoCase(3, m, <<4, 4, 4>>, 2) : m \in { <<4, 2, 1>>, <<2, 2, 2>>, <<1, 3, 4>> } }     \* denominator 125: small ranges only
Geos == Geo1 \cup Geo2 \cup Geo3

\* ---- point sets, with an identifier
WithId(id, ps) == [k |-> "pset", id |-> id, fam |-> ps.fam, d |-> ps.d, sp |-> ps.sp, pts |-> ps.pts]
PointSets ==
  { WithId("L1-12", PLattice(1, <<12>>)), WithId("C1", PClusters(1, 1000)), WithId("P1-6", PPairs(1, <<6>>)),
    WithId("H1-16", PHalton(1, 16, 64)),
    WithId("L2-5", PLattice(2, <<5, 5>>)), WithId("L2-7", PLattice(2, <<7, 7>>)), WithId("R2-5", PRotLattice(5)),
    WithId("C2", PClusters(2, 1000)), WithId("K2-9", PCollinear(2, 9)), WithId("P2-3", PPairs(2, <<3, 3>>)),
    WithId("H2-24", PHalton(2, 24, 200)),
    WithId("L3-3", PLattice(3, <<3, 3, 3>>)), WithId("L3-4", PLattice(3, <<4, 4, 4>>)), WithId("C3", PClusters(3, 1000)),
    WithId("K3-9", PCollinear(3, 9)), WithId("P3-2", PPairs(3, <<2, 2, 2>>)), WithId("H3-32", PHalton(3, 32, 320)),
    WithId("L1-40", PLattice(1, <<40>>)), WithId("L2-10", PLattice(2, <<10, 10>>)), WithId("H2-64", PHalton(2, 64, 128)),
    WithId("L3-5", PLattice(3, <<5, 5, 5>>)) }
  \cup (IF Thorough THEN
  { WithId("L1-150", PLattice(1, <<150>>)), WithId("H1-100", PHalton(1, 100, 10)), WithId("P1-40", PPairs(1, <<40>>)),
    WithId("L2-14", PLattice(2, <<14, 14>>)), WithId("R2-10", PRotLattice(10)),
    WithId("H2-150", PHalton(2, 150, 80)), WithId("P2-7", PPairs(2, <<7, 7>>)), WithId("L2-4x30", PLattice(2, <<4, 30>>)),
    WithId("L3-4x6x8", PLattice(3, <<4, 6, 8>>)), WithId("H3-160", PHalton(3, 160, 180)),
    WithId("P3-4", PPairs(3, <<4, 4, 4>>)) } ELSE {})
PsIds(d) == { ps.id : ps \in { x \in PointSets : x.d = d } }
\* families on which the sums of structures / two-variable models are examined
MixIds(d) == IF d = 1 THEN {"L1-12", "H1-16"} ELSE IF d = 2 THEN {"L2-5", "C2", "H2-24"} ELSE {"L3-3", "P3-2", "H3-32"}

Plans ==
  UNION { UNION { UNION { { PsdPlan(s, p, d, rf, an, id) : rf \in RangeFactors(Thorough), an \in { x \in AnisoPresets : x = 0 \/ d >= 2 }, id \in PsIds(d) }
                          : d \in Dims } : p \in ParamGrid(s, Thorough) } : s \in RnNames }
MixRf == {<<3, 2>>, QI(4), QI(10)}
Mixes ==
  UNION { { MixPlan(pr, 1, <<1, 0, 1>>, d, rf, id) : pr \in MixPairs, rf \in MixRf, id \in MixIds(d) } : d \in Dims }
  \cup UNION { { MixPlan(pr, 2, sl, d, rf, id) : pr \in MixPairs, sl \in Sills, rf \in {<<3, 2>>, QI(10)}, id \in MixIds(d) } : d \in Dims }

Cases == { [k |-> "entry", e |-> e] : e \in Range(Catalogue) }
         \cup Equations(Thorough) \cup Geos \cup PointSets \cup Plans \cup Mixes
         \cup UNION { AdmitRequests(e) : e \in Range(Catalogue) }

Init == cs = [k |-> "root"]
Next == cs.k = "root" /\ cs' \in Cases
Spec == Init /\ [][Next]_cs

Inv ==
  CASE cs.k = "root"  -> CatalogueOk /\ StencilsOk /\ \A sl \in Sills : SillOk(sl)
    [] cs.k = "entry" -> EntryOk(cs.e)
    [] cs.k = "eq"    -> EqOk(cs)
    [] cs.k = "geo"   -> GeoOk(cs)
    [] cs.k = "pset"  -> PointSetOk(cs)
    [] cs.k = "psd"   -> cs.ps \in PsIds(cs.d) /\ cs.ob \in {"psd", "cpsd", "invalid", "unclaimed"}
    [] cs.k = "mix"   -> cs.ps \in PsIds(cs.d) /\ SillOk(cs.sl)
    [] cs.k = "admit" -> AdmitRequestOk(cs)

Emit == cs.k = "root" \/ PrintT(ToJson(cs))
=============================================================================
