--------------------------- MODULE MC_NeighMoving ---------------------------
(***************************************************************************)
(* Exhaustive generation of the cases of NeighMoving.tla within the bounds, *)
(* built incrementally (one candidate per step, then the parameters).       *)
(*  - TLC checks on every case: Algorithm = Definition (the transcription   *)
(*    of the code computes the defined neighbourhood), the single-sector    *)
(*    rule, and - when the side condition of the ball search holds with the *)
(*    isotropic metric, one sector, nmaxi <= number of samples - that the   *)
(*    transcription of the ball-tree path gives the definition.             *)
(*  - With Emit = TRUE the selected cases are printed (JSON) with the        *)
(*    expected selection; they are concretised and run on the real          *)
(*    NeighMoving by harness/neigh_run.cpp.                                 *)
(*                                                                         *)
(* Enumerated dimensions ("B"): number of candidates, per candidate its     *)
(* placement sector and whether the generator wants it admissible; ndir,    *)
(* nsect, nmini, nmaxi, nsmax.  Derived dimensions ("A"): the reason why a  *)
(* non-admissible candidate is rejected, the permutation giving the         *)
(* distance ranks, the radius and the cross-validation mode are arithmetic  *)
(* functions of the enumerated ones and of a salt, so that all their values *)
(* occur against all the values of each enumerated dimension without        *)
(* multiplying the number of cases.                                         *)
(***************************************************************************)
EXTENDS NeighMoving, Json, IOUtils, SequencesExt

CONSTANTS MaxN,      \* maximum number of candidates
          MaxDir,    \* maximum number of placement sectors
          PVals,     \* values of nmini, nmaxi (0 = no maximum), nsmax (0 = no limit per sector)
          Salts,     \* set of salts (derived dimensions)
          Rich,      \* TRUE: also multiple reasons of rejection
          Emit,      \* TRUE: print the selected cases
          EmitMod,   \* a case is printed when its `thin` value is 0 modulo EmitMod ...
          FullN, FullDir   \* ... or when it is within these (smaller) bounds

VARIABLES cs,     \* generator view of the candidates: sequence of [adm, dir]
          ndir,
          phase,  \* "build" while candidates are added, then "done"
          case    \* the complete case (phase = "done")
vars == <<cs, ndir, phase, case>>

\* geometry of the concretisation (written by the harness): for each metric class m, W[m] is
\* indexed [ndir][sector + 1][Db position] and gives 10000 * (Euclidean length of the unit
\* anisotropic vector of that placement).  Class 1 is the isotropic one (all 10000).
Geom == IF "GEOM" \in DOMAIN IOEnv THEN JsonDeserialize(IOEnv.GEOM) ELSE [names |-> <<>>, W |-> <<>>]
NMetric == Len(Geom.names)

-----------------------------------------------------------------------------
Fact(n) == CASE n <= 1 -> 1 [] n = 2 -> 2 [] n = 3 -> 6 [] n = 4 -> 24 [] n = 5 -> 120 [] n = 6 -> 720 [] OTHER -> 5040
DropAt(s, k) == SubSeq(s, 1, k - 1) \o SubSeq(s, k + 1, Len(s))
RECURSIVE KthPerm(_, _)
KthPerm(els, k) == IF Len(els) = 0 THEN <<>>
                   ELSE LET f == Fact(Len(els) - 1)
                            q == k \div f
                        IN <<els[q + 1]>> \o KthPerm(DropAt(els, q + 1), k % f)

SingleKinds == << <<FALSE, TRUE, TRUE, FALSE>>,    \* masked
                  <<TRUE, FALSE, TRUE, FALSE>>,    \* all variables undefined
                  <<TRUE, TRUE, FALSE, FALSE>>,    \* fails a pair checker
                  <<TRUE, TRUE, TRUE, TRUE>> >>    \* target / same fold   (active, defined, passes, flag)
RichKinds == SingleKinds \o << <<FALSE, FALSE, TRUE, FALSE>>, <<TRUE, FALSE, FALSE, FALSE>>,
                               <<FALSE, TRUE, FALSE, TRUE>>, <<TRUE, FALSE, TRUE, TRUE>>,
                               <<FALSE, FALSE, FALSE, FALSE>> >>
Kinds == IF Rich THEN RichKinds ELSE SingleKinds
OkKind == <<TRUE, TRUE, TRUE, FALSE>>

MkCaseR(nsect, nmini, nmaxi, nsmax, salt, relax) ==
  LET n == Len(cs)
      h == salt + n + 3 * nmini + 5 * nmaxi + 7 * nsmax + 11 * nsect + 13 * ndir
           + (LET S[i \in 0..n] == IF i = 0 THEN 0
                                   ELSE S[i - 1] + i * (2 * cs[i].dir + (IF cs[i].adm THEN 1 ELSE 0) + 1)
              IN S[n])
      mode == h % 4                          \* 0: none, 1: xvalid, 2: xvalid + kfold, 3: kfold flag only
      xvalid == mode \in {1, 2}
      kfold == mode \in {2, 3}
      perm == KthPerm([i \in 1..n |-> i], ((h \div 4) * 7 + h) % Fact(n))
      k0 == (h \div 3) % Len(Kinds)
      rsel == (h \div 5) % 4
      radiusRank == CASE rsel \in {0, 1} -> n [] rsel = 2 -> (IF n >= 2 THEN n - 1 ELSE n) [] OTHER -> (n + 1) \div 2
      \* without the K-fold option the flag means "coincides with the target": only for the closest
      \* sample; as an admissible sample with several sectors only when `relax` (see MkCase)
      flagAllowed(i) == kfold \/ (perm[i] = 1 /\ (xvalid \/ nsect = 1 \/ relax))
      kindOf(i) == IF cs[i].adm
                   THEN (IF mode = 3 /\ (h + i) % 3 = 0 THEN <<TRUE, TRUE, TRUE, TRUE>> ELSE OkKind)
                   ELSE LET k == Kinds[((i + k0) % Len(Kinds)) + 1]
                        IN IF k[4] /\ ~flagAllowed(i)
                           THEN (IF k = <<TRUE, TRUE, TRUE, TRUE>> THEN SingleKinds[(i % 3) + 1]
                                 ELSE <<k[1], k[2], k[3], FALSE>>)
                           ELSE k
  IN [ cands |-> [i \in 1..n |-> LET k == kindOf(i) IN
                    [active |-> k[1], defined |-> k[2], passesCheckers |-> k[3], isTargetOrFold |-> k[4],
                     distRank |-> perm[i], sector |-> cs[i].dir]],
       ndir |-> ndir, nsect |-> nsect, nmini |-> nmini, nmaxi |-> nmaxi, nsmax |-> nsmax,
       radiusRank |-> radiusRank, xvalid |-> xvalid, kfold |-> kfold, mix |-> h,
       \* second, differently weighted mix: selects the slice of cases that is emitted (it must not
       \* be aligned with the derived dimensions, which are functions of `mix`)
       thin |-> salt + 7 * nmini + 3 * nmaxi + 5 * nsmax + nsect
                + (LET S[i \in 0..n] == IF i = 0 THEN 0
                                        ELSE S[i - 1] + (2 * i + 1) * (cs[i].dir + (IF cs[i].adm THEN 3 ELSE 0) + 2)
                   IN S[n]) ]

\* a sample coinciding with the target, cross-validation off, several sectors: kept when the defined
\* neighbourhood does not depend on the (undefined) sector of that sample, otherwise the sample
\* is generated with another reason of rejection
MkCase(nsect, nmini, nmaxi, nsmax, salt) ==
  LET c1 == MkCaseR(nsect, nmini, nmaxi, nsmax, salt, TRUE)
  IN IF SectorIndependent(c1) THEN c1 ELSE MkCaseR(nsect, nmini, nmaxi, nsmax, salt, FALSE)

Init == cs = <<>> /\ ndir \in 1..MaxDir /\ phase = "build" /\ case = <<>>

AddCand == /\ phase = "build" /\ Len(cs) < MaxN
           /\ \/ \E d \in 0..(ndir - 1) : cs' = Append(cs, [adm |-> TRUE, dir |-> d])
              \/ cs' = Append(cs, [adm |-> FALSE, dir |-> (2 * Len(cs) + 1) % ndir])   \* rejected: derived sector
           /\ UNCHANGED <<ndir, phase, case>>

Finish == /\ phase = "build" /\ Len(cs) >= 1 /\ phase' = "done"
          /\ \E nsect \in {k \in 1..ndir : ndir % k = 0}, nmini \in PVals, nmaxi \in PVals,
                nsmax \in PVals \cup {0}, salt \in Salts :
               /\ (nsect = 1 => nsmax = 0)              \* nsmax has no meaning with a single sector
               /\ case' = MkCase(nsect, nmini, nmaxi, nsmax, salt)
          /\ UNCHANGED <<cs, ndir>>

Next == AddCand \/ Finish
Spec == Init /\ [][Next]_vars

-----------------------------------------------------------------------------
(* What TLC checks on every complete case                                   *)

IsCase == phase = "done"
RankKeys(c) == [i \in Idx(c) |-> Rank(c, i)]

\* C06 on the model: the transcription of the code computes the defined neighbourhood
Inv_Core ==
  IsCase => LET d == Definition(case) IN
            /\ WellFormed(case) /\ SectorIndependent(case)
            /\ Algorithm(case) = d
            /\ (case.nmaxi > 0 => Len(d) <= case.nmaxi)
            /\ RangeOf(d) \subseteq Admissible(case)
            \* "the nmaxi closest when there is a single sector"
            /\ SingleSectorRule(case)
\* ball-tree pre-selection: with the isotropic metric (Euclidean order = rank order) and a single
\* sector, when the pre-selection holds no sample excluded by the cross-validation or holds every
\* sample, the side condition of the property is sufficient for the transcription of the ball path
\* to yield the definition.  (Beyond these conditions it is not: see BallCause; the real library
\* is compared in all cases where the side condition holds and the deviations are gstlearn
\* defects recorded in known/C06.json.)
Inv_BallSufficient ==
  IsCase /\ case.nsect = 1 /\ BallSide(case, RankKeys(case))
         /\ (case.nmaxi >= NCand(case) \/ ~BallHoldsExcluded(case, RankKeys(case)))
    => BallAlgorithm(case, RankKeys(case)) = Definition(case)

-----------------------------------------------------------------------------
(* Emission                                                                 *)

B2I(b) == IF b THEN 1 ELSE 0
EucKeys(c, m) == [i \in Idx(c) |->
                   IF Coincident(c, i) THEN 0
                   ELSE Rank(c, i) * Geom.W[m][c.ndir][c.cands[i].sector + 1][i]]
EucDistinct(c, e) == \A i, j \in Idx(c) : i # j => (e[i] - e[j] >= 50 \/ e[j] - e[i] >= 50)

\* The model of the ball path (a recorded deviation of gstlearn where it differs from the
\* definition) may depend on the undefined sector of a sample coinciding with the target although
\* the definition does not: every sector is then a possible outcome of the model.
SectorVariants(c) ==
  IF \E i \in Idx(c) : Coincident(c, i) /\ ~c.xvalid /\ c.nsect > 1
  THEN LET i == CHOOSE j \in Idx(c) : Coincident(c, j) IN {WithSector(c, i, s) : s \in 0..(c.ndir - 1)}
  ELSE {c}

BallInfo(c, m, def) ==
  IF c.nmaxi < 1 THEN [side |-> FALSE]
  ELSE LET e == EucKeys(c, m) IN
       IF ~BallSide(c, e) \/ ~EucDistinct(c, e) THEN [side |-> FALSE]
       ELSE LET models == {BallAlgorithm(v, e) : v \in SectorVariants(c)}
                bad == {v \in SectorVariants(c) : BallAlgorithm(v, e) # def}
            IN [side |-> TRUE,
                cause |-> IF bad = {} THEN "none"
                          ELSE LET v == CHOOSE w \in bad : TRUE IN BallCause(v, e, BallAlgorithm(v, e), def),
                models |-> SetToSeq(models),
                xin |-> BallHoldsExcluded(c, e)]

Out(c) == LET def == Definition(c) IN
          [ c |-> [i \in Idx(c) |-> LET x == c.cands[i] IN
                     <<B2I(x.active), B2I(x.defined), x.distRank, x.sector, B2I(x.passesCheckers),
                       B2I(x.isTargetOrFold)>>],
            ndir |-> c.ndir, nsect |-> c.nsect, nmini |-> c.nmini, nmaxi |-> c.nmaxi, nsmax |-> c.nsmax,
            radiusRank |-> c.radiusRank, xvalid |-> c.xvalid, kfold |-> c.kfold, mix |-> c.mix,
            expected |-> def,
            ball |-> [m \in 1..NMetric |-> BallInfo(c, m, def)],
            cat |-> LET r == Categories(c) IN SetToSeq({k \in DOMAIN r : r[k]}) ]

EmitSel(c) == \/ (NCand(c) <= FullN /\ c.ndir <= FullDir)
              \/ c.thin % EmitMod = 0

Inv_Emit == ~Emit \/ ~IsCase \/ ~EmitSel(case) \/ PrintT(ToJson(Out(case)))
=============================================================================
