SPECIFICATION TSpec
CONSTANTS
  Rich = TRUE
  VaryOf <- NoVary
  PairDims <- NoPairs
POSTCONDITION AllExamined
CHECK_DEADLOCK FALSE
