------------------------------ MODULE MatrixAlg ------------------------------
(***************************************************************************)
(* Property C11: the matrix classes of gstlearn compute what linear        *)
(* algebra defines, identically in every storage.                          *)
(*                                                                         *)
(* An abstract matrix is a sequence of rows of integers (r >= 1, c >= 1),  *)
(* a vector a sequence of integers.  Because inversion and linear solve    *)
(* leave the integers, a register holds a matrix / vector together with a  *)
(* positive common denominator:  value = m[i][j] / d  (exact rationals).   *)
(*                                                                         *)
(* The machine has three registers  A (accumulator), B (second operand),   *)
(* v (vector).  Every public operation of the matrix classes is a          *)
(* deterministic function  Do(op, s)  of the registers, defined by the     *)
(* mathematical definition of the operation (not by the code).  The        *)
(* catalogue of operations enabled in a state respects the documented      *)
(* restrictions of the classes (compatible dimensions, square-only         *)
(* methods, exact quotients for the divisions).                            *)
(*                                                                         *)
(* Profiles(op, pre, post) says in which storage classes of the library    *)
(* the step is promised:                                                   *)
(*   rect = MatrixRectangular, sqg = MatrixSquareGeneral (square only),    *)
(*   sym  = MatrixSquareSymmetric (symmetric contents only, symmetric      *)
(*          operations only), spe = MatrixSparse/Eigen, spc = MatrixSparse *)
(*          /cs.                                                           *)
(* MayRefuse(op, p) lists the (operation, storage) pairs for which the     *)
(* library documents that it may refuse the call with an error message     *)
(* (cs storage cannot create a new non-zero entry in place).               *)
(***************************************************************************)
EXTENDS Integers, Sequences, FiniteSets, TLC

-----------------------------------------------------------------------------
(* Integer helpers                                                         *)

Abs(x) == IF x < 0 THEN -x ELSE x
Sign(k) == IF k % 2 = 0 THEN 1 ELSE -1
Sum(n, F(_)) == LET S[k \in 0..n] == IF k = 0 THEN 0 ELSE S[k - 1] + F(k) IN S[n]
Prod(n, F(_)) == LET S[k \in 0..n] == IF k = 0 THEN 1 ELSE S[k - 1] * F(k) IN S[n]
RECURSIVE Gcd(_, _)
Gcd(a, b) == IF b = 0 THEN Abs(a) ELSE Gcd(Abs(b), Abs(a) % Abs(b))
Quot(a, b) == IF b < 0 THEN (-a) \div (-b) ELSE a \div b        \* exact quotients only
Range(f) == {f[i] : i \in DOMAIN f}
MaxOf(S) == CHOOSE x \in S : \A y \in S : y <= x
MinOf(S) == CHOOSE x \in S : \A y \in S : y >= x

-----------------------------------------------------------------------------
(* Integer matrices and vectors: the mathematical definitions              *)

NR(M) == Len(M)
NC(M) == Len(M[1])
Mat(r, c, F(_, _)) == [i \in 1..r |-> [j \in 1..c |-> F(i, j)]]
Vec(n, F(_)) == [i \in 1..n |-> F(i)]
IsSquare(M) == NR(M) = NC(M)
Entries(M) == {M[i][j] : i \in 1..NR(M), j \in 1..NC(M)}

Tr(M) == Mat(NC(M), NR(M), LAMBDA i, j : M[j][i])                 \* transpose
Opt(M, t) == IF t THEN Tr(M) ELSE M
Ident(n) == Mat(n, n, LAMBDA i, j : IF i = j THEN 1 ELSE 0)
Diag(x) == Mat(Len(x), Len(x), LAMBDA i, j : IF i = j THEN x[i] ELSE 0)
Const(r, c, k) == Mat(r, c, LAMBDA i, j : k)
Scal(M, k) == Mat(NR(M), NC(M), LAMBDA i, j : k * M[i][j])
Plus(M, N) == Mat(NR(M), NC(M), LAMBDA i, j : M[i][j] + N[i][j])
Comb(a, M, b, N) == Mat(NR(M), NC(M), LAMBDA i, j : a * M[i][j] + b * N[i][j])
MatMul(M, N) == Mat(NR(M), NC(N), LAMBDA i, j : Sum(NC(M), LAMBDA k : M[i][k] * N[k][j]))
MatVec(M, x) == Vec(NR(M), LAMBDA i : Sum(NC(M), LAMBDA k : M[i][k] * x[k]))
VecMat(x, M) == Vec(NC(M), LAMBDA j : Sum(NR(M), LAMBDA k : x[k] * M[k][j]))
Dot(x, y) == Sum(Len(x), LAMBDA k : x[k] * y[k])
VScal(x, k) == Vec(Len(x), LAMBDA i : k * x[i])
SetElem(M, a, b, k) == Mat(NR(M), NC(M), LAMBDA i, j : IF i = a /\ j = b THEN k ELSE M[i][j])
SetElemSym(M, a, b, k) == Mat(NR(M), NC(M), LAMBDA i, j :
                               IF (i = a /\ j = b) \/ (i = b /\ j = a) THEN k ELSE M[i][j])
SetRowM(M, a, x) == Mat(NR(M), NC(M), LAMBDA i, j : IF i = a THEN x[j] ELSE M[i][j])
SetColM(M, b, x) == Mat(NR(M), NC(M), LAMBDA i, j : IF j = b THEN x[i] ELSE M[i][j])
AddDiag(M, k) == Mat(NR(M), NC(M), LAMBDA i, j : IF i = j THEN M[i][j] + k ELSE M[i][j])
RowScale(M, x) == Mat(NR(M), NC(M), LAMBDA i, j : x[i] * M[i][j])     \* Diag(x) M
ColScale(M, x) == Mat(NR(M), NC(M), LAMBDA i, j : M[i][j] * x[j])     \* M Diag(x)
\* sub-sampling: rs / cs are lists of 1-based indices (the empty list means "all")
AllIdx(n) == [i \in 1..n |-> i]
Pick(M, rs, cs) == LET R == IF rs = <<>> THEN AllIdx(NR(M)) ELSE rs
                       C == IF cs = <<>> THEN AllIdx(NC(M)) ELSE cs
                   IN Mat(Len(R), Len(C), LAMBDA i, j : M[R[i]][C[j]])
\* complement of an index list within 1..n, ascending (flagInvert of the sampling functions)
Compl(n, l) == LET keep == {i \in 1..n : i \notin Range(l)}
                   F[k \in 0..n] == IF k = 0 THEN <<>> ELSE IF k \in keep THEN Append(F[k - 1], k) ELSE F[k - 1]
               IN F[n]
\* gluing (block placement of N after M, shifted by the rows and/or the columns of M, zero elsewhere)
Glue(M, N, sr, sc) ==
  LET dr == IF sr THEN NR(M) ELSE 0
      dc == IF sc THEN NC(M) ELSE 0
      r == IF sr THEN NR(M) + NR(N) ELSE (IF NR(M) > NR(N) THEN NR(M) ELSE NR(N))
      c == IF sc THEN NC(M) + NC(N) ELSE (IF NC(M) > NC(N) THEN NC(M) ELSE NC(N))
  IN Mat(r, c, LAMBDA i, j :
         IF i - dr \in 1..NR(N) /\ j - dc \in 1..NC(N) THEN N[i - dr][j - dc]
         ELSE IF i \in 1..NR(M) /\ j \in 1..NC(M) THEN M[i][j] ELSE 0)
\* congruence products
NormMM(M, S, t) == IF t THEN MatMul(MatMul(Tr(M), S), M) ELSE MatMul(MatMul(M, S), Tr(M))
NormMV(M, x, t) == NormMM(M, Diag(x), t)
NormM(M, t) == IF t THEN MatMul(Tr(M), M) ELSE MatMul(M, Tr(M))
\* Kronecker product (used by the inflation laws)
Kron(M, K) == Mat(NR(M) * NR(K), NC(M) * NC(K), LAMBDA i, j :
                  M[((i - 1) \div NR(K)) + 1][((j - 1) \div NC(K)) + 1] * K[((i - 1) % NR(K)) + 1][((j - 1) % NC(K)) + 1])
KronV(x, n) == Vec(Len(x) * n, LAMBDA i : x[((i - 1) \div n) + 1])       \* x (x) 1_n
KronIdx(l, n) == Vec(Len(l) * n, LAMBDA i : (l[((i - 1) \div n) + 1] - 1) * n + ((i - 1) % n) + 1)

Minor(M, a, b) == Mat(NR(M) - 1, NC(M) - 1, LAMBDA i, j :
                      M[IF i < a THEN i ELSE i + 1][IF j < b THEN j ELSE j + 1])
RECURSIVE Det(_)
Det(M) == IF NR(M) = 1 THEN M[1][1]
          ELSE Sum(NR(M), LAMBDA j : Sign(j + 1) * M[1][j] * Det(Minor(M, 1, j)))
Adj(M) == IF NR(M) = 1 THEN <<<<1>>>>
          ELSE Mat(NR(M), NR(M), LAMBDA i, j : Sign(i + j) * Det(Minor(M, j, i)))
Trace(M) == Sum(NR(M), LAMBDA i : M[i][i])
IsSym(M) == IsSquare(M) /\ \A i, j \in 1..NR(M) : M[i][j] = M[j][i]
Lead(M, k) == Mat(k, k, LAMBDA i, j : M[i][j])
IsSPD(M) == IsSym(M) /\ \A k \in 1..NR(M) : Det(Lead(M, k)) > 0          \* Sylvester
NoZero(M) == 0 \notin Entries(M)
IsIdentity(M) == IsSquare(M) /\ M = Ident(NR(M))
DiagOf(M, sh) ==   \* diagonal shifted by sh (sh > 0: upper, sh < 0: lower), square matrices
  LET n == NR(M)  len == n - Abs(sh)
  IN Vec(len, LAMBDA k : IF sh >= 0 THEN M[k][k + sh] ELSE M[k - sh][k])

-----------------------------------------------------------------------------
(* Exact rationals: a matrix / vector over a common positive denominator    *)

QM(m) == [m |-> m, d |-> 1]
QV(x) == [x |-> x, d |-> 1]
RECURSIVE GcdSet(_)
GcdSet(S) == IF S = {} THEN 0 ELSE LET y == CHOOSE z \in S : TRUE IN Gcd(y, GcdSet(S \ {y}))
RedM(m, d) == LET dd == IF d < 0 THEN -d ELSE d
                  mm == IF d < 0 THEN Scal(m, -1) ELSE m
                  g == GcdSet(Entries(mm) \cup {dd})
              IN IF dd = 1 \/ g = 1 THEN [m |-> mm, d |-> dd]
                 ELSE [m |-> Mat(NR(mm), NC(mm), LAMBDA i, j : mm[i][j] \div g), d |-> dd \div g]
RedV(x, d) == LET dd == IF d < 0 THEN -d ELSE d
                  xx == IF d < 0 THEN VScal(x, -1) ELSE x
                  g == GcdSet(Range(xx) \cup {dd})
              IN IF dd = 1 \/ g = 1 THEN [x |-> xx, d |-> dd]
                 ELSE [x |-> Vec(Len(xx), LAMBDA i : xx[i] \div g), d |-> dd \div g]

\* shapes
R(q) == NR(q.m)
C(q) == NC(q.m)
Magnitude(s) == MaxOf({Abs(e) : e \in Entries(s.A.m) \cup Entries(s.B.m) \cup Range(s.v.x)} \cup {s.A.d, s.B.d, s.v.d})

-----------------------------------------------------------------------------
(* Operation records (uniform shape; unused fields are 0 / <<>>)            *)

Op(name, i, j, k, l, rs, cs) == [op |-> name, i |-> i, j |-> j, k |-> k, l |-> l, rs |-> rs, cs |-> cs]
O0(name) == Op(name, 0, 0, 0, 0, <<>>, <<>>)
B2I(b) == IF b THEN 1 ELSE 0

CONSTANTS OpsLevel,      \* "all" | "std" | "core" : which part of the catalogue is enabled ("std": every operation,
                         \*   reduced set of coefficient pairs; "core": the operations of CoreOps only)
          Limit          \* bound on the magnitude of numerators / denominators (keeps 32-bit arithmetic exact)

\* scalars and coefficients include the special values 0 and 1 (where an implementation takes shortcuts)
Scalars == {2, -3}
AddScalars == {0, 2, -3}
ProdScalars == {0, 1, 2, -3}
CoefValues == {-2, 0, 1, 3}
CoefPairs == CASE OpsLevel = "all" -> CoefValues \X CoefValues
               [] OpsLevel = "std" -> {<<1, 1>>, <<2, -3>>, <<3, 0>>, <<0, -2>>, <<1, 0>>, <<0, 1>>, <<0, 0>>, <<-2, 1>>}
               [] OTHER -> {<<2, -3>>, <<3, 0>>, <<0, -2>>}
SetVal == -7
\* index lists used by the sub-sampling operations for a dimension n (<<>> = all)
IdxLists(n) == {<<>>} \cup {<<n>>} \cup (IF n >= 2 THEN {<<n, 1>>} ELSE {}) \cup (IF n >= 3 THEN {<<2, 3>>} ELSE {})

\* (rows, columns) lists of the sub-sampling operations: single index, reversed pair (a permutation, so
\* that an implementation which sorts or swaps the lists is seen), different lists for rows and columns
PickArgs(r, c) == {<<(<<r>>), <<>>>>, <<(<<>>), (<<c>>)>>, <<(<<1>>), (<<1>>)>>}
             \cup (IF r >= 2 THEN {<<(<<r, 1>>), (<<c>>)>>} ELSE {})
             \cup (IF r >= 2 /\ c >= 2 THEN {<<(<<r, 1>>), (<<c, 1>>)>>} ELSE {})
             \cup (IF r >= 3 /\ c >= 2 THEN {<<(<<2, 3>>), (<<2, 1>>)>>} ELSE {})
PickInvArgs(r, c) == {<<(<<1>>), <<>>>>, <<(<<>>), (<<c>>)>>} \cup (IF r >= 3 THEN {<<(<<3, 1>>), (<<c>>)>>} ELSE {})

CoreOps == {"TransposeInPlace", "ProdMatMat", "AddMat", "Invert", "Pick", "SetRow", "SetValue", "Swap",
            "MatVec", "VecMat", "ProdNormMatMat", "MultiplyRow", "DivideColumn", "Solve", "AddScalar", "Glue"}

\* magnitudes (TLC integers are 32-bit, see PreOK below)
MaxM(q) == MaxOf({Abs(e) : e \in Entries(q.m)} \cup {q.d})
MaxV(w) == MaxOf({Abs(e) : e \in Range(w.x)} \cup {w.d})
Fits3(p, q) == p <= 20000 /\ q <= 20000 /\ p * p <= 100000000 \div q     \* 16 p p q < 2^31
DetOK(q) == R(q) <= 4 /\ MaxM(q) <= (IF R(q) = 4 THEN 40 ELSE 250)      \* the determinant fits

\* exact quotient tests for the row / column divisions
RowDivisible(q, x) == \A i \in 1..R(q) : x[i] # 0 /\ \A j \in 1..C(q) : Abs(q.m[i][j]) % Abs(x[i]) = 0
ColDivisible(q, x) == \A j \in 1..C(q) : x[j] # 0 /\ \A i \in 1..R(q) : Abs(q.m[i][j]) % Abs(x[j]) = 0

RawCatalogue(s) ==
  LET A == s.A  B == s.B  v == s.v
      r == R(A)  c == C(A)  n == Len(v.x)
      sq == r = c
      vInt == v.d = 1
  IN
     \* element / row / column / diagonal assignment
     {Op("SetValue", i, j, SetVal, 0, <<>>, <<>>) : i \in 1..r, j \in 1..c}
\cup (IF sq THEN {Op("SetSym", i, j, SetVal, 0, <<>>, <<>>) : i \in 1..r, j \in 1..c} ELSE {})
\cup (IF n = c THEN {Op("SetRow", i, 0, 0, 0, <<>>, <<>>) : i \in 1..r} ELSE {})
\cup (IF n = r THEN {Op("SetCol", 0, j, 0, 0, <<>>, <<>>) : j \in 1..c} ELSE {})
\cup (IF sq /\ n = r THEN {O0("SetDiag")} ELSE {})
\cup (IF sq THEN {Op("SetDiagConst", 0, 0, 5, 0, <<>>, <<>>)} ELSE {})
     \* transposition, scalars
\cup {O0("TransposeInPlace")}
\cup {Op("AddScalar", 0, 0, k, 0, <<>>, <<>>) : k \in AddScalars}
\cup {Op("AddScalarDiag", 0, 0, k, 0, <<>>, <<>>) : k \in AddScalars}
\cup {Op("ProdScalar", 0, 0, k, 0, <<>>, <<>>) : k \in ProdScalars}
\cup {Op("Fill", 0, 0, 4, 0, <<>>, <<>>), Op("SetIdentity", 0, 0, 3, 0, <<>>, <<>>)}
     \* scaling of rows / columns by the vector register
\cup (IF n = r /\ vInt THEN {O0("MultiplyRow")} ELSE {})
\cup (IF n = c /\ vInt THEN {O0("MultiplyColumn")} ELSE {})
\cup (IF n = r /\ vInt /\ RowDivisible(A, v.x) THEN {O0("DivideRow")} ELSE {})
\cup (IF n = c /\ vInt /\ ColDivisible(A, v.x) THEN {O0("DivideColumn")} ELSE {})
     \* sums and linear combinations with B
\cup (IF r = R(B) /\ c = C(B)
      THEN {Op("AddMat", 0, 0, p[1], p[2], <<>>, <<>>) : p \in CoefPairs}
           \cup {Op("LinComb", 0, 0, p[1], p[2], <<>>, <<>>) : p \in CoefPairs} ELSE {})
     \* products  A := op(A) op(B)
\cup {Op("ProdMatMat", B2I(ta), B2I(tb), 0, 0, <<>>, <<>>) : ta \in BOOLEAN, tb \in BOOLEAN}
\cup (IF R(B) = C(B) THEN {Op("ProdNormMatMat", B2I(t), 0, 0, 0, <<>>, <<>>) : t \in BOOLEAN} ELSE {})
\cup (IF vInt THEN {Op("ProdNormMatVec", B2I(t), 0, 0, 0, <<>>, <<>>) : t \in BOOLEAN} ELSE {})
\cup {Op("ProdNormMat", B2I(t), 0, 0, 0, <<>>, <<>>) : t \in BOOLEAN}
     \* sub-sampling, gluing
\cup {Op("Pick", 0, 0, 0, 0, p[1], p[2]) : p \in PickArgs(r, c)}
\cup {Op("PickInv", 0, 0, 0, 0, p[1], p[2]) : p \in PickInvArgs(r, c)}
     \* (without any shift the two blocks would overlap: what the overlap holds is not documented)
\cup ({Op("Glue", B2I(sr), B2I(sc), 0, 0, <<>>, <<>>) : sr \in BOOLEAN, sc \in BOOLEAN} \ {Op("Glue", 0, 0, 0, 0, <<>>, <<>>)})
     \* inversion and linear solve (square, non singular)
\cup (IF sq /\ DetOK(A) /\ Det(A.m) # 0 THEN {O0("Invert")} ELSE {})
\cup (IF sq /\ n = r /\ DetOK(A) /\ Det(A.m) # 0 THEN {O0("Solve")} ELSE {})
     \* register moves
\cup {O0("Swap"), O0("Copy")}
     \* vector results
\cup {Op("MatVec", B2I(t), 0, 0, 0, <<>>, <<>>) : t \in BOOLEAN}
\cup {Op("VecMat", B2I(t), 0, 0, 0, <<>>, <<>>) : t \in BOOLEAN}
\cup {Op("GetRow", i, 0, 0, 0, <<>>, <<>>) : i \in 1..r}
\cup {Op("GetCol", 0, j, 0, 0, <<>>, <<>>) : j \in 1..c}
     \* (the sign convention of a negative shift is not documented: only the main and the first upper diagonal)
\cup (IF sq THEN {Op("GetDiag", 0, 0, sh, 0, <<>>, <<>>) : sh \in {0, 1} \cap ((1 - r)..(r - 1))} ELSE {})

\* dimension conditions of the binary operations
ShapeOK(o, s) ==
  LET A == s.A  B == s.B  n == Len(s.v.x) IN
  CASE o.op = "ProdMatMat" ->
         (IF o.i = 1 THEN R(A) ELSE C(A)) = (IF o.j = 1 THEN C(B) ELSE R(B))
    [] o.op = "ProdNormMatMat" -> (IF o.i = 1 THEN R(A) ELSE C(A)) = R(B)
    [] o.op = "ProdNormMatVec" -> (IF o.i = 1 THEN R(A) ELSE C(A)) = n
    [] o.op = "MatVec" -> (IF o.i = 1 THEN R(A) ELSE C(A)) = n
    [] o.op = "VecMat" -> (IF o.i = 1 THEN C(A) ELSE R(A)) = n
    [] o.op = "PickInv" -> Compl(R(A), o.rs) # <<>> /\ Compl(C(A), o.cs) # <<>> /\ (o.rs # <<>> \/ o.cs # <<>>)
    [] o.op = "Pick" -> o.rs # <<>> \/ o.cs # <<>>
    [] OTHER -> TRUE

-----------------------------------------------------------------------------
(* Reference semantics:  s' = Do(o, s)                                      *)

\* bring two rational matrices to a common denominator
ComD(p, q) == p.d * q.d

Do(o, s) ==
  LET A == s.A  B == s.B  v == s.v
      a == A.m  b == B.m  x == v.x
      keepA(q) == [s EXCEPT !.A = q]
      keepV(w) == [s EXCEPT !.v = w]
  IN
  CASE o.op = "SetValue" -> keepA([m |-> SetElem(a, o.i, o.j, o.k * A.d), d |-> A.d])
    [] o.op = "SetSym" -> keepA([m |-> SetElemSym(a, o.i, o.j, o.k * A.d), d |-> A.d])
    [] o.op = "SetRow" -> keepA(RedM(SetRowM(Scal(a, v.d), o.i, VScal(x, A.d)), A.d * v.d))
    [] o.op = "SetCol" -> keepA(RedM(SetColM(Scal(a, v.d), o.j, VScal(x, A.d)), A.d * v.d))
       \* the documentation of setDiagonal: all terms set to 0, diagonal set from the vector
    [] o.op = "SetDiag" -> keepA([m |-> Diag(x), d |-> v.d])
    [] o.op = "SetDiagConst" -> keepA(QM(Diag([i \in 1..R(A) |-> o.k])))
    [] o.op = "TransposeInPlace" -> keepA([m |-> Tr(a), d |-> A.d])
    [] o.op = "AddScalar" -> keepA([m |-> Plus(a, Const(R(A), C(A), o.k * A.d)), d |-> A.d])
    [] o.op = "AddScalarDiag" -> keepA([m |-> AddDiag(a, o.k * A.d), d |-> A.d])
    [] o.op = "ProdScalar" -> keepA(RedM(Scal(a, o.k), A.d))
    [] o.op = "Fill" -> keepA(QM(Const(R(A), C(A), o.k)))
    [] o.op = "SetIdentity" -> keepA(QM(Scal(Mat(R(A), C(A), LAMBDA i, j : IF i = j THEN 1 ELSE 0), o.k)))
    [] o.op = "MultiplyRow" -> keepA(RedM(RowScale(a, x), A.d))
    [] o.op = "MultiplyColumn" -> keepA(RedM(ColScale(a, x), A.d))
    [] o.op = "DivideRow" -> keepA([m |-> Mat(R(A), C(A), LAMBDA i, j : Quot(a[i][j], x[i])), d |-> A.d])
    [] o.op = "DivideColumn" -> keepA([m |-> Mat(R(A), C(A), LAMBDA i, j : Quot(a[i][j], x[j])), d |-> A.d])
    [] o.op \in {"AddMat", "LinComb"} -> keepA(RedM(Comb(o.k * B.d, a, o.l * A.d, b), ComD(A, B)))
    [] o.op = "ProdMatMat" -> keepA(RedM(MatMul(Opt(a, o.i = 1), Opt(b, o.j = 1)), ComD(A, B)))
    [] o.op = "ProdNormMatMat" -> keepA(RedM(NormMM(a, b, o.i = 1), A.d * A.d * B.d))
    [] o.op = "ProdNormMatVec" -> keepA(RedM(NormMV(a, x, o.i = 1), A.d * A.d * v.d))
    [] o.op = "ProdNormMat" -> keepA(RedM(NormM(a, o.i = 1), A.d * A.d))
    [] o.op = "Pick" -> keepA(RedM(Pick(a, o.rs, o.cs), A.d))
    [] o.op = "PickInv" -> keepA(RedM(Pick(a, IF o.rs = <<>> THEN <<>> ELSE Compl(R(A), o.rs),
                                              IF o.cs = <<>> THEN <<>> ELSE Compl(C(A), o.cs)), A.d))
    [] o.op = "Glue" -> keepA(RedM(Glue(Scal(a, B.d), Scal(b, A.d), o.i = 1, o.j = 1), ComD(A, B)))
       \* inverse = d * adj(m) / det(m)
    [] o.op = "Invert" -> keepA(RedM(Scal(Adj(a), A.d), Det(a)))
       \* solution of (m/d) y = x/dv :  y = d adj(m) x / (det(m) dv)
    [] o.op = "Solve" -> keepV(RedV(VScal(MatVec(Adj(a), x), A.d), Det(a) * v.d))
    [] o.op = "Swap" -> [s EXCEPT !.A = B, !.B = A]
    [] o.op = "Copy" -> [s EXCEPT !.B = A]
    [] o.op = "MatVec" -> keepV(RedV(MatVec(Opt(a, o.i = 1), x), A.d * v.d))
       \* prodVecMat(x, transpose) = x^T op(A)
    [] o.op = "VecMat" -> keepV(RedV(VecMat(x, Opt(a, o.i = 1)), A.d * v.d))
    [] o.op = "GetRow" -> keepV(RedV(a[o.i], A.d))
    [] o.op = "GetCol" -> keepV(RedV(Tr(a)[o.j], A.d))
    [] o.op = "GetDiag" -> keepV(RedV(DiagOf(a, o.k), A.d))

\* division-like operations: from there on the real values are compared with a tolerance
Inexact(o) == o.op \in {"DivideRow", "DivideColumn", "Invert", "Solve"}

\* TLC integers are 32-bit: every register stays below Limit (<= 20000, so that any product of two
\* terms summed over 4 indices is exact) and the operations with three factors or a determinant
\* are enabled only on operands small enough for their intermediate values
PreOK(o, s) ==
  CASE o.op \in {"Invert", "Solve"} ->
         /\ DetOK(s.A) /\ MaxV(s.v) <= 1000
    [] o.op = "ProdNormMatMat" -> Fits3(MaxM(s.A), MaxM(s.B))
    [] o.op = "ProdNormMatVec" -> Fits3(MaxM(s.A), MaxV(s.v))
    [] o.op = "ProdNormMat" -> Fits3(MaxM(s.A), 1)
    [] OTHER -> TRUE

Enabled(o, s) == /\ (IF OpsLevel \in {"all", "std"} THEN TRUE ELSE o.op \in CoreOps)
                 /\ ShapeOK(o, s)
                 /\ PreOK(o, s)
                 /\ Magnitude(Do(o, s)) <= Limit
                 /\ (o.op = "Glue" => R(Do(o, s).A) <= 4 /\ C(Do(o, s).A) <= 4)
Catalogue(s) == {o \in RawCatalogue(s) : Enabled(o, s)}

-----------------------------------------------------------------------------
(* Storage classes in which a step is promised                              *)

AllSquare(s) == IsSquare(s.A.m) /\ IsSquare(s.B.m)
AllSym(s) == IsSym(s.A.m) /\ IsSym(s.B.m)
\* operations which are meaningful on a symmetric storage (they keep the two triangles equal by
\* themselves); SetValue only on the diagonal, Pick only with the same list for rows and columns
SymOp(o) == \/ o.op \in {"SetSym", "SetDiag", "SetDiagConst", "TransposeInPlace", "AddScalar", "AddScalarDiag",
                         "ProdScalar", "Fill", "SetIdentity", "AddMat", "LinComb", "ProdMatMat", "ProdNormMatMat",
                         "ProdNormMatVec", "ProdNormMat", "Invert", "Solve", "Swap", "Copy", "MatVec", "VecMat",
                         "GetRow", "GetCol", "GetDiag"}
            \/ (o.op = "SetValue" /\ o.i = o.j)
            \/ (o.op \in {"Pick", "PickInv"} /\ o.rs = o.cs)
\* sparse storages: addScalar is documented to act on the stored terms only, so it is promised
\* only when every term is stored (no zero term); inversion / solve go through a Cholesky
\* factorisation (symmetric positive definite matrices only)
SparseOp(o, s) == /\ ((o.op = "AddScalar" /\ o.k # 0) => NoZero(s.A.m))
                  /\ (o.op \in {"Invert", "Solve"} => IsSPD(s.A.m))
Profiles(o, pre, post) ==
     {"rect"}
\cup (IF AllSquare(pre) /\ AllSquare(post) THEN {"sqg"} ELSE {})
\cup (IF AllSym(pre) /\ AllSym(post) /\ SymOp(o) THEN {"sym"} ELSE {})
\cup (IF SparseOp(o, pre) THEN {"spe", "spc"} ELSE {})
\* the cs storage documents that an in-place assignment cannot create a new non-zero term
\* ("can only update a non-zero value; otherwise nothing is done" + error message)
MayRefuse(o, p) == p = "spc" /\ o.op \in {"SetValue", "SetSym", "SetRow", "SetCol", "SetDiag", "SetDiagConst",
                                          "SetIdentity", "Pick", "PickInv", "LinComb"}

-----------------------------------------------------------------------------
(* Kronecker inflation: the law  Op(A (x) K, B (x) K, v (x) 1) = n^p (Op(A, B, v) (x) K)      *)
(* holds for K = I_n with p = 0 and for K = J_n (all ones) with the power p below.            *)
(* -1 : the law does not hold for that K                                                      *)
KronPowJ(o) == CASE o.op \in {"TransposeInPlace", "AddScalar", "ProdScalar", "MultiplyRow", "MultiplyColumn",
                              "DivideRow", "DivideColumn", "AddMat", "LinComb", "Swap", "Copy"} -> 0
                 [] o.op \in {"ProdMatMat", "ProdNormMatVec", "ProdNormMat", "MatVec", "VecMat"} -> 1
                 [] o.op = "ProdNormMatMat" -> 2
                 [] OTHER -> -1
KronPowI(o) == IF o.op \in {"TransposeInPlace", "ProdScalar", "MultiplyRow", "MultiplyColumn", "AddMat", "LinComb",
                            "ProdMatMat", "ProdNormMatVec", "ProdNormMat", "ProdNormMatMat", "MatVec", "VecMat",
                            "Swap", "Copy", "Invert", "Solve", "AddScalarDiag", "SetDiag", "SetDiagConst",
                            "SetIdentity", "DivideRow", "DivideColumn"}
               THEN 0 ELSE -1

Pow(n, p) == Prod(p, LAMBDA k : n)
InflQM(q, K) == [m |-> Kron(q.m, K), d |-> q.d]
InflQV(w, n) == [x |-> KronV(w.x, n), d |-> w.d]
Infl(s, K) == [A |-> InflQM(s.A, K), B |-> InflQM(s.B, K), v |-> InflQV(s.v, NR(K))]
\* n^p * (q (x) K)
ScaledQM(q, f, K) == RedM(Scal(Kron(q.m, K), f), q.d)
ScaledQV(w, f, n) == RedV(VScal(KronV(w.x, n), f), w.d)
\* the register an operation writes
Writes(o) == IF o.op \in {"MatVec", "VecMat", "GetRow", "GetCol", "GetDiag", "Solve"} THEN "v"
             ELSE IF o.op = "Copy" THEN "B" ELSE IF o.op = "Swap" THEN "AB" ELSE "A"
KronLawHolds(o, s, K, p) ==
  LET big == Do(o, Infl(s, K))
      small == Do(o, s)
      f == Pow(NR(K), p)
      n == NR(K)
  IN CASE Writes(o) = "v" -> big.v = ScaledQV(small.v, f, n)
       [] Writes(o) = "A" -> big.A = ScaledQM(small.A, f, K)
       [] OTHER -> big.A = ScaledQM(small.A, 1, K) /\ big.B = ScaledQM(small.B, 1, K)
=============================================================================
