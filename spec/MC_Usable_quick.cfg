\* one of the layouts of the quick tier (tools/checks/c05.py generates one cfg per layout): 1 variable,
\* selection column, coordinates and value defined or not, <= 3 samples
SPECIFICATION Spec
CONSTANTS
  MaxN = 3
  NVar = 1
  SelDom = {"on", "off"}
  CDom = {TRUE, FALSE}
  FDom = {TRUE}
  VDom = {TRUE}
  HasF = FALSE
  HasV = FALSE
  RunOps = {"krig_u", "krig_m", "krig_mb", "neigh_u", "neigh_m", "neigh_mb", "xvalid_u", "xvalid_m", "vario", "vario_cov", "stat", "stat_iso", "cov", "cov_sym", "drift", "simtub", "simtub_pt", "simtub_exp", "migrate", "migrate_ball", "migrate_grid", "migrate_fill", "reduce", "cov_req", "cov_sym_req", "drift_req", "ranks_req", "krig_on", "simtub_on", "simtub_on_grid", "invdist", "nearest", "movave", "movmed", "lstsqr", "avgcov", "global_arith", "global_krig"}
  EmitMin = 1
INVARIANT ModelImplementsReduce ReduceIsSound ReduceVarIsSound ReduceExtremes
CONSTRAINT Emit
CHECK_DEADLOCK FALSE
