SPECIFICATION Spec
CONSTANTS
  Thorough = FALSE
INVARIANT Inv
CONSTRAINT Emit
CHECK_DEADLOCK FALSE
