------------------------ MODULE EmitTransformsData ------------------------
(* Writes the integer data sets and the exact rotation matrices of            *)
(* Transforms.tla (for the Seed of the cfg) as JSON, so that the harness      *)
(* loads into the real library exactly the data the specification reasons on. *)
EXTENDS Transforms, Json, IOUtils
ASSUME JsonSerialize(IOEnv.OUT, [data |-> [n \in AllDataNames |-> Data(n)],
                                 rot |-> [g \in 1..11 |-> Rot(g)],
                                 na |-> NA])
VARIABLE x
Spec == x = 0 /\ [][UNCHANGED x]_x
=============================================================================
