SPECIFICATION Spec
CONSTANTS
  MaxN = 1
  NVar = 1
  SelDom = {"none"}
  CDom = {TRUE}
  FDom = {TRUE}
  VDom = {TRUE}
  HasF = FALSE
  HasV = FALSE
