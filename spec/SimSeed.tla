------------------------------ MODULE SimSeed ------------------------------
(* C13, part 1: the process-wide random state of gstlearn as a state machine, and what    *)
(* "reproducible from the seed" means for every simulator.                                 *)
(*                                                                                         *)
(* Transcribed from src/Basic/Law.cpp (pinned commit):                                     *)
(*   - one process-wide generator (Random_value, "old style" LCG); law_uniform advances it *)
(*     by one step, law_gaussian by two (Box-Muller on two uniforms);                      *)
(*   - law_set_random_seed(seed) IGNORES seed <= 0 (the state is left as it is);           *)
(* and from the entry points of the simulators (Profile below).                            *)
(*                                                                                         *)
(* The state is a TERM [base, pos]: the value given at the last effective reseed (0 = the  *)
(* state of a fresh process) and the sequence of consumptions since then.  Two executions  *)
(* whose terms are equal are in the same generator state; the output of a simulator is a   *)
(* function of its inputs and of the term at the moment it starts drawing.                 *)
EXTENDS Integers, Sequences, FiniteSets, TLC

CONSTANTS MaxHist,      \* maximal number of calls before the observed call
          Seeds,        \* positive seeds (arguments of observed / history calls)
          NonPos,       \* non-positive seeds (must be ignored)
          Sims,         \* simulators present in the histories / observed (subset of DOMAIN Profile)
          BareUnseeded, \* TRUE: simulators WITHOUT seed argument are observed bare (no reseed before)
          Styles,       \* generator styles explored: subset of {"old", "new"}
          MaxHistNew    \* maximal history length under the new style

Boot == [base |-> 0, pos |-> <<>>]          \* state of a fresh process (Random_value = 43241421)

(* ---------------------------------------------------------------- profiles *)
(* seedArg : the entry point has a seed argument                                           *)
(* entry   : it calls law_set_random_seed(seed) before its first draw                      *)
(* unit    : finer reseeding inside ("band": one seed per (variable, simulation, basic     *)
(*           structure, band) taken from the stream, the stream being restored afterwards; *)
(*           "pgs": the Gibbs stage and the first turning-bands stage both reseed with the *)
(*           argument, the second Gaussian function continues the stream (local seed 0))   *)
(* failEarly: an invalid call fails before touching the generator                          *)
Profile == [
  simtub   |-> [seedArg |-> TRUE,  entry |-> TRUE,  unit |-> "band", failEarly |-> TRUE],  \* CalcSimuTurningBands::_run
  simtubc  |-> [seedArg |-> TRUE,  entry |-> TRUE,  unit |-> "band", failEarly |-> TRUE],  \* same, conditional (dbin given)
  simfft   |-> [seedArg |-> TRUE,  entry |-> TRUE,  unit |-> "none", failEarly |-> TRUE],  \* CalcSimuFFT::_run
  spde     |-> [seedArg |-> FALSE, entry |-> FALSE, unit |-> "none", failEarly |-> TRUE],  \* simulateSPDE / SPDE::compute: no seed at all
  spdec    |-> [seedArg |-> FALSE, entry |-> FALSE, unit |-> "none", failEarly |-> TRUE],  \* same, conditional
  gibbs    |-> [seedArg |-> TRUE,  entry |-> TRUE,  unit |-> "none", failEarly |-> TRUE],  \* gibbs_sampler -> AGibbs::init
  simpgs   |-> [seedArg |-> TRUE,  entry |-> TRUE,  unit |-> "pgs",  failEarly |-> TRUE],  \* AGibbs::init, CalcSimuTurningBands(seed), then (0)
  simbipgs |-> [seedArg |-> TRUE,  entry |-> TRUE,  unit |-> "pgs",  failEarly |-> TRUE]
]

(* ---------------------------------------------------------------- generator *)
(* Generator STYLE (law_set_old_style): "old" = the congruential generator, whose state IS      *)
(* Random_value; "new" = std::mt19937 + the std distributions: Random_value only remembers the   *)
(* last seed given (the draws never change it), law_set_random_seed(seed > 0) stores the seed   *)
(* AND re-seeds the Mersenne twister, unconditionally.  The term [base, pos] stands for the     *)
(* state of the generator in use.  Under the new style a uniform and a Gaussian draw consume    *)
(* the twister differently (generate_canonical / polar rejection): separate tokens.              *)
SetSeed(r, s) == IF s > 0 THEN [base |-> s, pos |-> <<>>] ELSE r      \* law_set_random_seed
Step(r, n)    == [r EXCEPT !.pos = @ \o [i \in 1..n |-> <<"u">>]]    \* n LCG steps
Draw(r, sty, op) == IF sty = "old" THEN Step(r, IF op = "draw" THEN 1 ELSE 2)
                    ELSE [r EXCEPT !.pos = Append(@, IF op = "draw" THEN <<"nu">> ELSE <<"ng">>)]

(* ---------------------------------------------------------------- calls *)
AllSeeds == Seeds \cup NonPos
OneSeed  == CHOOSE x \in Seeds : TRUE
OneNonPos == CHOOSE x \in NonPos : TRUE
SeededSims == {q \in Sims : Profile[q].seedArg}
UnseededSims == {q \in Sims : ~Profile[q].seedArg}
HistCalls ==
     {[op |-> "draw", p |-> "none", seed |-> 0], [op |-> "gdraw", p |-> "none", seed |-> 0]}
\cup {[op |-> "setseed", p |-> "none", seed |-> s] : s \in {OneSeed} \cup NonPos}
\cup {[op |-> "sim", p |-> p, seed |-> s] : p \in SeededSims, s \in {OneSeed, OneNonPos}}
\cup {[op |-> "sim", p |-> p, seed |-> 0] : p \in UnseededSims}
\cup {[op |-> "fail", p |-> p, seed |-> OneSeed] : p \in Sims}

(* observed calls: simulators with a seed argument get it as argument; simulators without   *)
(* one are observed as the composite "law_set_random_seed(seed); call" (the documented way, *)
(* see tests/cpp/test_SPDE.cpp) unless BareUnseeded                                         *)
ObsCalls ==
     {[op |-> "sim", p |-> p, seed |-> s, via |-> "arg"] : p \in SeededSims, s \in AllSeeds}
\cup {[op |-> "sim", p |-> p, seed |-> s, via |-> IF BareUnseeded THEN "bare" ELSE "global"] :
          p \in UnseededSims, s \in Seeds}

(* state of the generator when the simulator p starts drawing *)
AtDraw(r, p, seed, via) ==
  CASE via = "global" -> SetSeed(r, seed)
    [] via = "bare"   -> r
    [] via = "arg"    -> IF Profile[p].entry THEN SetSeed(r, seed) ELSE r

(* stream of the simulation of rank k (turning bands: the k-th block of band seeds) *)
RankStream(s, k) == [s EXCEPT !.pos = Append(@, <<"rank", ToString(k)>>)]
(* the generator afterwards: some deterministic function of the stream used *)
(* ("pgs": the second stage reseeds again with the argument when it is positive, otherwise it continues) *)
Stage2(p, seed) == IF Profile[p].unit = "pgs" THEN (IF seed > 0 THEN "reseeded" ELSE "continued") ELSE "none"
After(r, p, seed, via) == LET a == AtDraw(r, p, seed, via) IN [a EXCEPT !.pos = Append(@, <<"after", p, Stage2(p, seed)>>)]

VARIABLES rng, pre, hist, out, done, style
vars == <<rng, pre, hist, out, done, style>>

NoCall == [op |-> "none", p |-> "none", seed |-> 0, via |-> "none"]
Init == rng = Boot /\ pre = Boot /\ hist = <<>> /\ out = [call |-> NoCall, stream |-> Boot, stage2 |-> "none"] /\ done = FALSE
        /\ style \in Styles

Do(c) ==
  CASE c.op = "draw"    -> rng' = Draw(rng, style, "draw")
    [] c.op = "gdraw"   -> rng' = Draw(rng, style, "gdraw")
    [] c.op = "setseed" -> rng' = SetSeed(rng, c.seed)
    [] c.op = "sim"     -> rng' = After(rng, c.p, c.seed, IF Profile[c.p].seedArg THEN "arg" ELSE "bare")
    [] c.op = "fail"    -> \* fails before or after its reseed: both are allowed, nothing else
                           rng' \in (IF Profile[c.p].failEarly THEN {rng} ELSE {rng, SetSeed(rng, c.seed)})

HistStep == /\ ~done /\ Len(hist) < (IF style = "old" THEN MaxHist ELSE MaxHistNew)
            /\ \E c \in HistCalls : Do(c) /\ hist' = Append(hist, c)
            /\ UNCHANGED <<out, done, pre, style>>
ObsStep  == /\ ~done
            /\ \E c \in ObsCalls :
                 /\ out' = [call |-> c, stream |-> AtDraw(rng, c.p, c.seed, c.via), stage2 |-> Stage2(c.p, c.seed)]
                 /\ rng' = After(rng, c.p, c.seed, c.via)
            /\ pre' = rng
            /\ hist' = hist /\ style' = style
            /\ done' = TRUE
Next == HistStep \/ ObsStep
Spec == Init /\ [][Next]_vars

(* ---------------------------------------------------------------- properties *)
Seeded(c) == c.seed > 0
Fresh(c)  == AtDraw(Boot, c.p, c.seed, c.via)
(* C13a: the output of a seeded call is the same for every history of earlier calls *)
Reproducible == (done /\ Seeded(out.call)) => out.stream = Fresh(out.call)
(* C13b: different seeds give different streams; different ranks give different streams *)
Distinct == \A c1, c2 \in ObsCalls :
              (c1.p = c2.p /\ Seeded(c1) /\ Seeded(c2) /\ c1.seed # c2.seed /\ c1.via # "bare")
                 => Fresh(c1) # Fresh(c2)
DistinctRanks == \A c \in ObsCalls : \A j, k \in 1..3 : j # k => RankStream(Fresh(c), j) # RankStream(Fresh(c), k)
(* non-positive seeds are ignored: the call continues the stream it finds *)
NonPosIgnored == (done /\ out.call.via = "arg" /\ ~Seeded(out.call)) => out.stream = pre
=============================================================================
