SPECIFICATION Spec
CONSTANTS
  Digits = 10
POSTCONDITION AllExamined
CHECK_DEADLOCK FALSE
