------------------------------ MODULE NeutralFile ------------------------------
(***************************************************************************)
(* The neutral-file layer of gstlearn (class ASerializable) as a model      *)
(* over token streams (properties C08 and C09).                             *)
(*                                                                         *)
(* A FILE is a sequence of lines, a line is a sequence of tokens (strings). *)
(* The token "#" is the comment mark: the reader ignores the rest of the    *)
(* line (titles are not modelled, the harness drops them when it tokenises  *)
(* a real file).  The first line holds the class tag.                       *)
(*                                                                         *)
(* WRITER primitives (ASerializable.hpp): RecordWrite(title, v),            *)
(* RecordWriteVec(title, vec), CommentWrite(text), TableWrite; a class      *)
(* writer W_<Class>(o) is the ordered list of primitive calls of            *)
(* <Class>::_serialize.                                                     *)
(* READER primitives: RecordRead = next word that is not a comment, across  *)
(* lines; RecordReadVec(n) = next non-empty, non-comment LINE, exactly n    *)
(* values.  Every reader exists in two modes:                               *)
(*   "real"  : transcription of the code (end of file => default value and  *)
(*             SUCCESS; overflow test ecr > n; unparsable value in a vector *)
(*             line read as 0; counts used for allocation unchecked)        *)
(*   "ideal" : the intended reader (end of file => failure; exactly n       *)
(*             values; counts non-negative and bounded by the remaining     *)
(*             input; class level checks)                                   *)
(* A class reader R_<Class>(L, md, s) is the ordered list of primitive      *)
(* calls of <Class>::_deserialize, with the counts taken from earlier       *)
(* fields.  Writer and reader are transcribed SEPARATELY: TLC finds a       *)
(* writer/reader pair whose field lists differ (Read(Write(o)) # o).        *)
(*                                                                         *)
(* Values: integers are TLA+ integers (ITEST = undefined integer), doubles  *)
(* are represented by their token (the text written with 15 significant     *)
(* digits; "NA" = undefined).                                               *)
(***************************************************************************)
EXTENDS Integers, Sequences, FiniteSets, TLC

CONSTANTS Level,       \* 1: quick domains, 2: thorough domains
          Repaired     \* which code the "real" mode transcribes: FALSE = the tree as first examined, TRUE = the tree after
                       \* the repairs of the reading / writing defects (counts checked, failures propagated, ...)

NA    == "NA"
HASH  == "#"
ITEST == -1234567      \* undefined integer of gstlearn (written as NA)
IMAX  == 2147483647

-----------------------------------------------------------------------------
(* Generic helpers                                                          *)

Range(f) == {f[i] : i \in DOMAIN f}
RECURSIVE Flat(_)
Flat(ss) == IF ss = <<>> THEN <<>> ELSE Head(ss) \o Flat(Tail(ss))
Max2(a, b) == IF a >= b THEN a ELSE b
Min2(a, b) == IF a <= b THEN a ELSE b
RECURSIVE ProdSeq(_)
ProdSeq(q) == IF q = <<>> THEN 1 ELSE Head(q) * ProdSeq(Tail(q))
Cst(n, v) == [k \in 1..n |-> v]
IsPrefixSeq(p, q) == Len(p) <= Len(q) /\ SubSeq(q, 1, Len(p)) = p

-----------------------------------------------------------------------------
(* Token vocabulary and lexical tables                                      *)

IR == -3..1000
IntTok(i) == IF i = ITEST THEN NA ELSE ToString(i)
StrIntTab == [t \in {ToString(i) : i \in IR} |-> CHOOSE i \in IR : ToString(i) = t]
\* integer prefix of the other numeric lexemes (operator>> on an int stops at the first
\* character that cannot continue an integer)
SpecialIntTab == (NA :> ITEST) @@ ("0.5" :> 0) @@ ("0.25" :> 0) @@ ("1.5" :> 1) @@ ("2.5" :> 2)
              @@ ("1.23456789012345" :> 1) @@ ("-1.23456789012345" :> -1) @@ ("1e+300" :> 1) @@ ("1e-300" :> 1)
              @@ ("-1e+300" :> -1) @@ ("1e308" :> 1) @@ ("1e+20" :> 1) @@ ("22.5" :> 22) @@ ("*" :> 0) @@ ("5e+299" :> 5) @@ ("2.5e+299" :> 2) @@ ("0.617283945061725" :> 0) @@ ("0.308641972530863" :> 0) @@ ("-0.25" :> 0) @@ ("5e-301" :> 5) @@ ("2.5e-301" :> 2) @@ ("1e-05" :> 1) @@ ("2147483647" :> IMAX) @@ ("0.75" :> 0) @@ ("0.125" :> 0)
              @@ ("-0.5" :> 0) @@ ("2.46913578024690" :> 2) @@ ("2.4691357802469" :> 2) @@ ("12.3456789012345" :> 12)
IsNum(t) == t \in DOMAIN StrIntTab \/ t \in DOMAIN SpecialIntTab
IntOf(t) == IF t \in DOMAIN StrIntTab THEN StrIntTab[t] ELSE SpecialIntTab[t]
NegToks == {"-1", "-1.23456789012345", "-1e+300", "-0.5", "-0.25"}     \* negative numbers of the vocabulary
CommentToks == {HASH, "#a", "#b"}         \* words starting with '#'
IsComment(t) == t \in CommentToks

\* value domains of the abstract instances (doubles as tokens)
DV  == <<"0", "1", "-1", NA, "1.23456789012345", "1e+300", "1e-300">>
DVs == IF Level >= 2 THEN DV ELSE <<"0", "-1", NA, "1.23456789012345", "1e+300">>
PV  == <<"1", "2", "1.23456789012345", "1e+300", "1e-300">>     \* positive magnitudes
PVs == IF Level >= 2 THEN PV ELSE <<"2", "1.23456789012345", "1e-300">>
FV  == <<"0", "1", "-1", "1.23456789012345", "1e+300", "1e-300">>  \* defined values
FVs == IF Level >= 2 THEN FV ELSE <<"0", "-1", "1.23456789012345", "1e+300">>

-----------------------------------------------------------------------------
(* Writer primitives                                                         *)

\* Every value written carries its ROLE (field r, parallel to v): what the specification knows of the domain of the field
\*   "val"   a value without a domain of its own          "int"   an integer without a known domain
\*   "count" a number of items that the rest of the file provides (lo = hi = the count)
\*   "enum"  a code of an enumeration / a flag, valid codes lo..hi
\*   "index" a rank into a container of the file, valid ranks lo..hi
\* (the fault layer of C09 derives the boundary replacements of a token from its role)
Role(k, lo, hi) == [k |-> k, lo |-> lo, hi |-> hi]
RVal   == Role("val", 0, 0)
RInt   == Role("int", 0, 0)
RCount(n)     == IF n = ITEST THEN RInt ELSE Role("count", n, n)
REnum(lo, hi) == Role("enum", lo, hi)
RIndex(lo, hi) == Role("index", lo, hi)
RHash  == Role("hash", 0, 0)
RTag   == Role("tag", 0, 0)

Rec(titled, tok)   == [w |-> "rec", t |-> titled, v |-> <<tok>>, r |-> <<RVal>>]     \* _recordWrite(os, title, v)
RecI(titled, i)    == [Rec(titled, IntTok(i)) EXCEPT !.r = <<RInt>>]
RecN(titled, n)    == [Rec(titled, IntTok(n)) EXCEPT !.r = <<RCount(n)>>]            \* a count
RecE(titled, i, lo, hi) == [Rec(titled, IntTok(i)) EXCEPT !.r = <<REnum(lo, hi)>>]   \* a code of an enumeration, a flag
Vec(titled, toks)  == [w |-> "vec", t |-> titled, v |-> toks, r |-> [k \in DOMAIN toks |-> RVal]]   \* _recordWriteVec / _tableWrite
VecR(titled, toks, roles) == [w |-> "vec", t |-> titled, v |-> toks, r |-> roles]
VecI(titled, ints) == VecR(titled, [k \in DOMAIN ints |-> IntTok(ints[k])], [k \in DOMAIN ints |-> RInt])
VecN(titled, ints) == VecR(titled, [k \in DOMAIN ints |-> IntTok(ints[k])], [k \in DOMAIN ints |-> RCount(ints[k])])      \* counts
VecX(titled, ints, lo, hi) == VecR(titled, [k \in DOMAIN ints |-> IntTok(ints[k])], [k \in DOMAIN ints |-> RIndex(lo, hi)])  \* ranks
Com(text)          == [w |-> "com", t |-> text, v |-> <<>>, r |-> <<>>]  \* _commentWrite (text = FALSE: bare newline)
Recs(toks)         == [k \in DOMAIN toks |-> Rec(FALSE, toks[k])]    \* untitled records: stay on the current line
RecsR(toks, roles) == [k \in DOMAIN toks |-> [Rec(FALSE, toks[k]) EXCEPT !.r = <<roles[k]>>]]

\* pv: the payload laid out (the values op.v, or their roles op.r), h: the comment mark in that payload
WStepP(st, op, pv, h) ==
  CASE op.w = "rec" -> IF op.t THEN [lines |-> Append(st.lines, st.cur \o pv \o <<h>>), cur |-> <<>>]
                       ELSE [st EXCEPT !.cur = @ \o pv]
    [] op.w = "vec" -> LET s1 == IF op.t THEN [lines |-> Append(st.lines, Append(st.cur, h)), cur |-> <<>>] ELSE st
                       IN [lines |-> Append(s1.lines, s1.cur \o pv), cur |-> <<>>]
    [] op.w = "com" -> [lines |-> Append(st.lines, IF op.t THEN Append(st.cur, h) ELSE st.cur), cur |-> <<>>]
WStep(st, op) == WStepP(st, op, op.v, HASH)
RECURSIVE WRun(_, _)
WRun(st, ops) == IF ops = <<>> THEN st ELSE WRun(WStep(st, Head(ops)), Tail(ops))
\* the file written by dumpToNF: tag line, then the records
FileOf(tag, ops) == LET st == WRun([lines |-> <<tag>>, cur |-> <<>>], ops)
                    IN IF st.cur = <<>> THEN st.lines ELSE Append(st.lines, st.cur)
\* the same layout with the role of every token instead of the token
RECURSIVE RRun(_, _)
RRun(st, ops) == IF ops = <<>> THEN st ELSE RRun(WStepP(st, Head(ops), Head(ops).r, RHash), Tail(ops))
RolesOf(tag, ops) == LET st == RRun([lines |-> <<[k \in DOMAIN tag |-> RTag]>>, cur |-> <<>>], ops)
                     IN IF st.cur = <<>> THEN st.lines ELSE Append(st.lines, st.cur)

-----------------------------------------------------------------------------
(* Reader primitives.  Reader state s = [i, j, ok, ev, o]: position (line i, *)
(* token j), success so far, events (deviations of the real reader that the  *)
(* transcription predicts), fields read so far.                              *)

\* ntot: number of tokens of the file (bound of every count that the file can justify)
S0n(n) == [i |-> 1, j |-> 2, ok |-> TRUE, ev |-> {}, at |-> "", ntot |-> n, o |-> [z0 |-> 0]]
Fail(s, why) == [s EXCEPT !.ok = FALSE, !.ev = @ \cup {why}]
FailAt(s, why, f) == [s EXCEPT !.ok = FALSE, !.ev = @ \cup {why}, !.at = f]   \* f: the field being read
Res(s, o) == [ok |-> s.ok, ev |-> s.ev, at |-> s.at, o |-> IF s.ok THEN o ELSE <<>>]
ResFail(s) == [ok |-> FALSE, ev |-> s.ev, at |-> s.at, o |-> <<>>]
Ev(s, e)     == [s EXCEPT !.ev = @ \cup {e}]
Put(s, f, v) == [s EXCEPT !.o = (f :> v) @@ @]
Gd(s, f, d)  == IF f \in DOMAIN s.o THEN s.o[f] ELSE d

\* _fileOpenRead: the first word must be the class name (a name of two words can never match); "return is.good()":
\* the stream must not be at end of file already, which happens when nothing (not even a newline) follows the name.
\* nl: the file ends with a newline
HeaderOK(L, tag, nl) == /\ Len(L) >= 1 /\ Len(L[1]) >= 1 /\ Len(tag) = 1 /\ L[1][1] = tag[1]
                        /\ (nl \/ Len(L) > 1 \/ Len(L[1]) > 1)

RECURSIVE NTokOf(_)
NTokOf(L) == IF L = <<>> THEN 0 ELSE Len(Head(L)) + NTokOf(Tail(L))

RECURSIVE NextWord(_, _, _)
NextWord(L, i, j) ==
  IF i > Len(L) THEN [found |-> FALSE, i |-> i, j |-> 1, t |-> ""]
  ELSE IF j > Len(L[i]) THEN NextWord(L, i + 1, 1)
  ELSE IF IsComment(L[i][j]) THEN NextWord(L, i + 1, 1)
  ELSE [found |-> TRUE, i |-> i, j |-> j + 1, t |-> L[i][j]]

\* what the file can still provide (bounded from above by its number of tokens: cheap, and enough to tell a count
\* that the file justifies from one that it does not)
RemainingTokens(L, s) == s.ntot

\* kind "i": int, "d": double, "s": string.  Value read from one word.
WordVal(kind, t) == CASE kind = "i" -> IntOf(t) [] kind = "d" -> t [] OTHER -> t
WordOK(kind, t)  == kind = "s" \/ IsNum(t)
DefaultOf(kind)  == CASE kind = "i" -> 0 [] kind = "d" -> "0" [] OTHER -> ""

\* _recordRead<T>(is, title, val)
Rd(L, md, s, f, kind) ==
  IF ~s.ok THEN s
  ELSE LET w == NextWord(L, s.i, s.j) IN
       IF ~w.found
       THEN IF md = "real" THEN Ev(Put([s EXCEPT !.i = w.i, !.j = w.j], f, DefaultOf(kind)), "eofDefault")
            ELSE FailAt(s, "eof", f)
       ELSE IF WordOK(kind, w.t) THEN Put([s EXCEPT !.i = w.i, !.j = w.j], f, WordVal(kind, w.t))
       ELSE FailAt([s EXCEPT !.i = w.i, !.j = w.j], "badWord", f)
RdI(L, md, s, f) == Rd(L, md, s, f, "i")
RdD(L, md, s, f) == Rd(L, md, s, f, "d")
RdS(L, md, s, f) == Rd(L, md, s, f, "s")

\* a count read from the file drives a loop of reads: when it exceeds what the file can still provide, the intended
\* reader refuses; the real reader goes on (end of file => default values): beyond the bound of the model this is
\* reported as the event "loopUnbounded" (time / memory proportional to a number taken from the file)
LoopGuard(L, md, s, n) ==
  IF ~s.ok \/ n <= RemainingTokens(L, s) + 1 THEN s
  ELSE IF md = "ideal" THEN Fail(s, "badCount")
  ELSE IF n > 40 THEN FailAt(Ev(s, "loopUnbounded"), "modelBound", "loop")
  ELSE s

\* n successive _recordRead of the same kind, gathered in a sequence field f
RECURSIVE RdManyRec(_, _, _, _, _, _)
RdManyRec(L, md, s, f, kind, n) ==
  IF n <= 0 \/ ~s.ok THEN (IF f \in DOMAIN s.o THEN s ELSE Put(s, f, <<>>))
  ELSE LET s0 == IF f \in DOMAIN s.o THEN s ELSE Put(s, f, <<>>)
           r  == Rd(L, md, s0, "tmp", kind)
       IN IF r.ok THEN RdManyRec(L, md, Put(r, f, Append(s0.o[f], r.o.tmp)), f, kind, n - 1) ELSE r
RdMany(L, md, s, f, kind, n) == RdManyRec(L, md, LoopGuard(L, md, s, n), f, kind, n)

\* next non-empty, non-comment line (from the current position)
RECURSIVE FindLine(_, _, _)
FindLine(L, i, j) ==
  IF i > Len(L) THEN [found |-> FALSE, i |-> i, rest |-> <<>>]
  ELSE LET rest == SubSeq(L[i], j, Len(L[i])) IN
       IF rest # <<>> /\ ~IsComment(rest[1]) THEN [found |-> TRUE, i |-> i + 1, rest |-> rest]
       ELSE FindLine(L, i + 1, 1)
RECURSIVE UntilComment(_)
UntilComment(q) == IF q = <<>> \/ IsComment(Head(q)) THEN <<>> ELSE <<Head(q)>> \o UntilComment(Tail(q))

\* _recordReadVec<T>(is, title, vec, n) and _recordReadVecInPlace (room = free slots behind the n
\* expected ones: the in-place variant fills a larger buffer)
RdVecRoom(L, md, s, f, kind, n, room) ==
  IF ~s.ok THEN s
  ELSE IF n < 0 THEN FailAt(s, IF md = "real" /\ ~Repaired THEN "allocNegative" ELSE "badCount", f)
  ELSE IF n = 0 /\ Repaired THEN Put(s, f, <<>>)                      \* repaired: nothing to be read, nothing consumed
  ELSE LET ln   == FindLine(L, s.i, s.j)
           vals == UntilComment(ln.rest)
           cnt  == Len(vals)
           s1   == [s EXCEPT !.i = ln.i, !.j = 1]
           bad  == \E k \in DOMAIN vals : ~WordOK(kind, vals[k])
           vec  == [k \in DOMAIN vals |-> IF WordOK(kind, vals[k]) THEN WordVal(kind, vals[k]) ELSE DefaultOf(kind)]
       IN IF md = "real"
          THEN IF cnt = n THEN Put(IF bad THEN Ev(s1, "wordAsZero") ELSE s1, f, vec)
               ELSE IF cnt > n /\ room = 0 /\ ~Repaired THEN FailAt(Ev(s1, "vecOverflow"), "badVecCount", f)
               ELSE FailAt(s1, "badVecCount", f)
          ELSE IF n = 0 THEN Put(s, f, <<>>)
               ELSE IF cnt = n /\ ~bad THEN Put(s1, f, vec) ELSE FailAt(s1, "badVecCount", f)
\* _recordReadVec starts with vec.resize(nvalues)
RdVec(L, md, s, f, kind, n) ==
  IF ~s.ok \/ n < 0 THEN RdVecRoom(L, md, s, f, kind, n, 0)
  ELSE IF md = "real" /\ n > 100000 THEN FailAt(Ev(s, "allocHuge"), "badVecCount", f)
  ELSE RdVecRoom(L, md, IF md = "real" /\ n > RemainingTokens(L, s) + 1 THEN Ev(s, "allocUnbounded") ELSE s, f, kind, n, 0)

\* a count read from the file is used to size a container
Alloc(L, md, s, n) ==
  IF ~s.ok THEN s
  ELSE IF n < 0 THEN Fail(s, IF md = "real" THEN "allocNegative" ELSE "badCount")
  ELSE IF n > RemainingTokens(L, s) + 1
       THEN IF md = "real" THEN (IF n > 100000 THEN Fail(s, "allocHuge") ELSE Ev(s, "allocUnbounded")) ELSE Fail(s, "badCount")
  ELSE s
\* repaired code: a check "the count may not be negative / must be positive" placed before its use
ChkRep(md, s, cond) == IF s.ok /\ md = "real" /\ Repaired /\ ~cond THEN Fail(s, "badCount") ELSE s

\* product of counts without leaving the 32-bit integers of TLC
BigCount(a, b) == IF a < 0 \/ b < 0 THEN -1 ELSE IF a > 40000 \/ b > 40000 THEN IMAX ELSE a * b

-----------------------------------------------------------------------------
(* Locators: transcription of getLocatorName / locatorIdentify (PtrGeos.cpp) *)
(* over character sequences (TLC strings are atomic).                       *)

SREF == << <<"x">>, <<"z">>, <<"v">>, <<"f">>, <<"g">>, <<"l","o","w","e","r">>, <<"u","p","p","e","r">>, <<"p">>,
           <<"w">>, <<"c","o","d","e">>, <<"s","e","l">>, <<"d","o","m">>, <<"d","b","l","k">>, <<"a","d","i","r">>,
           <<"a","d","i","p">>, <<"s","i","z","e">>, <<"b","u">>, <<"b","d">>, <<"t","i","m","e">>,
           <<"l","a","y","e","r">>, <<"n","o","s","t","a","t">>, <<"t","a","n","g","e","n","t">>,
           <<"n","c","s","i","m","u">>, <<"f","a","c","i","e","s">>, <<"g","a","u","s","f","a","c">>, <<"d","a","t","e">>,
           <<"r","k","l","o","w">>, <<"r","k","u","p">>, <<"s","u","m">> >>
UniqueLoc == {9, 10, 11, 12, 14, 15, 16, 17, 18, 20, 26}     \* IREF = 1
\* characters of the tokens that may stand in a Locators line (others match no locator name)
LocChars == ("x1" :> <<"x","1">>) @@ ("x2" :> <<"x","2">>) @@ ("x3" :> <<"x","3">>) @@ ("z1" :> <<"z","1">>) @@ ("z2" :> <<"z","2">>)
         @@ ("v1" :> <<"v","1">>) @@ ("f1" :> <<"f","1">>) @@ ("sel" :> <<"s","e","l">>) @@ ("code" :> <<"c","o","d","e">>)
         @@ ("facies1" :> <<"f","a","c","i","e","s","1">>) @@ ("sel2" :> <<"s","e","l","2">>)
         @@ ("abc" :> <<"a","b","c">>) @@ (NA :> <<"N","A">>) @@ ("gausfac1" :> <<"g","a","u","s","f","a","c","1">>)
         @@ ("rank" :> <<"r","a","n","k">>)
DigitVal == ("0" :> 0) @@ ("1" :> 1) @@ ("2" :> 2) @@ ("3" :> 3) @@ ("4" :> 4) @@ ("5" :> 5) @@ ("6" :> 6) @@ ("7" :> 7) @@ ("8" :> 8) @@ ("9" :> 9)
AtoI(q) == IF q = <<>> THEN -1 ELSE IF Head(q) \in DOMAIN DigitVal THEN DigitVal[Head(q)] ELSE 0
\* result: [err, type (0 = unknown, else index in SREF), idx (0-based)]
LocIdentify(t) ==
  IF t \notin DOMAIN LocChars THEN [err |-> FALSE, type |-> 0, idx |-> 0]
  ELSE LET cs == LocChars[t]
           M  == {k \in DOMAIN SREF : IsPrefixSeq(SREF[k], cs)}
       IN IF M = {} THEN [err |-> FALSE, type |-> 0, idx |-> 0]
          ELSE LET k    == IF Repaired THEN CHOOSE m \in M : \A m2 \in M : Len(SREF[m]) >= Len(SREF[m2])   \* longest name
                           ELSE CHOOSE m \in M : \A m2 \in M : m <= m2                            \* first match in table order
                   inum == AtoI(SubSeq(cs, Len(SREF[k]) + 1, Len(cs)))
               IN IF k \in UniqueLoc /\ inum > 1 THEN [err |-> TRUE, type |-> 0, idx |-> 0]
                  ELSE [err |-> FALSE, type |-> k, idx |-> Max2(inum - 1, 0)]
\* token written for (type, idx) by getLocatorName, given as the abstract token of the vocabulary
LocNameTok == (<<1,0>> :> "x1") @@ (<<1,1>> :> "x2") @@ (<<1,2>> :> "x3") @@ (<<2,0>> :> "z1") @@ (<<2,1>> :> "z2") @@ (<<3,0>> :> "v1")
           @@ (<<4,0>> :> "f1") @@ (<<10,0>> :> "code") @@ (<<11,0>> :> "sel") @@ (<<24,0>> :> "facies1") @@ (<<25,0>> :> "gausfac1")
           @@ (<<5,0>> :> "g1")
LocCanon(t) == LET r == LocIdentify(t) IN
               IF r.type = 0 THEN NA ELSE IF <<r.type, r.idx>> \in DOMAIN LocNameTok THEN LocNameTok[<<r.type, r.idx>>] ELSE "loc?"

-----------------------------------------------------------------------------
(* Class Db (src/Db/Db.cpp).  o = [ncol, nech, locators, names, rows];       *)
(* a name is a sequence of words (one word, unless it contains a blank).    *)

W_DbPart(o) ==
  <<RecN(TRUE, o.ncol), RecN(TRUE, o.nech), Vec(TRUE, o.locators), Vec(TRUE, Flat(o.names)), Com(TRUE)>>
  \o [e \in 1..o.nech |-> Vec(FALSE, o.rows[e])]

RECURSIVE R_DbRows(_, _, _, _, _, _)
R_DbRows(L, md, s, e, nech, ncol) ==
  IF e > nech \/ ~s.ok THEN s
  ELSE LET r == RdVecRoom(L, md, s, "vec", "d", ncol, IF ncol > 0 THEN nech - e ELSE 0)     \* free slots behind this row in allvalues
       IN R_DbRows(L, md, IF r.ok THEN Put(r, "rows", Append(s.o.rows, r.o.vec)) ELSE r, e + 1, nech, ncol)

R_DbPart(L, md, s0) ==
  LET s1 == RdI(L, md, s0, "ncol")
      s2 == RdI(L, md, s1, "nech")
  IN IF ~s2.ok THEN s2 ELSE
  LET ncol == s2.o.ncol
      nech == s2.o.nech
      sc   == IF (md = "ideal" \/ Repaired) /\ (ncol < 0 \/ nech < 0) THEN Fail(s2, "badCount") ELSE s2
      s3   == IF ncol > 0 THEN RdVec(L, md, RdVec(L, md, sc, "locators", "s", ncol), "names", "s", ncol)
              ELSE Put(Put(sc, "locators", <<>>), "names", <<>>)
      \* "VectorDouble allvalues(nech * ncol)" is executed even when the Locators / Names lines could not be read
      \* (repaired: the allocation is made only when they have been read)
      sa   == Alloc(L, md, [s3 EXCEPT !.ok = TRUE], BigCount(nech, ncol))
      s4   == IF s3.ok THEN sa ELSE IF Repaired THEN s3 ELSE [sa EXCEPT !.ok = FALSE, !.at = s3.at]
      s5   == R_DbRows(L, md, Put(LoopGuard(L, md, s4, nech), "rows", <<>>), 1, nech, ncol)
  IN IF ~s5.ok THEN s5 ELSE
     LET locs == s5.o.locators
         bad  == \E k \in DOMAIN locs : LocIdentify(locs[k]).err
     IN IF bad
        THEN IF md = "real" /\ ~Repaired THEN Ev(Put(Put(Put(Put(Put(s5, "ncol", 0), "nech", 0), "locators", <<>>), "names", <<>>), "rows", <<>>), "uninitReturn")
             ELSE Fail(s5, "badLocator")
        ELSE Put(Put(s5, "locators", [k \in DOMAIN locs |-> LocCanon(locs[k])]),
                 "names", [k \in DOMAIN s5.o.names |-> <<s5.o.names[k]>>])

DbOf(s) == [ncol |-> s.o.ncol, nech |-> s.o.nech, locators |-> s.o.locators, names |-> s.o.names, rows |-> s.o.rows]
W_Db(o) == W_DbPart(o)
R_Db(L, md, s) == LET r == R_DbPart(L, md, s) IN Res(r, DbOf(r))

\* name / locator kinds: "plain", or one of the kinds that the transcription shows not to survive
\* (name with a blank, name starting with '#', locator whose name has another locator name as prefix)
LocPatterns(n, lk) ==
  IF lk = "prefix" THEN (CASE n = 1 -> << <<"facies1">>, <<"gausfac1">> >> [] OTHER -> << <<"z1", "gausfac1">>, <<"facies1", "x1">> >>)
  ELSE CASE n = 0 -> << <<>> >>
    [] n = 1 -> IF Level >= 2 THEN << <<NA>>, <<"x1">>, <<"z1">>, <<"sel">>, <<"code">>, <<"v1">> >>
                ELSE << <<NA>>, <<"z1">>, <<"sel">> >>
    [] n = 2 -> IF Level >= 2 THEN << <<NA, NA>>, <<"x1", "x2">>, <<"x1", "z1">>, <<"z1", "z2">>, <<"z2", "z1">>, <<NA, "v1">>, <<"sel", "z1">>, <<"f1", "code">> >>
                ELSE << <<NA, NA>>, <<"x1", "z1">>, <<"z2", "z1">>, <<"sel", "f1">> >>
    [] OTHER -> << <<"x1", "x2", "z1">>, <<NA, "z1", NA>>, <<"x1", "x2", "x3">> >>
NamePatterns(n, nk) ==
  IF nk = "blank" THEN (CASE n = 1 -> << << <<"a", "b">> >> >> [] OTHER -> << << <<"a", "b">>, <<"c">> >>, << <<"c">>, <<"a", "b">> >> >>)
  ELSE IF nk = "hash" THEN (CASE n = 1 -> << << <<"#a">> >> >> [] OTHER -> << << <<"a">>, <<"#b">> >>, << <<"#a">>, <<"b">> >> >>)
  ELSE CASE n = 0 -> << <<>> >>
    [] n = 1 -> << << <<"a">> >>, << <<"rank">> >>, << <<"z.1">> >> >>
    [] n = 2 -> << << <<"a">>, <<"b">> >>, << <<"b">>, <<"a">> >>, << <<"x.1">>, <<"x.2">> >> >>
    [] OTHER -> << << <<"a">>, <<"b">>, <<"c">> >>, << <<"x.1">>, <<"x.2">>, <<"z.1">> >> >>

DbSt(nc, ne, nk, lk) == [ncol |-> nc, nech |-> ne, nk |-> nk, lk |-> lk]
DbStructs == << DbSt(0, 0, "plain", "plain"), DbSt(0, 2, "plain", "plain"), DbSt(1, 1, "plain", "plain"), DbSt(1, 2, "plain", "plain"),
                DbSt(2, 1, "plain", "plain"), DbSt(2, 2, "plain", "plain"),
                DbSt(1, 1, "blank", "plain"), DbSt(2, 1, "hash", "plain"), DbSt(1, 2, "plain", "prefix") >> \o
             (IF Level >= 2 THEN << DbSt(3, 1, "plain", "plain"), DbSt(1, 3, "plain", "plain"), DbSt(2, 2, "blank", "plain"),
                                    DbSt(1, 1, "hash", "plain"), DbSt(2, 1, "plain", "prefix") >> ELSE <<>>)
DbDoms(st) == <<LocPatterns(st.ncol, st.lk), NamePatterns(st.ncol, st.nk)>> \o Cst(st.ncol * st.nech, DVs)
DbBuild(st, v) == [ncol |-> st.ncol, nech |-> st.nech, locators |-> v[1], names |-> v[2],
                   rows |-> [e \in 1..st.nech |-> [c \in 1..st.ncol |-> v[2 + (e - 1) * st.ncol + c]]]]

-----------------------------------------------------------------------------
(* Class Table (src/Matrix/Table.cpp).  o = [ncols, nrows, vals (by row)]    *)

W_Table(o) == <<RecN(TRUE, o.ncols), RecN(TRUE, o.nrows)>>
              \o Flat([r \in 1..o.nrows |-> Recs([c \in 1..o.ncols |-> o.vals[(r - 1) * o.ncols + c]]) \o <<Com(FALSE)>>])
R_Table(L, md, s0) ==
  LET s1 == RdI(L, md, s0, "ncols")
      s2 == RdI(L, md, s1, "nrows")
  IN IF ~s2.ok THEN ResFail(s2) ELSE
  LET n  == BigCount(s2.o.nrows, s2.o.ncols)
      s3 == Alloc(L, md, IF (md = "ideal" \/ Repaired) /\ (s2.o.nrows < 0 \/ s2.o.ncols < 0) THEN Fail(s2, "badCount") ELSE s2, n)
      s4 == IF s3.ok /\ s2.o.nrows > 0 /\ s2.o.ncols > 0 THEN RdMany(L, md, s3, "vals", "d", n) ELSE Put(s3, "vals", <<>>)
  IN Res(s4, [ncols |-> s4.o.ncols, nrows |-> s4.o.nrows, vals |-> s4.o.vals])
TableStructs == << [nrows |-> 0, ncols |-> 0], [nrows |-> 1, ncols |-> 1], [nrows |-> 1, ncols |-> 2], [nrows |-> 2, ncols |-> 1],
                   [nrows |-> 2, ncols |-> 2], [nrows |-> 0, ncols |-> 2], [nrows |-> 2, ncols |-> 0] >> \o
                (IF Level >= 2 THEN << [nrows |-> 3, ncols |-> 2], [nrows |-> 2, ncols |-> 3] >> ELSE <<>>)
TableDoms(st) == Cst(st.nrows * st.ncols, DV)
TableBuild(st, v) == [ncols |-> st.ncols, nrows |-> st.nrows, vals |-> v]

-----------------------------------------------------------------------------
(* Class DbGrid (src/Db/DbGrid.cpp): grid header + Db part.                  *)
(* o = [ndim, nx, x0, dx, angles] + the Db fields                           *)

W_DbGrid(o) ==
  <<RecN(TRUE, o.ndim), Com(TRUE)>>
  \o Flat([d \in 1..o.ndim |-> <<RecN(FALSE, o.nx[d]), Rec(FALSE, o.x0[d]), Rec(FALSE, o.dx[d]), Rec(FALSE, o.angles[d]), Com(FALSE)>>])
  \o W_DbPart(o)

RECURSIVE R_GridDims(_, _, _, _, _)
R_GridDims(L, md, s, d, ndim) ==
  IF d > ndim \/ ~s.ok THEN s
  ELSE LET a == RdI(L, md, s, "t1")
           b == RdD(L, md, a, "t2")
           c == RdD(L, md, b, "t3")
           e == RdD(L, md, c, "t4")
       IN IF ~e.ok THEN e
          ELSE R_GridDims(L, md, Put(Put(Put(Put(e, "nx", Append(s.o.nx, e.o.t1)), "x0", Append(s.o.x0, e.o.t2)),
                                         "dx", Append(s.o.dx, e.o.t3)), "angles", Append(s.o.angles, e.o.t4)), d + 1, ndim)

R_DbGrid(L, md, s0) ==
  LET s1 == RdI(L, md, s0, "ndim")
      nd == Gd(s1, "ndim", 0)
      s2 == Alloc(L, md, ChkRep(md, s1, nd > 0), nd)                  \* nx.resize(ndim) ...
      s3 == R_GridDims(L, md, Put(Put(Put(Put(LoopGuard(L, md, s2, nd), "nx", <<>>), "x0", <<>>), "dx", <<>>), "angles", <<>>), 1, nd)
  IN IF ~s2.ok THEN ResFail(s2) ELSE
  LET ntot == IF \E d \in DOMAIN s3.o.nx : s3.o.nx[d] < 0 \/ s3.o.nx[d] > 40000 THEN -1 ELSE ProdSeq(s3.o.nx)
      s4 == IF md = "ideal" /\ s3.ok /\ ntot < 0 THEN Fail(s3, "badCount") ELSE s3
      db == R_DbPart(L, md, s4)
      grid(s) == [ndim |-> nd, nx |-> s.o.nx, x0 |-> s.o.x0, dx |-> s.o.dx, angles |-> s.o.angles]
  IN IF md = "ideal"
     THEN IF db.ok /\ db.o.nech = ntot THEN Res(db, grid(db) @@ DbOf(db))
          ELSE ResFail(IF db.ok THEN FailAt(db, "gridSizeMismatch", "nech") ELSE db)
     ELSE IF Repaired
     THEN \* repaired: dimension > 0, grid accepted by Grid::resetFromVector (no negative count or mesh), result of the Db
          \* part used, number of samples of the file = number of nodes of the grid
          LET s5  == IF s3.ok /\ (nd <= 0 \/ (\E d \in DOMAIN s3.o.nx : s3.o.nx[d] < 0) \/ (\E d \in DOMAIN s3.o.dx : s3.o.dx[d] \in NegToks))
                     THEN Fail(s3, "badCount")
                     \* (an absurd number of nodes is still used: product of the counts, size of the table)
                     ELSE IF s3.ok /\ (\E d \in DOMAIN s3.o.nx : s3.o.nx[d] > 40000) THEN Ev(s3, "allocHuge") ELSE s3
              db2 == R_DbPart(L, md, s5)
          IN IF db2.ok /\ db2.o.nech = ntot THEN Res(db2, grid(db2) @@ DbOf(db2))
             ELSE ResFail(IF db2.ok THEN FailAt(db2, "badCount", "nech") ELSE db2)
     ELSE \* the result of Db::_deserialize is dropped ("ret && Db::_deserialize(is, verbose);")
          IF ~s3.ok THEN ResFail(s3)
          ELSE IF db.ok
               THEN Res(IF db.o.nech # ntot /\ "uninitReturn" \notin db.ev THEN Ev(db, "gridSizeMismatch") ELSE db, grid(db) @@ DbOf(db))
               ELSE [ok |-> TRUE, ev |-> db.ev \cup {"dbPartIgnored"}, at |-> db.at,
                     o |-> grid(s3) @@ [ncol |-> 0, nech |-> 0, locators |-> <<>>, names |-> <<>>, rows |-> <<>>]]

NxPatterns == << <<1>>, <<2>>, <<3>>, <<1, 1>>, <<2, 1>>, <<1, 2>>, <<2, 2>>, <<1, 1, 1>>, <<2, 1, 1>>, <<1, 1, 2>> >>
AnglePatterns(nd) == CASE nd = 1 -> << <<"0">> >>
                       [] nd = 2 -> << <<"0", "0">>, <<"90", "0">>, <<"30", "0">> >>
                       [] OTHER  -> << <<"0", "0", "0">>, <<"90", "0", "0">>, <<"30", "0", "0">> >>
DbGridStructs == Flat([p \in DOMAIN NxPatterns |->
                   [c \in 1..(IF ProdSeq(NxPatterns[p]) > 2 THEN 2 ELSE 3) |-> [nx |-> NxPatterns[p], ncol |-> c - 1, nk |-> "plain", lk |-> "plain"]]])
                 \o << [nx |-> <<2>>, ncol |-> 1, nk |-> "blank", lk |-> "plain"], [nx |-> <<1, 2>>, ncol |-> 2, nk |-> "hash", lk |-> "plain"],
                       [nx |-> <<2, 1>>, ncol |-> 1, nk |-> "plain", lk |-> "prefix"] >>
X0V == <<"0", "-1", "1.23456789012345", "1e+300">>
DXV == <<"1", "0.5", "1.23456789012345", "1e-300">>
DbGridDoms(st) == LET nd == Len(st.nx) IN
  Cst(nd, X0V) \o Cst(nd, DXV) \o <<AnglePatterns(nd), LocPatterns(st.ncol, st.lk), NamePatterns(st.ncol, st.nk)>> \o Cst(st.ncol * ProdSeq(st.nx), DVs)
DbGridBuild(st, v) == LET nd == Len(st.nx)  ne == ProdSeq(st.nx)  b == 2 * nd + 3 IN
  [ndim |-> nd, nx |-> st.nx, x0 |-> SubSeq(v, 1, nd), dx |-> SubSeq(v, nd + 1, 2 * nd), angles |-> v[2 * nd + 1],
   ncol |-> st.ncol, nech |-> ne, locators |-> v[2 * nd + 2], names |-> v[2 * nd + 3],
   rows |-> [e \in 1..ne |-> [c \in 1..st.ncol |-> v[b + (e - 1) * st.ncol + c]]]]

-----------------------------------------------------------------------------
(* Class Model (src/Model/Model.cpp)                                         *)
(* o = [ndim, nvar, field, covs, drifts, means, covar0];                     *)
(* cov = [type, range, param, aniso, coeffs, rot, rotmat, sill]              *)

\* ECov: UNKNOWN = -2, FUNCTION = -1 (neither can stand in a file), then the 31 basic structures 0..30
CovTypeMin == 0
CovTypeMax == 30
CovTypes   == CovTypeMin..CovTypeMax
W_Model(o) ==
  <<RecN(FALSE, o.ndim), RecN(FALSE, o.nvar), Rec(TRUE, o.field), RecN(TRUE, Len(o.covs)), RecN(TRUE, Len(o.drifts))>>
  \o Flat([c \in DOMAIN o.covs |-> LET cv == o.covs[c] IN
        <<RecE(FALSE, cv.type, CovTypeMin, CovTypeMax), Rec(FALSE, cv.range), Rec(TRUE, cv.param), RecE(TRUE, cv.aniso, 0, 1)>>
        \o (IF cv.aniso = 0 THEN <<>>
            ELSE Recs(cv.coeffs) \o <<Com(TRUE), RecE(TRUE, cv.rot, 0, 1)>>
                 \o (IF cv.rot = 0 THEN <<>> ELSE Recs(cv.rotmat) \o <<Com(TRUE)>>))])
  \o [d \in DOMAIN o.drifts |-> Rec(TRUE, o.drifts[d])]
  \o (IF Len(o.drifts) <= 0 THEN [v \in 1..o.nvar |-> Rec(TRUE, o.means[v])] ELSE <<>>)
  \o Flat([c \in DOMAIN o.covs |-> Recs(o.covs[c].sill) \o <<Com(TRUE)>>])
  \o Recs(o.covar0) \o <<Com(TRUE)>>

DriftNames == {"Universality_Condition", "Drift:x1", "Drift:x2", "Drift:x3"}

\* the part of a basic structure read before the sills
R_CovHead(L, md, s, ndim) ==
  LET a == RdI(L, md, s, "type")
      b == RdD(L, md, a, "range")
      c == RdD(L, md, b, "param")
      d == RdI(L, md, c, "aniso")
  IN IF ~d.ok THEN d ELSE
  LET e == IF d.o.aniso # 0 THEN RdMany(L, md, Alloc(L, md, Put(d, "coeffs", <<>>), ndim), "coeffs", "d", ndim) ELSE Put(d, "coeffs", <<>>)
      f == IF d.o.aniso # 0 THEN RdI(L, md, e, "rot") ELSE Put(e, "rot", 0)
  IN IF ~f.ok THEN f ELSE
  LET g == IF f.o.rot # 0 THEN RdMany(L, md, Alloc(L, md, Put(f, "rotmat", <<>>), BigCount(ndim, ndim)), "rotmat", "d", ndim * ndim)
           ELSE Put(f, "rotmat", <<>>)
  IN IF ~g.ok THEN g
     ELSE IF g.o.type \notin CovTypes THEN (IF md = "real" /\ ~Repaired THEN Ev(g, "badEnum") ELSE Fail(g, "badEnum"))
     ELSE g

RECURSIVE R_Covs(_, _, _, _, _, _)
R_Covs(L, md, s, k, n, ndim) ==
  IF k > n \/ ~s.ok THEN s
  ELSE LET r == R_CovHead(L, md, s, ndim) IN
       IF ~r.ok THEN r
       ELSE R_Covs(L, md, Put(r, "covs", Append(s.o.covs,
                 [type |-> r.o.type, range |-> r.o.range, param |-> r.o.param, aniso |-> IF r.o.aniso # 0 THEN 1 ELSE 0,
                  coeffs |-> r.o.coeffs, rot |-> IF r.o.rot # 0 THEN 1 ELSE 0, rotmat |-> r.o.rotmat, sill |-> <<>>])), k + 1, n, ndim)

RECURSIVE R_Drifts(_, _, _, _, _)
R_Drifts(L, md, s, k, n) ==
  IF k > n \/ ~s.ok THEN s
  ELSE LET r == RdS(L, md, s, "tmp") IN
       IF ~r.ok THEN r
       ELSE IF r.o.tmp \notin DriftNames THEN (IF md = "real" THEN Fail(r, "badDrift") ELSE Fail(r, "badDrift"))
       ELSE R_Drifts(L, md, Put(r, "drifts", Append(s.o.drifts, r.o.tmp)), k + 1, n)

RECURSIVE R_Sills(_, _, _, _, _, _)
R_Sills(L, md, s, k, n, nvar) ==
  IF k > n \/ ~s.ok THEN s
  ELSE LET r == RdMany(L, md, Put(s, "tmpv", <<>>), "tmpv", "d", nvar * nvar) IN
       IF ~r.ok THEN r
       ELSE R_Sills(L, md, Put(r, "covs", [s.o.covs EXCEPT ![k].sill = r.o.tmpv]), k + 1, n, nvar)

R_Model(L, md, s0) ==
  LET s1 == RdI(L, md, s0, "ndim")
      s2 == RdI(L, md, s1, "nvar")
      s3 == RdD(L, md, s2, "field")
      s4 == RdI(L, md, s3, "ncova")
      s5 == RdI(L, md, s4, "nbfl")
  IN IF ~s5.ok THEN ResFail(s5) ELSE
  LET ndim == s5.o.ndim
      nvar == s5.o.nvar
      sa == IF md = "ideal" /\ (ndim < 1 \/ nvar < 1 \/ ndim > 3 \/ s5.o.ncova < 0 \/ s5.o.nbfl < 0) THEN Fail(s5, "badCount") ELSE s5
      \* CovContext(nvar, ndim): a space of dimension < 1 or no variable is accepted by the real reader (the object is unusable)
      sd == IF md = "real" /\ (ndim < 1 \/ nvar < 1) THEN (IF Repaired THEN Fail(sa, "badCount") ELSE Ev(sa, "badDims")) ELSE sa
      sb == Alloc(L, md, Alloc(L, md, sd, BigCount(nvar, nvar)), ndim)
      s6 == R_Covs(L, md, Put(LoopGuard(L, md, sb, s5.o.ncova), "covs", <<>>), 1, IF sb.ok THEN s5.o.ncova ELSE 0, ndim)
      s7 == R_Drifts(L, md, Put(LoopGuard(L, md, s6, s5.o.nbfl), "drifts", <<>>), 1, IF s6.ok THEN s5.o.nbfl ELSE 0)
      s8 == IF s7.ok /\ s5.o.nbfl <= 0 THEN RdMany(L, md, Put(s7, "means", <<>>), "means", "d", nvar) ELSE Put(s7, "means", <<>>)
      s9 == R_Sills(L, md, s8, 1, IF s8.ok THEN s5.o.ncova ELSE 0, nvar)
      sA == RdMany(L, md, Put(s9, "covar0", <<>>), "covar0", "d", IF s9.ok THEN nvar * nvar ELSE 0)
  IN Res(sA, [ndim |-> ndim, nvar |-> nvar, field |-> sA.o.field, covs |-> sA.o.covs, drifts |-> sA.o.drifts,
                           means |-> sA.o.means, covar0 |-> sA.o.covar0])

\* Rotation matrix tokens (rotation about the first axis by a right angle), in the order of the file
RotToks(nd, ang) ==
  CASE nd = 2 /\ ang = "90" -> <<"0", "1", "-1", "0">>
    [] nd = 3 /\ ang = "90" -> <<"0", "1", "0", "-1", "0", "0", "0", "0", "1">>
    [] nd = 1 -> <<"1">>
    [] nd = 2 -> <<"1", "0", "0", "1">>
    [] OTHER  -> <<"1", "0", "0", "0", "1", "0", "0", "0", "1">>
\* anisotropy ratios: largest = 1, the others powers of two (products with the range are exact)
CoeffPatterns(nd) == CASE nd = 1 -> << <<"1">> >>
                       [] nd = 2 -> << <<"1", "0.5">>, <<"0.25", "1">> >>
                       [] OTHER  -> << <<"1", "0.5", "0.25">>, <<"0.5", "1", "1">> >>
\* structure kinds: [type, hasParam, aniso, rot]
CovKinds == << [type |-> 0, par |-> FALSE, aniso |-> 0, rot |-> 0],     \* nugget
               [type |-> 1, par |-> FALSE, aniso |-> 0, rot |-> 0],     \* exponential, isotropic
               [type |-> 2, par |-> FALSE, aniso |-> 1, rot |-> 0],     \* spherical, anisotropic
               [type |-> 3, par |-> FALSE, aniso |-> 1, rot |-> 1],     \* gaussian, anisotropic + rotated
               [type |-> 7, par |-> TRUE,  aniso |-> 0, rot |-> 0],     \* Matern (third parameter)
               [type |-> 4, par |-> FALSE, aniso |-> 1, rot |-> 1] >>   \* cubic, anisotropic + rotated
CovLists == << <<>>, <<1>>, <<2>>, <<3>>, <<4>>, <<5>>, <<6>>, <<1, 2>>, <<3, 1>>, <<2, 4>>, <<5, 6>>, <<1, 3, 4>> >>
SillPatterns(nvar) == IF nvar = 1 THEN << <<"1">>, <<"0">>, <<"1.23456789012345">>, <<"1e+300">>, <<"1e-300">>, <<"2">> >>
                      ELSE << <<"1", "0", "0", "1">>, <<"2", "1", "1", "2">>, <<"2", "-1", "-1", "1.23456789012345">>, <<"1e+300", "0", "0", "1e-300">> >>
ModelStructs == Flat([nd \in 1..3 |-> Flat([nv \in 1..2 |-> Flat([cl \in DOMAIN CovLists |->
                   [dr \in 1..(IF nd = 2 THEN 3 ELSE 2) |-> [ndim |-> nd, nvar |-> nv, covs |-> CovLists[cl], drift |-> dr - 2]]])])])
ValidModelStruct(st) == \A k \in DOMAIN st.covs : CovKinds[st.covs[k]].aniso = 0 \/ st.ndim >= 2
ModelStructsV == SelectSeq(ModelStructs, ValidModelStruct)
RangeV == <<"1", "2", "1.23456789012345", "1e+20", "1e-05">>     \* (the API refuses ranges below 1e-20 and above 1e30)
ParamV == <<"1", "0.5", "2">>
CovDoms(k, nd, nv) == LET kd == CovKinds[k] IN
  <<IF kd.type = 0 THEN <<"0">> ELSE RangeV, IF kd.par THEN ParamV ELSE <<"0">>,
    IF kd.aniso = 1 THEN CoeffPatterns(nd) ELSE << <<>> >>, SillPatterns(nv)>>
ModelDoms(st) == << <<NA, "10">> >> \o Flat([k \in DOMAIN st.covs |-> CovDoms(st.covs[k], st.ndim, st.nvar)])
                 \o (IF st.drift < 0 THEN Cst(st.nvar, FVs) ELSE <<>>)
                 \o << IF st.nvar = 1 THEN << <<"1">>, <<"2">> >> ELSE << <<"1", "0", "0", "1">>, <<"2", "0.5", "0.5", "1">> >> >>
DriftList(order, nd) == IF order < 0 THEN <<>> ELSE IF order = 0 THEN <<"Universality_Condition">>
                        ELSE <<"Universality_Condition">> \o [d \in 1..nd |-> CASE d = 1 -> "Drift:x1" [] d = 2 -> "Drift:x2" [] OTHER -> "Drift:x3"]
ModelBuild(st, v) == LET nc == Len(st.covs) IN
  [ndim |-> st.ndim, nvar |-> st.nvar, field |-> v[1],
   covs |-> [k \in 1..nc |-> LET kd == CovKinds[st.covs[k]]  b == 1 + 4 * (k - 1) IN
              [type |-> kd.type, range |-> v[b + 1], param |-> v[b + 2], aniso |-> kd.aniso, coeffs |-> v[b + 3],
               rot |-> kd.rot, rotmat |-> IF kd.rot = 1 THEN RotToks(st.ndim, "90") ELSE <<>>, sill |-> v[b + 4]]],
   drifts |-> DriftList(st.drift, st.ndim),
   means |-> IF st.drift < 0 THEN SubSeq(v, 2 + 4 * nc, 1 + 4 * nc + st.nvar) ELSE <<>>,
   covar0 |-> v[Len(v)]]

-----------------------------------------------------------------------------
(* Neighbourhoods (src/Neigh)                                                *)

W_NeighUnique(o) == <<RecN(TRUE, o.ndim)>>
\* ANeigh::_deserialize: setNDim(ndim) builds a space of the dimension read (any value is accepted by the real reader)
R_ANeigh(L, md, s0) == LET s1 == RdI(L, md, s0, "ndim") IN
                       IF ~s1.ok THEN s1
                       ELSE IF md = "ideal" THEN (IF s1.o.ndim < 1 \/ s1.o.ndim > 3 THEN Fail(s1, "badCount") ELSE s1)
                       ELSE IF s1.o.ndim < 1 THEN (IF Repaired THEN Fail(s1, "badCount") ELSE Ev(s1, "badDims"))
                       ELSE IF s1.o.ndim > 100000 THEN Fail(s1, "allocHuge")
                       ELSE s1
R_NeighUnique(L, md, s0) == LET s1 == R_ANeigh(L, md, s0) IN
  Res(s1, [ndim |-> s1.o.ndim])

W_NeighBench(o) == <<RecN(TRUE, o.ndim), Rec(TRUE, o.width)>>
R_NeighBench(L, md, s0) == LET s2 == RdD(L, md, R_ANeigh(L, md, s0), "width") IN
  Res(s2, [ndim |-> s2.o.ndim, width |-> s2.o.width])

W_NeighCell(o) == <<RecN(TRUE, o.ndim), RecI(FALSE, o.nmini)>>
R_NeighCell(L, md, s0) == LET s2 == RdI(L, md, R_ANeigh(L, md, s0), "nmini") IN
  Res(s2, [ndim |-> s2.o.ndim, nmini |-> s2.o.nmini])

W_NeighImage(o) == <<RecN(TRUE, o.ndim), RecI(FALSE, o.skip)>> \o Recs([d \in 1..o.ndim |-> IntTok(o.radius[d])]) \o <<Com(TRUE)>>
R_NeighImage(L, md, s0) ==
  LET s1 == R_ANeigh(L, md, s0)
      s2 == RdI(L, md, s1, "skip")
      s3 == RdMany(L, md, Put(s2, "radius", <<>>), "radius", "i", IF s2.ok THEN s2.o.ndim ELSE 0)
  IN \* createFromNF starts from "new NeighImage()": _imageRadius is empty and is indexed without being resized
     IF md = "real" /\ ~Repaired /\ s2.ok /\ s2.o.ndim > 0 THEN ResFail(FailAt(Ev(s3, "writeUnsized"), "crashPredicted", "radius")) ELSE
     Res(s3, [ndim |-> s3.o.ndim, skip |-> s3.o.skip, radius |-> s3.o.radius])

\* products of anisotropy ratios by the radius (the real reader rescales the ratios)
MulTab == (<<"1", "2">> :> "2") @@ (<<"0.5", "2">> :> "1") @@ (<<"0.25", "2">> :> "0.5")
       @@ (<<"1", "5">> :> "5") @@ (<<"0.5", "5">> :> "2.5") @@ (<<"0.25", "5">> :> "1.25")
       @@ (<<"1", "1.23456789012345">> :> "1.23456789012345") @@ (<<"0.5", "1.23456789012345">> :> "0.617283945061725")
       @@ (<<"0.25", "1.23456789012345">> :> "0.308641972530862")
Mul(a, r) == IF r = "1" THEN a ELSE IF <<a, r>> \in DOMAIN MulTab THEN MulTab[<<a, r>>] ELSE "prod?"

W_NeighMoving(o) ==
  <<RecN(TRUE, o.ndim), RecE(TRUE, o.sector, 0, 1), RecI(FALSE, o.nmini), RecI(FALSE, o.nmaxi), RecI(FALSE, o.nsect), RecI(FALSE, o.nsmax),
    Com(TRUE), Rec(TRUE, o.radius), RecE(TRUE, o.aniso, 0, 1)>>
  \o (IF o.aniso = 0 THEN <<>>
      ELSE Recs(o.coeffs) \o <<Com(TRUE), RecE(TRUE, o.rot, 0, 1)>>
           \o (IF o.rot = 0 THEN <<>> ELSE Recs(o.rotmat) \o <<Com(TRUE)>>))
R_NeighMoving(L, md, s0) ==
  LET s1 == R_ANeigh(L, md, s0) IN
  IF ~s1.ok THEN ResFail(s1) ELSE
  LET ndim == s1.o.ndim
      a == RdI(L, md, s1, "sector")
      b == RdI(L, md, a, "nmini")
      c == RdI(L, md, b, "nmaxi")
      d == RdI(L, md, c, "nsect")
      e == RdI(L, md, d, "nsmax")
      f == RdD(L, md, e, "radius")
      g == RdI(L, md, f, "aniso")
      an == Gd(g, "aniso", 0) # 0
      h == IF an THEN RdMany(L, md, Alloc(L, md, Put(g, "coeffs", <<>>), ndim), "coeffs", "d", ndim) ELSE Put(g, "coeffs", <<>>)
      i == IF an THEN RdI(L, md, h, "rot") ELSE Put(h, "rot", 0)
      ro == Gd(i, "rot", 0) # 0
      j == IF an /\ ro THEN RdMany(L, md, Alloc(L, md, Put(i, "rotmat", <<>>), BigCount(ndim, ndim)), "rotmat", "d", ndim * ndim)
           ELSE Put(i, "rotmat", <<>>)
  IN IF ~j.ok THEN ResFail(j)
     ELSE IF md = "ideal"
     THEN [ok |-> TRUE, ev |-> j.ev, at |-> j.at,
           o |-> [ndim |-> ndim, sector |-> j.o.sector, nmini |-> j.o.nmini, nmaxi |-> j.o.nmaxi, nsect |-> j.o.nsect, nsmax |-> j.o.nsmax,
                  radius |-> j.o.radius, aniso |-> IF an THEN 1 ELSE 0, coeffs |-> j.o.coeffs, rot |-> IF ro THEN 1 ELSE 0, rotmat |-> j.o.rotmat]]
     ELSE \* what NeighMoving::_deserialize makes of the fields: ratios multiplied by the radius, the sector flag derived
          \* from nsect, BiTargetCheckDistance::create(dmax, coeffs) + setAnisoRotMat: the rotation FLAG is not restored
          \* setNSect(getFlagSector() ? MAX(_nSect, 1) : 1) with getFlagSector() = ndim > 1 /\ _nSect > 1
          LET nsect == IF ndim > 1 /\ j.o.nsect > 1 THEN j.o.nsect ELSE 1 IN
          [ok |-> TRUE, ev |-> j.ev, at |-> j.at,
           o |-> [ndim |-> ndim, sector |-> IF nsect > 1 THEN 1 ELSE 0, nmini |-> j.o.nmini, nmaxi |-> j.o.nmaxi, nsect |-> nsect, nsmax |-> j.o.nsmax,
                  radius |-> j.o.radius, aniso |-> IF an THEN 1 ELSE 0,
                  \* (repaired: the ratios are kept as read, the rotation flag is set with the rotation matrix)
                  coeffs |-> IF j.o.radius = NA \/ Repaired THEN j.o.coeffs ELSE [k \in DOMAIN j.o.coeffs |-> Mul(j.o.coeffs[k], j.o.radius)],
                  rot |-> IF Repaired /\ an /\ ro THEN 1 ELSE 0, rotmat |-> IF Repaired /\ an /\ ro THEN j.o.rotmat ELSE <<>>]]

NeighStructs == <<[ndim |-> 1], [ndim |-> 2], [ndim |-> 3]>>
NeighMovingStructs == Flat([nd \in 1..3 |-> [k \in 1..(IF nd = 1 THEN 2 ELSE 3) |-> [ndim |-> nd, aniso |-> IF k >= 2 THEN 1 ELSE 0, rot |-> IF k = 3 THEN 1 ELSE 0]]])
NeighMovingDoms(st) == << <<1, 2>>, <<1, 5, 1000>>, IF st.ndim = 1 THEN <<1>> ELSE <<1, 4>>, <<ITEST, 2>>, <<"1", "2", "5", "1.23456789012345", NA>> >>
                       \o (IF st.aniso = 1 THEN <<CoeffPatterns(st.ndim)>> ELSE <<>>)
NeighMovingBuild(st, v) ==
  [ndim |-> st.ndim, sector |-> IF st.ndim > 1 /\ v[3] > 1 THEN 1 ELSE 0, nmini |-> v[1], nmaxi |-> v[2], nsect |-> v[3], nsmax |-> v[4], radius |-> v[5],
   aniso |-> st.aniso, coeffs |-> IF st.aniso = 1 THEN v[6] ELSE <<>>, rot |-> st.rot,
   rotmat |-> IF st.rot = 1 THEN RotToks(st.ndim, "90") ELSE <<>>]

-----------------------------------------------------------------------------
(* Class Vario (src/Variogram/Vario.cpp)                                     *)
(* o = [ndim, nvar, scale, names, vars, dirs];                               *)
(* dir = [regular, npas, optcode, tolcode, dpas, toldis, grid, tolang, codir, grincr, vals]  *)
(* vals = sw, hh, gg of every lag / pair of variables, in file order          *)

DirSize(npas, nvar) == IF npas < 0 \/ npas > 40000 \/ nvar < 0 \/ nvar > 1000 THEN -1 ELSE npas * ((nvar * (nvar + 1)) \div 2)
W_Vario(o) ==
  <<RecN(TRUE, o.ndim), RecN(TRUE, o.nvar), RecN(TRUE, Len(o.dirs)), Rec(TRUE, o.scale), RecE(TRUE, 2, 0, 2), Com(TRUE)>>
  \o Recs(o.names) \o <<Com(FALSE), Com(TRUE)>>
  \o Flat([iv \in 1..o.nvar |-> Recs(SubSeq(o.vars, (iv - 1) * o.nvar + 1, iv * o.nvar)) \o <<Com(FALSE)>>])
  \o Flat([d \in DOMAIN o.dirs |-> LET dr == o.dirs[d] IN
        <<Com(TRUE), RecE(TRUE, dr.regular, 0, 1), RecN(TRUE, dr.npas), RecE(FALSE, dr.optcode, 0, 2), Rec(TRUE, dr.tolcode), Rec(TRUE, dr.dpas),
          Rec(TRUE, dr.toldis), RecE(TRUE, dr.grid, 0, 1)>>
        \o (IF dr.grid = 0 THEN <<Rec(TRUE, dr.tolang)>> \o Recs(dr.codir) \o <<Com(TRUE)>>
            ELSE Recs([k \in DOMAIN dr.grincr |-> IntTok(dr.grincr[k])]) \o <<Com(TRUE)>> \o Recs(dr.codir) \o <<Com(TRUE)>>)
        \o <<Com(TRUE)>>
        \* "value = FFFF(getSwByIndex(idir, i)) ? 0. : getSwByIndex(idir, i)": undefined results are written as 0
        \o Flat([i \in 1..(Len(dr.vals) \div 3) |->
                  Recs([k \in 1..3 |-> IF dr.vals[3 * i - 3 + k] = NA /\ ~Repaired THEN "0" ELSE dr.vals[3 * i - 3 + k]]) \o <<Com(FALSE)>>])])

R_VarioDir(L, md, s, ndim, nvar, flagCalcul) ==
  LET a == RdI(L, md, s, "regular")
      b == RdI(L, md, a, "npas")
      c == RdI(L, md, b, "optcode")
      d == RdD(L, md, c, "tolcode")
      e == RdD(L, md, d, "dpas")
      f == RdD(L, md, e, "toldis")
      g == RdI(L, md, f, "grid")
      gr == Gd(g, "grid", 0) # 0
      h == IF ~gr THEN RdVec(L, md, RdD(L, md, Put(g, "grincr", <<>>), "tolang"), "codir", "d", ndim)
           ELSE RdVec(L, md, RdVec(L, md, Put(g, "tolang", "0"), "grincr", "i", ndim), "codir", "d", ndim)
  IN IF ~h.ok THEN h ELSE
  LET size == DirSize(h.o.npas, nvar)
      i == IF (md = "ideal" \/ Repaired) /\ h.o.npas < 0 THEN Fail(h, "badCount") ELSE h
      j == IF flagCalcul # 0 THEN Alloc(L, md, i, IF size < 0 THEN (IF h.o.npas < 0 THEN -1 ELSE IMAX) ELSE 3 * size) ELSE i
      k == IF flagCalcul # 0 /\ j.ok THEN RdMany(L, md, Put(j, "vals", <<>>), "vals", "d", 3 * size) ELSE Put(j, "vals", <<>>)
  IN k

RECURSIVE R_VarioDirs(_, _, _, _, _, _, _, _)
R_VarioDirs(L, md, s, k, n, ndim, nvar, fc) ==
  IF k > n \/ ~s.ok THEN s
  ELSE LET r == R_VarioDir(L, md, s, ndim, nvar, fc) IN
       IF ~r.ok THEN r
       ELSE R_VarioDirs(L, md, Put(r, "dirs", Append(s.o.dirs,
              [regular |-> IF md = "real" THEN 1 ELSE r.o.regular,      \* the flag read is not used: no breaks => regular
               npas |-> r.o.npas, optcode |-> r.o.optcode, tolcode |-> r.o.tolcode, dpas |-> r.o.dpas,
               toldis |-> r.o.toldis, grid |-> IF r.o.grid # 0 THEN 1 ELSE 0, tolang |-> r.o.tolang, codir |-> r.o.codir,
               grincr |-> r.o.grincr, vals |-> r.o.vals])), k + 1, n, ndim, nvar, fc)

R_Vario(L, md, s0) ==
  LET s1 == RdI(L, md, s0, "ndim")
      s2 == RdI(L, md, s1, "nvar")
      s3 == RdI(L, md, s2, "ndir")
      s4 == RdD(L, md, s3, "scale")
      s5 == RdI(L, md, s4, "fc")
  IN IF ~s5.ok THEN ResFail(s5) ELSE
  LET ndim == s5.o.ndim
      nvar == s5.o.nvar
      fc   == s5.o.fc
      sa == IF md = "ideal" /\ (ndim < 1 \/ ndim > 3 \/ nvar < 1 \/ s5.o.ndir < 0) THEN Fail(s5, "badCount")
            ELSE ChkRep(md, s5, ndim >= 0 /\ nvar >= 0 /\ s5.o.ndir >= 0 /\ (ndim > 0 \/ s5.o.ndir = 0))
      sb == Alloc(L, md, sa, nvar)                                     \* _variableNames.resize(nvar)
      s6 == IF fc = 2 THEN RdMany(L, md, Put(sb, "names", <<>>), "names", "s", IF sb.ok THEN nvar ELSE 0)
            ELSE Put(sb, "names", Cst(IF sb.ok /\ nvar > 0 /\ nvar < 1000 THEN nvar ELSE 0, "Unknown"))
      sc == Alloc(L, md, s6, BigCount(nvar, nvar))                     \* vars.resize(nvar * nvar)
      s7 == IF fc # 0 THEN RdMany(L, md, Put(sc, "vars", <<>>), "vars", "d", IF sc.ok THEN nvar * nvar ELSE 0) ELSE Put(sc, "vars", <<>>)
      s8 == R_VarioDirs(L, md, Put(LoopGuard(L, md, Alloc(L, md, s7, s5.o.ndir), s5.o.ndir), "dirs", <<>>), 1, IF s7.ok THEN s5.o.ndir ELSE 0, ndim, nvar, fc)
  IN Res(s8, [ndim |-> ndim, nvar |-> nvar, scale |-> s8.o.scale, names |-> s8.o.names, vars |-> s8.o.vars, dirs |-> s8.o.dirs])

CodirPatterns(nd) == CASE nd = 1 -> << <<"1">> >>
                       [] nd = 2 -> << <<"1", "0">>, <<"0", "1">> >>
                       [] OTHER  -> << <<"1", "0", "0">>, <<"0", "0", "1">> >>
GrincrPatterns(nd) == CASE nd = 1 -> << <<1>> >>
                        [] nd = 2 -> << <<1, 0>>, <<1, 1>> >>
                        [] OTHER  -> << <<1, 0, 0>>, <<0, 1, 1>> >>
\* structures: ndim, nvar, list of directions [npas, grid]
VarioDirLists == << <<[npas |-> 1, grid |-> 0]>>, <<[npas |-> 2, grid |-> 0]>>, <<[npas |-> 1, grid |-> 1]>>,
                    <<[npas |-> 1, grid |-> 0], [npas |-> 2, grid |-> 0]>>, <<[npas |-> 0, grid |-> 0]>> >>
\* na: the arrays of results may hold undefined values
VarioStructs == Flat([nd \in 1..3 |-> Flat([nv \in 1..2 |-> [dl \in DOMAIN VarioDirLists |-> [ndim |-> nd, nvar |-> nv, dirs |-> VarioDirLists[dl], na |-> FALSE]]])])
                \o << [ndim |-> 2, nvar |-> 1, dirs |-> <<[npas |-> 2, grid |-> 0]>>, na |-> TRUE] >>
VarioValidStruct(st) == st.nvar = 1 \/ (Len(st.dirs) <= 1 /\ \A k \in DOMAIN st.dirs : st.dirs[k].npas <= 1)
VarioStructsV == SelectSeq(VarioStructs, VarioValidStruct)
VV == <<"0", "1", "1.23456789012345", "1e+20", "1e-300", "-1">>
VarioDirDoms(dr, nd, nv, na) ==
  << <<0, 1>>, <<"0", "1">>, <<"1", "1.23456789012345", "0.5">>, <<"0.5", "0.25">> >>
  \o (IF dr.grid = 0 THEN << <<"90", "45", "22.5">>, CodirPatterns(nd) >> ELSE << GrincrPatterns(nd), CodirPatterns(nd) >>)
  \o Cst(3 * DirSize(dr.npas, nv), IF na THEN <<NA, "1", "0">> ELSE IF Level >= 2 THEN VV ELSE <<"0", "1.23456789012345", "1e+20", "-1">>)
VarioDoms(st) == << <<"0", "1", "1.23456789012345">>,
                    IF st.nvar = 1 THEN << <<"zz">>, <<"Unknown">>, <<"z.1">> >> ELSE << <<"a", "b">>, <<"z.1", "z.2">> >>,
                    IF st.nvar = 1 THEN << <<"2">>, <<"1.23456789012345">>, <<"1e+300">>, <<"0">> >>
                    ELSE << <<"2", "1", "1", "2">>, <<"1", "-0.5", "-0.5", "1.23456789012345">> >> >>
                 \o Flat([k \in DOMAIN st.dirs |-> VarioDirDoms(st.dirs[k], st.ndim, st.nvar, st.na)])
RECURSIVE VarioDirsBuild(_, _, _, _, _)
VarioDirsBuild(st, v, k, pos, acc) ==
  IF k > Len(st.dirs) THEN acc
  ELSE LET dr == st.dirs[k]
           n  == 3 * DirSize(dr.npas, st.nvar)
           nh == 6
       IN VarioDirsBuild(st, v, k + 1, pos + nh + n, Append(acc,
            [regular |-> 1, npas |-> dr.npas, optcode |-> v[pos], tolcode |-> v[pos + 1], dpas |-> v[pos + 2], toldis |-> v[pos + 3],
             grid |-> dr.grid, tolang |-> IF dr.grid = 0 THEN v[pos + 4] ELSE "0",
             codir |-> v[pos + 5],
             grincr |-> IF dr.grid = 0 THEN <<>> ELSE v[pos + 4],
             vals |-> SubSeq(v, pos + nh, pos + nh + n - 1)]))
VarioBuild(st, v) == [ndim |-> st.ndim, nvar |-> st.nvar, scale |-> v[1], names |-> v[2], vars |-> v[3],
                      dirs |-> VarioDirsBuild(st, v, 1, 4, <<>>)]

-----------------------------------------------------------------------------
(* Classes Polygons / PolyElem / PolyLine2D                                  *)
(* o = [elems]; elem = [zmin, zmax, xy (sequence of <<x, y>>)]                *)

W_PolyLine(xy) == <<RecN(TRUE, Len(xy))>> \o [k \in DOMAIN xy |-> Vec(FALSE, xy[k])]
W_PolyElem(e) == <<Rec(TRUE, e.zmin), Rec(TRUE, e.zmax)>> \o W_PolyLine(e.xy)
W_Polygons(o) == <<RecN(TRUE, Len(o.elems))>> \o Flat([p \in DOMAIN o.elems |-> W_PolyElem(o.elems[p])])

RECURSIVE R_Points(_, _, _, _, _)
R_Points(L, md, s, k, n) ==
  IF k > n THEN s
  ELSE IF ~s.ok THEN s
  ELSE LET r == RdVec(L, md, s, "vec", "d", 2) IN
       IF r.ok THEN R_Points(L, md, Put(r, "xy", Append(s.o.xy, r.o.vec)), k + 1, n)
       ELSE IF md = "real" /\ ~Repaired THEN Ev(r, "useAfterClear") ELSE r      \* _x[i] = buffer[0] after buffer.clear()
R_PolyLine(L, md, s0) ==
  LET s1 == RdI(L, md, s0, "np") IN
  IF ~s1.ok THEN s1
  ELSE IF s1.o.np < 0 THEN Fail(s1, "badCount")
  ELSE IF s1.o.np = 0 THEN (IF md = "real" /\ ~Repaired THEN Put(Ev(s1, "emptyPolyline"), "xy", <<>>) ELSE Fail(s1, "badCount"))   \* cannot be written again
  ELSE R_Points(L, md, Put(LoopGuard(L, md, Alloc(L, md, s1, s1.o.np), s1.o.np), "xy", <<>>), 1, s1.o.np)
R_PolyElem(L, md, s0) == R_PolyLine(L, md, RdD(L, md, RdD(L, md, s0, "zmin"), "zmax"))
RECURSIVE R_PolyElems(_, _, _, _, _)
R_PolyElems(L, md, s, k, n) ==
  IF k > n \/ ~s.ok THEN s
  ELSE LET r == R_PolyElem(L, md, s) IN
       IF ~r.ok THEN r
       ELSE R_PolyElems(L, md, Put(r, "elems", Append(s.o.elems, [zmin |-> r.o.zmin, zmax |-> r.o.zmax, xy |-> r.o.xy])), k + 1, n)
R_Polygons(L, md, s0) ==
  LET s1 == RdI(L, md, s0, "npol")
      s2 == IF s1.ok /\ (md = "ideal" \/ Repaired) /\ s1.o.npol < 0 THEN Fail(s1, "badCount") ELSE s1
      s3 == R_PolyElems(L, md, Put(LoopGuard(L, md, s2, Gd(s2, "npol", 0)), "elems", <<>>), 1, IF s2.ok THEN s2.o.npol ELSE 0)
  IN Res(s3, [elems |-> s3.o.elems])
W_PolyLine2D(o) == W_PolyLine(o.xy)
R_PolyLine2D(L, md, s0) == LET r == R_PolyLine(L, md, s0) IN Res(r, [xy |-> r.o.xy])

PolyShapes == << <<3>>, <<4>>, <<3, 4>>, <<>>, <<3, 3>> >>
PolygonsStructs == [k \in DOMAIN PolyShapes |-> [nps |-> PolyShapes[k]]]
CV == IF Level >= 2 THEN <<"0", "1", "-1", "1.23456789012345", "1e+300", "1e-300">> ELSE <<"0", "-1", "1.23456789012345", "1e+300">>
RECURSIVE SumSeq(_)
SumSeq(q) == IF q = <<>> THEN 0 ELSE Head(q) + SumSeq(Tail(q))
PolygonsDoms(st) == Cst(2 * Len(st.nps), <<NA, "0", "1.23456789012345", "-1">>) \o Cst(2 * SumSeq(st.nps), CV)
RECURSIVE PolyElemsBuild(_, _, _, _, _)
PolyElemsBuild(st, v, k, pos, acc) ==
  IF k > Len(st.nps) THEN acc
  ELSE PolyElemsBuild(st, v, k + 1, pos + 2 * st.nps[k],
         Append(acc, [zmin |-> v[2 * k - 1], zmax |-> v[2 * k], xy |-> [p \in 1..st.nps[k] |-> <<v[pos + 2 * p - 2], v[pos + 2 * p - 1]>>]]))
PolygonsBuild(st, v) == [elems |-> PolyElemsBuild(st, v, 1, 2 * Len(st.nps) + 1, <<>>)]
PolyLine2DStructs == << [np |-> 1], [np |-> 2], [np |-> 3] >>
PolyLine2DDoms(st) == Cst(2 * st.np, CV)
PolyLine2DBuild(st, v) == [xy |-> [p \in 1..st.np |-> <<v[2 * p - 1], v[2 * p]>>]]

-----------------------------------------------------------------------------
(* DbLine (src/Db/DbLine.cpp) and DbGraphO (src/Db/DbGraphO.cpp): header + Db part *)

NDimOf(locs) == Cardinality({k \in DOMAIN locs : locs[k] \in {"x1", "x2", "x3"}})
W_DbLine(o) == <<RecN(TRUE, o.ndim), RecN(TRUE, Len(o.lines))>>
               \o Flat([l \in DOMAIN o.lines |-> <<RecN(TRUE, Len(o.lines[l])), VecX(FALSE, o.lines[l], 0, o.nech - 1)>>])
               \o W_DbPart(o)
RECURSIVE R_Lines(_, _, _, _, _)
R_Lines(L, md, s, k, n) ==
  IF k > n \/ ~s.ok THEN s
  ELSE LET a == RdI(L, md, s, "tmp")
           b == RdVec(L, md, a, "vec", "i", Gd(a, "tmp", 0))
       IN IF ~b.ok THEN b ELSE R_Lines(L, md, Put(b, "lines", Append(s.o.lines, b.o.vec)), k + 1, n)
R_DbLine(L, md, s0) ==
  LET s1 == RdI(L, md, s0, "ndim")
      s2 == RdI(L, md, s1, "nbline")
      nb == Gd(s2, "nbline", 0)
      s3 == R_Lines(L, md, Put(LoopGuard(L, md, Alloc(L, md, ChkRep(md, s2, nb >= 0), nb), nb), "lines", <<>>), 1, nb)
      db == R_DbPart(L, md, s3)
  IN Res(db, [ndim |-> db.o.ndim, lines |-> db.o.lines] @@ DbOf(db))

W_DbGraphO(o) == <<RecN(TRUE, o.ndim), RecN(TRUE, Len(o.arcs))>>
                 \o [a \in DOMAIN o.arcs |-> VecR(FALSE, o.arcs[a], <<RIndex(0, o.nech - 1), RIndex(0, o.nech - 1), RVal>>)] \o W_DbPart(o)
RECURSIVE R_Arcs(_, _, _, _, _)
R_Arcs(L, md, s, k, n) ==
  IF k > n \/ ~s.ok THEN s
  ELSE LET r == RdVec(L, md, s, "vec", "d", 3) IN
       IF r.ok THEN \* nft.add((int) tab[0], (int) tab[1], tab[2]): any double is cast to a row / column index
                    LET badidx == \E q \in 1..2 : ~(r.o.vec[q] \in DOMAIN StrIntTab /\ StrIntTab[r.o.vec[q]] >= 0 /\ StrIntTab[r.o.vec[q]] <= 1000)
                        r2 == IF badidx THEN (IF md = "real" /\ ~Repaired THEN Ev(r, "badIndex") ELSE Fail(r, "badIndex")) ELSE r
                    IN IF r2.ok THEN R_Arcs(L, md, Put(r2, "arcs", Append(s.o.arcs, r.o.vec)), k + 1, n) ELSE r2
       ELSE IF md = "real" /\ ~Repaired THEN Ev(r, "useAfterClear") ELSE r          \* nft.add((int) tab[0], ...) on the cleared buffer
R_DbGraphO(L, md, s0) ==
  LET s1 == RdI(L, md, s0, "ndim")
      s2 == RdI(L, md, s1, "narcs")
      na == Gd(s2, "narcs", 0)
      s3 == R_Arcs(L, md, Put(LoopGuard(L, md, s2, na), "arcs", <<>>), 1, na)
      db == R_DbPart(L, md, s3)
      \* the arcs must join nodes that exist: the real reader does not compare them with the number of samples
      big == db.ok /\ \E a \in DOMAIN db.o.arcs : \E q \in 1..2 :
                 db.o.arcs[a][q] \in DOMAIN StrIntTab /\ StrIntTab[db.o.arcs[a][q]] >= db.o.nech
      d2 == IF big THEN (IF md = "real" /\ ~Repaired THEN Ev(db, "badIndex") ELSE Fail(db, "badIndex")) ELSE db
  IN Res(d2, [ndim |-> d2.o.ndim, arcs |-> d2.o.arcs] @@ DbOf(d2))

LineSplits(n) == CASE n = 1 -> << <<1>> >> [] n = 2 -> << <<2>>, <<1, 1>> >> [] OTHER -> << <<3>>, <<1, 2>>, <<2, 1>> >>
DbLineStructs == << [ncol |-> 1, nech |-> 1], [ncol |-> 1, nech |-> 2], [ncol |-> 2, nech |-> 2], [ncol |-> 2, nech |-> 3], [ncol |-> 3, nech |-> 2] >>
DbLineLocs(n) == CASE n = 1 -> << <<"x1">>, <<"z1">> >> [] n = 2 -> << <<"x1", "z1">>, <<"x1", "x2">> >> [] OTHER -> << <<"x1", "x2", "z1">> >>
DbLineDoms(st) == <<LineSplits(st.nech), DbLineLocs(st.ncol), NamePatterns(st.ncol, "plain")>> \o Cst(st.ncol * st.nech, FVs)
RECURSIVE AddsOf(_, _)
AddsOf(counts, start) == IF counts = <<>> THEN <<>> ELSE << [k \in 1..Head(counts) |-> start + k - 1] >> \o AddsOf(Tail(counts), start + Head(counts))
DbLineBuild(st, v) == [ndim |-> NDimOf(v[2]), lines |-> AddsOf(v[1], 0), ncol |-> st.ncol, nech |-> st.nech, locators |-> v[2], names |-> v[3],
                       rows |-> [e \in 1..st.nech |-> [c \in 1..st.ncol |-> v[3 + (e - 1) * st.ncol + c]]]]
\* (createFromSamples closes the list with the arc (n-1, n-1, 0) that fixes the size of the matrix; arcs in the order
\*  of the sparse matrix: by column, then by row)
ArcPatterns(n) == CASE n = 2 -> << << <<"0", "1", "1">>, <<"1", "1", "0">> >>, << <<"0", "1", "2.5">>, <<"1", "1", "0">> >> >>
                    [] OTHER -> << << <<"0", "1", "1">>, <<"1", "2", "1">>, <<"2", "2", "0">> >>,
                                   << <<"0", "1", "2.5">>, <<"0", "2", "1.23456789012345">>, <<"2", "2", "0">> >>,
                                   << <<"0", "2", "1">>, <<"2", "2", "0">> >> >>
DbGraphOStructs == << [ncol |-> 1, nech |-> 2], [ncol |-> 2, nech |-> 2], [ncol |-> 2, nech |-> 3], [ncol |-> 3, nech |-> 3] >>
DbGraphODoms(st) == <<ArcPatterns(st.nech), DbLineLocs(st.ncol), NamePatterns(st.ncol, "plain")>> \o Cst(st.ncol * st.nech, FVs)
DbGraphOBuild(st, v) == [ndim |-> NDimOf(v[2]), arcs |-> v[1], ncol |-> st.ncol, nech |-> st.nech, locators |-> v[2], names |-> v[3],
                         rows |-> [e \in 1..st.nech |-> [c \in 1..st.ncol |-> v[3 + (e - 1) * st.ncol + c]]]]

-----------------------------------------------------------------------------
(* Anamorphoses (src/Anamorphosis)                                           *)

\* _tableRead: "if (!ret) return 1;" -- the failure of the underlying _recordReadVec is turned into a success, the table
\* keeps its initial zeros (the line has been consumed)
TableRead(L, md, s, f, n) ==
  IF ~s.ok THEN s
  ELSE IF n < 0 THEN FailAt(s, IF md = "real" /\ ~Repaired THEN "allocNegative" ELSE "badCount", f)
  ELSE LET r == RdVec(L, md, s, f, "d", n) IN
       IF r.ok \/ md = "ideal" \/ Repaired THEN r
       ELSE IF "allocHuge" \in r.ev THEN r
       ELSE Put(Ev([r EXCEPT !.ok = TRUE, !.at = ""], "tableReadIgnored"), f, Cst(IF n <= 1000 THEN n ELSE 0, "0"))

W_AnamCont(c) == <<Rec(FALSE, c[1]), Rec(TRUE, c[2]), Rec(FALSE, c[3]), Rec(TRUE, c[4]), Rec(FALSE, c[5]), Rec(TRUE, c[6]),
                   Rec(FALSE, c[7]), Rec(TRUE, c[8]), Rec(TRUE, c[9]), Rec(TRUE, c[10])>>
R_AnamCont(L, md, s) == RdMany(L, md, Put(s, "cont", <<>>), "cont", "d", 10)

\* products by r = 0.5 and 0.25 of the values of the domain
HalfTab == ("0" :> <<"0", "0">>) @@ ("1" :> <<"0.5", "0.25">>) @@ ("-1" :> <<"-0.5", "-0.25">>) @@ (NA :> <<NA, NA>>)
        @@ ("1.23456789012345" :> <<"0.617283945061725", "0.308641972530863">>) @@ ("1e+300" :> <<"5e+299", "2.5e+299">>)
        @@ ("1e-300" :> <<"5e-301", "2.5e-301">>)
ScalePsi(psi, r) == IF r # "0.5" THEN psi
                    ELSE [n \in DOMAIN psi |-> IF n = 1 THEN psi[n] ELSE IF n <= 3 /\ psi[n] \in DOMAIN HalfTab THEN HalfTab[psi[n]][n - 1] ELSE "scaled?"]

\* o.psi: the Hermite coefficients themselves (without the change of support r).  The first code wrote getPsiHns(), i.e.
\* the coefficients multiplied by r^n; the repaired code writes them as they are
W_AnamHermite(o) == W_AnamCont(o.cont) \o <<Rec(TRUE, o.rcoef), RecN(TRUE, Len(o.psi)),
                                            Vec(TRUE, IF Repaired THEN o.psi ELSE ScalePsi(o.psi, o.rcoef))>>
R_AnamHermite(L, md, s0) ==
  LET s1 == R_AnamCont(L, md, s0)
      s2 == RdD(L, md, s1, "rcoef")
      s3 == RdI(L, md, s2, "nbpoly")
      n  == Gd(s3, "nbpoly", 0)
      \* a polynomial expansion without any coefficient: setPsiHns / calculateMeanAndVariance index psi[0]
      sh == IF s3.ok /\ n <= 0 THEN (IF md = "real" /\ ~Repaired THEN Ev(s3, "emptyHermite") ELSE Fail(s3, "badCount")) ELSE s3
      s4 == TableRead(L, md, Alloc(L, md, sh, n), "psi", n)
  IN \* setPsiHns(hermite) stores the values read as the coefficients, setRCoef(r) stores r apart
     Res(s4, [cont |-> s4.o.cont, rcoef |-> s4.o.rcoef, psi |-> s4.o.psi])

W_AnamEmpirical(o) == W_AnamCont(o.cont) \o <<RecN(TRUE, Len(o.z)), Rec(TRUE, o.sigma2e), Vec(TRUE, o.z), Vec(TRUE, o.y)>>
R_AnamEmpirical(L, md, s0) ==
  LET s1 == R_AnamCont(L, md, s0)
      s2 == RdI(L, md, s1, "ndisc")
      s3 == RdD(L, md, s2, "sigma2e")
      n  == Gd(s3, "ndisc", 0)
      s4 == TableRead(L, md, Alloc(L, md, ChkRep(md, s3, n >= 0), n), "z", n)
      s5 == TableRead(L, md, s4, "y", n)
  IN Res(s5, [cont |-> s5.o.cont, sigma2e |-> s5.o.sigma2e, z |-> s5.o.z, y |-> s5.o.y])

W_AnamDiscreteIR(o) == <<RecN(TRUE, o.ncut), RecN(TRUE, o.ncut + 1), RecN(TRUE, o.nelem), Vec(TRUE, o.zcut), Vec(TRUE, o.stats), Rec(TRUE, o.rcoef)>>
R_AnamDiscreteIR(L, md, s0) ==
  LET s1 == RdI(L, md, s0, "ncut")
      s2 == RdI(L, md, s1, "nclass")
      s3 == RdI(L, md, s2, "nelem")
      nc == Gd(s3, "ncut", 0)
      ns == BigCount(Gd(s3, "nclass", 0), Gd(s3, "nelem", 0))
      sa == IF s3.ok /\ md = "ideal" /\ (nc < 1 \/ s3.o.nelem < 1 \/ s3.o.nclass - 1 # nc) THEN Fail(s3, "badCount")
            ELSE ChkRep(md, s3, nc >= 0 /\ Gd(s3, "nelem", 0) >= 0 /\ Gd(s3, "nclass", 0) - 1 = nc)
      s4 == TableRead(L, md, Alloc(L, md, sa, nc), "zcut", nc)
      s5 == TableRead(L, md, Alloc(L, md, s4, ns), "stats", IF ns = IMAX THEN 100001 ELSE ns)
      s6 == RdD(L, md, s5, "rcoef")
  IN \* setStats refuses (silently) a table whose size is not (ncut + 1) * nelem: the statistics stay 0
     Res(s6, [ncut |-> nc, nelem |-> s6.o.nelem, zcut |-> s6.o.zcut,
              stats |-> IF s6.o.nclass - 1 = nc \/ nc < 0 \/ nc > 1000 THEN s6.o.stats ELSE Cst((nc + 1) * (IF s6.o.nelem > 0 /\ s6.o.nelem < 1000 THEN s6.o.nelem ELSE 0), "0"),
              rcoef |-> s6.o.rcoef])

ContPatterns == << <<"0", "1", "-1", "1", "0", "1", "-1", "1", "0", "1">>,
                   <<NA, NA, NA, NA, NA, NA, NA, NA, NA, NA>>,
                   <<"-1", "1e+20", "-1e+300", "1e+300", "1e-300", "1.23456789012345", "-1.23456789012345", "2", "1.23456789012345", "1e-300">> >>
AnamHermiteStructs == <<[n |-> 1], [n |-> 2], [n |-> 3]>>
AnamHermiteDoms(st) == <<ContPatterns, <<"1", "0.5">> >> \o Cst(st.n, FVs)
\* mean and variance (positions 9, 10 of the common part) are functions of the coefficients: left open ("*")
AnamHermiteBuild(st, v) == [cont |-> SubSeq(v[1], 1, 8) \o <<"*", "*">>, rcoef |-> v[2], psi |-> SubSeq(v, 3, 2 + st.n)]
AnamEmpiricalStructs == <<[n |-> 1], [n |-> 2], [n |-> 3]>>
AnamEmpiricalDoms(st) == <<ContPatterns, <<NA, "0", "0.5", "1.23456789012345">> >> \o Cst(2 * st.n, FVs)
AnamEmpiricalBuild(st, v) == [cont |-> v[1], sigma2e |-> v[2], z |-> SubSeq(v, 3, 2 + st.n), y |-> SubSeq(v, 3 + st.n, 2 + 2 * st.n)]
AnamDiscreteIRStructs == <<[ncut |-> 1, nelem |-> 1], [ncut |-> 1, nelem |-> 2], [ncut |-> 2, nelem |-> 2]>>
AnamDiscreteIRDoms(st) == << <<"0", "0.5", "1.23456789012345">> >> \o Cst(st.ncut + (st.ncut + 1) * st.nelem, FVs)
AnamDiscreteIRBuild(st, v) == [ncut |-> st.ncut, nelem |-> st.nelem, zcut |-> SubSeq(v, 2, 1 + st.ncut),
                               stats |-> SubSeq(v, 2 + st.ncut, 1 + st.ncut + (st.ncut + 1) * st.nelem), rcoef |-> v[1]]

-----------------------------------------------------------------------------
(* Meshes (src/Mesh)                                                         *)

W_MeshEStandard(o) == <<RecN(TRUE, o.ndim), RecN(TRUE, o.napices), RecN(TRUE, o.npm), RecN(TRUE, o.nmeshes), Vec(TRUE, o.apices),
                        VecX(TRUE, o.meshes, 0, o.napices - 1)>>
R_MeshEStandard(L, md, s0) ==
  LET s1 == RdI(L, md, s0, "ndim")
      s2 == RdI(L, md, s1, "napices")
      s3 == RdI(L, md, s2, "npm")
      s4 == RdI(L, md, s3, "nmeshes")
  IN IF ~s4.ok THEN ResFail(s4) ELSE
  LET sa == IF (md = "ideal" \/ Repaired) /\ (s4.o.ndim < 1 \/ s4.o.napices < 0 \/ s4.o.npm - 1 # s4.o.ndim \/ s4.o.nmeshes < 0)
            THEN Fail(s4, "badCount") ELSE s4
      na == BigCount(s4.o.napices, s4.o.ndim)
      nm == BigCount(s4.o.nmeshes, s4.o.npm)
      s5 == RdVec(L, md, sa, "apices", "d", IF na = IMAX THEN 100001 ELSE na)
      s6 == RdVec(L, md, s5, "meshes", "i", IF nm = IMAX THEN 100001 ELSE nm)
      okidx == ~s6.ok \/ \A k \in DOMAIN s6.o.meshes : s6.o.meshes[k] >= 0 /\ s6.o.meshes[k] < s6.o.napices
  IN IF md = "ideal" THEN Res(IF okidx THEN s6 ELSE Fail(s6, "badIndex"),
                             [ndim |-> s6.o.ndim, napices |-> s6.o.napices, npm |-> s6.o.npm, nmeshes |-> s6.o.nmeshes, apices |-> s6.o.apices, meshes |-> s6.o.meshes])
     \* the dimension read stays in a local variable (AMesh::_nDim is not set): the object reloaded is in dimension 0, with
     \* one apex per mesh and no coordinate
     ELSE IF Repaired
     THEN \* repaired: dimension set, consistent counts, mesh indices within the apices
          LET bad == s6.ok /\ (s6.o.ndim <= 0 \/ s6.o.napices < 0 \/ s6.o.nmeshes < 0 \/ s6.o.npm - 1 # s6.o.ndim
                               \/ \E k \in DOMAIN s6.o.meshes : s6.o.meshes[k] < 0 \/ s6.o.meshes[k] >= s6.o.napices)
              s7 == IF bad THEN Fail(s6, "badCount") ELSE s6
          IN Res(s7, [ndim |-> s7.o.ndim, napices |-> s7.o.napices, npm |-> s7.o.npm, nmeshes |-> s7.o.nmeshes, apices |-> s7.o.apices, meshes |-> s7.o.meshes])
     ELSE Res(s6, [ndim |-> 0, napices |-> s6.o.napices, npm |-> 1, nmeshes |-> Len(s6.o.meshes), apices |-> <<>>, meshes |-> <<-1>>])

\* structures: simplices of dimension ndim on a few apices (meshes given by the ranks of their apices)
MeshShapes == << [ndim |-> 1, napices |-> 2, meshes |-> <<0, 1>>], [ndim |-> 1, napices |-> 3, meshes |-> <<0, 1, 1, 2>>],
                 [ndim |-> 2, napices |-> 3, meshes |-> <<0, 1, 2>>], [ndim |-> 2, napices |-> 4, meshes |-> <<0, 1, 2, 1, 2, 3>>],
                 [ndim |-> 3, napices |-> 4, meshes |-> <<0, 1, 2, 3>>] >>
MeshEStandardDoms(st) == Cst(st.napices * st.ndim, <<"0", "1", "-1", "1.23456789012345", "2.5">>)
MeshEStandardBuild(st, v) == [ndim |-> st.ndim, napices |-> st.napices, npm |-> st.ndim + 1, nmeshes |-> Len(st.meshes) \div (st.ndim + 1),
                              apices |-> v, meshes |-> st.meshes]

W_MeshETurbo(o) ==
  <<RecN(TRUE, o.ndim), VecN(TRUE, o.nx), Vec(TRUE, o.dx), Vec(TRUE, o.x0), Vec(TRUE, o.rotmat), RecE(TRUE, o.polar, 0, 1), RecI(TRUE, o.mode),
    RecN(TRUE, o.nmesh), RecN(TRUE, 0), RecN(TRUE, o.ngrid), RecN(TRUE, 0)>>
R_MeshETurbo(L, md, s0) ==
  LET s1 == RdI(L, md, s0, "ndim")
      nd == Gd(s1, "ndim", 0)
      s2 == RdVec(L, md, s1, "nx", "i", nd)
      s3 == RdVec(L, md, s2, "dx", "d", nd)
      s4 == RdVec(L, md, s3, "x0", "d", nd)
      s5 == RdVec(L, md, s4, "rotmat", "d", IF BigCount(nd, nd) = IMAX THEN 100001 ELSE BigCount(nd, nd))
      s6 == RdI(L, md, s5, "polar")
      s7 == RdI(L, md, s6, "mode")
      s8 == RdI(L, md, s7, "nmesh")
      s9 == RdI(L, md, s8, "nmeshmask")
      sA == IF s9.ok /\ s9.o.nmeshmask > 0 THEN RdVec(L, md, s9, "meshmask", "i", s9.o.nmesh) ELSE s9
      sB == RdI(L, md, sA, "ngrid")
      sC == RdI(L, md, sB, "ngridmask")
      sD == IF sC.ok /\ sC.o.ngridmask > 0 THEN RdVec(L, md, sC, "gridmask", "i", sC.o.ngrid) ELSE sC
      \* "(void) initFromGridByMatrix(...)": a grid that cannot be built (no node along an axis, absurd counts) is not noticed
      badg == s5.ok /\ (nd < 1 \/ nd > 3 \/ (\E d \in DOMAIN s5.o.nx : s5.o.nx[d] < 2 \/ s5.o.nx[d] > 10000)
                              \/ (\E d \in DOMAIN s5.o.dx : s5.o.dx[d] \in NegToks))      \* Grid::resetFromVector refuses dx < 0
      \* repaired: dimension > 0, every count > 0, and the result of initFromGridByMatrix (negative mesh refused) is used
      refused == s5.ok /\ (nd < 1 \/ (\E d \in DOMAIN s5.o.nx : s5.o.nx[d] <= 0) \/ (\E d \in DOMAIN s5.o.dx : s5.o.dx[d] \in NegToks))
      sE == IF sD.ok /\ badg THEN (IF md = "ideal" \/ (Repaired /\ refused) THEN Fail(sD, "badCount") ELSE Ev(sD, "badGrid")) ELSE sD
  IN Res(sE, [ndim |-> nd, nx |-> sE.o.nx, dx |-> sE.o.dx, x0 |-> sE.o.x0, rotmat |-> sE.o.rotmat, polar |-> sE.o.polar, mode |-> sE.o.mode,
              nmesh |-> sE.o.nmesh, ngrid |-> sE.o.ngrid])
TurboNx == << <<2>>, <<3>>, <<2, 2>>, <<3, 2>>, <<2, 2, 2>> >>
\* number of simplices of the turbo meshing: (nx - 1) segments, 2 triangles per cell, 6 tetrahedra per cell
TurboNMesh(nx) == CASE Len(nx) = 1 -> nx[1] - 1 [] Len(nx) = 2 -> 2 * (nx[1] - 1) * (nx[2] - 1) [] OTHER -> 6 * (nx[1] - 1) * (nx[2] - 1) * (nx[3] - 1)
MeshETurboStructs == Flat([k \in DOMAIN TurboNx |-> <<[nx |-> TurboNx[k], rot |-> 0]>> \o (IF Len(TurboNx[k]) = 2 THEN <<[nx |-> TurboNx[k], rot |-> 1]>> ELSE <<>>)])
MeshETurboDoms(st) == LET nd == Len(st.nx) IN Cst(nd, <<"1", "0.5", "1.23456789012345">>) \o Cst(nd, <<"0", "-1", "1.23456789012345">>) \o << IF st.nx = <<3, 2>> THEN <<0, 1>> ELSE <<0>> >>     \* (the polarisation shows on the connectivity of larger grids only)
MeshETurboBuild(st, v) == LET nd == Len(st.nx) IN
  [ndim |-> nd, nx |-> st.nx, dx |-> SubSeq(v, 1, nd), x0 |-> SubSeq(v, nd + 1, 2 * nd),
   rotmat |-> IF st.rot = 1 THEN <<"0", "1", "-1", "0">> ELSE RotToks(nd, "0"), polar |-> v[2 * nd + 1], mode |-> 1,
   nmesh |-> TurboNMesh(st.nx), ngrid |-> ProdSeq(st.nx)]

-----------------------------------------------------------------------------
(* Faults, Rule, RuleShift, FracEnviron                                      *)

W_Faults(o) == <<RecN(TRUE, Len(o.faults))>> \o Flat([f \in DOMAIN o.faults |-> W_PolyLine(o.faults[f])])
RECURSIVE R_FaultList(_, _, _, _, _)
R_FaultList(L, md, s, k, n) ==
  IF k > n \/ ~s.ok THEN s
  ELSE LET r == R_PolyLine(L, md, s) IN
       IF ~r.ok THEN r ELSE R_FaultList(L, md, Put(r, "faults", Append(s.o.faults, r.o.xy)), k + 1, n)
R_Faults(L, md, s0) ==
  LET s1 == RdI(L, md, s0, "nfaults")
      n  == Gd(s1, "nfaults", 0)
      s2 == R_FaultList(L, md, Put(LoopGuard(L, md, s1, n), "faults", <<>>), 1, n)
  IN Res(s2, [faults |-> s2.o.faults])
FaultsStructs == << [nps |-> <<>>], [nps |-> <<2>>], [nps |-> <<1>>], [nps |-> <<2, 3>>] >>
FaultsDoms(st) == Cst(2 * SumSeq(st.nps), CV)
RECURSIVE FaultsBuildRec(_, _, _, _, _)
FaultsBuildRec(st, v, k, pos, acc) ==
  IF k > Len(st.nps) THEN acc
  ELSE FaultsBuildRec(st, v, k + 1, pos + 2 * st.nps[k], Append(acc, [p \in 1..st.nps[k] |-> <<v[pos + 2 * p - 2], v[pos + 2 * p - 1]>>]))
FaultsBuild(st, v) == [faults |-> FaultsBuildRec(st, v, 1, 1, <<>>)]

\* Rule::_ruleDefine: the tree in prefix order; a row = from_type, from_rank, from_vers, node_type, node_rank, facies
\* names: "S" threshold along Y1, "T" threshold along Y2, <<"F", k>> facies k
FacNum == ("F1" :> 1) @@ ("F2" :> 2) @@ ("F3" :> 3) @@ ("F4" :> 4)
RECURSIVE RuleRows(_, _, _, _, _, _)
RuleRows(names, pos, ftype, frank, fvers, rank) ==
  LET nm == names[pos] IN
  IF nm \notin {"S", "T"}
  THEN [rows |-> << <<ftype, frank, fvers, 0, rank, FacNum[nm]>> >>, pos |-> pos + 1, rank |-> rank]
  ELSE LET orient == IF nm = "S" THEN 1 ELSE 2
           cur == rank + 1
           r1  == RuleRows(names, pos + 1, orient, cur, 1, cur)
           r2  == RuleRows(names, r1.pos, orient, cur, 2, r1.rank)
       IN [rows |-> << <<ftype, frank, fvers, orient, cur, 0>> >> \o r1.rows \o r2.rows, pos |-> r2.pos, rank |-> r2.rank]
\* the rows are the encoding of a tree: names recovered from (node_type, facies), well-formed prefix sequence, same rows
NodeName(r) == IF r[4] = 1 THEN "S" ELSE IF r[4] = 2 THEN "T" ELSE IF r[4] = 0 /\ r[6] \in 1..4 THEN <<"F1", "F2", "F3", "F4">>[r[6]] ELSE "bad"
RECURSIVE PrefixNeed(_, _, _)
PrefixNeed(names, k, need) == IF k > Len(names) THEN need
                              ELSE IF need = 0 THEN -1
                              ELSE PrefixNeed(names, k + 1, IF names[k] \in {"S", "T"} THEN need + 1 ELSE need - 1)
ValidRuleNodes(nodes) ==
  LET names == [k \in DOMAIN nodes |-> NodeName(nodes[k])] IN
  /\ Len(nodes) >= 1 /\ Len(nodes) <= 15
  /\ \A k \in DOMAIN names : names[k] # "bad"
  /\ PrefixNeed(names, 1, 1) = 0
  /\ RuleRows(names, 1, 0, 0, 0, 0).rows = nodes
\* a node: from_type, from_rank, from_vers, node_type (codes 0..2), node_rank, facies
NodeRoles == <<REnum(0, 2), RInt, REnum(0, 2), REnum(0, 2), RInt, RInt>>
W_RulePart(o) == <<RecE(TRUE, o.mode, 0, 2), Rec(TRUE, o.rho), RecN(TRUE, Len(o.nodes))>>
                 \o Flat([k \in DOMAIN o.nodes |-> RecsR([j \in 1..6 |-> IntTok(o.nodes[k][j])], NodeRoles) \o <<Com(TRUE)>>])
R_RulePart(L, md, s0) ==
  LET s1 == RdI(L, md, s0, "mode")
      s2 == RdD(L, md, s1, "rho")
      s3 == RdI(L, md, s2, "nbnode")
      n  == Gd(s3, "nbnode", 0)
      sa == IF s3.ok /\ md = "ideal" /\ (n < 1 \/ s3.o.mode \notin {0, 1, 2}) THEN Fail(s3, "badCount") ELSE s3
      sb == ChkRep(md, IF sa.ok /\ md = "real" /\ sa.o.mode \notin {0, 1, 2} THEN Ev(sa, "badEnum") ELSE sa, n >= 1)
      s4 == RdMany(L, md, Put(Alloc(L, md, sb, BigCount(6, n)), "flat", <<>>), "flat", "i", IF BigCount(6, n) = IMAX THEN 100001 ELSE 6 * n)
  IN IF ~s4.ok THEN s4 ELSE
     LET nodes == [k \in 1..n |-> SubSeq(s4.o.flat, 6 * k - 5, 6 * k)]
         s5 == Put(s4, "nodes", nodes)
     IN \* setMainNodeFromNodNames(nodes) rebuilds the tree from the codes without checking that they describe one
        IF ValidRuleNodes(nodes) THEN s5 ELSE IF md = "real" THEN Ev(s5, "badRuleNodes") ELSE Fail(s5, "badRuleNodes")
W_Rule(o) == W_RulePart(o)
R_Rule(L, md, s0) == LET r == R_RulePart(L, md, s0) IN Res(r, [mode |-> r.o.mode, rho |-> r.o.rho, nodes |-> r.o.nodes])
\* RuleShift: the three parameters of the shadow rule are written as 0 when undefined, then the shift
W_RuleShift(o) == W_RulePart(o) \o <<Rec(TRUE, "0"), Rec(TRUE, "0"), Rec(TRUE, "0"), Rec(TRUE, o.shift[1]), Rec(TRUE, o.shift[2]), Rec(TRUE, o.shift[3])>>
R_RuleShift(L, md, s0) ==
  LET r == R_RulePart(L, md, s0)
      s == RdMany(L, md, Put(RdMany(L, md, Put(r, "shadow", <<>>), "shadow", "d", 3), "shift", <<>>), "shift", "d", 3)
  IN Res(s, [mode |-> s.o.mode, rho |-> s.o.rho, nodes |-> s.o.nodes, shift |-> s.o.shift])
RuleTrees == << <<"S", "F1", "F2">>, <<"T", "F1", "F2">>, <<"S", "F1", "T", "F2", "F3">>, <<"S", "T", "F1", "F2", "S", "F3", "F4">>, <<"S", "S", "F1", "F2", "F3">> >>
RuleStructs == [k \in DOMAIN RuleTrees |-> [tree |-> RuleTrees[k]]]
RuleBuild(st, v) == [mode |-> 0, rho |-> v[1], nodes |-> RuleRows(st.tree, 1, 0, 0, 0, 0).rows]
RuleShiftStructs == << [tree |-> RuleTrees[1]], [tree |-> RuleTrees[3]] >>
RuleShiftBuild(st, v) == [mode |-> 1, rho |-> "0", nodes |-> RuleRows(st.tree, 1, 0, 0, 0, 0).rows, shift |-> v[1]]

\* FracEnviron: the class name written on the first line has two words: _fileOpenRead can never accept the file
W_FracEnviron(o) ==
  <<RecI(TRUE, Len(o.fams)), RecI(TRUE, Len(o.faults))>> \o [k \in 1..6 |-> Rec(TRUE, o.par[k])]
  \o Flat([f \in DOMAIN o.fams |-> <<Com(TRUE)>> \o [k \in 1..10 |-> Rec(TRUE, o.fams[f][k])]])
  \o Flat([f \in DOMAIN o.faults |-> LET ft == o.faults[f] IN
        <<Com(TRUE), Rec(TRUE, ft.coord), Rec(TRUE, ft.orient), RecI(TRUE, Len(ft.thetal)), Vec(TRUE, ft.thetal), Vec(TRUE, ft.thetar),
          Vec(TRUE, ft.rangel), Vec(TRUE, ft.ranger)>>])
RECURSIVE R_Fams(_, _, _, _, _)
R_Fams(L, md, s, k, n) ==
  IF k > n \/ ~s.ok THEN s
  ELSE LET r == RdMany(L, md, Put(s, "tmpv", <<>>), "tmpv", "d", 10) IN
       IF ~r.ok THEN r ELSE R_Fams(L, md, Put(r, "fams", Append(s.o.fams, r.o.tmpv)), k + 1, n)
RECURSIVE R_FracFaults(_, _, _, _, _)
R_FracFaults(L, md, s, k, n) ==
  IF k > n \/ ~s.ok THEN s
  ELSE LET a == RdD(L, md, s, "coord")
           b == RdD(L, md, a, "orient")
           c == RdI(L, md, b, "nfam")
           nf == Gd(c, "nfam", 0)
           d == RdVec(L, md, RdVec(L, md, RdVec(L, md, RdVec(L, md, c, "thetal", "d", nf), "thetar", "d", nf), "rangel", "d", nf), "ranger", "d", nf)
       IN IF ~d.ok THEN d
          ELSE R_FracFaults(L, md, Put(d, "faults", Append(s.o.faults, [coord |-> d.o.coord, orient |-> d.o.orient, thetal |-> d.o.thetal,
                                         thetar |-> d.o.thetar, rangel |-> d.o.rangel, ranger |-> d.o.ranger])), k + 1, n)
R_FracEnviron(L, md, s0) ==
  LET s1 == RdI(L, md, s0, "nfam")
      s2 == RdI(L, md, s1, "nfaults")
      s3 == RdMany(L, md, Put(s2, "par", <<>>), "par", "d", 6)
      nf == Gd(s3, "nfam", 0)
      nt == Gd(s3, "nfaults", 0)
      s4 == R_Fams(L, md, Put(LoopGuard(L, md, s3, nf), "fams", <<>>), 1, nf)
      s5 == R_FracFaults(L, md, Put(LoopGuard(L, md, s4, nt), "faults", <<>>), 1, nt)
  IN Res(s5, [par |-> s5.o.par, fams |-> s5.o.fams, faults |-> s5.o.faults])
FracEnvironStructs == << [nfam |-> 0, nfault |-> 0], [nfam |-> 1, nfault |-> 0], [nfam |-> 1, nfault |-> 1], [nfam |-> 2, nfault |-> 1] >>
FracV == <<"0", "1", "0.5", "1.23456789012345", "10">>
FracEnvironDoms(st) == Cst(6, FracV) \o Cst(10 * st.nfam, FracV) \o Cst(st.nfault * (2 + 4 * st.nfam), FracV)
FracEnvironBuild(st, v) ==
  [par |-> SubSeq(v, 1, 6),
   fams |-> [f \in 1..st.nfam |-> SubSeq(v, 7 + 10 * (f - 1), 6 + 10 * f)],
   faults |-> [t \in 1..st.nfault |-> LET b == 6 + 10 * st.nfam + (t - 1) * (2 + 4 * st.nfam) IN
                 [coord |-> v[b + 1], orient |-> v[b + 2], thetal |-> SubSeq(v, b + 3, b + 2 + st.nfam),
                  thetar |-> SubSeq(v, b + 3 + st.nfam, b + 2 + 2 * st.nfam), rangel |-> SubSeq(v, b + 3 + 2 * st.nfam, b + 2 + 3 * st.nfam),
                  ranger |-> SubSeq(v, b + 3 + 3 * st.nfam, b + 2 + 4 * st.nfam)]]]

-----------------------------------------------------------------------------
(* CSV files read by Db::createFromCSV (csv_table_read, src/Core/convert.cpp; Db::resetFromCSV): a header line of   *)
(* names, then one line of cells per sample; cells separated by the separator character, NA string, no comment       *)
(* syntax.  The same lines-of-tokens representation is used (the file is rendered with the separator instead of       *)
(* blanks).  o = [names, rows]                                                                                        *)

W_CSVLines(o) == <<o.names>> \o o.rows
CsvVal(t) == IF IsNum(t) /\ t # "*" THEN t ELSE NA            \* toDouble: what is not a number is undefined
RECURSIVE Recut(_, _)
Recut(tab, n) == IF n <= 0 \/ Len(tab) < n THEN <<>> ELSE <<SubSeq(tab, 1, n)>> \o Recut(SubSeq(tab, n + 1, Len(tab)), n)
R_CSV(L, md) ==
  LET names == IF L = <<>> THEN <<>> ELSE L[1]
      ncol  == Len(names)
      lines == SelectSeq(IF L = <<>> THEN <<>> ELSE Tail(L), LAMBDA l : l # <<>>)
      nrow  == Len(lines)
      \* every line gives at most ncol cells (all its cells when there is no header)
      cells(l) == IF ncol > 0 /\ Len(l) > ncol THEN SubSeq(l, 1, ncol) ELSE l
      ragged == \E k \in DOMAIN lines : Len(lines[k]) # ncol
      tab   == Flat([k \in DOMAIN lines |-> [j \in DOMAIN cells(lines[k]) |-> CsvVal(cells(lines[k])[j])]])
      \* Db::resetFromCSV: ncol = tab.size() / nrow, whatever the header says
      \* (repaired: without any data line the columns are those of the header)
      ncol2 == IF tab = <<>> \/ nrow = 0 THEN (IF Repaired THEN ncol ELSE 0) ELSE Len(tab) \div nrow
  IN IF md = "ideal"
     THEN IF ncol >= 1 /\ ~ragged THEN [ok |-> TRUE, ev |-> {}, at |-> "", o |-> [names |-> names, rows |-> Recut(tab, ncol)]]
          ELSE [ok |-> FALSE, ev |-> {"raggedLine"}, at |-> "rows", o |-> <<>>]
     ELSE IF Repaired /\ ncol > 0 /\ (\E k \in DOMAIN lines : Len(lines[k]) < ncol)
     THEN [ok |-> FALSE, ev |-> {"raggedLine"}, at |-> "rows", o |-> <<>>]       \* repaired: a line with fewer values is refused
     ELSE [ok |-> TRUE, at |-> "",
           \* a number of columns that differs from the number of names makes Db::_loadData throw; a name starting with '#'
           \* gives a Db that cannot be read back from its own neutral file
           ev |-> (IF ragged THEN {"raggedShift"} ELSE {}) \cup (IF ncol2 # ncol THEN {"namesMismatch"} ELSE {})
                  \cup (IF \E k \in DOMAIN names : IsComment(names[k]) THEN {"nameHash"} ELSE {}),
           o |-> [names |-> IF ncol2 <= ncol THEN SubSeq(names, 1, ncol2) ELSE names, rows |-> SubSeq(Recut(tab, ncol2), 1, nrow)]]
CSVStructs == << [ncol |-> 1, nech |-> 1], [ncol |-> 2, nech |-> 1], [ncol |-> 2, nech |-> 2], [ncol |-> 3, nech |-> 2], [ncol |-> 1, nech |-> 3] >>
CSVNames(n) == CASE n = 1 -> << <<"a">>, <<"x1">> >> [] n = 2 -> << <<"a", "b">>, <<"x1", "z1">> >> [] OTHER -> << <<"x1", "x2", "v">>, <<"a", "b", "c">> >>
CSVDoms(st) == <<CSVNames(st.ncol)>> \o Cst(st.ncol * st.nech, <<"0", "1", "-1", NA, "1.23456789012345", "2.5">>)
CSVBuild(st, v) == [names |-> v[1], rows |-> [e \in 1..st.nech |-> [c \in 1..st.ncol |-> v[1 + (e - 1) * st.ncol + c]]]]

\* Grid exchange formats that can be written and read (GridZycor, GridIfpEn): no grammar is modelled; the instances are
\* 2-D unrotated grids with one variable, the expectation is that geometry and values come back (6 significant digits)
\* (an axis with a single node has no mesh size in these extent-based formats)
GridFmtStructs == << [nx |-> <<2, 2>>], [nx |-> <<3, 2>>], [nx |-> <<2, 3>>] >>
GridFmtDoms(st) == Cst(2, <<"0", "-1", "1.23456789012345", "100">>) \o Cst(2, <<"1", "0.5", "1.23456789012345">>)
                   \o Cst(ProdSeq(st.nx), <<"0", "1", "-1", NA, "1.23456789012345", "2.5", "100">>)
GridFmtBuild(st, v) == LET ne == ProdSeq(st.nx) IN
  [ndim |-> 2, nx |-> st.nx, x0 |-> SubSeq(v, 1, 2), dx |-> SubSeq(v, 3, 4), angles |-> <<"0", "0">>, ncol |-> 1, nech |-> ne,
   locators |-> <<"z1">>, names |-> << <<"v">> >>, rows |-> [e \in 1..ne |-> <<v[4 + e]>>]]
ExchangeFormats == {"GridZycor", "GridIfpEn"}

-----------------------------------------------------------------------------
(* Dispatch over the classes, abstract instances                             *)

NeighImageStructs == NeighStructs
Tag(c) == CASE c = "Polygons" -> <<"Polygon">>
            [] c = "FracEnviron" -> IF Repaired THEN <<"FracEnviron">> ELSE <<"Fracture", "Environ">>
            [] c = "FracFamily" -> <<"Family">>
            [] OTHER -> <<c>>

WriteOps(c, o) ==
  CASE c = "Db" -> W_Db(o)                   [] c = "DbGrid" -> W_DbGrid(o)
    [] c = "Table" -> W_Table(o)             [] c = "Model" -> W_Model(o)
    [] c = "NeighUnique" -> W_NeighUnique(o) [] c = "NeighBench" -> W_NeighBench(o)
    [] c = "NeighMoving" -> W_NeighMoving(o) [] c = "NeighCell" -> W_NeighCell(o)
    [] c = "NeighImage" -> W_NeighImage(o)   [] c = "Vario" -> W_Vario(o)
    [] c = "Polygons" -> W_Polygons(o)       [] c = "PolyLine2D" -> W_PolyLine2D(o)
    [] c = "DbLine" -> W_DbLine(o)           [] c = "DbGraphO" -> W_DbGraphO(o)
    [] c = "AnamHermite" -> W_AnamHermite(o) [] c = "AnamEmpirical" -> W_AnamEmpirical(o)
    [] c = "AnamDiscreteIR" -> W_AnamDiscreteIR(o) [] c = "MeshEStandard" -> W_MeshEStandard(o)
    [] c = "MeshETurbo" -> W_MeshETurbo(o)   [] c = "Faults" -> W_Faults(o)
    [] c = "Rule" -> W_Rule(o)               [] c = "RuleShift" -> W_RuleShift(o)
    [] c = "FracEnviron" -> W_FracEnviron(o)
    [] c \in ExchangeFormats \cup {"CSV", "Raw"} -> <<>>

ReadBody(c, L, md) == LET S0 == S0n(NTokOf(L)) IN
  CASE c = "Db" -> R_Db(L, md, S0)                   [] c = "DbGrid" -> R_DbGrid(L, md, S0)
    [] c = "Table" -> R_Table(L, md, S0)             [] c = "Model" -> R_Model(L, md, S0)
    [] c = "NeighUnique" -> R_NeighUnique(L, md, S0) [] c = "NeighBench" -> R_NeighBench(L, md, S0)
    [] c = "NeighMoving" -> R_NeighMoving(L, md, S0) [] c = "NeighCell" -> R_NeighCell(L, md, S0)
    [] c = "NeighImage" -> R_NeighImage(L, md, S0)   [] c = "Vario" -> R_Vario(L, md, S0)
    [] c = "Polygons" -> R_Polygons(L, md, S0)       [] c = "PolyLine2D" -> R_PolyLine2D(L, md, S0)
    [] c = "DbLine" -> R_DbLine(L, md, S0)           [] c = "DbGraphO" -> R_DbGraphO(L, md, S0)
    [] c = "AnamHermite" -> R_AnamHermite(L, md, S0) [] c = "AnamEmpirical" -> R_AnamEmpirical(L, md, S0)
    [] c = "AnamDiscreteIR" -> R_AnamDiscreteIR(L, md, S0) [] c = "MeshEStandard" -> R_MeshEStandard(L, md, S0)
    [] c = "MeshETurbo" -> R_MeshETurbo(L, md, S0)   [] c = "Faults" -> R_Faults(L, md, S0)
    [] c = "Rule" -> R_Rule(L, md, S0)               [] c = "RuleShift" -> R_RuleShift(L, md, S0)
    [] c = "FracEnviron" -> R_FracEnviron(L, md, S0)
    [] c = "CSV" -> R_CSV(L, md)
    [] c \in ExchangeFormats \cup {"Raw"} -> [ok |-> TRUE, ev |-> {}, at |-> "", o |-> <<>>]      \* (no reader model)

Structs(c) ==
  CASE c = "Db" -> DbStructs                 [] c = "DbGrid" -> DbGridStructs
    [] c = "Table" -> TableStructs           [] c = "Model" -> ModelStructsV
    [] c = "NeighUnique" -> NeighStructs     [] c = "NeighBench" -> NeighStructs
    [] c = "NeighMoving" -> NeighMovingStructs [] c = "NeighCell" -> NeighStructs
    [] c = "NeighImage" -> NeighImageStructs [] c = "Vario" -> VarioStructsV
    [] c = "Polygons" -> PolygonsStructs     [] c = "PolyLine2D" -> PolyLine2DStructs
    [] c = "DbLine" -> DbLineStructs         [] c = "DbGraphO" -> DbGraphOStructs
    [] c = "AnamHermite" -> AnamHermiteStructs [] c = "AnamEmpirical" -> AnamEmpiricalStructs
    [] c = "AnamDiscreteIR" -> AnamDiscreteIRStructs [] c = "MeshEStandard" -> MeshShapes
    [] c = "MeshETurbo" -> MeshETurboStructs [] c = "Faults" -> FaultsStructs
    [] c = "Rule" -> RuleStructs             [] c = "RuleShift" -> RuleShiftStructs
    [] c = "FracEnviron" -> FracEnvironStructs
    [] c = "CSV" -> CSVStructs               [] c \in ExchangeFormats -> GridFmtStructs

Doms(c, st) ==
  CASE c = "Db" -> DbDoms(st)                [] c = "DbGrid" -> DbGridDoms(st)
    [] c = "Table" -> TableDoms(st)          [] c = "Model" -> ModelDoms(st)
    [] c = "NeighUnique" -> <<>>             [] c = "NeighBench" -> << <<"0", "1.5", "1.23456789012345", "1e+300", "1e-300">> >>
    [] c = "NeighMoving" -> NeighMovingDoms(st) [] c = "NeighCell" -> << <<1, 2, 5>> >>
    [] c = "NeighImage" -> << <<0, 1, 2>> >> \o Cst(st.ndim, <<1, 2, 3>>) [] c = "Vario" -> VarioDoms(st)
    [] c = "Polygons" -> PolygonsDoms(st)    [] c = "PolyLine2D" -> PolyLine2DDoms(st)
    [] c = "DbLine" -> DbLineDoms(st)        [] c = "DbGraphO" -> DbGraphODoms(st)
    [] c = "AnamHermite" -> AnamHermiteDoms(st) [] c = "AnamEmpirical" -> AnamEmpiricalDoms(st)
    [] c = "AnamDiscreteIR" -> AnamDiscreteIRDoms(st) [] c = "MeshEStandard" -> MeshEStandardDoms(st)
    [] c = "MeshETurbo" -> MeshETurboDoms(st) [] c = "Faults" -> FaultsDoms(st)
    [] c = "Rule" -> << <<"0", "0.5", "-0.5">> >> [] c = "RuleShift" -> << << <<"1", "0", "0">>, <<"0.5", "1.23456789012345", "0">> >> >>
    [] c = "FracEnviron" -> FracEnvironDoms(st)
    [] c = "CSV" -> CSVDoms(st)              [] c \in ExchangeFormats -> GridFmtDoms(st)

Build(c, st, v) ==
  CASE c = "Db" -> DbBuild(st, v)            [] c = "DbGrid" -> DbGridBuild(st, v)
    [] c = "Table" -> TableBuild(st, v)      [] c = "Model" -> ModelBuild(st, v)
    [] c = "NeighUnique" -> [ndim |-> st.ndim] [] c = "NeighBench" -> [ndim |-> st.ndim, width |-> v[1]]
    [] c = "NeighMoving" -> NeighMovingBuild(st, v) [] c = "NeighCell" -> [ndim |-> st.ndim, nmini |-> v[1]]
    [] c = "NeighImage" -> [ndim |-> st.ndim, skip |-> v[1], radius |-> SubSeq(v, 2, 1 + st.ndim)]
    [] c = "Vario" -> VarioBuild(st, v)
    [] c = "Polygons" -> PolygonsBuild(st, v) [] c = "PolyLine2D" -> PolyLine2DBuild(st, v)
    [] c = "DbLine" -> DbLineBuild(st, v)    [] c = "DbGraphO" -> DbGraphOBuild(st, v)
    [] c = "AnamHermite" -> AnamHermiteBuild(st, v) [] c = "AnamEmpirical" -> AnamEmpiricalBuild(st, v)
    [] c = "AnamDiscreteIR" -> AnamDiscreteIRBuild(st, v) [] c = "MeshEStandard" -> MeshEStandardBuild(st, v)
    [] c = "MeshETurbo" -> MeshETurboBuild(st, v) [] c = "Faults" -> FaultsBuild(st, v)
    [] c = "Rule" -> RuleBuild(st, v)        [] c = "RuleShift" -> RuleShiftBuild(st, v)
    [] c = "FracEnviron" -> FracEnvironBuild(st, v)
    [] c = "CSV" -> CSVBuild(st, v)          [] c \in ExchangeFormats -> GridFmtBuild(st, v)

FileW(c, o) == IF c = "CSV" THEN W_CSVLines(o) ELSE IF c \in ExchangeFormats THEN <<>> ELSE FileOf(Tag(c), WriteOps(c, o))
\* kinds of fields of the file of an instance (C09 chooses valid files that hold every kind that the class has)
FieldKinds(c, o) ==
  IF c \in ExchangeFormats \cup {"CSV", "Raw"} THEN {}
  ELSE LET ops == WriteOps(c, o) IN
       UNION {{ops[k].r[q].k : q \in DOMAIN ops[k].r} : k \in DOMAIN ops}
       \cup (IF \E k \in DOMAIN ops : ops[k].w = "vec" /\ Len(ops[k].v) > 0 THEN {"vecrow"} ELSE {})
\* the roles of the tokens of FileW(c, o), in the same layout (<<>>: no field of the format has a declared domain)
RolesW(c, o) == IF c \in ExchangeFormats \cup {"CSV", "Raw"} THEN <<>> ELSE RolesOf(Tag(c), WriteOps(c, o))
\* createFromNF: header check, then the class reader
\* tag expected by the loader that exists for the class (RuleShift has no createFromNF: Rule::createFromNF is inherited)
LoaderTag(c) == IF c = "RuleShift" THEN <<"Rule">> ELSE Tag(c)
ReadFnl(c, L, md, nl) == IF c \in ExchangeFormats \cup {"CSV", "Raw"} THEN ReadBody(c, L, md) ELSE IF ~HeaderOK(L, LoaderTag(c), nl) THEN [ok |-> FALSE, ev |-> {"badHeader"}, at |-> "header", o |-> <<>>] ELSE ReadBody(c, L, md)
ReadF(c, L, md) == ReadFnl(c, L, md, TRUE)

Radices(c, si) == LET doms == Doms(c, Structs(c)[si]) IN [k \in DOMAIN doms |-> Len(doms[k])]
\* abstract instance number dg (one digit per value slot) of structure si of class c
Instance(c, si, dg) == LET st == Structs(c)[si]  doms == Doms(c, st)
                       IN Build(c, st, [k \in DOMAIN doms |-> doms[k][dg[k] + 1]])

\* Traits of an instance that the transcription shows to matter for the round trip (used to name findings)
DbTraits(o) == (IF \E k \in DOMAIN o.names : Len(o.names[k]) > 1 THEN {"nameBlank"} ELSE {})
          \cup (IF \E k \in DOMAIN o.names : IsComment(o.names[k][1]) THEN {"nameHash"} ELSE {})
          \cup (IF \E k \in DOMAIN o.locators : LocCanon(o.locators[k]) # o.locators[k] THEN {"locPrefix"} ELSE {})
VarioTraits(o) == IF \E d \in DOMAIN o.dirs : \E k \in DOMAIN o.dirs[d].vals : o.dirs[d].vals[k] = NA THEN {"valsNA"} ELSE {}
Traits(c, o) == IF c \in {"Db", "DbGrid", "DbLine", "DbGraphO"} THEN DbTraits(o) ELSE IF c = "Vario" THEN VarioTraits(o) ELSE {}
\* top-level fields in which two abstract objects of the same class differ
DiffFields(a, b) == IF DOMAIN a # DOMAIN b THEN {"?"} ELSE {f \in DOMAIN a : a[f] # b[f]}

-----------------------------------------------------------------------------
(* C08, histories: the file written depends only on the CURRENT abstract content of the object, not on the way the     *)
(* object reached it, nor on what the process wrote before.                                                            *)
(*                                                                                                                     *)
(* Classes with a Db part (Db, DbGrid, DbLine, DbGraphO).  Abstract edits of a content o:                              *)
(*     A_Del(c, o, k)        deleteColumnByColIdx(k - 1)       A_Add(c, o, nm, vals)   addColumns(vals, nm)            *)
(* The real object is more than its content: a column is reached through a user identifier (UID) that it keeps for     *)
(* life.  Transcription of the members of Db that the writer goes through (src/Db/Db.cpp):                             *)
(*     uidcol   UID -> rank of the column (0: the UID is free for ever)         [_uidcol, ranks from 1 here]            *)
(*     names, cols   by column                                                 [_colNames, _array]                     *)
(*     ploc     locator type -> UIDs in the order of the locator index          [_p[type]]                              *)
(* C_New = an object as the API builds it (UIDs 1..ncol); C_Del / C_Add = deleteColumnByUID / addColumnsByConstant;     *)
(* C_View = what Db::_serialize collects: getLocators (per column, through its UID), getName("*"), and per sample       *)
(* getArrayBySample = the values of the UIDs of getAllUIDs() (live UIDs, in increasing order).                          *)
(* LAW (checked by TLC in every state of MC_NeutralHist, then on the real library by replaying the histories in one    *)
(* process):  FileW(c, C_View(concrete state)) = FileW(c, abstract content)  -- i.e. Write after any history = Write    *)
(* of a fresh object with the same content.                                                                            *)

HistClasses == {"Db", "DbGrid", "DbLine", "DbGraphO"}
\* structures whose instances are used as starting points: at least one column, names and locators that survive a file
HistStruct(c, st) == /\ c \in HistClasses /\ st.ncol >= 1
                     /\ (c \in {"Db", "DbGrid"} => (st.nk = "plain" /\ st.lk = "plain"))

RemoveAt(q, k) == SubSeq(q, 1, k - 1) \o SubSeq(q, k + 1, Len(q))
\* the header of DbLine / DbGraphO holds the space dimension = number of coordinate columns
FixNDim(c, o) == IF c \in {"DbLine", "DbGraphO"} THEN [o EXCEPT !.ndim = NDimOf(o.locators)] ELSE o
\* deleting the column that holds locator (type, idx) renumbers the locators of the same type beyond it
A_Del(c, o, k) ==
  LET r  == LocIdentify(o.locators[k])
      lc == RemoveAt(o.locators, k)
  IN FixNDim(c, [o EXCEPT !.ncol = @ - 1,
                          !.locators = [j \in DOMAIN lc |-> LET q == LocIdentify(lc[j]) IN
                                          IF r.type # 0 /\ q.type = r.type /\ q.idx > r.idx THEN LocNameTok[<<q.type, q.idx - 1>>] ELSE lc[j]],
                          !.names = RemoveAt(@, k),
                          !.rows = [e \in DOMAIN @ |-> RemoveAt(@[e], k)]])
\* a new column (no locator) behind the others
A_Add(c, o, nm, vals) == [o EXCEPT !.ncol = @ + 1, !.locators = Append(@, NA), !.names = Append(@, <<nm>>),
                                   !.rows = [e \in DOMAIN @ |-> Append(@[e], vals[e])]]

LocTypes == 1..Len(SREF)
C_New(o) ==
  [hdr |-> o, nech |-> o.nech,
   uidcol |-> [u \in 1..o.ncol |-> u],
   names |-> o.names,
   cols |-> [k \in 1..o.ncol |-> [e \in 1..o.nech |-> o.rows[e][k]]],
   \* setLocatorByColIdx in the order of the locator indices
   ploc |-> [t \in LocTypes |->
              LET held == {k \in 1..o.ncol : LocIdentify(o.locators[k]).type = t}
              IN [i \in 1..Cardinality(held) |-> CHOOSE k \in held : LocIdentify(o.locators[k]).idx = i - 1]]]
C_NCol(cs) == Len(cs.names)
C_UidOfCol(cs, k) == CHOOSE u \in DOMAIN cs.uidcol : cs.uidcol[u] = k
\* deleteColumnByUID
C_Del(cs, k) ==
  LET uid == C_UidOfCol(cs, k) IN
  [cs EXCEPT !.uidcol = [u \in DOMAIN @ |-> IF u = uid THEN 0 ELSE IF @[u] < k THEN @[u] ELSE @[u] - 1],
             !.names = RemoveAt(@, k), !.cols = RemoveAt(@, k),
             !.ploc = [t \in LocTypes |-> SelectSeq(@[t], LAMBDA u : u # uid)]]
\* addColumnsByConstant + setColumnByUID: the new column takes the next UID (UIDs are never used again)
C_Add(cs, nm, vals) ==
  [cs EXCEPT !.uidcol = Append(@, C_NCol(cs) + 1), !.names = Append(@, <<nm>>), !.cols = Append(@, vals)]
C_LocOfUid(cs, u) ==
  IF \E t \in LocTypes : \E i \in DOMAIN cs.ploc[t] : cs.ploc[t][i] = u
  THEN LET t == CHOOSE t \in LocTypes : \E i \in DOMAIN cs.ploc[t] : cs.ploc[t][i] = u
           i == CHOOSE i \in DOMAIN cs.ploc[t] : cs.ploc[t][i] = u
       IN IF <<t, i - 1>> \in DOMAIN LocNameTok THEN LocNameTok[<<t, i - 1>>] ELSE "loc?"
  ELSE NA
\* getAllUIDs
C_LiveUids(cs) == SelectSeq([u \in DOMAIN cs.uidcol |-> u], LAMBDA u : cs.uidcol[u] > 0)
\* what Db::_serialize collects from the object (the header of the derived class does not go through the columns)
C_View(c, cs) ==
  LET n    == C_NCol(cs)
      live == C_LiveUids(cs)
      locs == [k \in 1..n |-> C_LocOfUid(cs, C_UidOfCol(cs, k))]
  IN FixNDim(c, [cs.hdr EXCEPT !.ncol = n, !.locators = locs, !.names = cs.names,
                               !.rows = [e \in 1..cs.nech |-> [j \in DOMAIN live |-> cs.cols[cs.uidcol[live[j]]][e]]]])
\* UIDs that are no longer 1..ncol: the object cannot be told from a fresh one by its content, but is not one
C_Aged(cs) == C_LiveUids(cs) # [k \in 1..C_NCol(cs) |-> k]

\* values of the columns added by the histories (step: rank of the edit in the history)
HistVals == <<"5", "2.5", NA, "0.125">>
HistCol(step, nech) == [e \in 1..nech |-> HistVals[((step + e) % 4) + 1]]
HistName(step) == <<"h1", "h2", "h3", "h4", "h5", "h6", "h7", "h8">>[step]

-----------------------------------------------------------------------------
(* File names: ASerializable::buildFileName(status, filename) with the container and prefix settings               *)
(* (status 2 = write: container and prefix are always prepended; status 1 = read: they are prepended unless the       *)
(* name is absolute, or has at most 2 characters: "filename.size() > 2 && filename[0] != '/' && filename[1] != ':'"). *)
(* A name is abstracted by its kind: "long" (relative, more than 2 characters), "short" (relative, at most 2),        *)
(* "abs" (absolute).  Path = the parts prepended to the name.  C08 (settings are part of the configuration space):    *)
(* what dumpToNF writes, createFromNF must find.                                                                       *)
PathParts(status, set, kind) == IF status = 2 \/ kind = "long" THEN <<set.container, set.prefix>> ELSE <<FALSE, FALSE>>
SamePath(set, kind) == PathParts(2, set, kind) = PathParts(1, set, kind)
PathCases == [k \in 1..12 |-> LET set == [container |-> ((k - 1) \div 6) = 1, prefix |-> (((k - 1) \div 3) % 2) = 1]
                                  kind == <<"long", "short", "abs">>[((k - 1) % 3) + 1]
                              IN [container |-> set.container, prefix |-> set.prefix, name |-> kind, same |-> SamePath(set, kind)]]

\* Names that begin with the characters of the prefix.  A name is a sequence of atoms: "P" = the prefix string, "x" = a stem
\* (rendered so that every name is relative and has more than 2 characters: both directions prepend container and
\* prefix, whatever the name begins with).  A path = atoms of the container, of the prefix, of the name; two paths are
\* the same file iff the sequences are equal.  A SESSION under one setting writes a distinct object under each name of
\* the family (x, Px, PPx, P), then reads each name back: the file system keeps, per path, the last object written.
\* LAW: createFromNF(name) gives back the object that dumpToNF(name) wrote -- not nothing, not the object of another name.
PfxNames == << <<"x">>, <<"P", "x">>, <<"P", "P", "x">>, <<"P">> >>
PathAtoms(status, set, atoms) == LET parts == PathParts(status, set, "long") IN
  (IF parts[1] THEN <<"C/">> ELSE <<>>) \o (IF parts[2] THEN <<"P">> ELSE <<>>) \o atoms
FSGet(set, names, path) == LET W == {i \in DOMAIN names : PathAtoms(2, set, names[i]) = path} IN
                           IF W = {} THEN 0 ELSE CHOOSE i \in W : \A i2 \in W : i >= i2
SessionReads(set, names) == [i \in DOMAIN names |-> FSGet(set, names, PathAtoms(1, set, names[i]))]
PathSessions == [k \in 1..4 |-> LET set == [container |-> ((k - 1) \div 2) = 1, prefix |-> ((k - 1) % 2) = 1] IN
                   [container |-> set.container, prefix |-> set.prefix, names |-> PfxNames, reads |-> SessionReads(set, PfxNames)]]
PathSessionLaw == \A k \in DOMAIN PathSessions : \A i \in DOMAIN PfxNames : PathSessions[k].reads[i] = i

-----------------------------------------------------------------------------
(* C09: fault layer.  From a valid file L (sequence of lines of tokens):     *)
(*   trunc(k)      the first k tokens only (interrupted write)                *)
(*   corrupt(k, t) token k replaced by t                                      *)
(*   emptyline(k)  token k replaced by an empty line                          *)
(*   wrongclass(t) class tag replaced by t                                    *)
(*   dupline(l) / dropline(l)                                                 *)
(*   tagonly       the first line only (ended by a newline)                   *)
(*   bound(k, t)   token k replaced by a value JUST OUTSIDE the domain that    *)
(*                 the specification gives to its field (role of the token):   *)
(*                 count n -> n-1, n+1; enumeration / flag lo..hi -> hi+1,     *)
(*                 hi+2, lo-1; rank lo..hi -> hi+1, lo-1                       *)
(*   duptok(k)     token k written twice (one value too many on its line /     *)
(*                 in its record; every line, the LAST one included)           *)
(* Tokens are numbered 1..N over the whole file (the tag is token 1).         *)

NTok(L) == LET F[i \in 0..Len(L)] == IF i = 0 THEN 0 ELSE F[i-1] + Len(L[i]) IN F[Len(L)]
\* line and column of token k
TokPos(L, k) == LET F[i \in 0..Len(L)] == IF i = 0 THEN 0 ELSE F[i-1] + Len(L[i])
                    i == CHOOSE i \in 1..Len(L) : F[i-1] < k /\ k <= F[i]
                IN <<i, k - F[i-1]>>
TokAt(L, k) == LET p == TokPos(L, k) IN L[p[1]][p[2]]

ReplToks == <<NA, "-1", "0", "2147483647", "1e308", "abc", "sel2", HASH>>

ApplyFault(L, ft) ==
  CASE ft.kind = "noop" -> L
    [] ft.kind = "trunc" ->
         LET p == TokPos(L, ft.k) IN SubSeq(L, 1, p[1] - 1) \o << SubSeq(L[p[1]], 1, p[2]) >>
    [] ft.kind \in {"corrupt", "bound"} ->
         LET p == TokPos(L, ft.k) IN [L EXCEPT ![p[1]][p[2]] = ft.t]
    [] ft.kind = "emptyline" ->
         LET p == TokPos(L, ft.k)  ln == L[p[1]] IN
         SubSeq(L, 1, p[1] - 1) \o << SubSeq(ln, 1, p[2] - 1), <<>>, SubSeq(ln, p[2] + 1, Len(ln)) >> \o SubSeq(L, p[1] + 1, Len(L))
    [] ft.kind = "duptok" ->
         LET p == TokPos(L, ft.k)  ln == L[p[1]] IN
         [L EXCEPT ![p[1]] = SubSeq(ln, 1, p[2]) \o <<ln[p[2]]>> \o SubSeq(ln, p[2] + 1, Len(ln))]
    [] ft.kind = "wrongclass" -> [L EXCEPT ![1] = <<ft.t>>]
    [] ft.kind = "tagonly" -> <<L[1]>>
    [] ft.kind = "dupline"  -> SubSeq(L, 1, ft.k) \o <<L[ft.k]>> \o SubSeq(L, ft.k + 1, Len(L))
    [] ft.kind = "dropline" -> SubSeq(L, 1, ft.k - 1) \o SubSeq(L, ft.k + 1, Len(L))

\* boundary replacements of a token, from its role (at most 3)
BoundInts(r) == CASE r.k = "count" -> <<r.lo - 1, r.lo + 1>>
                  [] r.k = "enum"  -> <<r.hi + 1, r.hi + 2, r.lo - 1>>
                  [] r.k = "index" -> <<r.hi + 1, r.lo - 1>>
                  [] OTHER -> <<>>
NBoundSlots == 3
\* the faults of a file, numbered 1..NFaults(L, RL): truncations, corruptions (8 replacement tokens per token; a replacement
\* by the same token is the fault "noop"), empty lines, 2 wrong class tags, duplicated lines, dropped lines, the first line
\* alone, boundary replacements (3 slots per token; RL: roles of the tokens, <<>> when the format declares none), every
\* token written twice (a comment mark written twice changes nothing: "noop")
NBoundFaults(L, RL) == IF RL = <<>> THEN 0 ELSE NBoundSlots * (NTok(L) - 1)
NFaults(L, RL) == 10 * (NTok(L) - 1) + 2 + 2 * (Len(L) - 1) + 1 + NBoundFaults(L, RL) + (NTok(L) - 1)
FaultAt(L, RL, c, j) ==
  LET n1 == NTok(L) - 1
      nl == Len(L) - 1
      nb == 10 * n1 + 2 + 2 * nl + 1
  IN IF j <= n1 THEN [kind |-> "trunc", k |-> j, t |-> ""]
     ELSE IF j <= 9 * n1 THEN
          LET idx == j - n1 - 1
              k   == (idx \div 8) + 2
              t   == ReplToks[(idx % 8) + 1]
          IN [kind |-> IF t = TokAt(L, k) THEN "noop" ELSE "corrupt", k |-> k, t |-> t]
     ELSE IF j <= 10 * n1 THEN [kind |-> "emptyline", k |-> j - 9 * n1 + 1, t |-> ""]
     ELSE IF j = 10 * n1 + 1 THEN [kind |-> "wrongclass", k |-> 1, t |-> IF c = "Table" THEN "Db" ELSE "Table"]
     ELSE IF j = 10 * n1 + 2 THEN [kind |-> "wrongclass", k |-> 1, t |-> "abc"]
     ELSE IF j <= 10 * n1 + 2 + nl THEN [kind |-> "dupline", k |-> j - (10 * n1 + 2) + 1, t |-> ""]
     ELSE IF j <= 10 * n1 + 2 + 2 * nl THEN [kind |-> "dropline", k |-> j - (10 * n1 + 2 + nl) + 1, t |-> ""]
     ELSE IF j = nb THEN [kind |-> "tagonly", k |-> 1, t |-> ""]                      \* the first line alone, with its end of line
     ELSE IF j > nb + NBoundFaults(L, RL) THEN
          LET k == j - nb - NBoundFaults(L, RL) + 1
          IN [kind |-> IF IsComment(TokAt(L, k)) THEN "noop" ELSE "duptok", k |-> k, t |-> ""]
     ELSE LET idx  == j - nb - 1
              k    == (idx \div NBoundSlots) + 2
              slot == (idx % NBoundSlots) + 1
              bi   == BoundInts(TokAt(RL, k))
          IN IF slot > Len(bi) \/ bi[slot] \notin IR \/ ToString(bi[slot]) = TokAt(L, k) THEN [kind |-> "noop", k |-> k, t |-> ""]
             ELSE [kind |-> "bound", k |-> k, t |-> ToString(bi[slot])]

\* events of the transcribed reader that are memory-unsafe or unbounded in the real code
UnsafeEvents == {"vecOverflow", "allocNegative", "allocHuge", "allocUnbounded", "loopUnbounded", "writeUnsized", "useAfterClear", "gridSizeMismatch", "badEnum", "badDims", "emptyPolyline", "emptyHermite", "badIndex", "badGrid", "badRuleNodes", "namesMismatch", "nameHash"}
\* events by which the transcribed reader accepts what the intended reader refuses
LenientEvents == {"eofDefault", "wordAsZero", "dbPartIgnored", "uninitReturn", "tableReadIgnored", "raggedShift", "namesMismatch"}

\* Classification of a faulty file: verdict of the intended reader, prediction of the transcribed one, first divergence
Classify(c, L, nl) ==
  LET ri == ReadFnl(c, L, "ideal", nl)
      rr == ReadFnl(c, L, "real", nl)
  IN [verdict |-> IF ri.ok THEN "MaySucceed" ELSE "MustFail",
      io |-> ri.o, iat |-> ri.at,
      rok |-> rr.ok, rat |-> rr.at, rev |-> rr.ev,
      unsafe |-> rr.ev \cap UnsafeEvents,
      diverge |-> IF rr.ev \cap UnsafeEvents # {} THEN "unsafe"
                  ELSE IF rr.ok /\ ~ri.ok THEN "realAcceptsMustFail"
                  ELSE IF ~rr.ok /\ ri.ok THEN "realRejectsValid"
                  ELSE IF rr.ok /\ ri.ok /\ rr.o # ri.o THEN "differentObject"
                  ELSE "none"]

=============================================================================
