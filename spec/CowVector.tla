----------------------------- MODULE CowVector -----------------------------
(***************************************************************************)
(* gstlearn's VectorT / VectorNumT share their buffer between copies and     *)
(* detach before writing (copy-on-write).  Property C10: copies are          *)
(* independent of their source - a modification through one handle is never *)
(* visible through another.                                                  *)
(*                                                                         *)
(* Definition  = value semantics: val[h] is the sequence held by handle h.  *)
(* Algorithm   = transcription of VectorT.hpp: ptr[h] names a shared buffer, *)
(*               every mutating member calls _detach first (a buffer held by *)
(*               one handle only is modified in place), resize() to the same *)
(*               size returns before detaching, swap exchanges the pointers. *)
(* TLC checks  Agree == \A h : buf[ptr[h]] = val[h]  on every reachable       *)
(* state and emits every history with the expected values of ALL handles      *)
(* after each operation (replayed on VectorT<double> and VectorNumT<int>).    *)
(***************************************************************************)
EXTENDS Integers, Sequences, FiniteSets, TLC, Json

CONSTANTS MaxLen, MaxSize
H == {"h1", "h2", "h3"}
WriteMethods == {"setAt", "index", "at", "front", "back", "data", "begin", "subdata"}

VARIABLES val, ptr, buf, nbuf, hist
vars == <<val, ptr, buf, nbuf, hist>>

\* h1 holds <<1,2>>; h2 is a copy of h1 (shared buffer); h3 is empty
Init == /\ val = [h \in H |-> IF h = "h3" THEN <<>> ELSE <<1, 2>>]
        /\ ptr = [h \in H |-> IF h = "h3" THEN 2 ELSE 1]
        /\ buf = <<(<<1, 2>>), (<<>>)>>
        /\ nbuf = 2
        /\ hist = <<>>

Holders(p, b) == {h \in H : p[h] = b}
\* _detach of handle a: own buffer when shared
Detached(a) == IF Cardinality(Holders(ptr, ptr[a])) = 1 THEN [p |-> ptr, b |-> buf, n |-> nbuf]
               ELSE [p |-> [ptr EXCEPT ![a] = nbuf + 1], b |-> Append(buf, buf[ptr[a]]), n |-> nbuf + 1]
\* a mutating member: detach, then modify the (now private) buffer with f
Mutate(a, f(_)) == LET d == Detached(a) IN
                   /\ ptr' = d.p /\ nbuf' = d.n
                   /\ buf' = [d.b EXCEPT ![d.p[a]] = f(d.b[d.p[a]])]
                   /\ val' = [val EXCEPT ![a] = f(val[a])]
Log(rec) == hist' = Append(hist, [rec EXCEPT !.expect = [h \in H |-> val'[h]]])
E == [h \in H |-> <<>>]

SetElem(s, i, v) == [s EXCEPT ![i] = v]
RemoveAt(s, i) == SubSeq(s, 1, i - 1) \o SubSeq(s, i + 1, Len(s))
InsertAt(s, i, v) == SubSeq(s, 1, i - 1) \o <<v>> \o SubSeq(s, i, Len(s))

Copy(a, b) == /\ a # b
              /\ val' = [val EXCEPT ![b] = val[a]]
              /\ ptr' = [ptr EXCEPT ![b] = ptr[a]]      \* operator=(const VectorT&): shares the buffer
              /\ UNCHANGED <<buf, nbuf>>
              /\ Log([op |-> "copy", a |-> a, b |-> b, expect |-> E])
Write(a, m, i) == /\ i \in 1..Len(val[a])
                  /\ (m = "front" => i = 1) /\ (m = "back" => i = Len(val[a]))
                  /\ Mutate(a, LAMBDA s : SetElem(s, i, 7))
                  /\ Log([op |-> "write", a |-> a, m |-> m, i |-> i - 1, v |-> 7, expect |-> E])
PushBack(a) == /\ Len(val[a]) < MaxSize
               /\ Mutate(a, LAMBDA s : Append(s, 8))
               /\ Log([op |-> "push_back", a |-> a, v |-> 8, expect |-> E])
PushFront(a) == /\ Len(val[a]) < MaxSize
                /\ Mutate(a, LAMBDA s : <<9>> \o s)
                /\ Log([op |-> "push_front", a |-> a, v |-> 9, expect |-> E])
Resize(a, n) == /\ n \in 0..MaxSize
                /\ IF n = Len(val[a]) THEN UNCHANGED <<val, ptr, buf, nbuf>>      \* returns before _detach
                   ELSE Mutate(a, LAMBDA s : IF n < Len(s) THEN SubSeq(s, 1, n) ELSE s \o [k \in 1..(n - Len(s)) |-> 0])
                /\ Log([op |-> "resize", a |-> a, n |-> n, expect |-> E])
Clear(a) == /\ Mutate(a, LAMBDA s : <<>>)
            /\ Log([op |-> "clear", a |-> a, expect |-> E])
Fill(a) == /\ Mutate(a, LAMBDA s : [k \in 1..Len(s) |-> 5])
           /\ Log([op |-> "fill", a |-> a, v |-> 5, expect |-> E])
Insert(a, i) == /\ i \in 1..(Len(val[a]) + 1) /\ Len(val[a]) < MaxSize
                /\ Mutate(a, LAMBDA s : InsertAt(s, i, 6))
                /\ Log([op |-> "insert", a |-> a, i |-> i - 1, v |-> 6, expect |-> E])
Remove(a, i) == /\ i \in 1..Len(val[a])
                /\ Mutate(a, LAMBDA s : RemoveAt(s, i))
                /\ Log([op |-> "remove", a |-> a, i |-> i - 1, expect |-> E])
AppendVec(a, b) == /\ Len(val[a]) + Len(val[b]) <= MaxSize
                   /\ LET add == val[b] IN Mutate(a, LAMBDA s : s \o add)
                   /\ Log([op |-> "append", a |-> a, b |-> b, expect |-> E])
Swap(a, b) == /\ a # b
              /\ val' = [val EXCEPT ![a] = val[b], ![b] = val[a]]
              /\ ptr' = [ptr EXCEPT ![a] = ptr[b], ![b] = ptr[a]]
              /\ UNCHANGED <<buf, nbuf>>
              /\ Log([op |-> "swap", a |-> a, b |-> b, expect |-> E])
AssignStd(a) == /\ Mutate(a, LAMBDA s : <<3, 4>>)
                /\ Log([op |-> "assignstd", a |-> a, expect |-> E])
\* The in-place helpers of VectorHelper take the vector by non-const reference and modify it through its
\* mutating interface (begin / end / operator[]): each is a Mutate of the handle it receives, i.e. it must
\* detach first.  "vh_random" (VH::simulateGaussianInPlace) writes unspecified values: -1 stands for "any".
Helpers == {"vh_fill", "vh_addc", "vh_mulc", "vh_cumul", "vh_sortdesc", "vh_random"}
Cumul(s) == [k \in 1..Len(s) |-> LET RECURSIVE Sum(_) Sum(j) == IF j = 0 THEN 0 ELSE s[j] + Sum(j - 1) IN Sum(k)]
RECURSIVE SortDesc(_)
SortDesc(s) == IF Len(s) <= 1 THEN s
               ELSE LET m == CHOOSE i \in 1..Len(s) : \A j \in 1..Len(s) : s[i] >= s[j]
                    IN <<s[m]>> \o SortDesc(RemoveAt(s, m))
HelperF(k, s) == CASE k = "vh_fill"     -> [i \in 1..Len(s) |-> 5]
                   [] k = "vh_addc"     -> [i \in 1..Len(s) |-> s[i] + 1]
                   [] k = "vh_mulc"     -> [i \in 1..Len(s) |-> 2 * s[i]]
                   [] k = "vh_cumul"    -> Cumul(s)
                   [] k = "vh_sortdesc" -> SortDesc(s)
                   [] k = "vh_random"   -> [i \in 1..Len(s) |-> -1]
Helper(a, k) == /\ Len(val[a]) > 0
                /\ \A i \in 1..Len(val[a]) : val[a][i] >= 0 /\ val[a][i] < 100      \* (no arithmetic on "any", bounded values)
                /\ Mutate(a, LAMBDA s : HelperF(k, s))
                /\ Log([op |-> "helper", a |-> a, k |-> k, expect |-> E])
Reserve(a) == /\ UNCHANGED <<val, ptr, buf, nbuf>>
              /\ Log([op |-> "reserve", a |-> a, expect |-> E])

Next == /\ Len(hist) < MaxLen
        /\ \/ \E a, b \in H : Copy(a, b) \/ AppendVec(a, b) \/ Swap(a, b)
           \/ \E a \in H : \E m \in WriteMethods : \E i \in 1..MaxSize : Write(a, m, i)
           \/ \E a \in H : PushBack(a) \/ PushFront(a) \/ Clear(a) \/ Fill(a) \/ AssignStd(a) \/ Reserve(a)
           \/ \E a \in H : \E k \in Helpers : Helper(a, k)
           \/ \E a \in H : \E n \in 0..MaxSize : Resize(a, n)
           \/ \E a \in H : \E i \in 1..(MaxSize + 1) : Insert(a, i) \/ Remove(a, i)
Spec == Init /\ [][Next]_vars

\* the copy-on-write algorithm implements value semantics
Agree == \A h \in H : buf[ptr[h]] = val[h]
\* a write through one handle is invisible through every other handle
Isolation == [][\A h \in H : (hist' # hist /\ hist'[Len(hist')].op \notin {"copy", "swap"} /\ h # hist'[Len(hist')].a)
                              => val'[h] = val[h]]_vars
EmitScripts == Len(hist) < MaxLen \/ PrintT(ToJson([hist |-> hist]))
=============================================================================
