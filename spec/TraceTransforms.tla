-------------------------- MODULE TraceTransforms --------------------------
(* Judges what the REAL gstlearn objects did on every scenario emitted by       *)
(* MC_Transforms (harness transf_run; one ndjson record per scenario).  Every   *)
(* record is judged independently with the definitions of Transforms.tla:       *)
(*  - return codes, agreement of the entry points computing the same function,  *)
(*  - algebraic identities of the fitted state (accuracy AccAlg),               *)
(*  - NA patterns, validity-domain bookkeeping, monotonicity (rank patterns,    *)
(*    computed here on the integer data when the input is a base data set),     *)
(*  - exact sums / cross-products (means and covariances of PCA/MAF, mean and   *)
(*    Bessel inequality of the Hermite coefficients), normal-score ranks,       *)
(*  - for every produced array: equality (accuracy of the method) with the      *)
(*    earlier arrays having the same normal form and with the normal form       *)
(*    evaluated by fresh objects; exact images for rotations.                   *)
(* Rejections are printed as JSON lines; the driver maps them to VIOLATION /    *)
(* KNOWN-FINDING.  Records are judged in parallel (one state per record).       *)
EXTENDS Transforms, Json, IOUtils, TLCExt, SequencesExt

Log == ndJsonDeserialize(IOEnv.OBS)
NL == Len(Log)

F(tag, step, name, k, e) == [tag |-> tag, step |-> step, name |-> name, k |-> k, e |-> e, j |-> 0]
When(cond, item) == IF cond THEN {item} ELSE {}
Max2(a, b) == IF a > b THEN a ELSE b


SetMax(S) == CHOOSE x \in S : \A y \in S : y <= x
SetMin(S) == CHOOSE x \in S : \A y \in S : y >= x

StBefore(kind, steps, s) == Replay(kind, InitSt, SubSeq(steps, 1, s - 1))
\* index (in arrs) of the array produced by step s
ArrIdx(steps, s) == Cardinality({i \in 1..s : steps[i].op \in {"fwd", "inv"}})

FormFails(s, ob) ==
  UNION {When(f.err # 0 \/ f.e > AccSame, F("form", s, f.name, 0, IF f.err # 0 THEN 10000 + f.err ELSE f.e)) : f \in Rng(ob.forms)}

AlgApplies(kind, st, step, name) ==
  IF name \in {"out-mean=0", "out-cov=I"}
  THEN step.op = "fwd" /\ step.src.t = "d" /\ ObjOf(st, step.who).data = step.src.d
  ELSE TRUE
AlgFails(kind, st, step, s, ob) ==
  UNION {When(AlgApplies(kind, st, step, a.name) /\ a.e > AlgAcc(a.name), F("alg", s, a.name, 0, a.e)) : a \in Rng(ob.alg)}

\* Hermite coefficients in any state (data, order, r): psi_0 is the mean of the data whatever the support,
\* the variance (sum of psi_n^2 r^2n) is bounded by the variance of the data (Bessel)
HermiteMomentFails(ds, s, name, ob) ==
  LET U == UsableSet(ds)
      n == Cardinality(U)
      S == SumVar(ds, 1)
      Q == SumProd(ds, 1, 1)
      vs == {ds.vars[1][i] : i \in U}
      range == SetMax(vs) - SetMin(vs)
  IN  When(ob.nuse # n, F("nuse", s, name, 0, ob.nuse))
      \cup When(Abs(ob.psi0m - 1000 * S) > ((n * range) \div 50) + 1, F("psi0-mean", s, name, 0, ob.psi0m - 1000 * S))
      \cup When(ob.varn2 > (n * Q - S * S) + ((n * Q - S * S) \div 1000) + 2, F("bessel", s, name, 0, ob.varn2 - (n * Q - S * S)))

SupportFails(kind, st, step, s, ob) ==
  When(ob.err # 0, F("err", s, "support", 0, ob.err)) \cup HermiteMomentFails(Data(step.data), s, "support", ob)

FitFails(kind, st, step, s, ob) ==
  LET ds == Data(step.data)
      U == UsableSet(ds)
      n == Cardinality(U)
  IN When(ob.err # 0, F("err", s, "fit", 0, ob.err))
     \cup (IF kind = "AH" THEN HermiteMomentFails(ds, s, "fit", ob) ELSE {})
     \cup (IF kind \in {"PCA", "MAF"}
           THEN LET nv == ds.nvar IN
                    When(ob.nuse # n, F("nuse", s, "fit", 0, ob.nuse))
                    \cup When(ob.nfac # nv \/ \E d \in Rng(ob.dims) : d # nv, F("pca-nfac", s, "fit", 0, ob.nfac))
                    \cup When(ob.meansn # [v \in 1..nv |-> SumVar(ds, v)] \/ ob.meansres > AccAlg, F("pca-means", s, "fit", 0, ob.meansres))
                    \cup When(ob.covn # [q \in 1..(nv * nv) |-> CovNum(ds, ((q - 1) \div nv) + 1, ((q - 1) % nv) + 1)] \/ ob.covres > AccAlg,
                              F("pca-cov", s, "fit", 0, ob.covres))
           ELSE {})

ApplyFails(kind, st, step, s, ob) ==
  LET n == Len(ob.dom)
      nv == RefNvar(st, step.src)
      isBase == step.src.t = "d"
      ds == Data(RefBase(st, step.src))
      who == ObjOf(st, step.who)
      mode == MonoMode(kind, step.op, who.opt)
      restricted == kind \in {"AH", "AE"}
  IN When(ob.err # 0, F("err", s, step.op, 0, ob.err))
     \* validity-domain bookkeeping: inside the selection, defined; not shrunk where the transform has no restriction
     \cup When(\E i \in 1..n : ob.dom[i] = 1 /\ (ob.act[i] = 0 \/ ob.nain[i] > 0), F("dom", s, step.op, 0, 0))
     \cup When(isBase /\ (ob.act # ds.sel \/ ob.nain # [i \in 1..ds.n |-> Cardinality({v \in 1..ds.nvar : ds.vars[v][i] = NA})]),
               F("binding", s, "data", 0, 0))
     \cup When(isBase /\ ~restricted /\ ob.dom # [i \in 1..ds.n |-> IF Usable(ds, i) THEN 1 ELSE 0], F("dom", s, "shrunk", 0, 0))
     \* NA in <=> NA out on the selected samples
     \cup When(\E i \in 1..n : ob.act[i] = 1 /\
                 (IF kind \in {"PCA", "MAF"} THEN ob.naout[i] # (IF ob.nain[i] > 0 THEN nv ELSE 0)
                  ELSE (ob.naout[i] > 0) # (ob.nain[i] > 0)), F("na", s, step.op, 0, 0))
     \* the round-trip law in the current state of the object (whatever its support coefficient)
     \cup (IF restricted THEN When(ob.rt.e > AccOf(kind), F("roundtrip", s, step.op, 0, ob.rt.e)) ELSE {})
     \* monotonicity on the validity domain
     \cup (IF mode # "none"
           THEN When(isBase /\ ob.rin # DenseRank(ds.vars[1], {i \in 1..n : ob.dom[i] = 1}), F("binding", s, "rank-in", 0, 0))
                \cup When(~MonoHolds(mode, ob.rin, ob.rout), F("mono", s, mode, 0, 0))
           ELSE {})
     \* normal scores: the ranks are a permutation of 1..n
     \cup (IF kind = "NS"
           THEN LET D == {i \in 1..n : ob.dom[i] = 1} IN
                When({ob.ranks[i] : i \in D} # 1..Cardinality(D) \/ ob.nuse # Cardinality(D) \/ ob.ranksres > AccRank, F("ns-ranks", s, "fwd", 0, ob.ranksres))
           ELSE {})
     \* PCA / MAF: as many factors as variables
     \cup (IF kind \in {"PCA", "MAF"} THEN When(ob.added # nv, F("pca-nfac", s, step.op, 0, ob.added)) ELSE {})

StepFails(kind, steps, s, ob) ==
  LET st == StBefore(kind, steps, s)
      step == steps[s]
  IN (IF step.op = "fit" THEN FitFails(kind, st, step, s, ob)
      ELSE IF step.op = "copy" THEN When(ob.err # 0, F("err", s, "copy", 0, ob.err))
      ELSE IF step.op = "support" THEN SupportFails(kind, st, step, s, ob)
      ELSE ApplyFails(kind, st, step, s, ob))
     \cup FormFails(s, ob) \cup AlgFails(kind, st, step, s, ob)

\* step that produced array k
ProdStep(steps, k) == CHOOSE s \in 1..Len(steps) : steps[s].op \in {"fwd", "inv"} /\ ArrIdx(steps, s) = k

ArrayFails(kind, steps, st, r, k) ==
  LET s == ProdStep(steps, k)
      key == RefKey(kind, st, ARef(k))
  IN UNION {LET items == {x \in Rng(r.same) : x.k = k /\ x.ref = ref} IN
              IF items = {} THEN {F("missing", s, "same", k, 0)}
              ELSE UNION {When(x.e > AccOf(kind), [F("same", s, ref.t, k, x.e) EXCEPT !.j = ref.a]) : x \in items}
            : ref \in SameAs(kind, st, k)}
     \cup (IF kind = "ROT"
           THEN LET items == {x \in Rng(r.exact) : x.k = k}
                    m == key.nf[1]
                    ds == Data(key.base)
                IN IF items = {} THEN {F("missing", s, "exact", k, 0)}
                   ELSE UNION {When(x.den # m.den \/ x.num # [i \in 1..ds.n |-> Image(m, ds, i)] \/ x.res > AccOf(kind), F("exact", s, "image", k, x.res)) : x \in items}
           ELSE LET items == {x \in Rng(r.fresh) : x.k = k} IN
                IF items = {} THEN {F("missing", s, "fresh", k, 0)}
                ELSE UNION {When(x.e > AccOf(kind), F("fresh", s, "nf", k, x.e)) : x \in items})

CaseFails(r) ==
  LET kind == r.kind
      steps == r.steps
      st == Replay(kind, InitSt, steps)
  IN IF ~AllEnabled(kind, InitSt, steps) \/ Len(r.obs) # Len(steps) THEN {F("bad-case", 0, "", 0, 0)}
     ELSE UNION {StepFails(kind, steps, s, r.obs[s]) : s \in 1..Len(steps)}
          \cup UNION {ArrayFails(kind, steps, st, r, k) : k \in 1..Len(st.arrs)}

\* context of a rejection, for the report and the known-finding patterns
Ctx(r, f) ==
  LET steps == r.steps
      st == StBefore(r.kind, steps, Max2(f.step, 1))
      step == IF f.step >= 1 THEN steps[f.step] ELSE steps[1]
      fit == IF step.op = "fit" THEN [data |-> step.data, opt |-> step.opt, r |-> st.obj.r]
             ELSE IF step.op = "support" THEN [st.obj EXCEPT !.r = step.opt]
             ELSE IF r.kind = "NS" THEN NoFit ELSE ObjOf(st, step.who)
      base == IF step.op \in {"fwd", "inv"} THEN RefBase(st, step.src) ELSE step.data
  IN [tag |-> f.tag, step |-> f.step, name |-> f.name, k |-> f.k, j |-> f.j, e |-> f.e, op |-> step.op,
      opt |-> fit.opt, fitdata |-> fit.data, rcoef |-> fit.r, base |-> base,
      refit |-> CountFits(SubSeq(steps, 1, f.step)) >= 2,
      masked |-> IF base \in AllDataNames THEN \E i \in 1..Data(base).n : Data(base).sel[i] = 0 ELSE FALSE,
      hasna |-> IF base \in AllDataNames THEN \E i \in 1..Data(base).n : ~Isotopic(Data(base), i) ELSE FALSE]

VARIABLE k
Init == k = 0
Next == \/ /\ k = 0
           /\ k' \in 1..NL
        \/ /\ k > 0
           /\ k' = -k
           /\ LET r == Log[k]
                  f == CaseFails(r)
              IN f = {} \/ PrintT(ToJson([id |-> r.id, kind |-> r.kind, fails |-> SetToSeq({Ctx(r, x) : x \in f})]))
Spec == Init /\ [][Next]_k
AllExamined == TLCGet("distinct") = 2 * NL + 1 \/ PrintT(<<"NOT-ALL-EXAMINED", TLCGet("distinct"), 2 * NL + 1>>)
=============================================================================
