SPECIFICATION Spec
CONSTANTS
  Rich = FALSE
  VaryOf <- VaryQuick
  PairDims <- PairsQuick
INVARIANT WellFormed
CONSTRAINT Emit
CHECK_DEADLOCK FALSE
