SPECIFICATION Spec
CONSTANT MaxPrefix = 1
CONSTRAINT EmitScripts
CHECK_DEADLOCK FALSE
