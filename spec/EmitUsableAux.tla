--------------------------- MODULE EmitUsableAux ---------------------------
(* Writes the fixed geometry of Usable.tla and the target-selection patterns  *)
(* with their expectation as JSON, so that the harness concretises the         *)
(* patterns on exactly the points the specification reasons about.             *)
EXTENDS Usable, Json, IOUtils, SequencesExt
TRec(T) == [tsel |-> T, tkeep |-> TKeep(T), expect |-> TargetExpect(T)]
ASSUME JsonSerialize(IOEnv.OUT,
         [geom |-> [sx |-> SX, sy |-> SY, tx |-> TX, ty |-> TY, nmaxi |-> NMaxi, lagw |-> LagW, nlag |-> NLag,
                    gnx |-> GNX, gdx2 |-> GDX2, gdy2 |-> GDY2, cgnx |-> CGNX, cgny |-> CGNY],
          targets |-> SetToSeq({TRec(T) : T \in TargetPatterns}),
          target_ops |-> TargetOps])
VARIABLE x
Spec == x = 0 /\ [][UNCHANGED x]_x
=============================================================================
