------------------------------ MODULE Globals ------------------------------
(***************************************************************************)
(* Process-wide state of gstlearn as an effect system (property C10: the     *)
(* value returned by a library function is determined by its arguments, the  *)
(* documented global options and, for random procedures, the seed it is      *)
(* given - whatever was called before, successfully or not, on the same or   *)
(* on other objects).                                                        *)
(*                                                                         *)
(* Hidden globals: "rng" (random stream), "ballfn" (the single distance       *)
(* function pointer shared by all ball trees), "idirloc" (file-static         *)
(* direction index of Vario.cpp), "modelcache" (optimisation cache of the     *)
(* Model object shared by the calls of a session).                            *)
(* Each call of the catalogue declares which globals it reads WITHOUT         *)
(* re-initialising them at entry and which it leaves modified.  Independent   *)
(* is the property; TLC enumerates every prefix (length <= MaxPrefix) before  *)
(* every observable call, evaluates Independent on the effect table (the      *)
(* predictions) and emits every (prefix, observed) pair as a replay script:   *)
(* the harness runs "prefix; observed" and "observed" alone in two fresh      *)
(* processes and the results must be bit-identical.                           *)
(***************************************************************************)
EXTENDS Integers, Sequences, FiniteSets, TLC, Json, SequencesExt

CONSTANT MaxPrefix

G == {"rng", "ballfn", "idirloc", "modelcache"}

\* reads: globals whose value at entry influences the result; writes: globals left modified
Calls ==
  { [name |-> "draw_seeded",        reads |-> {},          writes |-> {"rng"},        obs |-> TRUE],
    [name |-> "draw_unseeded",      reads |-> {"rng"},     writes |-> {"rng"},        obs |-> FALSE],
    [name |-> "simtub_nc",          reads |-> {},          writes |-> {"rng"},        obs |-> TRUE],
    [name |-> "simtub_cond",        reads |-> {},          writes |-> {"rng"},        obs |-> TRUE],
    [name |-> "simfft",             reads |-> {},          writes |-> {"rng"},        obs |-> TRUE],
    [name |-> "fill_random",        reads |-> {},          writes |-> {"rng"},        obs |-> TRUE],
    [name |-> "add_cols_random",    reads |-> {},          writes |-> {"rng"},        obs |-> TRUE],
    [name |-> "kriging_ok",         reads |-> {},          writes |-> {},             obs |-> TRUE],
    [name |-> "kriging_moving_ball", reads |-> {},         writes |-> {"ballfn"},     obs |-> TRUE],
    [name |-> "kriging_fail",       reads |-> {},          writes |-> {},             obs |-> FALSE],
    [name |-> "xvalid_ok",          reads |-> {},          writes |-> {},             obs |-> TRUE],
    [name |-> "covoptim_ok",        reads |-> {},          writes |-> {},             obs |-> TRUE],
    [name |-> "covoptim_fail",      reads |-> {},          writes |-> {},             obs |-> FALSE],
    [name |-> "vario_std",          reads |-> {},          writes |-> {"idirloc"},    obs |-> TRUE],
    \* (before the repair recorded in KNOWN_FINDINGS.json vario_bysample read "idirloc" and
    \*  ball_query_euclid_tree read "ballfn": TLC predicted both interferences, the replay confirmed them)
    [name |-> "vario_bysample",     reads |-> {},          writes |-> {"idirloc"},    obs |-> TRUE],
    [name |-> "ball_build_manhattan", reads |-> {},        writes |-> {"ballfn"},     obs |-> FALSE],
    [name |-> "ball_build_euclid",  reads |-> {},          writes |-> {"ballfn"},     obs |-> FALSE],
    [name |-> "ball_query_euclid_tree", reads |-> {},      writes |-> {},             obs |-> TRUE],
    [name |-> "migrate_ball",       reads |-> {},          writes |-> {"ballfn"},     obs |-> TRUE],
    [name |-> "anam_fit_transform", reads |-> {},          writes |-> {},             obs |-> TRUE],
    [name |-> "stats_mono",         reads |-> {},          writes |-> {},             obs |-> TRUE] }

Names == {c.name : c \in Calls}
CallOf(n) == CHOOSE c \in Calls : c.name = n

\* "style": the documented global option selecting the random generator (law_set_old_style); part of the
\* configuration of the session, set identically in both processes
VARIABLES prefix, dirty, observed, style
vars == <<prefix, dirty, observed, style>>

Init == prefix = <<>> /\ dirty = {} /\ observed = "none" /\ style \in {"old", "new"}
Step(n) == /\ observed = "none" /\ Len(prefix) < MaxPrefix
           /\ prefix' = Append(prefix, n)
           /\ dirty' = dirty \cup CallOf(n).writes
           /\ UNCHANGED <<observed, style>>
Observe(n) == /\ observed = "none" /\ CallOf(n).obs
              /\ observed' = n
              /\ UNCHANGED <<prefix, dirty, style>>
Next == \E n \in Names : Step(n) \/ Observe(n)
Spec == Init /\ [][Next]_vars

\* the effect table predicts history independence of the observed call
Independent == observed = "none" \/ CallOf(observed).reads \cap dirty = {}
EmitScripts == observed = "none" \/ PrintT(ToJson([prefix |-> prefix, observed |-> observed, style |-> style, predicted_independent |-> Independent]))
=============================================================================
