---------------------------- MODULE MC_SimSeed ----------------------------
(* Exhaustive exploration of SimSeed: every history of at most MaxHist calls (direct draws,  *)
(* reseeds with positive and non-positive values, other simulators with and without seed,   *)
(* failing calls) before every observed call.  Checks Reproducible / Distinct /              *)
(* NonPosIgnored on the model and emits every (history, observed call, stream term) as a     *)
(* replay script: scripts whose stream terms are equal must give bit-identical outputs on    *)
(* the real library, seeded calls with different seeds different outputs.                    *)
EXTENDS SimSeed, Json, SequencesExt

ASSUME Distinct /\ DistinctRanks

NonPosSet == {0, -5}

(* histories of length 3 (thorough tier): each is replayed before ONE seeded observed call, chosen   *)
(* by a fixed rotation over the seeded observed calls (every history of length <= 2 is replayed     *)
(* before every observed call)                                                                      *)
HistSeq == SetToSeq(HistCalls)
ObsSeq  == SetToSeq({c \in ObsCalls : Seeded(c) /\ c.seed = OneSeed})
Code(c) == CHOOSE i \in DOMAIN HistSeq : HistSeq[i] = c
Pick(h) == ((Code(h[1]) + 2 * Code(h[2]) + 3 * Code(h[3])) % Len(ObsSeq)) + 1
Emit == (done' /\ ~done /\ (Len(hist) < 3 \/ out'.call = ObsSeq[Pick(hist)])) =>
          PrintT(ToJson([style |-> style, hist |-> hist, call |-> out'.call, stream |-> out'.stream, stage2 |-> out'.stage2,
                         seeded |-> Seeded(out'.call), fresh |-> (out'.stream = Fresh(out'.call))]))
=============================================================================
