---------------------------- MODULE MC_SimSeed ----------------------------
(* Exhaustive exploration of SimSeed: every history of at most MaxHist calls (direct draws,  *)
(* reseeds with positive and non-positive values, other simulators with and without seed,   *)
(* failing calls) before every observed call.  Checks Reproducible / Distinct /              *)
(* NonPosIgnored on the model and emits every (history, observed call, stream term) as a     *)
(* replay script: scripts whose stream terms are equal must give bit-identical outputs on    *)
(* the real library, seeded calls with different seeds different outputs.                    *)
EXTENDS SimSeed, Json

ASSUME Distinct /\ DistinctRanks

NonPosSet == {0, -5}

(* histories of length 3 (thorough tier) are replayed for the seeded observed calls with the first seed *)
Emit == (done' /\ ~done /\ (Len(hist) < 3 \/ (Seeded(out'.call) /\ out'.call.seed = OneSeed))) =>
          PrintT(ToJson([hist |-> hist, call |-> out'.call, stream |-> out'.stream, stage2 |-> out'.stage2,
                         seeded |-> Seeded(out'.call), fresh |-> (out'.stream = Fresh(out'.call))]))
=============================================================================
