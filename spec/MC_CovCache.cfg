SPECIFICATION Spec
CONSTANTS
  MaxLen = 3
  EarlyReturnCleans = TRUE
CONSTRAINT EmitScripts
CHECK_DEADLOCK FALSE
