SPECIFICATION Spec
CONSTANTS
  Dims = {1, 2, 3}
  MeshChoices <- MeshThor
  RotCodes <- RotThor
  Alpha2s <- AlphaAll
  Anisos <- AnisoAll
  Sills = {2, 5}
  Layouts = {"spread", "cluster", "nodes", "outside"}
  Verrs = {"const", "distinct", "extreme"}
  NStructs = {1, 2}
  Drifts = {"none", "const", "linear"}
  Keep <- KeepThor
  HeavyEvery = 3
  PolyCoefs <- Coefs
  PolyDiags <- Diags
INVARIANT Inv_C15
CONSTRAINT Emit
CHECK_DEADLOCK FALSE
