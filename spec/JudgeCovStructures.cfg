SPECIFICATION Spec
POSTCONDITION AllExamined
CHECK_DEADLOCK FALSE
