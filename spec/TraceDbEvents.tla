---------------------------- MODULE TraceDbEvents ----------------------------
(* Validates structural Db events recorded by the guarded hooks of the primitive    *)
(* mutators of Db (GSTLEARN_VERIF_TRACE) while UNMODIFIED programs run: the          *)
(* repository's own test executables and the verification harnesses.  Each event    *)
(* carries the operation, its arguments and the structure (names, UID table, role   *)
(* lists) before and after the call: it is judged independently with the relation   *)
(* Judge of DbTable, and the C07 invariants are evaluated on every state reached.   *)
(* (cell values are not logged: states are projected with nech = 0)                 *)
EXTENDS DbTable, Json, IOUtils, TLCExt

Events == ndJsonDeserialize(IOEnv.EVENTS)
VARIABLE k

Init == k = 0
Next ==
  /\ k < Len(Events)
  /\ k' = k + 1
  /\ LET ev == Events[k']
         f == (IF Consistent(ev.pre) THEN ConsistentFails(ev.post) ELSE {})
              \cup (IF Consistent(ev.pre) THEN JudgeFails(ev.c, ev.pre, ev.post) ELSE {})
     IN f = {} \/ PrintT(ToJson([idx |-> k', fails |-> f, inrange |-> RankInRange(ev.c, ev.pre),
                                  pre_consistent |-> Consistent(ev.pre)]))
Spec == Init /\ [][Next]_k
AllExamined == TLCGet("stats").diameter = Len(Events) + 1 \/ PrintT(<<"NOT-ALL-EXAMINED", TLCGet("stats").diameter>>)
=============================================================================
