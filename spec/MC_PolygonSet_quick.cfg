\* manual run:  cd spec && tlc -workers 4 -config MC_PolygonSet_quick.cfg MC_PolygonSet.tla
SPECIFICATION Spec
CONSTANTS
  G = 3
  PoolKind = "rect"
  PoolMaxV = 4
  MaxElems = 2
  MinEmit = 1
INVARIANT Inv_SetRules Inv_Files Inv_Emit
CHECK_DEADLOCK FALSE
