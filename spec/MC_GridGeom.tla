---------------------------- MODULE MC_GridGeom ----------------------------
(* Exhaustive enumeration of the cases of GridGeom within the constants of a tier: one initial   *)
(* state per grid, one successor per case.  INVARIANT Inv_C16 = the property C16 evaluated on    *)
(* every case of the model; CONSTRAINT Emit prints every case (input + expected results) as JSON *)
(* for the harness grid_run (each state is generated exactly once: the state graph is a forest). *)
EXTENDS GridGeom, Json

VARIABLE cs
Init == cs \in { GridCase(g) : g \in Grids }
Next == cs.k = "grid" /\ cs' \in CasesOf(cs.g)
Spec == Init /\ [][Next]_cs

Inv_C16 == CaseOk(cs)

Out1(c) == [f \in (DOMAIN c \ {"ch"}) |-> IF f = "g" THEN GridOut(c.g) ELSE c[f]]
Sub(c)  == [f \in (DOMAIN c \ {"ch", "g"}) |-> c[f]]          \* an operation of a history (same grid)
Out(c)  == IF c.k = "history" THEN [k |-> c.k, g |-> GridOut(c.g), seq |-> [i \in 1..Len(c.seq) |-> Sub(c.seq[i])]]
           ELSE Out1(c)
Emit == PrintT(ToJson(Out(cs)))

-----------------------------------------------------------------------------
(* Constants of the tiers                                                   *)

Gen3 == <<10, -20, 5>>
\* histories of operations: on the grids of mesh (1, 2, 3) and origin Gen3 (all node counts, all rotations)
HistGrid(g) == /\ \A k \in 1..g.nd : g.dx[k] = k /\ g.x0[k] = Gen3[k]
Neg3 == <<-7, 4, -3>>
FnVec(nd, v) == [k \in 1..nd |-> v[k]]

\* one triple of right-angle codes per rotation of the cube
Key3(t) == 16 * t[1] + 4 * t[2] + t[3]
Rot24 == LET all == [1..3 -> 0..3] IN
         { t \in all : \A u \in all : RotOf(3, u).n = RotOf(3, t).n => Key3(u) >= Key3(t) }
ASSUME Cardinality(Rot24) = 24
ASSUME Cardinality({ RotOf(3, t).n : t \in [1..3 -> 0..3] }) = 24

\* ---- quick: 1-2 D, nx <= 3, dx in 1..3, the 4 right angles + the 3-4-5 angle; plus a thin 3-D slice
\* (one mesh vector, one origin, a quarter turn around each axis, one 3-4-5 rotation, one composite)
DxQuick(nd)    == IF nd < 3 THEN [1..nd -> 1..3] ELSE { <<1, 2, 3>> }
X0Quick(nd)    == IF nd < 3 THEN { FnVec(nd, <<0, 0, 0>>), FnVec(nd, Gen3) } ELSE { Gen3 }
AngQuick(nd)   == IF nd = 1 THEN { <<0>> }
                  ELSE IF nd = 2 THEN { <<a, 0>> : a \in 0..4 }
                  ELSE { <<0, 0, 0>>, <<1, 0, 0>>, <<0, 1, 0>>, <<0, 0, 1>>, <<4, 0, 0>>, <<3, 1, 2>>,
                         <<1, 0, 2>>, <<0, 0, 6>> }      \* third angle beyond a quarter turn (180, T+180)
MultQuick(nd)  == IF nd < 3 THEN [1..nd -> 1..3] ELSE { <<1, 1, 1>>, <<2, 2, 2>>, <<1, 2, 3>>, <<2, 1, 1>> }
ShiftQuick(nd) == IF nd < 3 THEN [1..nd -> 0..2] ELSE { <<0, 0, 0>>, <<1, 1, 1>>, <<1, 0, 2>> }

\* ---- thorough: 1-2 D richer, 3-D with the 24 rotations of the cube and 3-4-5 rotations around
\* each axis, around the three axes at once (denominator 125) and mixed with right angles
DxThor(nd)     == IF nd < 3 THEN [1..nd -> 1..3] ELSE { <<1, 2, 3>>, <<2, 1, 1>>, <<3, 3, 2>> }
X0Thor(nd)     == IF nd < 3 THEN { FnVec(nd, <<0, 0, 0>>), FnVec(nd, Gen3), FnVec(nd, Neg3) } ELSE { Gen3 }
AngThor(nd)    == IF nd = 1 THEN { <<0>> }
                  ELSE IF nd = 2 THEN { <<a, 0>> : a \in 0..7 }
                  ELSE Rot24 \cup { <<4, 0, 0>>, <<0, 4, 0>>, <<0, 0, 4>>, <<4, 4, 4>>, <<5, 1, 6>>, <<1, 7, 2>> }
MultThor(nd)   == IF nd < 3 THEN [1..nd -> 1..3] ELSE [1..3 -> 1..2] \cup { <<1, 2, 3>>, <<3, 1, 2>> }
ShiftThor(nd)  == IF nd < 3 THEN [1..nd -> 0..2] ELSE [1..3 -> 0..1] \cup { <<2, 0, 1>> }
=============================================================================
