SPECIFICATION Spec
CONSTANTS
  SkipOps = {}
  Types = {"x", "z", "sel"}
  MaxCols = 2
  MaxUid = 3
  MaxNech = 2
INVARIANT Inv_Consistent
PROPERTY JudgeAcceptsRef NoResurrection FrameCells
VIEW View
CHECK_DEADLOCK FALSE
