SPECIFICATION Spec
CONSTANTS
  MaxHist = 2
  Seeds = {11, 22}
  NonPos <- NonPosSet
  Sims = {"simtub", "simtubc", "simfft", "spde", "gibbs", "simpgs", "simbipgs"}
  BareUnseeded = FALSE
  Styles = {"old", "new"}
  MaxHistNew = 1
INVARIANT Reproducible NonPosIgnored
ACTION_CONSTRAINT Emit
CHECK_DEADLOCK FALSE
