------------------------------ MODULE FastPaths ------------------------------
(***************************************************************************)
(* Property C04: accelerated code paths give the same answers as the plain  *)
(* ones.  This module is the CATALOGUE of (fast, reference) pairs.  For     *)
(* each pair it gives                                                       *)
(*   - the abstract input (a configuration record),                         *)
(*   - the OPTION SPACE that selects the fast path,                         *)
(*   - Ref(c): the abstract observation that the reference path denotes      *)
(*     (declarative definition taken from the documentation),               *)
(*   - Fast(c): the abstract observation of the fast path, written as a      *)
(*     transcription of the algorithm (index bookkeeping, candidate          *)
(*     selection) or as the block form of FastPathsAlgebra,                  *)
(*   - Promised(c): the side condition under which Fast = Ref is promised,   *)
(*   - the property  Promised(c) => Fast(c) = Ref(c)  (checked by TLC for    *)
(*     every configuration), and the record emitted for the harness.         *)
(* Observations are symbolic: index lists of (sample, variable) equations,   *)
(* selected sample sets, symbolic covariance terms.  Numbers only appear in  *)
(* the harness, which executes BOTH paths of the real library on the         *)
(* concretised configuration; TLC (JudgeFastPaths) judges the outcome.       *)
(*                                                                         *)
(* Geometry: all coordinates are integers in DOUBLED units (real coordinate  *)
(* = integer / 2): data on even lattice points, targets anywhere.  Squared   *)
(* distances are integers; "distinct" always means distinct integers, which  *)
(* leaves a margin of 0.25 on the real squared distances for the small       *)
(* irrational offsets the harness adds to the data locations.                *)
(* Sample / variable ranks are 1-based here and 0-based in emitted records.  *)
(***************************************************************************)
EXTENDS Integers, Sequences, FiniteSets, TLC

CONSTANT Small      \* TRUE: one data layout and fewer option values (quick tier); FALSE: everything

Range(f) == {f[i] : i \in DOMAIN f}
SumSeq(s) == LET S[k \in 0..Len(s)] == IF k = 0 THEN 0 ELSE S[k - 1] + s[k] IN S[Len(s)]
D2(a, b) == SumSeq([i \in 1..Len(a) |-> (a[i] - b[i]) * (a[i] - b[i])])
Abs(x) == IF x < 0 THEN 0 - x ELSE x
\* a finite set of integers as an increasing sequence
RECURSIVE SortedSeq(_)
SortedSeq(S) == IF S = {} THEN <<>>
                ELSE LET m == CHOOSE x \in S : \A y \in S : x <= y IN <<m>> \o SortedSeq(S \ {m})
Zero1(s) == [i \in 1..Len(s) |-> s[i] - 1]            \* to 0-based ranks
Ones(n) == [i \in 1..n |-> 1]
\* the k elements of S with the smallest key (keys pairwise distinct on S)
NearestK(S, key(_), k) == {s \in S : Cardinality({t \in S : key(t) < key(s)}) < k}
DistinctOn(S, key(_)) == \A s, t \in S : s # t => key(s) # key(t)
\* no tie between the k-th and the (k+1)-th smallest key (ties inside the selected set are harmless)
CutDecided(S, key(_), k) == Cardinality(NearestK(S, key, k)) = (IF Cardinality(S) < k THEN Cardinality(S) ELSE k)

-----------------------------------------------------------------------------
(* Models of the fixed list of the harness: number of variables, dimension   *)
NVarOf(m) == IF m = "C" THEN 2 ELSE 1
NDimOf(m) == IF m = "D" THEN 3 ELSE 2
\* number of drift functions per variable-independent block
NDrift(drift, ndim) == CASE drift = "sk" -> 0 [] drift = "ok" -> 1 [] drift = "lin" -> 1 + ndim

\* Data layouts (doubled units, even coordinates) and target lists
Lay2 == << <<0, 0>>, <<4, 2>>, <<2, 6>>, <<6, 4>>, <<2, 2>>, <<6, 0>> >>
Lay2b == << <<0, 4>>, <<2, 0>>, <<6, 2>>, <<4, 6>>, <<8, 4>>, <<4, 2>> >>
Lay3 == << <<0, 0, 0>>, <<4, 2, 2>>, <<2, 6, 0>>, <<6, 4, 4>>, <<2, 2, 6>>, <<6, 0, 2>> >>
Tgt2 == << <<3, 3>>, <<7, 1>>, <<1, 4>>, <<5, 5>> >>
Tgt3 == << <<3, 3, 1>>, <<5, 1, 3>>, <<1, 5, 5>> >>
LayOf(m, which) == IF NDimOf(m) = 3 THEN Lay3 ELSE IF which = 1 THEN Lay2 ELSE Lay2b
TgtOf(m) == IF NDimOf(m) = 3 THEN Tgt3 ELSE Tgt2
Prefix(s, n) == SubSeq(s, 1, n)

\* selection masks and definedness patterns over n samples (small named families)
SelMasks(n) == {Ones(n), [i \in 1..n |-> IF i = 1 THEN 0 ELSE 1], [i \in 1..n |-> IF i = n THEN 0 ELSE 1],
                [i \in 1..n |-> IF i = 2 THEN 0 ELSE 1]}
\* def[s][v] = 1 when variable v is defined at sample s
DefFull(n, nvar) == [s \in 1..n |-> [v \in 1..nvar |-> 1]]
DefPatterns(n, nvar) ==
  IF nvar = 1
  THEN {DefFull(n, 1), [s \in 1..n |-> <<IF s = 2 THEN 0 ELSE 1>>]}
  ELSE {DefFull(n, 2),
        [s \in 1..n |-> IF s = 1 THEN <<0, 1>> ELSE <<1, 1>>],            \* sample 1 lacks variable 1
        [s \in 1..n |-> IF s = 2 THEN <<1, 0>> ELSE <<1, 1>>],            \* sample 2 lacks variable 2
        [s \in 1..n |-> IF s = 1 THEN <<0, 1>> ELSE IF s = n THEN <<1, 0>> ELSE <<1, 1>>],
        [s \in 1..n |-> IF s = 2 THEN <<0, 0>> ELSE <<1, 1>>]}            \* sample 2 has no variable at all

AnyDef(def, s) == \E v \in 1..Len(def[s]) : def[s][v] = 1
\* samples that a neighbourhood may return: active and at least one variable defined
Usable(sel, def) == {s \in 1..Len(sel) : sel[s] = 1 /\ AnyDef(def, s)}

-----------------------------------------------------------------------------
(* The symbolic kriging system of a neighbourhood (doc/references/Kriging.md): *)
(* equations variable-major over the defined (sample, variable) couples, then  *)
(* one drift equation per (variable, drift function).  Entries are terms.      *)
EqList(nbgh, def, nvar) ==
  LET F[v \in 0..nvar] == IF v = 0 THEN <<>>
                          ELSE F[v - 1] \o [k \in 1..Len(SelectSeq(nbgh, LAMBDA s : def[s][v] = 1)) |->
                                               <<SelectSeq(nbgh, LAMBDA s : def[s][v] = 1)[k], v>>]
  IN F[nvar]
KSystem(nbgh, def, nvar, ndrift, tgt) ==
  LET eqs == EqList(nbgh, def, nvar)
  IN [eqs |-> eqs,
      ndrifteq |-> nvar * ndrift,
      \* the right-hand side term of equation (s, v) for the target variable w
      rhs |-> [k \in 1..Len(eqs) |-> [w \in 1..nvar |-> <<"C", eqs[k][1], eqs[k][2], tgt, w>>]],
      var0 |-> [w \in 1..nvar |-> <<"C", tgt, w, tgt, w>>]]
\* enough data for the drift: at least one more equation than drift functions, per variable
EnoughData(nbgh, def, nvar, ndrift) ==
  \A v \in 1..nvar : Cardinality({s \in Range(nbgh) : def[s][v] = 1}) >= ndrift + 1

-----------------------------------------------------------------------------
(* Moving neighbourhood (isotropic, one sector, no additional checker) as     *)
(* documented: the nmaxi closest among the admissible samples within the       *)
(* radius; failure when fewer than nmini.  R2 = 0 stands for "no radius".      *)
InRadius(p, t, R2) == R2 = 0 \/ D2(p, t) <= R2
MovAdmissible(pts, sel, def, t, R2) == {s \in Usable(sel, def) : InRadius(pts[s], t, R2)}
MovSelect(pts, sel, def, t, R2, nmaxi, nmini) ==
  LET adm == MovAdmissible(pts, sel, def, t, R2)
  IN IF Cardinality(adm) < nmini THEN {}
     ELSE NearestK(adm, LAMBDA s : D2(pts[s], t), nmaxi)
\* the excluded boundary cases: a tie at the nmaxi cut, a sample on the radius
MovDecided(pts, S, t, R2, nmaxi) ==
  /\ CutDecided({s \in S : InRadius(pts[s], t, R2)}, LAMBDA s : D2(pts[s], t), nmaxi)
  /\ \A s \in S : R2 = 0 \/ D2(pts[s], t) # R2

-----------------------------------------------------------------------------
(* PAIR 1 "covmat": Model::evalCovMatrixOptim / evalCovMatrixSymmetricOptim vs *)
(* the pairwise double loop on the point-wise covariance.                      *)
(* A Db of the pair is [pts, sel, def, hasZ]; hasZ = FALSE: the Db carries no   *)
(* Z variable ("the covariance cannot treat heterotopy and uses all samples").  *)
(* Options: ivar0 / jvar0 (0 = all variables), nbgh lists (<<>> = all samples,  *)
(* any order), second Db absent (= first Db), symmetric entry point.            *)

RanksActive(db, nb, v) ==
  LET init == IF nb = <<>> THEN [i \in 1..Len(db.sel) |-> i] ELSE nb
  IN SelectSeq(init, LAMBDA s : db.sel[s] = 1 /\ (~db.hasZ \/ db.def[s][v] = 1))
ActiveVars(v0, nvar) == IF v0 = 0 THEN [v \in 1..nvar |-> v] ELSE <<v0>>
IndexList(db, nb, vars) ==
  LET F[k \in 0..Len(vars)] == IF k = 0 THEN <<>>
                               ELSE F[k - 1] \o [i \in 1..Len(RanksActive(db, nb, vars[k])) |->
                                                    <<RanksActive(db, nb, vars[k])[i], vars[k]>>]
  IN F[Len(vars)]
\* covariance term between two (sample, variable) couples of (Db a, Db b); the models of the list
\* are symmetric, so the term is normalised when both couples live in the same Db
CovTerm(a, e1, b, e2) ==
  IF a = b /\ (e2[1] < e1[1] \/ (e2[1] = e1[1] /\ e2[2] < e1[2])) THEN <<"C", b, e2, a, e1>> ELSE <<"C", a, e1, b, e2>>

CovDb2(c) == IF c.same THEN c.db1 ELSE c.db2
CovRows(c) == IndexList(c.db1, c.nb1, ActiveVars(c.ivar0, c.nvar))
CovCols(c) == IF c.sym THEN CovRows(c) ELSE IndexList(CovDb2(c), c.nb2, ActiveVars(c.jvar0, c.nvar))
CovEmpty(c) == CovRows(c) = <<>> \/ CovCols(c) = <<>>
\* Reference: entry (i, j) is the covariance (sum of all basic structures) of couple i and couple j
RefCov(c) ==
  LET rows == CovRows(c)  cols == CovCols(c)  b == IF c.same THEN 1 ELSE 2
  IN IF CovEmpty(c) THEN <<>>
     ELSE [i \in 1..Len(rows) |-> [j \in 1..Len(cols) |->
             {<<k, CovTerm(1, rows[i], b, cols[j])>> : k \in 1..c.nstruct}]]
\* Fast: transcription of ACovAnisoList::evalCovMatrix(Symmetric)Optim + CovAniso::evalOptimInPlace.
\* Columns are filled one by one (loop on the second variable, then on its samples); for each
\* column every basic structure k adds its contribution to the rows (loop on the first variable,
\* then on its samples, row counter running); the symmetric entry point fills irow <= icol only and
\* the symmetric storage mirrors it.
FastCov(c) ==
  LET vars1 == ActiveVars(c.ivar0, c.nvar)
      vars2 == IF c.sym THEN vars1 ELSE ActiveVars(c.jvar0, c.nvar)
      db2 == IF c.sym THEN c.db1 ELSE CovDb2(c)
      nb2 == IF c.sym THEN c.nb1 ELSE c.nb2
      b == IF c.same \/ c.sym THEN 1 ELSE 2
      index1 == [k \in 1..Len(vars1) |-> RanksActive(c.db1, c.nb1, vars1[k])]
      index2 == [k \in 1..Len(vars2) |-> RanksActive(db2, nb2, vars2[k])]
      neq1 == SumSeq([k \in 1..Len(vars1) |-> Len(index1[k])])
      neq2 == SumSeq([k \in 1..Len(vars2) |-> Len(index2[k])])
      \* (variable rank, sample rank) of a running row / column counter
      Locate(index, n) == CHOOSE pr \in {<<k, i>> : k \in 1..Len(index), i \in 1..3} :
                             /\ pr[2] <= Len(index[pr[1]])
                             /\ SumSeq([q \in 1..(pr[1] - 1) |-> Len(index[q])]) + pr[2] = n
      Ent(irow, icol) ==
         LET r == Locate(index1, irow)  q == Locate(index2, icol)
         IN {<<k, CovTerm(1, <<index1[r[1]][r[2]], vars1[r[1]]>>, b, <<index2[q[1]][q[2]], vars2[q[1]]>>)>> :
               k \in 1..c.nstruct}
  IN IF neq1 <= 0 \/ neq2 <= 0 THEN <<>>
     ELSE [i \in 1..neq1 |-> [j \in 1..neq2 |->
             IF c.sym /\ i > j THEN Ent(j, i) ELSE Ent(i, j)]]

MaxPerVar == 3
\* (a Db without Z variable is listed once: its definedness pattern is irrelevant)
CovDbs(n, nvar) ==
  {d \in {[pts |-> Prefix(lay, n), sel |-> sel, def |-> def, hasZ |-> hz] :
             lay \in {Lay2}, sel \in SelMasks(n) \cup {[i \in 1..n |-> 0]}, def \in DefPatterns(n, nvar), hz \in BOOLEAN} :
      d.hasZ \/ d.def = DefFull(n, nvar)}
CovDbs2(n, nvar) ==
  {d \in {[pts |-> [i \in 1..n |-> Tgt2[i]], sel |-> sel, def |-> def, hasZ |-> hz] :
             sel \in {Ones(n), [i \in 1..n |-> IF i = 1 THEN 0 ELSE 1], [i \in 1..n |-> 0]},
             def \in {DefFull(n, nvar), [s \in 1..n |-> [v \in 1..nvar |-> IF s = n /\ v = nvar THEN 0 ELSE 1]]},
             hz \in BOOLEAN} :
      d.hasZ \/ d.def = DefFull(n, nvar)}
NbLists(n) == IF Small THEN {<<>>, <<n, 1>>} ELSE {<<>>, <<1>>, <<n, 1>>, <<2, 3>>}
CovKeys(models) == UNION {{[model |-> m, db1 |-> d1] : d1 \in CovDbs(3, NVarOf(m))} : m \in {x \in models : NDimOf(x) = 2}}
\* the symmetric entry point has no jvar0 / nbgh2 argument: keep one representative
CovCanonical(c) == c.sym => (c.jvar0 = c.ivar0 /\ c.nb2 = <<>>)
CovPart(key) ==
  LET m == key.model  d1 == key.db1 IN
  {c \in
     {[pair |-> "covmat", model |-> m, nvar |-> NVarOf(m), nstruct |-> 2, db1 |-> d1, same |-> FALSE, db2 |-> d2,
       ivar0 |-> i0, jvar0 |-> j0, nb1 |-> n1, nb2 |-> n2, sym |-> FALSE] :
         d2 \in CovDbs2(2, NVarOf(m)),
         i0 \in 0..NVarOf(m), j0 \in 0..NVarOf(m), n1 \in NbLists(3), n2 \in {<<>>, <<2, 1>>}}
     \cup
     {[pair |-> "covmat", model |-> m, nvar |-> NVarOf(m), nstruct |-> 2, db1 |-> d1, same |-> TRUE, db2 |-> d1,
       ivar0 |-> i0, jvar0 |-> j0, nb1 |-> n1, nb2 |-> n2, sym |-> sy] :
         i0 \in 0..NVarOf(m), j0 \in 0..NVarOf(m), n1 \in NbLists(3),
         n2 \in {<<>>, <<3, 2>>}, sy \in BOOLEAN}
   : CovCanonical(c)}
CovPromised(c) == TRUE
CovHolds(c) == FastCov(c) = RefCov(c)
CovEmit(c) ==
  [pair |-> "covmat", model |-> c.model, ndim |-> 2,
   pts1 |-> c.db1.pts, sel1 |-> c.db1.sel, def1 |-> IF c.db1.hasZ THEN c.db1.def ELSE <<>>,
   same |-> c.same,
   pts2 |-> IF c.same THEN <<>> ELSE c.db2.pts, sel2 |-> IF c.same THEN <<>> ELSE c.db2.sel,
   def2 |-> IF c.same \/ ~c.db2.hasZ THEN <<>> ELSE c.db2.def,
   ivar0 |-> c.ivar0 - 1, jvar0 |-> c.jvar0 - 1, nb1 |-> Zero1(c.nb1), nb2 |-> Zero1(c.nb2), sym |-> c.sym,
   rows |-> [i \in 1..Len(CovRows(c)) |-> Zero1(CovRows(c)[i])],
   cols |-> [i \in 1..Len(CovCols(c)) |-> Zero1(CovCols(c)[i])],
   empty |-> CovEmpty(c), promised |-> CovPromised(c)]

-----------------------------------------------------------------------------
(* Common shape of the kriging configurations: model m, drift, data layout,    *)
(* n samples, selection mask, definedness pattern.                              *)
KPts(c) == Prefix(LayOf(c.model, c.lay), c.n)
KTgts(c) == Prefix(TgtOf(c.model), c.ntgt)
KNd(c) == NDrift(c.drift, NDimOf(c.model))
KUsable(c) == Usable(c.sel, c.def)
KBase(c) == [model |-> c.model, ndim |-> NDimOf(c.model), drift |-> c.drift, pts |-> KPts(c), sel |-> c.sel, def |-> c.def]
KDomain(models, drifts, ns) ==
  UNION {
    {[model |-> m, drift |-> d, lay |-> l, n |-> n, sel |-> sel, def |-> def] :
       d \in drifts, l \in (IF Small THEN {1} ELSE {1, 2}), sel \in SelMasks(n), def \in DefPatterns(n, NVarOf(m))}
    : m \in models, n \in ns}

-----------------------------------------------------------------------------
(* PAIR 2 "kr_unique": kriging with NeighUnique (fast: the system is built and  *)
(* inverted once) vs NeighMoving whose radius and nmaxi contain every sample.   *)
(* Side condition (computed here): every usable sample is within the radius of  *)
(* every target, strictly (no sample on the radius), nmaxi >= their number >=   *)
(* nmini.                                                                       *)
UniqKeys(models) == KDomain(models, {"sk", "ok", "lin"}, {4, 5, 6})
UniqPart(k) ==
  {[pair |-> "kr_unique", model |-> k.model, drift |-> k.drift, lay |-> k.lay, n |-> k.n, sel |-> k.sel, def |-> k.def,
    ntgt |-> 2, R2 |-> R2, nmaxi |-> nmaxi, nmini |-> 1] : R2 \in {0, 400, 60}, nmaxi \in {3, 6, 100}}
UniqContainsAll(c) ==
  LET U == KUsable(c) IN
  /\ c.nmaxi >= Cardinality(U) /\ c.nmini <= Cardinality(U)
  /\ \A i \in 1..c.ntgt : \A s \in U : c.R2 = 0 \/ D2(KPts(c)[s], KTgts(c)[i]) < c.R2
UniqPromised(c) ==
  /\ UniqContainsAll(c)
  /\ EnoughData(SortedSeq(KUsable(c)), c.def, NVarOf(c.model), KNd(c))
UniqRef(c, i) ==       \* the system of the moving neighbourhood of target i
  KSystem(SortedSeq(MovSelect(KPts(c), c.sel, c.def, KTgts(c)[i], c.R2, c.nmaxi, c.nmini)), c.def, NVarOf(c.model), KNd(c), i)
UniqFast(c, i) ==      \* the system of the unique neighbourhood
  KSystem(SortedSeq(KUsable(c)), c.def, NVarOf(c.model), KNd(c), i)
UniqHolds(c) == \A i \in 1..c.ntgt : UniqFast(c, i) = UniqRef(c, i)
UniqEmit(c) ==
  KBase(c) @@ [pair |-> "kr_unique", tgt |-> KTgts(c), radius2 |-> c.R2, nmaxi |-> c.nmaxi, nmini |-> c.nmini,
               nbgh |-> Zero1(SortedSeq(KUsable(c))), promised |-> UniqPromised(c)]

-----------------------------------------------------------------------------
(* PAIR 3 "xvalid": cross-validation in unique neighbourhood (shortcut of       *)
(* Kriging_XValid_Unique.md: one inversion of the complete matrix) vs explicit  *)
(* leave-one-out: the sample is masked by a selection and kriged at its own     *)
(* location.  One variable.  Observed: the estimation column (Z* - Z when the   *)
(* flag is > 0, Z* when < 0) and the deviation column ((Z* - Z)/S when > 0, S    *)
(* when < 0), at every active sample whose variable is defined.  The algebraic  *)
(* identity is IdShortcut of FastPathsAlgebra.                                  *)
XvKeys(models) == KDomain({m \in models : NVarOf(m) = 1}, {"sk", "ok", "lin"}, {4, 5, 6})
XvPart(k) ==
  {[pair |-> "xvalid", model |-> k.model, drift |-> k.drift, lay |-> k.lay, n |-> k.n, sel |-> k.sel, def |-> k.def,
    est |-> e, std |-> sd, varz |-> vz] : e \in {1, -1}, sd \in {1, -1}, vz \in {0, 1}}
XvTargets(c) == {s \in 1..c.n : c.sel[s] = 1 /\ c.def[s][1] = 1}
XvPromised(c) == Cardinality(XvTargets(c)) - 1 >= KNd(c) + 1
\* reference: for each cross-validated sample, the standard system of the others, target at the sample
XvRef(c) == [s \in XvTargets(c) |->
               [sys |-> KSystem(SortedSeq(XvTargets(c) \ {s}), c.def, 1, KNd(c), <<"sample", s>>),
                estcol |-> IF c.est > 0 THEN "esterr" ELSE "estim", stdcol |-> IF c.std > 0 THEN "stderr" ELSE "stdev"]]
\* fast: the shortcut reads row s of the inverse of the complete matrix (covariance and drift parts) of
\* all the samples; by IdShortcut this row yields the solution of the system of the others
XvFast(c) == [s \in XvTargets(c) |->
               [sys |-> KSystem(SelectSeq(SortedSeq(XvTargets(c)), LAMBDA t : t # s), c.def, 1, KNd(c), <<"sample", s>>),
                estcol |-> IF c.est > 0 THEN "esterr" ELSE "estim", stdcol |-> IF c.std > 0 THEN "stderr" ELSE "stdev"]]
XvHolds(c) == XvFast(c) = XvRef(c)
XvEmit(c) ==
  KBase(c) @@ [pair |-> "xvalid", est |-> c.est, std |-> c.std, varz |-> c.varz,
               targets |-> Zero1(SortedSeq(XvTargets(c))), neq |-> Cardinality(XvTargets(c)),
               identity |-> "IdShortcut", promised |-> XvPromised(c)]

-----------------------------------------------------------------------------
(* PAIR 4a "ball_mig": nearest-point migration (point Db to point Db) through   *)
(* the ball tree vs exhaustive search, in 2-D and 3-D.  Sample values are their  *)
(* ranks.  Option space: dmax classes {empty, equal components, unequal          *)
(* components} x dist_type {1 = box, 2 = ellipsoid}, selections on both Dbs,      *)
(* generic layouts and "corner" layouts (closest sample refused by dmax while a   *)
(* farther one is accepted - possible for a box even with equal components).      *)
\* product of a sequence, and of a sequence without its element d
ProdSeq(w) == LET F[k \in 0..Len(w)] == IF k = 0 THEN 1 ELSE F[k - 1] * w[k] IN F[Len(w)]
ProdBut(w, d) == ProdSeq([k \in 1..Len(w) |-> IF k = d THEN 1 ELSE w[k]])
\* dmax is [kind, w]: kind "none", "l1" (box, dist_type 1: |dx_d| <= w_d for every d) or "l2" (ellipsoid,
\* dist_type 2: sum (dx_d / w_d)^2 <= 1); w = semi-widths per axis, doubled units.  Any dimension.
DmLhs(p, t, w) == SumSeq([d \in 1..Len(w) |-> (p[d] - t[d]) * (p[d] - t[d]) * ProdBut([k \in 1..Len(w) |-> w[k] * w[k]], d)])
DmRhs(w) == ProdSeq([k \in 1..Len(w) |-> w[k] * w[k]])
LargerThanDmax(p, t, dm) ==
  CASE dm.kind = "none" -> FALSE
    [] dm.kind = "l1" -> \E d \in 1..Len(dm.w) : Abs(p[d] - t[d]) > dm.w[d]
    [] dm.kind = "l2" -> DmLhs(p, t, dm.w) > DmRhs(dm.w)
\* excluded boundary: a sample on (box) or too near (ellipsoid: within what an offset of 0.002 doubled
\* units per coordinate can change) the dmax limit
OnDmaxBoundary(p, t, dm) ==
  CASE dm.kind = "none" -> FALSE
    [] dm.kind = "l1" -> \E d \in 1..Len(dm.w) : Abs(p[d] - t[d]) = dm.w[d]
    [] dm.kind = "l2" ->
         LET slack == SumSeq([d \in 1..Len(dm.w) |-> (2 * Abs(p[d] - t[d]) + 1) * ProdBut([k \in 1..Len(dm.w) |-> dm.w[k] * dm.w[k]], d)])
         IN Abs(DmLhs(p, t, dm.w) - DmRhs(dm.w)) * 250 <= slack
DmaxClass(dm) == IF dm.kind = "none" THEN "empty"
                 ELSE IF \A d \in 1..Len(dm.w) : dm.w[d] = dm.w[1] THEN "equal" ELSE "unequal"
\* Reference = exhaustive search: the closest ACTIVE sample among those within dmax; 0 = undefined
MigRef(c, t) ==
  LET cand == {s \in 1..c.n : c.sel[s] = 1 /\ ~LargerThanDmax(c.pts[s], t, c.dmax)}
  IN IF cand = {} THEN 0 ELSE CHOOSE s \in cand : \A u \in cand : D2(c.pts[s], t) <= D2(c.pts[u], t)
\* Fast, as it should be: the tree holds the candidates of the reference
MigFastIntended(c, t) == MigRef(c, t)
\* Fast, transcription of CalcMigrate::_expandPointToPointBall of the snapshot c5253e67d: the tree is
\* built on ALL samples (Ball(db1) with useSel = false), the closest one is taken, dmax is tested on it
\* afterwards.  (Repaired since: tree on the active samples, exhaustive search when the closest is refused.)
MigFastCode(c, t) ==
  LET s == CHOOSE s \in 1..c.n : \A u \in 1..c.n : D2(c.pts[s], t) <= D2(c.pts[u], t)
  IN IF LargerThanDmax(c.pts[s], t, c.dmax) THEN 0 ELSE s
\* decided: a single closest sample overall and among the candidates of the reference, nobody on the limit
MigDecided(c, t) ==
  /\ CutDecided(1..c.n, LAMBDA s : D2(c.pts[s], t), 1)
  /\ CutDecided({s \in 1..c.n : c.sel[s] = 1}, LAMBDA s : D2(c.pts[s], t), 1)
  /\ CutDecided({s \in 1..c.n : c.sel[s] = 1 /\ ~LargerThanDmax(c.pts[s], t, c.dmax)}, LAMBDA s : D2(c.pts[s], t), 1)
  /\ \A s \in 1..c.n : ~OnDmaxBoundary(c.pts[s], t, c.dmax)
MigActiveTargets(c) == {i \in 1..Len(c.tgt) : c.tsel[i] = 1}
MigPromisedAt(c, i) == c.tsel[i] = 0 \/ MigDecided(c, c.tgt[i])
MigPromised(c) == \E i \in MigActiveTargets(c) : MigDecided(c, c.tgt[i])
\* classes of situations (each must be exercised): where the snapshot transcription leaves the definition,
\* and the "corner" geometry: the closest active sample is refused by dmax while a farther one is accepted
MigDeviation(c, t) ==
  IF MigFastCode(c, t) = MigRef(c, t) THEN "none"
  ELSE LET s == CHOOSE s \in 1..c.n : \A u \in 1..c.n : D2(c.pts[s], t) <= D2(c.pts[u], t)
       IN IF c.sel[s] = 0 THEN "masked_nearest" ELSE "dmax_nearest_outside"
MigCorner(c, t) ==
  LET act == {s \in 1..c.n : c.sel[s] = 1} IN
  /\ act # {} /\ MigRef(c, t) # 0
  /\ LargerThanDmax(c.pts[CHOOSE s \in act : \A u \in act : D2(c.pts[s], t) <= D2(c.pts[u], t)], t, c.dmax)
\* layouts: the generic ones, and "corner" layouts in which, seen from the target (1,..,1), one sample sits
\* just beyond the face of a box of half-width 8 along the first axis (closest by Euclid) and another
\* one sits towards the corner of the box (farther by Euclid, inside the box, outside the ball)
LayC2 == << <<10, 2>>, <<8, 8>>, <<0, 12>>, <<12, 12>>, <<2, 8>> >>
LayC3 == << <<10, 2, 2>>, <<8, 8, 8>>, <<0, 12, 0>>, <<12, 12, 12>>, <<8, 2, 10>> >>
TgtC2 == << <<1, 1>>, <<3, 1>>, <<1, 3>>, <<5, 5>> >>
TgtC3 == << <<1, 1, 1>>, <<3, 1, 1>>, <<1, 3, 1>>, <<5, 5, 3>> >>
MigLayouts == [l2a |-> [pts |-> Lay2, tgt |-> Tgt2], l2b |-> [pts |-> Lay2b, tgt |-> Tgt2], c2 |-> [pts |-> LayC2, tgt |-> TgtC2],
               l3 |-> [pts |-> Lay3, tgt |-> Tgt3 \o << <<3, 5, 2>> >>], c3 |-> [pts |-> LayC3, tgt |-> TgtC3]]
\* dmax classes {empty, equal components, unequal components} x {box, ellipsoid}
MigDmax(ndim) ==
  IF ndim = 2
  THEN {[kind |-> "none", w |-> <<0, 0>>]}
       \cup {[kind |-> k, w |-> w] : k \in {"l1", "l2"},
               w \in {<<3, 3>>, <<4, 4>>, <<5, 5>>, <<6, 6>>, <<8, 8>>, <<9, 9>>,                    \* equal components
                      <<7, 3>>, <<5, 2>>, <<2, 6>>, <<7, 1>>, <<1, 7>>, <<9, 2>>, <<2, 9>>, <<4, 2>>, <<8, 10>>}}
  ELSE {[kind |-> "none", w |-> <<0, 0, 0>>]}
       \cup {[kind |-> k, w |-> w] : k \in {"l1", "l2"},
               w \in {<<3, 3, 3>>, <<5, 5, 5>>, <<6, 6, 6>>, <<8, 8, 8>>, <<9, 9, 9>>,
                      <<8, 8, 2>>, <<5, 2, 7>>, <<9, 3, 5>>, <<3, 9, 9>>, <<8, 10, 12>>}}
MigKeys == {<<n, l>> : n \in {3, 4, 5, 6}, l \in {"l2a", "l2b", "l3"}} \cup {<<n, l>> : n \in {2, 4, 5}, l \in {"c2", "c3"}}
MigPart(key) ==
  LET n == key[1]  lay == MigLayouts[key[2]]  ndim == Len(lay.pts[1])  nt == Len(lay.tgt) IN
  {[pair |-> "ball_mig", n |-> n, pts |-> Prefix(lay.pts, n), sel |-> sel, tgt |-> lay.tgt, tsel |-> ts, dmax |-> dm,
    layout |-> key[2]] :
     sel \in SelMasks(n), ts \in {Ones(nt), [i \in 1..nt |-> IF i = 2 THEN 0 ELSE 1]}, dm \in MigDmax(ndim)}
MigHoldsIntended(c) == \A i \in MigActiveTargets(c) : MigFastIntended(c, c.tgt[i]) = MigRef(c, c.tgt[i])
MigDeviations(c) == {MigDeviation(c, c.tgt[i]) : i \in {j \in MigActiveTargets(c) : MigDecided(c, c.tgt[j])}} \ {"none"}
MigEmit(c) ==
  [pair |-> "ball_mig", ndim |-> Len(c.pts[1]), layout |-> c.layout, pts |-> c.pts, sel |-> c.sel, tgt |-> c.tgt, tsel |-> c.tsel,
   dmaxkind |-> c.dmax.kind, dmax |-> c.dmax.w, dmaxclass |-> DmaxClass(c.dmax),
   expected |-> [i \in 1..Len(c.tgt) |-> IF c.tsel[i] = 0 THEN -1 ELSE MigRef(c, c.tgt[i]) - 1],
   deviation |-> [i \in 1..Len(c.tgt) |-> IF c.tsel[i] = 0 THEN "none" ELSE MigDeviation(c, c.tgt[i])],
   corner |-> [i \in 1..Len(c.tgt) |-> c.tsel[i] = 1 /\ MigCorner(c, c.tgt[i])],
   decided |-> [i \in 1..Len(c.tgt) |-> MigPromisedAt(c, i)],
   promised |-> MigPromised(c)]

-----------------------------------------------------------------------------
(* PAIR 4b "ball_nb": moving-neighbourhood search with the ball-tree option vs   *)
(* the plain search.  Side condition of the property: the nmaxi Euclidean-nearest *)
(* samples (among ALL samples: the tree ignores the selection) are all admissible *)
(* (active, some variable defined, within the radius).  Isotropic, one sector.    *)
BallNearest(c, t) == NearestK(1..c.n, LAMBDA s : D2(c.pts[s], t), c.nmaxi)
\* transcription of NeighMoving::_moving with _useBallSearch: candidates = the nmaxi nearest of the
\* tree (none when nmaxi exceeds the number of samples: the query fails); the selection is NOT
\* re-tested on them; undefined samples and samples beyond the radius are discarded
BallNbFast(c, t) ==
  LET cand == IF c.nmaxi > c.n THEN {} ELSE BallNearest(c, t)
      adm == {s \in cand : AnyDef(c.def, s) /\ InRadius(c.pts[s], t, c.R2)}
  IN IF Cardinality(adm) < c.nmini THEN {} ELSE NearestK(adm, LAMBDA s : D2(c.pts[s], t), c.nmaxi)
BallNbRef(c, t) == MovSelect(c.pts, c.sel, c.def, t, c.R2, c.nmaxi, c.nmini)
BallNbSide(c, t) ==
  /\ c.nmaxi <= c.n
  /\ CutDecided(1..c.n, LAMBDA s : D2(c.pts[s], t), c.nmaxi)
  /\ MovDecided(c.pts, Usable(c.sel, c.def), t, c.R2, c.nmaxi)
  /\ \A s \in 1..c.n : c.R2 = 0 \/ D2(c.pts[s], t) # c.R2
  /\ \A s \in BallNearest(c, t) : s \in MovAdmissible(c.pts, c.sel, c.def, t, c.R2)
BallNbKeys == UNION {{<<n, l, sel>> : l \in (IF Small THEN {1} ELSE {1, 2}), sel \in SelMasks(n)} : n \in {4, 5, 6}}
BallNbPart(key) ==
  LET n == key[1]  lay == IF key[2] = 1 THEN Lay2 ELSE Lay2b  sel == key[3] IN
  {[pair |-> "ball_nb", model |-> "A", drift |-> "ok", n |-> n, pts |-> Prefix(lay, n), sel |-> sel, def |-> def,
    tgt |-> Tgt2, R2 |-> R2, nmaxi |-> nmaxi, nmini |-> nmini, leaf |-> leaf] :
     def \in DefPatterns(n, 1),
     R2 \in {0, 400, 30}, nmaxi \in {2, 3, 4, 6}, nmini \in {1, 2}, leaf \in {1, 2, 10}}
BallNbPromisedAt(c, i) == BallNbSide(c, c.tgt[i]) /\ Cardinality(BallNbRef(c, c.tgt[i])) >= 2
BallNbHolds(c) == \A i \in 1..Len(c.tgt) : BallNbSide(c, c.tgt[i]) => BallNbFast(c, c.tgt[i]) = BallNbRef(c, c.tgt[i])
BallNbEmit(c) ==
  [pair |-> "ball_nb", model |-> c.model, ndim |-> 2, drift |-> c.drift, pts |-> c.pts, sel |-> c.sel, def |-> c.def,
   tgt |-> c.tgt, radius2 |-> c.R2, nmaxi |-> c.nmaxi, nmini |-> c.nmini, leaf |-> c.leaf,
   side |-> [i \in 1..Len(c.tgt) |-> BallNbPromisedAt(c, i)],
   nbgh |-> [i \in 1..Len(c.tgt) |-> Zero1(SortedSeq(BallNbRef(c, c.tgt[i])))],
   promised |-> \E i \in 1..Len(c.tgt) : BallNbPromisedAt(c, i)]

-----------------------------------------------------------------------------
(* PAIR 5 "block1": block kriging (EKrigOpt::BLOCK, DbGrid target) whose         *)
(* discretisation has a single point per direction vs point kriging at the nodes. *)
(* The block average of doc/references/Cvv.md over the discretisation points      *)
(* x_i = centre + dx * ((i + 1/2) / nd - 1/2): offsets are rationals (num, den).  *)
DiscOffsets(dx, nd) == {<<dx * (2 * j + 1 - nd), 2 * nd>> : j \in 0..(nd - 1)}
BlockKeys(models) == KDomain(models, {"sk", "ok", "lin"}, {4, 5, 6})
BlockPart(k) ==
  {[pair |-> "block1", model |-> k.model, drift |-> k.drift, lay |-> k.lay, n |-> k.n, sel |-> k.sel, def |-> k.def,
    neigh |-> ng, nx |-> nx, dx |-> dx] : ng \in {"unique", "moving"}, nx \in {2}, dx \in {4, 2}}
BlockNodes(c) ==    \* grid nodes (doubled units), origin on odd coordinates so that no node is a datum
  LET nd == NDimOf(c.model)
      F[d \in 0..nd] == IF d = 0 THEN {<<>>} ELSE {Append(p, 1 + c.dx * i) : p \in F[d - 1], i \in 0..(c.nx - 1)}
  IN F[nd]
BlockPromised(c) == EnoughData(SortedSeq(KUsable(c)), c.def, NVarOf(c.model), KNd(c))
\* fast: right-hand side and block variance as averages over the discretisation, here of one point
\* (points as rationals over the common denominator 2 nd, nd = 1)
BlockFastRhs(c, node) ==
  {[pt |-> [d \in 1..Len(node) |-> <<node[d] * o[2] + o[1], o[2]>>]] : o \in DiscOffsets(c.dx, 1)}
BlockRefRhs(c, node) == {[pt |-> [d \in 1..Len(node) |-> <<node[d] * 2, 2>>]]}
BlockHolds(c) == \A node \in BlockNodes(c) : BlockFastRhs(c, node) = BlockRefRhs(c, node)
BlockEmit(c) ==
  KBase(c) @@ [pair |-> "block1", neigh |-> c.neigh, nx |-> c.nx, dx |-> c.dx, x0 |-> 1,
               nbgh |-> Zero1(SortedSeq(KUsable(c))), promised |-> BlockPromised(c)]

-----------------------------------------------------------------------------
(* PAIR 6 "colcok": collocated cokriging (rank_colcok: variable q is known at    *)
(* the target) vs cokriging of the data complemented by one datum at the target   *)
(* where only variable q is defined.  Two variables.  As documented, the target   *)
(* is not added when it coincides with a selected sample (targets are never data  *)
(* points here).  The two systems have the same equations in a different order;   *)
(* the algebraic identity for the block form is IdColCok.                         *)
CokKeys == KDomain({"C"}, {"sk", "ok"}, {4, 5})
CokPart(k) ==
  {[pair |-> "colcok", model |-> "C", drift |-> k.drift, lay |-> k.lay, n |-> k.n, sel |-> k.sel, def |-> k.def,
    ntgt |-> 2, q |-> q, neigh |-> ng] : q \in {1, 2}, ng \in {"unique", "moving"}}
CokPromised(c) == EnoughData(SortedSeq(KUsable(c)), c.def, 2, KNd(c))
CokFastEqs(c) == Range(EqList(SortedSeq(KUsable(c)), c.def, 2)) \cup {<<0, c.q>>}
CokRefEqs(c) ==
  LET def2 == Append(c.def, [v \in 1..2 |-> IF v = c.q THEN 1 ELSE 0])
      eqs == Range(EqList(SortedSeq(KUsable(c) \cup {c.n + 1}), def2, 2))
  IN {IF e[1] = c.n + 1 THEN <<0, e[2]>> ELSE e : e \in eqs}
CokHolds(c) == CokFastEqs(c) = CokRefEqs(c)
CokEmit(c) ==
  KBase(c) @@ [pair |-> "colcok", tgt |-> KTgts(c), q |-> c.q - 1, neigh |-> c.neigh, identity |-> "IdColCok",
               nbgh |-> Zero1(SortedSeq(KUsable(c))), promised |-> CokPromised(c)]

-----------------------------------------------------------------------------
(* PAIR 7 "calc": the algebraic calculator KrigingCalcul vs the standard system.  *)
(* Forms: primal (weights, multipliers, estimate, stdev, variance of estimator),  *)
(* dual (estimate), Bayesian (prior mean / covariance of the drift coefficients:  *)
(* estimate, stdev, posterior mean and covariance), collocated, cross-validation. *)
(* Each form is an identity of FastPathsAlgebra; the configuration fixes the      *)
(* blocks: Sigma, X, Sigma0, X0 of the usable (sample, variable) couples.         *)
CalcForms == {"primal", "dual", "bayes", "colcok", "xvalid"}
CalcKeys(models) == KDomain(models, {"sk", "ok", "lin"}, {4, 5})
CalcAll(k) ==
  {[pair |-> "calc", model |-> k.model, drift |-> k.drift, lay |-> k.lay, n |-> k.n, sel |-> k.sel, def |-> k.def,
    ntgt |-> nt, form |-> f, q |-> q, xv |-> xv] : nt \in {1, 2}, f \in CalcForms, q \in {1, 2}, xv \in {1, 2, 3}}
\* the (sample, variable) couples cross-validated together: all the variables of sample xv
CalcXvEqs(c) == {e \in Range(EqList(SortedSeq(KUsable(c)), c.def, NVarOf(c.model))) : e[1] = c.xv}
CalcCanonical(c) ==
  /\ c.form # "colcok" => c.q = 1
  /\ c.form # "xvalid" => c.xv = 1
  /\ c.form = "colcok" => NVarOf(c.model) = 2 /\ c.ntgt = 1
  /\ c.form = "xvalid" => c.ntgt = 1 /\ CalcXvEqs(c) # {}
  /\ c.form = "bayes" => c.drift # "sk"
  \* with known means KrigingCalcul takes one mean per right-hand side: one target (nrhs = nvar)
  /\ c.drift = "sk" => c.ntgt = 1
CalcPart(k) == {c \in CalcAll(k) : CalcCanonical(c)}
CalcPromised(c) ==
  LET U == IF c.form = "xvalid" THEN KUsable(c) \ {c.xv} ELSE KUsable(c)
  IN EnoughData(SortedSeq(U), c.def, NVarOf(c.model), KNd(c))
CalcIdentity(c) ==
  CASE c.form = "primal" -> IF c.drift = "sk" THEN "StdSK" ELSE "IdPrimalUK"
    [] c.form = "dual" -> IF c.drift = "sk" THEN "IdDualSK" ELSE "IdDualUK"
    [] c.form = "bayes" -> "IdBayes"
    [] c.form = "colcok" -> "IdColCok"
    [] c.form = "xvalid" -> "IdXvalid"
\* both members denote the solution of the system of these equations (reference: assembled as such;
\* fast: through the identity named above)
CalcRefEqs(c) ==
  LET all == Range(EqList(SortedSeq(KUsable(c)), c.def, NVarOf(c.model)))
  IN CASE c.form = "xvalid" -> all \ CalcXvEqs(c)
       [] c.form = "colcok" -> all \cup {<<0, c.q>>}
       [] OTHER -> all
CalcFastEqs(c) ==
  LET all == Range(EqList(SortedSeq(KUsable(c)), c.def, NVarOf(c.model)))
  IN CASE c.form = "xvalid" -> {e \in all : e \notin CalcXvEqs(c)}     \* weights of the removed couples are zero
       [] c.form = "colcok" -> all \cup {<<0, c.q>>}
       [] OTHER -> all
CalcHolds(c) == CalcFastEqs(c) = CalcRefEqs(c)
CalcEmit(c) ==
  KBase(c) @@ [pair |-> "calc", tgt |-> KTgts(c), form |-> c.form, q |-> c.q - 1, xv |-> c.xv - 1,
               identity |-> CalcIdentity(c), nbgh |-> Zero1(SortedSeq(KUsable(c))), promised |-> CalcPromised(c)]

-----------------------------------------------------------------------------
(* PAIR 8 "reuse": one kriging run over a sequence of targets (the neighbourhood  *)
(* memo of ANeigh marks a target "unchanged" when its sorted neighbour set equals  *)
(* the previous one, and KrigingSystem then reuses the inverted left-hand side)    *)
(* vs one run per target.  The expected "unchanged" flags are computed here.       *)
Tgt8 == << <<3, 3>>, <<3, 1>>, <<1, 3>>, <<5, 3>>, <<7, 1>>, <<5, 5>>, <<1, 1>> >>
ReuseKeys(models) == KDomain({m \in models : NDimOf(m) = 2}, {"sk", "ok"}, {5, 6})
ReuseAll(k) ==
  {[pair |-> "reuse", model |-> k.model, drift |-> k.drift, lay |-> k.lay, n |-> k.n, sel |-> k.sel, def |-> k.def,
    tseq |-> ts, R2 |-> R2, nmaxi |-> nmaxi, nmini |-> 1, neigh |-> ng] :
     ts \in (IF Small THEN {<<1, 2, 4, 5>>, <<1, 3, 7, 2>>, <<5, 4, 2, 6>>}
              ELSE {<<1, 2, 4, 5>>, <<1, 3, 7, 2>>, <<4, 5, 6, 1>>, <<2, 7, 1, 3>>, <<5, 4, 2, 6>>, <<6, 1, 4, 7>>, <<3, 7, 2, 1>>}),
     R2 \in {0, 40}, nmaxi \in {2, 3, 4}, ng \in {"moving", "unique"}}
ReuseTgts(c) == [i \in 1..Len(c.tseq) |-> Tgt8[c.tseq[i]]]
ReuseNbgh(c, i) ==
  IF c.neigh = "unique" THEN KUsable(c)
  ELSE MovSelect(KPts(c), c.sel, c.def, ReuseTgts(c)[i], c.R2, c.nmaxi, c.nmini)
ReuseCanonical(c) == c.neigh = "unique" => (c.R2 = 0 /\ c.nmaxi = 2)
ReusePart(k) == {c \in ReuseAll(k) : ReuseCanonical(c)}
ReusePromised(c) ==
  \A i \in 1..Len(c.tseq) :
     /\ (c.neigh = "unique" \/ MovDecided(KPts(c), KUsable(c), ReuseTgts(c)[i], c.R2, c.nmaxi))
     /\ ReuseNbgh(c, i) # {}
     /\ EnoughData(SortedSeq(ReuseNbgh(c, i)), c.def, NVarOf(c.model), KNd(c))
\* ANeigh::select / _checkUnchanged: unchanged iff same sorted set as for the previous target
ReuseUnchanged(c) == [i \in 1..Len(c.tseq) |-> i > 1 /\ ReuseNbgh(c, i) = ReuseNbgh(c, i - 1)]
\* fast: system assembled at the last "changed" target and reused; reference: assembled for each target
ReuseFastSys(c, i) ==
  LET j == CHOOSE j \in 1..i : (j = 1 \/ ~ReuseUnchanged(c)[j]) /\ \A l \in (j + 1)..i : ReuseUnchanged(c)[l]
  IN KSystem(SortedSeq(ReuseNbgh(c, j)), c.def, NVarOf(c.model), KNd(c), i)
ReuseRefSys(c, i) == KSystem(SortedSeq(ReuseNbgh(c, i)), c.def, NVarOf(c.model), KNd(c), i)
ReuseHolds(c) == \A i \in 1..Len(c.tseq) : ReuseFastSys(c, i) = ReuseRefSys(c, i)
ReuseEmit(c) ==
  KBase(c) @@ [pair |-> "reuse", tgt |-> ReuseTgts(c), radius2 |-> c.R2, nmaxi |-> c.nmaxi, nmini |-> c.nmini,
               neigh |-> c.neigh,
               nbghs |-> [i \in 1..Len(c.tseq) |-> Zero1(SortedSeq(ReuseNbgh(c, i)))],
               unchanged |-> ReuseUnchanged(c), promised |-> ReusePromised(c)]

-----------------------------------------------------------------------------
(* The catalogue                                                                *)
PairNames == {"covmat", "kr_unique", "xvalid", "ball_mig", "ball_nb", "block1", "colcok", "calc", "reuse"}
\* every pair is the union of its parts (a part = the option combinations of one abstract input)
KeysOf(pair, models) ==
  CASE pair = "covmat" -> CovKeys(models)
    [] pair = "kr_unique" -> UniqKeys(models)
    [] pair = "xvalid" -> XvKeys(models)
    [] pair = "ball_mig" -> MigKeys
    [] pair = "ball_nb" -> BallNbKeys
    [] pair = "block1" -> BlockKeys(models)
    [] pair = "colcok" -> CokKeys
    [] pair = "calc" -> CalcKeys(models)
    [] pair = "reuse" -> ReuseKeys(models)
PartOf(pair, key) ==
  CASE pair = "covmat" -> CovPart(key)
    [] pair = "kr_unique" -> UniqPart(key)
    [] pair = "xvalid" -> XvPart(key)
    [] pair = "ball_mig" -> MigPart(key)
    [] pair = "ball_nb" -> BallNbPart(key)
    [] pair = "block1" -> BlockPart(key)
    [] pair = "colcok" -> CokPart(key)
    [] pair = "calc" -> CalcPart(key)
    [] pair = "reuse" -> ReusePart(key)
Promised(c) ==
  CASE c.pair = "covmat" -> CovPromised(c)
    [] c.pair = "kr_unique" -> UniqPromised(c)
    [] c.pair = "xvalid" -> XvPromised(c)
    [] c.pair = "ball_mig" -> MigPromised(c)
    [] c.pair = "ball_nb" -> TRUE              \* the side condition is per target, inside BallNbHolds
    [] c.pair = "block1" -> BlockPromised(c)
    [] c.pair = "colcok" -> CokPromised(c)
    [] c.pair = "calc" -> CalcPromised(c)
    [] c.pair = "reuse" -> ReusePromised(c)
\* Obs_fast = Obs_ref on the model
Holds(c) ==
  CASE c.pair = "covmat" -> CovHolds(c)
    [] c.pair = "kr_unique" -> UniqHolds(c)
    [] c.pair = "xvalid" -> XvHolds(c)
    [] c.pair = "ball_mig" -> MigHoldsIntended(c)
    [] c.pair = "ball_nb" -> BallNbHolds(c)
    [] c.pair = "block1" -> BlockHolds(c)
    [] c.pair = "colcok" -> CokHolds(c)
    [] c.pair = "calc" -> CalcHolds(c)
    [] c.pair = "reuse" -> ReuseHolds(c)
EmitRec(c) ==
  CASE c.pair = "covmat" -> CovEmit(c)
    [] c.pair = "kr_unique" -> UniqEmit(c)
    [] c.pair = "xvalid" -> XvEmit(c)
    [] c.pair = "ball_mig" -> MigEmit(c)
    [] c.pair = "ball_nb" -> BallNbEmit(c)
    [] c.pair = "block1" -> BlockEmit(c)
    [] c.pair = "colcok" -> CokEmit(c)
    [] c.pair = "calc" -> CalcEmit(c)
    [] c.pair = "reuse" -> ReuseEmit(c)

=============================================================================
