------------------------------ MODULE NeighMemo ------------------------------
(***************************************************************************)
(* The memo of ANeigh::select (last target rank, last neighbourhood, flag     *)
(* "unchanged" consumed by KrigingSystem to re-use its left-hand side),       *)
(* property C10: select(target) depends on the target and on the current      *)
(* parameters of the neighbourhood only - a neighbourhood updated             *)
(* incrementally answers as a freshly built one with the same final content.  *)
(*                                                                         *)
(* Transcription of ANeigh::select: when the target rank equals the memorised *)
(* one and the memo is not empty, the memo is returned without looking at     *)
(* anything else; attach() and reset() clear the memo; MemoCleared says       *)
(* which parameter setters clear it too (none in the tree before the repair   *)
(* recorded in KNOWN_FINDINGS.json).                                          *)
(***************************************************************************)
EXTENDS Integers, Sequences, FiniteSets, TLC, Json

CONSTANTS MaxLen, MemoCleared   \* MemoCleared \subseteq {"setNMaxi", "setFlagXvalid", "setRankColCok"}

Targets == {0, 1}
VARIABLES par,      \* current parameters [nmaxi, xvalid, colcok]
          memoT, memoP,   \* memorised target (-1 none) and the parameters the memo was computed with
          hist, lastPar   \* lastPar: parameters the last returned neighbourhood was computed with
vars == <<par, memoT, memoP, hist, lastPar>>
P0 == [nmaxi |-> 3, xvalid |-> FALSE, colcok |-> FALSE]

Init == par = P0 /\ memoT = -1 /\ memoP = P0 /\ hist = <<>> /\ lastPar = P0

Select(t) == /\ Len(hist) < MaxLen
             /\ IF memoT = t THEN lastPar' = memoP /\ UNCHANGED <<memoT, memoP>>       \* memo returned
                ELSE lastPar' = par /\ memoT' = t /\ memoP' = par                       \* recomputed
             /\ UNCHANGED par
             /\ hist' = Append(hist, [op |-> "select", t |-> t])
SetPar(name, f, v) == /\ Len(hist) < MaxLen
                      /\ par[f] # v
                      /\ par' = [par EXCEPT ![f] = v]
                      /\ IF name \in MemoCleared THEN memoT' = -1 /\ UNCHANGED memoP ELSE UNCHANGED <<memoT, memoP>>
                      /\ UNCHANGED lastPar
                      /\ hist' = Append(hist, [op |-> name, v |-> v])
Attach == /\ Len(hist) < MaxLen
          /\ memoT' = -1 /\ UNCHANGED <<par, memoP, lastPar>>
          /\ hist' = Append(hist, [op |-> "attach"])
Clone == /\ Len(hist) < MaxLen                 \* the copy takes the memo along (copy constructor)
         /\ UNCHANGED <<par, memoT, memoP, lastPar>>
         /\ hist' = Append(hist, [op |-> "clone"])
Next == \/ \E t \in Targets : Select(t)
        \/ \E n \in {2, 3} : SetPar("setNMaxi", "nmaxi", n)
        \/ \E b \in BOOLEAN : SetPar("setFlagXvalid", "xvalid", b) \/ SetPar("setRankColCok", "colcok", b)
        \/ Attach \/ Clone
Spec == Init /\ [][Next]_vars

Fresh == hist = <<>> \/ hist[Len(hist)].op # "select" \/ lastPar = par

\* Besides the memo, a neighbourhood object owns WORK ARRAYS filled while one target is processed (distances,
\* sector of each candidate, number of candidates and of retained samples per angular sector): "depends on the
\* target and on the current parameters only" also means that every recomputation starts from clean work arrays.
\* They only matter when the selection uses them: the histories are therefore replayed in two concretisations,
\*   "plain"   : one sector, a handful of samples (the memo alone is exercised)
\*   "sectors" : 8 angular sectors with a binding nmaxi and unevenly filled sectors (a central and a corner
\*               target): a counter left by the previous target changes which samples are retained.
\*   "bench"   : a bench neighbourhood (NeighBench) in 3-D whose targets 0 and 1 lie in DIFFERENT benches: the class may
\*               keep its memo between two targets of the same bench (hasChanged), never across benches.
Layouts == {"plain", "sectors", "bench"}
EmitScripts == (hist = <<>> \/ hist[Len(hist)].op # "select")
               \/ \A lay \in Layouts : PrintT(ToJson([layout |-> lay, hist |-> hist, predicted_fresh |-> Fresh]))
=============================================================================
