------------------------------ MODULE SimCond ------------------------------
(* C13, part 2: simulations honour their conditioning.                                      *)
(*  (a) the truncated Gaussian draw law_gaussian_between_bounds (src/Basic/Law.cpp),        *)
(*      transcribed: cutting of [binf, bsup] at -2, 0, 2 into zones, weights, fall-back;    *)
(*  (b) the Gibbs sampler as a step machine Update(i) with the burn-in decay of the bounds  *)
(*      (src/Gibbs/AGibbs.cpp, GibbsMulti.cpp, GibbsMultiMono.cpp);                         *)
(*  (c) conditional simulation = non-conditional + kriging of the error, exact at a datum   *)
(*      for every simulation rank; the storage layouts of the Gaussian values exchanged     *)
(*      between the Gibbs sampler and the turning bands (AGibbs::storeResult, Db::getSimRank*)
(*      get_rank_from_propdef), transcribed;                                                *)
(*  (d) facies = Rule(gaussians), thresholds of a facies = the box of its leaf;             *)
(*  (e) the catalogue of cases (simulator x data layout x bounds pattern x nbsimu x seeds)  *)
(*      with what the property demands of each, emitted for the replay on the real library. *)
(* All reals are integers in TENTHS (bounds, data values) or lattice coordinates.            *)
EXTENDS Integers, Sequences, FiniteSets, TLC

CONSTANTS Parts,      \* which parts are explored: subset of {"tgb","cond","layout","rule","gibbs","gibbs-ascoded","cases"}
          Seeds,      \* positive seeds of the cases
          MaxNbSimu,  \* simulations per case: 1..MaxNbSimu
          GN,         \* Gibbs machine: number of sites
          GSweeps,    \* Gibbs machine: number of sweeps explored
          CaseSweeps, \* Gibbs cases: sweeps observed on the real sampler
          Tier        \* "quick" / "thorough": size of the case catalogue

NA == 99999
Min2(x, y) == IF x < y THEN x ELSE y
Sgn(x) == IF x > 0 THEN 1 ELSE IF x < 0 THEN -1 ELSE 0
Within(v, lo, up) == (lo = NA \/ v >= lo) /\ (up = NA \/ v <= up)
SeqToSet(s) == {s[i] : i \in DOMAIN s}

(* ======================================================================= (a) *)
Seuil == 20
Large == 200
TgbPts == {-250, -220, -200, -110, -50, -20, -15, -5, 0, 5, 15, 20, 50, 110, 200, 220, 250}
TgbBnd == TgbPts \cup {NA}
(* a = FFFF(binf) ? -large : binf;  b = FFFF(bsup) ? large : bsup;                           *)
(* if (FFFF(binf) && !FFFF(bsup)) a = MIN(a, bsup - large);                                  *)
(* if (FFFF(bsup) && !FFFF(binf)) b = MAX(b, binf + large);                                  *)
(* History: until /repo commit 932370950 the last two lines did not exist; the transcription *)
(* of that code made TLC refute TgbWithin for the classes (undefined, bsup < -20): the pair  *)
(* (-20, bsup) was inverted and the fall-back returned -20 > bsup (confirmed on the real     *)
(* function, repaired since).  The classes stay in the catalogue: a regression is caught by  *)
(* the replay, and TgbWithin is now an INVARIANT of the transcription.                       *)
Max2(x, y) == IF x > y THEN x ELSE y
A0(binf, bsup) == IF binf # NA THEN binf ELSE IF bsup # NA THEN Min2(-Large, bsup - Large) ELSE -Large
B0(binf, bsup) == IF bsup # NA THEN bsup ELSE IF binf # NA THEN Max2(Large, binf + Large) ELSE Large

(* one "if (aa < thr) { zone; aa = thr; if (aa >= bb) goto label_norme; }" block *)
Cut(s, b, thr, type) ==
  IF ~s.stop /\ s.aa < thr
  THEN [aa |-> thr, zones |-> Append(s.zones, [lo |-> s.aa, hi |-> Min2(b, thr), t |-> type]), stop |-> (thr >= b)]
  ELSE s
Zones(binf, bsup) ==
  LET a == A0(binf, bsup)  b == B0(binf, bsup)
      s1 == Cut([aa |-> a, zones |-> <<>>, stop |-> FALSE], b, -Seuil, 1)
      s2 == Cut(s1, b, 0, 2)
      s3 == Cut(s2, b, Seuil, 3)
  IN IF s3.stop THEN s3.zones ELSE Append(s3.zones, [lo |-> s3.aa, hi |-> b, t |-> 4])

(* sign of the weight of a zone, exactly as the formulas of the code give it:              *)
(* 1: (exp(-lo^2/2)-exp(-hi^2/2))/hi (hi <= -2); 2: exp(hi)-exp(lo); 3: exp(-lo)-exp(-hi);  *)
(* 4: (exp(-lo^2/2)-exp(-hi^2/2))/lo (lo >= 2); 0 when lo = hi                              *)
WSign(z) == CASE z.lo = z.hi -> 0
              [] z.t = 1 -> Sgn(z.lo * z.lo - z.hi * z.hi)
              [] z.t = 4 -> Sgn(z.hi * z.hi - z.lo * z.lo)
              [] OTHER   -> Sgn(z.hi - z.lo)
InDomain(z) == CASE z.t = 1 -> z.hi <= -Seuil
                 [] z.t = 2 -> z.lo >= -Seuil /\ z.hi <= 0
                 [] z.t = 3 -> z.lo >= 0 /\ z.hi <= Seuil
                 [] z.t = 4 -> z.lo >= Seuil
ZSigns(zs) == {WSign(zs[k]) : k \in DOMAIN zs}
TotalPositive(zs) == 1 \in ZSigns(zs) /\ -1 \notin ZSigns(zs)
TotalNonPositive(zs) == 1 \notin ZSigns(zs)
(* where the returned value can lie: inside a zone of positive weight (rejection sampling   *)
(* under the envelope of that zone), or, when the total weight is <= 0, at the lower end of *)
(* ANY zone ("rank = n * uniform; x = atab[rank]")                                          *)
ResultIntervals(zs) ==
  IF TotalPositive(zs) THEN {<<zs[k].lo, zs[k].hi>> : k \in {j \in DOMAIN zs : WSign(zs[j]) = 1}}
  ELSE {<<zs[k].lo, zs[k].lo>> : k \in DOMAIN zs}

TgbKind(binf, bsup) ==
  IF binf # NA /\ bsup # NA /\ binf > bsup THEN "swapped"           \* empty interval: nothing is promised
  ELSE IF binf # NA /\ binf = bsup THEN "degenerate" ELSE "regular"
(* the zones partition [a, b] (whenever a <= b after the replacement of undefined bounds) *)
ZonesPartition(binf, bsup) ==
  LET zs == Zones(binf, bsup)  n == Len(zs) IN
  A0(binf, bsup) <= B0(binf, bsup) =>
     /\ n >= 1 /\ zs[1].lo = A0(binf, bsup) /\ zs[n].hi = B0(binf, bsup)
     /\ \A k \in 1..n : zs[k].lo <= zs[k].hi /\ InDomain(zs[k])
     /\ \A k \in 1..(n - 1) : zs[k].hi = zs[k + 1].lo
(* an inverted pair gives a single zone, whose sign decides alone (no mixture of signs ever) *)
NoMixedSigns(binf, bsup) ==
  LET zs == Zones(binf, bsup) IN
  /\ ~(1 \in ZSigns(zs) /\ -1 \in ZSigns(zs))
  /\ A0(binf, bsup) > B0(binf, bsup) => Len(zs) = 1
(* THE PROPERTY: the value lies within the bounds it was given (an undefined bound = none) *)
TgbWithin(binf, bsup) ==
  \A iv \in ResultIntervals(Zones(binf, bsup)) : Within(iv[1], binf, bsup) /\ Within(iv[2], binf, bsup)

(* class of a bound w.r.t. the break points, as logged by the hook; representative of a class *)
ClassOf(v) == CASE v = NA -> 0 [] v < -Large -> 1 [] v = -Large -> 2 [] v < -Seuil -> 3 [] v = -Seuil -> 4
                [] v < 0 -> 5 [] v = 0 -> 6 [] v < Seuil -> 7 [] v = Seuil -> 8 [] v < Large -> 9
                [] v = Large -> 10 [] OTHER -> 11
ClassRep(c, second) == CASE c = 0 -> NA [] c = 1 -> (IF second THEN -220 ELSE -250) [] c = 2 -> -200
                [] c = 3 -> (IF second THEN -50 ELSE -110) [] c = 4 -> -20 [] c = 5 -> (IF second THEN -5 ELSE -15)
                [] c = 6 -> 0 [] c = 7 -> (IF second THEN 15 ELSE 5) [] c = 8 -> 20
                [] c = 9 -> (IF second THEN 110 ELSE 50) [] c = 10 -> 200 [] OTHER -> (IF second THEN 250 ELSE 220)
(* the pair of representatives for (class of binf, class of bsup, order of the two values) *)
RepPair(ca, cb, ord) ==
  IF ca # cb \/ ca \in {0, 2, 4, 6, 8, 10} THEN <<ClassRep(ca, FALSE), ClassRep(cb, FALSE)>>
  ELSE IF ord < 0 THEN <<ClassRep(ca, FALSE), ClassRep(cb, TRUE)>>
  ELSE IF ord > 0 THEN <<ClassRep(ca, TRUE), ClassRep(cb, FALSE)>>
  ELSE <<ClassRep(ca, FALSE), ClassRep(cb, FALSE)>>
ZoneTypes(binf, bsup) == LET zs == Zones(binf, bsup) IN [k \in DOMAIN zs |-> zs[k].t]

TgbStates == {[k |-> "tgb", binf |-> a, bsup |-> b] : a \in TgbBnd, b \in TgbBnd}

(* ======================================================================= (b) *)
(* Gibbs sampler: sites 1..GN with bounds; sweep 'iter' updates the sites in order; a site  *)
(* whose bounds coincide is a hard datum (never drawn); Update(i) draws y_i within the      *)
(* EFFECTIVE bounds of the sweep, given the others (the others only move the distribution). *)
(* Burn-in decay (AGibbs::_getBoundsDecay, always on from gibbs_sampler / simpgs): for      *)
(* 0 < iter <= nburn the bounds are relaxed towards THRESH_INF/SUP = -10/+10 by ratio =     *)
(* iter / nburn; "if (_nburn <= 0 || iter > _nburn) return;" leaves them alone otherwise.   *)
(* History: until /repo commit 65d897251 the test was "iter > _nburn" only: nburn = 0 gave  *)
(* ratio 0/0 = NaN at iter 0, a NaN bound is "undefined" for FFFF() and the first sweep was *)
(* unconstrained; TLC refuted InBounds on the transcription of that code (flag 'ascoded' of *)
(* the machine, kept: ascoded = the code of /repo, now equal to the intended semantics).    *)
(* Selection: a masked sample is not simulated; the sampler works on the ACTIVE samples, rank *)
(* iact = 1..nact, and reads the bounds of the active sample at its ABSOLUTE rank             *)
(* getSampleRank(iact) (AGibbs::_boundsCheck, GibbsMulti / GibbsMultiMono::getSimulate,       *)
(* AGibbs::_isConstraintTight).  mask = 0: no selection; mask = m: site m is masked.          *)
Thresh == 100
ActiveSites(mask) == {i \in 1..GN : i # mask}
NAct(mask) == Cardinality(ActiveSites(mask))
SampleRank(mask, iact) == IF mask = 0 \/ iact < mask THEN iact ELSE iact + 1
(* (three sites: a smaller alphabet keeps the exhaustive exploration within minutes) *)
GVals == IF GN <= 2 THEN {-100, -30, -10, -5, 0, 3, 5, 10, 15, 30, 100} ELSE {-100, -10, -5, 0, 3, 10, 100}
GPairs == IF GN <= 2 THEN {<<NA, NA>>, <<-10, 0>>, <<5, 15>>, <<NA, -5>>, <<10, NA>>, <<3, 3>>}
          ELSE {<<NA, NA>>, <<-10, 0>>, <<NA, -5>>, <<10, NA>>, <<3, 3>>}
Hard(p) == p[1] # NA /\ p[1] = p[2]
(* v within the effective bounds of sweep 'iter' *)
EffWithin(v, p, iter, nburn, ascoded) ==
  IF iter > nburn THEN Within(v, p[1], p[2])
  ELSE IF nburn = 0 THEN Within(v, p[1], p[2])      \* before 65d897251, as coded: TRUE (unconstrained)
  ELSE /\ (p[1] = NA \/ (v + Thresh) * nburn >= (p[1] + Thresh) * iter)
       /\ (p[2] = NA \/ (v - Thresh) * nburn <= (p[2] - Thresh) * iter)
GibbsInit ==
  UNION {{[k |-> "gibbs", ascoded |-> ac, nburn |-> nb, mask |-> mk, bnd |-> b, y |-> y, last |-> [i \in 1..GN |-> -1], iter |-> 0, i |-> 1] :
            mk \in 0..(GN - 1),
            ac \in {a \in BOOLEAN : (a /\ "gibbs-ascoded" \in Parts) \/ (~a /\ "gibbs" \in Parts)},
            nb \in {0, 1, 2},
            y \in {f \in [1..GN -> GVals] : \A i \in 1..GN : Within(f[i], b[i][1], b[i][2])}}   \* calculInitialize: the median of the interval
         : b \in [1..GN -> GPairs]}
VARIABLE st
GibbsUpdate ==
  /\ st.k = "gibbs" /\ st.iter < GSweeps
  /\ LET site == SampleRank(st.mask, st.i)         \* st.i = iact, rank among the active samples
         p == st.bnd[site]                          \* bounds read at the ABSOLUTE rank
         ni == IF st.i = NAct(st.mask) THEN 1 ELSE st.i + 1
         nit == IF st.i = NAct(st.mask) THEN st.iter + 1 ELSE st.iter
     IN \E v \in GVals :
          /\ IF Hard(p) THEN v = p[1] ELSE EffWithin(v, p, st.iter, st.nburn, st.ascoded)
          /\ st' = [st EXCEPT !.y[site] = v, !.last[site] = st.iter, !.i = ni, !.iter = nit]
(* THE PROPERTY at every step: a value drawn at a sweep iter >= nburn lies within its bounds *)
(* (sweeps before nburn are the documented relaxation)                                       *)
(* every ACTIVE sample against ITS OWN bounds *)
GibbsInBounds(s) == \A i \in ActiveSites(s.mask) : (s.last[i] = -1 \/ s.last[i] >= s.nburn) => Within(s.y[i], s.bnd[i][1], s.bnd[i][2])

(* ======================================================================= (c) *)
(* conditional simulation at a target coinciding with datum k, rank r:                      *)
(*   cond(k, r) = nc(k, r) + sum_i lambda_i (z_i - nc(i, rmap[r])),  lambda = unit vector   *)
(* (exact interpolator, no measurement error).  nc(k, r) at the target IS nc at the datum   *)
(* (same location, same band seeds).  rmap = rank of the simulated error used for rank r.   *)
CondVals == {0, 1, 2}
CondStates ==
  UNION {{[k |-> "cond", R |-> R, rmap |-> m, nc |-> f, z |-> z] :
            m \in [1..R -> 1..R], f \in [(1..2) \X (1..R) -> (IF R = 2 THEN CondVals ELSE {0, 1})], z \in [1..2 -> {0, 1}]} : R \in {2, 3}}
CondAt(s, kk, r) == s.nc[<<kk, r>>] + (s.z[kk] - s.nc[<<kk, s.rmap[r]>>])
CondExact(s) == \A kk \in 1..2 : \A r \in 1..s.R : CondAt(s, kk, r) = s.z[kk]
IdMap(R) == [r \in 1..R |-> r]

(* storage layouts (0-based indices as in the code; ngrf = <<ngrf of PGS 1, ngrf of PGS 2>>) *)
PropRank(ipgs, igrf, ngrf)  == IF ipgs = 0 THEN igrf ELSE ngrf[1] + igrf                 \* get_rank_from_propdef
GibbsCase(ipgs, igrf, ngrf) == igrf + ngrf[ipgs + 1] * ipgs                             \* AGibbs::getRank, _nvar = ngrf of this PGS
GibbsItem(ipgs, igrf, isimu, npgs, ngrf) == GibbsCase(ipgs, igrf, ngrf) + (npgs * ngrf[ipgs + 1]) * isimu   \* AGibbs::storeResult
TBItem(ipgs, igrf, isimu, nbsimu, ngrf)  == isimu + nbsimu * PropRank(ipgs, igrf, ngrf)  \* Db::getSimRank(isimu, 0, icase, nbsimu, 1)
(* the Gaussian value conditioning (PGS ipgs, function igrf, simulation isimu) is the one the *)
(* Gibbs sampler produced for it, under the bounds written for it                           *)
LayoutOK(npgs, ngrf, nbsimu) ==
  \A ipgs \in 0..(npgs - 1) : \A igrf \in 0..(ngrf[ipgs + 1] - 1) : \A isimu \in 0..(nbsimu - 1) :
     /\ GibbsCase(ipgs, igrf, ngrf) = PropRank(ipgs, igrf, ngrf)
     /\ GibbsItem(ipgs, igrf, isimu, npgs, ngrf) = TBItem(ipgs, igrf, isimu, nbsimu, ngrf)
LayoutStates == {[k |-> "layout", npgs |-> np, ngrf |-> g, nbsimu |-> n] :
                   np \in {1, 2}, g \in {<<1, 1>>, <<2, 1>>, <<1, 2>>, <<2, 2>>}, n \in 1..3}

(* multivariate conditional turning bands: the simulated error (non-conditional simulation minus *)
(* datum) of (simulation isimu, variable ivar) is written by CalcSimuTurningBands::_difference   *)
(* and read back by KrigingSystem::_simulateCalcul in the column Db::getSimRank of the input Db  *)
SimRank(isimu, ivar, icase, nbsimu, nvar) == isimu + nbsimu * (ivar + nvar * icase)
TBErrWrite(isimu, ivar, nbsimu, nvar) == SimRank(isimu, ivar, 0, nbsimu, nvar)    \* _difference: (.., icase, nbsimu, nvar)
TBErrRead(isimu, jvar, nbsimu, nvar)  == SimRank(isimu, jvar, 0, nbsimu, nvar)    \* _simulateCalcul: (.., _rankPGS, _nbsimu, _nvar)
TBColsOK(nvar, nbsimu) ==
  \A i1, i2 \in 0..(nbsimu - 1) : \A v1, v2 \in 0..(nvar - 1) :
     /\ TBErrRead(i1, v1, nbsimu, nvar) = TBErrWrite(i1, v1, nbsimu, nvar)
     /\ (TBErrWrite(i1, v1, nbsimu, nvar) = TBErrWrite(i2, v2, nbsimu, nvar)) => (i1 = i2 /\ v1 = v2)
TBColStates == {[k |-> "tbcols", nvar |-> nv, nbsimu |-> n] : nv \in {1, 2}, n \in 1..3}
(* THE LAW OF CONDITIONING: the conditional simulation is linear in the data.  One target, one      *)
(* datum location carrying nvar variables, kriging weights w[jv] of the variable simulated; the     *)
(* columns hold err[c] = nc[c] - z[variable of c]; cond(r) = T - sum_jv w[jv] * err[read(r, jv)].   *)
(* Conditioning by z + d instead of z moves every simulation by exactly sum_jv w[jv] * d[jv] = the  *)
(* kriging estimate of d (for every rank; for every target, not only at the data).                  *)
LinStates ==
  UNION {{[k |-> "lin", nbsimu |-> n, r |-> r, nc |-> f, z |-> z, d |-> d, w |-> w] :
            r \in 0..(n - 1), f \in [0..(2 * n - 1) -> {0, 1}], z \in {<<0, 1>>, <<1, 0>>}, d \in {<<2, 0>>, <<0, 2>>, <<2, 4>>}, w \in {<<1, 3>>, <<3, 0>>}}
         : n \in 1..3}
VarOfCol(c, nbsimu) == c \div nbsimu
(* (z, d, w are pairs indexed 1..2 = variable 0..1) *)
LinCond(s, zz) == 0 - ( s.w[1] * (s.nc[TBErrRead(s.r, 0, s.nbsimu, 2)] - zz[VarOfCol(TBErrRead(s.r, 0, s.nbsimu, 2), s.nbsimu) + 1])
                      + s.w[2] * (s.nc[TBErrRead(s.r, 1, s.nbsimu, 2)] - zz[VarOfCol(TBErrRead(s.r, 1, s.nbsimu, 2), s.nbsimu) + 1]) )
LinLaw(s) == LinCond(s, <<s.z[1] + s.d[1], s.z[2] + s.d[2]>>) - LinCond(s, s.z) = s.w[1] * s.d[1] + s.w[2] * s.d[2]

(* ======================================================================= (d) *)
(* lithotype rules: S splits on the first Gaussian function, T on the second; the first     *)
(* child is the side below the threshold.  With proportions that make every split half/half *)
(* every threshold is the median 0 (exactly: invcdf(1/2) = 0).                              *)
Leaf(f) == [t |-> "F", f |-> f]
RuleTree(name) ==
  CASE name = "S2"  -> [t |-> "S", a |-> Leaf(1), b |-> Leaf(2)]
    [] name = "ST3" -> [t |-> "S", a |-> [t |-> "T", a |-> Leaf(1), b |-> Leaf(2)], b |-> Leaf(3)]
RuleNames(name) == CASE name = "S2" -> <<"S", "F1", "F2">> [] name = "ST3" -> <<"S", "T", "F1", "F2", "F3">>
RuleProps(name) == CASE name = "S2" -> <<50, 50>> [] name = "ST3" -> <<25, 25, 50>>       \* percent
RuleNFac(name)  == Len(RuleProps(name))
RuleNGrf(name)  == CASE name = "S2" -> 1 [] name = "ST3" -> 2
RECURSIVE Mass(_, _), HalfSplits(_, _), FaciesOf(_, _, _), BoxOf(_, _, _)
Mass(n, props) == IF n.t = "F" THEN props[n.f] ELSE Mass(n.a, props) + Mass(n.b, props)
HalfSplits(n, props) == n.t = "F" \/ (Mass(n.a, props) = Mass(n.b, props) /\ HalfSplits(n.a, props) /\ HalfSplits(n.b, props))
FaciesOf(n, g1, g2) ==
  IF n.t = "F" THEN n.f
  ELSE IF n.t = "S" THEN (IF g1 < 0 THEN FaciesOf(n.a, g1, g2) ELSE FaciesOf(n.b, g1, g2))
  ELSE (IF g2 < 0 THEN FaciesOf(n.a, g1, g2) ELSE FaciesOf(n.b, g1, g2))
(* box <<l1, u1, l2, u2>> of the leaf f (NA = unbounded); <<>> when f is not below n *)
BoxOf(n, f, box) ==
  IF n.t = "F" THEN (IF n.f = f THEN box ELSE <<>>)
  ELSE LET ba == BoxOf(n.a, f, IF n.t = "S" THEN [box EXCEPT ![2] = 0] ELSE [box EXCEPT ![4] = 0])
           bb == BoxOf(n.b, f, IF n.t = "S" THEN [box EXCEPT ![1] = 0] ELSE [box EXCEPT ![3] = 0])
       IN IF ba # <<>> THEN ba ELSE bb
FBox(name, f) == BoxOf(RuleTree(name), f, <<NA, NA, NA, NA>>)
InBox(g1, g2, box) == Within(g1, box[1], box[2]) /\ Within(g2, box[3], box[4])
GGrid == {-2, -1, 1, 2}
RuleConsistent(name) ==
  /\ HalfSplits(RuleTree(name), RuleProps(name))
  /\ \A g1, g2 \in GGrid : \A f \in 1..RuleNFac(name) :
        (FaciesOf(RuleTree(name), g1, g2) = f) <=> InBox(g1, g2, FBox(name, f))
RuleStates == {[k |-> "rule", name |-> n] : n \in {"S2", "ST3"}}

(* ======================================================================= (e) *)
Rev(s) == [i \in 1..Len(s) |-> s[Len(s) + 1 - i]]
XY(s) == [i \in 1..Len(s) |-> <<s[i][1], s[i][2]>>]
DataSet(name) ==
  CASE name = "D4" -> << <<1, 1, 5>>, <<3, 1, -12>>, <<2, 3, 20>>, <<0, 4, 3>> >>
    [] name = "D3" -> << <<0, 0, -4>>, <<4, 0, 11>>, <<2, 4, 0>> >>
    [] name = "D1" -> << <<2, 2, 7>> >>
Far == << <<10, 10>>, <<11, 12>> >>
GridN == 5
GridTargets == [i \in 1..(GridN * GridN) |-> <<(i - 1) % GridN, (i - 1) \div GridN>>]
Targets(layout, d) ==
  CASE layout = "grid"      -> GridTargets
    [] layout = "pts-same"  -> XY(d) \o Far
    [] layout = "pts-shift" -> Far \o XY(d)
    [] layout = "pts-rev"   -> Rev(XY(d)) \o Far
(* <<target index, datum index>> (1-based) of the targets coinciding with a datum *)
Coincide(tg, d) == {<<t, i>> \in (DOMAIN tg) \X (DOMAIN d) : tg[t] = <<d[i][1], d[i][2]>>}
Free(tg, d) == {t \in DOMAIN tg : \A i \in DOMAIN d : tg[t] # <<d[i][1], d[i][2]>>}

Quick == Tier = "quick"
TBModels == IF Quick THEN {"sph", "exp", "nugsph"} ELSE {"sph", "exp", "cub", "gau", "mat", "nugsph"}
TBData == IF Quick THEN {"D4", "D1"} ELSE {"D4", "D3", "D1"}
TBCases ==
  {[k |-> "case", sim |-> "simtub", model |-> m, layout |-> l, dset |-> d, nbsimu |-> n, seed |-> s] :
     m \in TBModels, l \in {"grid", "pts-same", "pts-shift", "pts-rev"}, d \in TBData, n \in 1..MaxNbSimu, s \in Seeds}
(* data slightly off the nodes (beyond the tolerance of the copy of the data onto coinciding *)
(* nodes): a smooth model + spectral turning bands is Lipschitz, the node value stays near   *)
(* the datum for every rank                                                                  *)
NearCases ==
  {[k |-> "case", sim |-> "simtub-near", model |-> "gau", layout |-> "grid", dset |-> d, nbsimu |-> n, seed |-> s] :
     d \in {"D4"}, n \in {MaxNbSimu}, s \in Seeds}
(* multivariate conditional cases: nvar x nbsimu (incl. nbsimu # nvar), data exactly on the nodes   *)
(* or 2e-4 mesh off them; each case is run with the data Z and Z + D, and D is kriged              *)
MvZ == << <<1, 1, 5, -8>>, <<3, 1, -12, 4>>, <<2, 3, 20, 10>>, <<0, 4, 3, -15>> >>
MvD == << <<1, 1, 10, -20>>, <<3, 1, -5, 15>>, <<2, 3, 0, 7>>, <<0, 4, 12, 3>> >>
MvSum == [i \in 1..Len(MvZ) |-> <<MvZ[i][1], MvZ[i][2], MvZ[i][3] + MvD[i][3], MvZ[i][4] + MvD[i][4]>>]
MvCases ==
  {[k |-> "case", sim |-> "simtub-mv", nvar |-> nv, nbsimu |-> n, place |-> pl, seed |-> s] :
     nv \in {1, 2}, n \in 1..3, pl \in {"exact", "near"}, s \in Seeds}
RankCases ==
  {[k |-> "case", sim |-> sm, model |-> "sph", layout |-> "grid", dset |-> "D4", nbsimu |-> n, seed |-> s] :
     sm \in {"simfft", "spde", "spdec", "simtub-nc"}, n \in {2, MaxNbSimu}, s \in Seeds}

GSites == << <<0, 0>>, <<1, 1>>, <<2, 0>>, <<3, 1>>, <<4, 0>> >>
GPattern(name) ==     \* <<lower, upper>> per site, tenths
  CASE name = "both"  -> << <<-10, 0>>, <<5, 15>>, <<-30, -20>>, <<0, 1>>, <<12, 25>> >>
    [] name = "lower" -> << <<-10, NA>>, <<5, NA>>, <<20, NA>>, <<-25, NA>>, <<0, NA>> >>
    [] name = "upper" -> << <<NA, 0>>, <<NA, -15>>, <<NA, 22>>, <<NA, 5>>, <<NA, -1>> >>
    [] name = "mixed" -> << <<-10, 0>>, <<NA, NA>>, <<NA, -5>>, <<10, NA>>, <<-3, 3>> >>
    [] name = "hard"  -> << <<3, 3>>, <<-10, 0>>, <<-12, -12>>, <<NA, 4>>, <<7, NA>> >>
    [] name = "tails" -> << <<25, 30>>, <<-35, -28>>, <<21, NA>>, <<NA, -21>>, <<-1, 1>> >>
    [] name = "none"  -> << <<NA, NA>>, <<NA, NA>>, <<NA, NA>>, <<NA, NA>>, <<NA, NA>> >>
GPatterns == IF Quick THEN {"both", "mixed", "hard", "tails"} ELSE {"both", "lower", "upper", "mixed", "hard", "tails", "none"}
GModes == IF Quick THEN {"umulti", "multimono"} ELSE {"umulti", "mmulti", "multimono"}
(* selection on the input Db: none, first sample masked, a middle sample masked (index of the masked sample) *)
SelMasks(nd) == {0, 1, (nd + 1) \div 2}
SelSeq(mk, nd) == [i \in 1..nd |-> IF i = mk THEN 0 ELSE 1]
GibbsCases ==
  {[k |-> "case", sim |-> "gibbs", mode |-> m, pat |-> p, nburn |-> nb, nbsimu |-> n, seed |-> s, mask |-> mk] :
     m \in GModes \cup {"multimono"}, p \in GPatterns, nb \in {0, 3}, n \in {1, 2}, s \in Seeds, mk \in SelMasks(5)}
GibbsOK(c) == c.mask = 0 \/ c.nbsimu = 1

(* facies data: every assignment of facies to the data D4 that uses every facies, first datum facies 1 *)
FacAssign(nfac, nd) == {f \in [1..nd -> 1..nfac] : f[1] = 1 /\ \A c \in 1..nfac : \E i \in 1..nd : f[i] = c}
PgsAssign(rule) == IF Quick THEN {f \in FacAssign(RuleNFac(rule), 4) : f[4] = RuleNFac(rule)} ELSE FacAssign(RuleNFac(rule), 4)
PgsCases ==
  {[k |-> "case", sim |-> "simpgs", rule |-> r, fac |-> f, nbsimu |-> n, seed |-> s, mask |-> mk, prop |-> pr] :
     r \in {"S2", "ST3"}, f \in FacAssign(3, 4) \cup FacAssign(2, 4), n \in 1..Min2(MaxNbSimu, 2), s \in Seeds, mk \in SelMasks(4),
     pr \in {"stat", "nonstat"}}
BiPgsCases ==
  {[k |-> "case", sim |-> "simbipgs", rule |-> r, rule2 |-> r2, fac |-> f, fac2 |-> f2, nbsimu |-> n, seed |-> s, mask |-> mk, prop |-> pr] :
     r \in {"S2", "ST3"}, r2 \in {"S2"}, f \in FacAssign(3, 4) \cup FacAssign(2, 4),
     f2 \in {<<1, 2, 2, 1>>, <<2, 2, 1, 1>>, <<2, 1, 1, 2>>, <<1, 1, 2, 2>>},
     n \in 1..Min2(MaxNbSimu, 2), s \in Seeds, mk \in SelMasks(4), pr \in {"stat", "nonstat"}}
(* a selection is combined with one simulation (the storage layouts are then consistent, LayoutOK); *)
(* non-stationary proportions are combined with one simulation, no selection, and every facies      *)
(* assignment (the stationary cases of the quick tier use a sub-family, two second-facies vectors)  *)
PgsOK(c) ==
  IF c.prop = "stat"
  THEN c.fac \in PgsAssign(c.rule) /\ (c.mask = 0 \/ c.nbsimu = 1)
       /\ (c.sim = "simbipgs" => c.fac2 \in {<<1, 2, 2, 1>>, <<2, 2, 1, 1>>})
  ELSE c.fac \in FacAssign(RuleNFac(c.rule), 4) /\ c.mask = 0 /\ c.nbsimu = 1

(* NON-STATIONARY proportions: a grid of proportions, vector A for x <= PropSplit, B beyond.  The  *)
(* thresholds of the rules then vary in space (the conditioning must use, for each datum, the       *)
(* thresholds of ITS proportions); what the property demands does not: the facies at the data are   *)
(* the observed ones, for both variables of simbipgs.  Percent for one rule; for two rules the      *)
(* joint table (first index fastest, per 10000) = P(f1) * P(f2 | f1), the second variable depending *)
(* on the first.                                                                                    *)
PropSplit == 1
PropA(rule) == CASE rule = "S2" -> <<80, 20>> [] rule = "ST3" -> <<50, 30, 20>>
PropB(rule) == CASE rule = "S2" -> <<20, 80>> [] rule = "ST3" -> <<10, 30, 60>>
Cond2A(f1) == IF f1 = 1 THEN <<90, 10>> ELSE <<10, 90>>      \* P(f2 | f1) in region A
Cond2B(f1) == IF f1 = 1 THEN <<10, 90>> ELSE <<90, 10>>      \* ... in region B
Joint(p1, cond(_), n1) == [j \in 1..(2 * n1) |-> p1[((j - 1) % n1) + 1] * cond(((j - 1) % n1) + 1)[((j - 1) \div n1) + 1]]
JointA(rule) == Joint(PropA(rule), Cond2A, RuleNFac(rule))
JointB(rule) == Joint(PropB(rule), Cond2B, RuleNFac(rule))
SumSeq(q) == LET RECURSIVE S(_) S(i) == IF i = 0 THEN 0 ELSE q[i] + S(i - 1) IN S(Len(q))
PropFieldOK(rule) ==
  /\ SumSeq(PropA(rule)) = 100 /\ SumSeq(PropB(rule)) = 100 /\ PropA(rule) # PropB(rule)
  /\ SumSeq(JointA(rule)) = 10000 /\ SumSeq(JointB(rule)) = 10000
  /\ \A j \in DOMAIN JointA(rule) : JointA(rule)[j] > 0 /\ JointB(rule)[j] > 0      \* every observed pair is possible everywhere
  /\ Cond2A(1) # Cond2A(2)                                                            \* the second variable depends on the first
(* product proportions of two rules (first facies index varies fastest), percent x 100 *)
Props2(r, r2) == [j \in 1..(RuleNFac(r) * RuleNFac(r2)) |->
                    RuleProps(r)[((j - 1) % RuleNFac(r)) + 1] * RuleProps(r2)[((j - 1) \div RuleNFac(r)) + 1]]

Init ==
  \/ "tgb" \in Parts /\ st \in TgbStates
  \/ ("gibbs" \in Parts \/ "gibbs-ascoded" \in Parts) /\ st \in GibbsInit
  \/ "cond" \in Parts /\ st \in CondStates
  \/ "layout" \in Parts /\ st \in LayoutStates
  \/ "layout" \in Parts /\ st \in TBColStates
  \/ "cond" \in Parts /\ st \in LinStates
  \/ "cases" \in Parts /\ st \in MvCases
  \/ "rule" \in Parts /\ st \in RuleStates
  \/ "cases" \in Parts /\ st \in TBCases
  \/ "cases" \in Parts /\ st \in NearCases
  \/ "cases" \in Parts /\ st \in RankCases
  \/ "cases" \in Parts /\ st \in {c \in GibbsCases : GibbsOK(c)}
  \/ "cases" \in Parts /\ st \in {c \in PgsCases : PgsOK(c)}
  \/ "cases" \in Parts /\ st \in {c \in BiPgsCases : PgsOK(c)}
Next == GibbsUpdate
Spec == Init /\ [][Next]_st

(* invariants: what must hold on the MODEL *)
Inv_Tgb    == st.k = "tgb" => /\ ZonesPartition(st.binf, st.bsup) /\ NoMixedSigns(st.binf, st.bsup)
                              /\ (TgbKind(st.binf, st.bsup) # "swapped" => TgbWithin(st.binf, st.bsup))
Inv_Gibbs  == st.k = "gibbs" => GibbsInBounds(st)        \* intended decay and (since 65d897251) the decay as coded
Inv_Cond   == /\ (st.k = "cond" /\ st.rmap = IdMap(st.R)) => CondExact(st)
              /\ st.k = "lin" => LinLaw(st)
              /\ st.k = "tbcols" => TBColsOK(st.nvar, st.nbsimu)
Inv_Rule   == st.k = "rule" => RuleConsistent(st.name) /\ PropFieldOK(st.name)
(* every wrong rank map is observable: some field/data make the datum not reproduced *)
CondSensitive == \A R \in {2} : \A m \in [1..R -> 1..R] : m # IdMap(R) =>
                   \E s \in CondStates : s.R = R /\ s.rmap = m /\ ~CondExact(s)
=============================================================================
