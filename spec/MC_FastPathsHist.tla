------------------------- MODULE MC_FastPathsHist -------------------------
(* Pair 1 after a history: the optimised covariance evaluation keeps, per basic   *)
(* structure, the sample points projected in the anisotropy frame (_p1As).  The    *)
(* pre-processing APPENDS the points of the Db of the call; the evaluation reads    *)
(* point number iech of the store; the post-processing empties the store.           *)
(* Property (history independence of the fast path): every successful evaluation    *)
(* reads the points of the Db it was called with.                                   *)
(* Protocol = "release_on_every_exit": the post-processing runs on every exit       *)
(*            (intended protocol; the property must hold).                          *)
(* Protocol = "release_on_success_only": transcription of the snapshot c5253e67d,   *)
(*            where the early return "no valid sample" skipped the post-processing; *)
(*            TLC finds the history <failing call ; call on another Db>.            *)
(* The histories (sequences of calls before the observed one) are emitted for the   *)
(* harness, which replays them on a real Model before the observed call.            *)
EXTENDS Integers, Sequences, TLC, Json

CONSTANTS Protocol, MaxHist

Dbs == {"A", "B"}
VARIABLES store,      \* sequence of Db names whose points are in the store, in order
          hist,       \* calls made so far: <<db, valid>>
          readsOwn    \* the last successful evaluation read the points of its own Db

Init == store = <<>> /\ hist = <<>> /\ readsOwn = TRUE
Call(db, valid) ==
  /\ Len(hist) < MaxHist + 1
  /\ hist' = Append(hist, <<db, valid>>)
  /\ LET pre == Append(store, db)               \* _optimizationPreProcess: push_back of the projected points
     IN IF valid
        THEN /\ readsOwn' = (Head(pre) = db)    \* _p1As[iech] indexes the store from its beginning
             /\ store' = <<>>                   \* optimizationPostProcess
        ELSE /\ readsOwn' = readsOwn
             /\ store' = IF Protocol = "release_on_every_exit" THEN <<>> ELSE pre
Next == \E db \in Dbs, valid \in BOOLEAN : Call(db, valid)
Spec == Init /\ [][Next]_<<store, hist, readsOwn>>

Inv_ReadsOwnPoints == readsOwn
\* histories ending with a successful call on "A" (the observed call): the calls before it are emitted
Emit == ~(Len(hist) >= 1 /\ hist[Len(hist)] = <<"A", TRUE>>)
        \/ PrintT(ToJson([hist |-> [i \in 1..(Len(hist) - 1) |->
                                      IF hist[i][2] THEN "other" ELSE "fail"]]))
=============================================================================
