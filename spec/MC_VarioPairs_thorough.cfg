\* One of the configurations of the thorough tier of C12 (two heterotopic variables on the 3x3 lattice).
SPECIFICATION Spec
CONSTANTS
  NX = 3
  NY = 3
  NZ = 0
  MinN = 2
  MaxN = 4
  Vals0 = {0, 1}
  HasNA = TRUE
  NVar = 2
  UseSel = FALSE
  Weights = {1}
  AllowDup = FALSE
  DirSet = "t2"
  Modes = {"vg", "cov", "covnc", "covg", "mado", "rodo", "poisson", "order4", "trans1", "trans2", "binormal"}
  SampleMod = 250
  SampleRem = 1
  Seed = 1
  LawMod = 3
  DirsPerCase = 3
INVARIANT InvLaws InvEmit
CHECK_DEADLOCK FALSE
