SPECIFICATION Spec
CONSTANTS
  NBands = 2
INVARIANT HistReproducible
ACTION_CONSTRAINT Emit
CHECK_DEADLOCK FALSE
