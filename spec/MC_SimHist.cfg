SPECIFICATION Spec
CONSTANTS
  NBands = 2
  Styles = {"old", "new"}
  FullNew = FALSE
INVARIANT HistReproducible
ACTION_CONSTRAINT Emit
CHECK_DEADLOCK FALSE
