------------------------------ MODULE GridGeom ------------------------------
(***************************************************************************)
(* Exact model of the geometry of gstlearn's regular grids (property C16).  *)
(*                                                                         *)
(* A grid is a record                                                      *)
(*   [ nd  : 1..3,              space dimension                            *)
(*     nx  : nd-tuple of Nat,   number of nodes per direction              *)
(*     dx  : nd-tuple of Nat,   mesh size per direction                    *)
(*     x0  : nd-tuple of Int,   coordinates of the node of indices 0       *)
(*     ang : nd-tuple of angle codes (see CSD),                            *)
(*     n, d : the rotation matrix R = n / d  (n integer matrix, d > 0) ]   *)
(*                                                                         *)
(* Angle codes: 0..3 are the right angles 0, 90, 180, 270 degrees; 4..7    *)
(* are T, T+90, T+180, T+270 where T is the 3-4-5 angle (cos T = 3/5,      *)
(* sin T = 4/5).  Every quantity of the model is then an integer or a      *)
(* rational; a rational vector is a record [n |-> integer tuple, d |-> the  *)
(* common denominator], never reduced.                                     *)
(*                                                                         *)
(* What the documentation of gstlearn promises and the model defines:      *)
(*  - rank <-> indices: first index varies fastest;                         *)
(*  - rotation: the angles are a rotation around Oz, then Oy', then Ox''    *)
(*    (DbGrid::reset), counter-clockwise, the origin x0 being invariant:    *)
(*    R = Rz(a1).Ry(a2).Rx(a3) (in 2-D R = Rz(a1); in 1-D no rotation);     *)
(*  - indices -> coordinates:  x = x0 + R.(i*dx)  (with a fraction of cell  *)
(*    "percent":  x0 + R.((i+p)*dx));                                       *)
(*  - coordinates -> indices: u = R^-1.(x - x0);  i = floor(u/dx) when the  *)
(*    cell of node i is [i*dx, (i+1)*dx[ (flag centered = false), or        *)
(*    i = floor(u/dx + 1/2) when the cell is centred on its node            *)
(*    (centered = true); the point is outside when some index is not in     *)
(*    0..nx-1;                                                             *)
(*  - derived grids (same rotation as the parent):                          *)
(*      multiple(m, point) child node j   = parent node j*m                 *)
(*      multiple(m, cell)  child cell j   = union of the parent cells       *)
(*                                          j*m .. j*m+m-1 (centred cells)  *)
(*      divider(m, point)  child node i*m = parent node i                   *)
(*      divider(m, cell)   parent cell i  = union of the child cells        *)
(*                                          i*m .. i*m+m-1                  *)
(*      dilate(mode, s)    child node j   = parent (virtual) node           *)
(*                                          j - mode*s, nx' = nx + 2*mode*s *)
(*      subgrid [lo, hi[   child node j   = parent node lo + j              *)
(*                                                                         *)
(* Every conversion and every derived-grid construction is a FUNCTION of   *)
(* the geometry: the model has no object state at all.  The real Grid /     *)
(* DbGrid objects have mutable work members; that they behave as this       *)
(* function is stated by the "history" cases (section Histories below):      *)
(* whatever operations an object has been asked before (its state = the      *)
(* sequence of operations already applied), the next operation must give     *)
(* the outcome it gives on a fresh object.                                   *)
(*                                                                         *)
(* The model is a "case model": an initial state per grid, one successor    *)
(* state per case (node, query point, derived grid ...) which carries the   *)
(* input and the expected results.  TLC checks the invariants of C16 on     *)
(* every case (module MC_GridGeom) and prints the cases as JSON; the        *)
(* harness grid_run executes them on the real Grid / DbGrid / migrate.      *)
(***************************************************************************)
EXTENDS Integers, Sequences, FiniteSets, TLC

CONSTANTS NDims,         \* set of space dimensions (subset of 1..3)
          MaxNx,         \* node counts are in 1..MaxNx
          DxVecs(_),     \* nd |-> set of mesh vectors
          X0Vecs(_),     \* nd |-> set of origins
          AngVecs(_),    \* nd |-> set of tuples of angle codes
          MultVecs(_),   \* nd |-> set of multiplicity / subdivision vectors
          ShiftVecs(_),  \* nd |-> set of dilation vectors
          Kinds,         \* families of cases to generate
          HistoryGrid(_) \* the grids on which the histories of operations are enumerated

-----------------------------------------------------------------------------
(* Small vectors (nd <= 3) as true tuples                                   *)

SumN(nd, F(_))  == IF nd = 1 THEN F(1) ELSE IF nd = 2 THEN F(1) + F(2) ELSE F(1) + F(2) + F(3)
ProdN(nd, F(_)) == IF nd = 1 THEN F(1) ELSE IF nd = 2 THEN F(1) * F(2) ELSE F(1) * F(2) * F(3)
Tup(nd, F(_))   == IF nd = 1 THEN <<F(1)>> ELSE IF nd = 2 THEN <<F(1), F(2)>> ELSE <<F(1), F(2), F(3)>>
AsTup(nd, f)    == Tup(nd, LAMBDA k : f[k])
VAdd(nd, a, b)  == Tup(nd, LAMBDA k : a[k] + b[k])
VSub(nd, a, b)  == Tup(nd, LAMBDA k : a[k] - b[k])
VMul(nd, a, b)  == Tup(nd, LAMBDA k : a[k] * b[k])       \* component-wise
VScal(nd, s, a) == Tup(nd, LAMBDA k : s * a[k])
Dot(nd, a, b)   == SumN(nd, LAMBDA k : a[k] * b[k])
Unit(nd, k)     == Tup(nd, LAMBDA j : IF j = k THEN 1 ELSE 0)
Zero(nd)        == Tup(nd, LAMBDA j : 0)
Ones(nd)        == Tup(nd, LAMBDA j : 1)
Max(a, b)       == IF a >= b THEN a ELSE b
Gcd(a, b)       == CHOOSE g \in 1..Max(a, b) : a % g = 0 /\ b % g = 0 /\
                       \A h \in (g+1)..Max(a, b) : ~(a % h = 0 /\ b % h = 0)
Lcm(a, b)       == (a * b) \div Gcd(a, b)
LcmV(nd, m)     == IF nd = 1 THEN m[1] ELSE IF nd = 2 THEN Lcm(m[1], m[2]) ELSE Lcm(Lcm(m[1], m[2]), m[3])

-----------------------------------------------------------------------------
(* Rotations                                                                *)

CSD == << <<1, 0, 1>>, <<0, 1, 1>>, <<-1, 0, 1>>, <<0, -1, 1>>,
          <<3, 4, 5>>, <<-4, 3, 5>>, <<-3, -4, 5>>, <<4, -3, 5>> >>
Cn(a) == CSD[a + 1][1]      \* cos = Cn/Dn
Sn(a) == CSD[a + 1][2]      \* sin = Sn/Dn
Dn(a) == CSD[a + 1][3]

MatMul3(A, B) == Tup(3, LAMBDA i : Tup(3, LAMBDA j : A[i][1]*B[1][j] + A[i][2]*B[2][j] + A[i][3]*B[3][j]))

\* elementary right-handed rotations, each scaled by its own denominator
Rz3(a) == << <<Cn(a), -Sn(a), 0>>, <<Sn(a), Cn(a), 0>>, <<0, 0, Dn(a)>> >>
Ry3(a) == << <<Cn(a), 0, Sn(a)>>, <<0, Dn(a), 0>>, <<-Sn(a), 0, Cn(a)>> >>
Rx3(a) == << <<Dn(a), 0, 0>>, <<0, Cn(a), -Sn(a)>>, <<0, Sn(a), Cn(a)>> >>

RotOf(nd, ang) ==
  IF nd = 1 THEN [n |-> << <<1>> >>, d |-> 1]
  ELSE IF nd = 2 THEN [n |-> << <<Cn(ang[1]), -Sn(ang[1])>>, <<Sn(ang[1]), Cn(ang[1])>> >>, d |-> Dn(ang[1])]
  ELSE [n |-> MatMul3(MatMul3(Rz3(ang[1]), Ry3(ang[2])), Rx3(ang[3])),
        d |-> Dn(ang[1]) * Dn(ang[2]) * Dn(ang[3])]

MkGrid(nd, nx, dx, x0, ang) ==
  LET r == RotOf(nd, ang) IN
  [nd |-> nd, nx |-> AsTup(nd, nx), dx |-> AsTup(nd, dx), x0 |-> AsTup(nd, x0), ang |-> AsTup(nd, ang),
   n |-> r.n, d |-> r.d]

Grids == UNION { { MkGrid(nd, nx, dx, x0, ang) :
                     nx \in [1..nd -> 1..MaxNx], dx \in DxVecs(nd), x0 \in X0Vecs(nd), ang \in AngVecs(nd) }
                 : nd \in NDims }

IsRotated(g) == g.n # Tup(g.nd, LAMBDA i : Tup(g.nd, LAMBDA j : IF i = j THEN g.d ELSE 0))

\* R is a rotation: R^T.R = Id and det R = 1   (n^T.n = d^2.Id, det n = d^nd)
Det(nd, m) == IF nd = 1 THEN m[1][1]
              ELSE IF nd = 2 THEN m[1][1]*m[2][2] - m[1][2]*m[2][1]
              ELSE   m[1][1]*(m[2][2]*m[3][3] - m[2][3]*m[3][2])
                   - m[1][2]*(m[2][1]*m[3][3] - m[2][3]*m[3][1])
                   + m[1][3]*(m[2][1]*m[3][2] - m[2][2]*m[3][1])
IsRotation(g) ==
  /\ \A i, j \in 1..g.nd : SumN(g.nd, LAMBDA k : g.n[k][i] * g.n[k][j]) = (IF i = j THEN g.d * g.d ELSE 0)
  /\ Det(g.nd, g.n) = ProdN(g.nd, LAMBDA k : g.d)

-----------------------------------------------------------------------------
(* rank <-> indices (first index fastest)                                   *)

NTot(nd, nx)      == ProdN(nd, LAMBDA k : nx[k])
Stride(nx, k)     == IF k = 1 THEN 1 ELSE IF k = 2 THEN nx[1] ELSE nx[1] * nx[2]
RankOf(nd, nx, i) == SumN(nd, LAMBDA k : i[k] * Stride(nx, k))
IdxOf(nd, nx, r)  == Tup(nd, LAMBDA k : (r \div Stride(nx, k)) % nx[k])
InRange(nd, nx, i) == \A k \in 1..nd : 0 <= i[k] /\ i[k] < nx[k]
RankOrOut(nd, nx, i) == IF InRange(nd, nx, i) THEN RankOf(nd, nx, i) ELSE -1
Indices(nd, nx)   == { IdxOf(nd, nx, r) : r \in 0..(NTot(nd, nx) - 1) }

-----------------------------------------------------------------------------
(* indices -> coordinates                                                   *)

\* world coordinates of the point whose coordinates in the frame of the grid (origin x0, axes =
\* columns of R) are u/den, u an integer vector:  x0 + R.(u/den)
World(g, u, den) ==
  [n |-> Tup(g.nd, LAMBDA i : g.x0[i] * g.d * den + SumN(g.nd, LAMBDA k : g.n[i][k] * u[k])),
   d |-> g.d * den]

Node(g, i) == World(g, VMul(g.nd, i, g.dx), 1)

-----------------------------------------------------------------------------
(* coordinates -> indices                                                   *)

\* coordinates of the world point p = [n, d] in the frame of the grid:  R^-1.(p - x0),  R^-1 = R^T
Frame(g, p) ==
  LET v == Tup(g.nd, LAMBDA k : p.n[k] - g.x0[k] * p.d) IN
  [n |-> Tup(g.nd, LAMBDA i : SumN(g.nd, LAMBDA k : g.n[k][i] * v[k])), d |-> p.d * g.d]

IdxCorner(g, p) == LET w == Frame(g, p) IN Tup(g.nd, LAMBDA k : w.n[k] \div (w.d * g.dx[k]))
IdxCentre(g, p) == LET w == Frame(g, p) IN
                   Tup(g.nd, LAMBDA k : (2 * w.n[k] + w.d * g.dx[k]) \div (2 * w.d * g.dx[k]))

\* Geometric containment, stated with the direct map only: the cell attached to node i has the
\* edges E_k = Node(i + e_k) - Node(i); p = Node(i) + sum_k t_k.E_k with 0 < t_k < 1 (cell with
\* the node at its lower corner) or -1/2 < t_k < 1/2 (cell centred on the node); the edges being
\* orthogonal, t_k = (p - Node(i)).E_k / E_k.E_k.   (p.d is a multiple of the denominator of nodes.)
EdgeN(g, i, k)  == VSub(g.nd, Node(g, VAdd(g.nd, i, Unit(g.nd, k))).n, Node(g, i).n)
OffsN(g, p, i)  == VSub(g.nd, p.n, VScal(g.nd, p.d \div g.d, Node(g, i).n))      \* (p - Node(i)) * p.d
EdgesOrthogonal(g, i) == \A k, l \in 1..g.nd : k # l => Dot(g.nd, EdgeN(g, i, k), EdgeN(g, i, l)) = 0
InCellCorner(g, p, i) ==
  \A k \in 1..g.nd : LET e == EdgeN(g, i, k)  t == Dot(g.nd, OffsN(g, p, i), e)  ee == Dot(g.nd, e, e) IN
                     0 < t /\ t * g.d < p.d * ee
InCellCentre(g, p, i) ==
  \A k \in 1..g.nd : LET e == EdgeN(g, i, k)  t == Dot(g.nd, OffsN(g, p, i), e)  ee == Dot(g.nd, e, e) IN
                     -(p.d * ee) < 2 * t * g.d /\ 2 * t * g.d < p.d * ee

-----------------------------------------------------------------------------
(* Query points: the points whose frame coordinates are odd multiples of dx/4, from -3/4.dx to    *)
(* (nx + 1/4).dx: off the borders of both kinds of cells, inside and outside the grid              *)

QVals(n)   == { q \in (-3)..(4 * n + 1) : q % 2 = 1 }
QSet(g)    == IF g.nd = 1 THEN { <<a>> : a \in QVals(g.nx[1]) }
              ELSE IF g.nd = 2 THEN { <<a, b>> : a \in QVals(g.nx[1]), b \in QVals(g.nx[2]) }
              ELSE { <<a, b, c>> : a \in QVals(g.nx[1]), b \in QVals(g.nx[2]), c \in QVals(g.nx[3]) }
QPoint(g, q) == World(g, VMul(g.nd, q, g.dx), 4)

-----------------------------------------------------------------------------
(* Derived grids.  A child is [nx, u0, du, K]: same rotation as the parent g, node j at the frame *)
(* position (u0 + j*du)/K, i.e. x0' = World(g, u0, K), dx' = du/K.                                  *)

ChildNode(g, ch, j) == World(g, VAdd(g.nd, ch.u0, VMul(g.nd, j, ch.du)), ch.K)
ParentNodeK(g, i, K) == World(g, VScal(g.nd, K, VMul(g.nd, i, g.dx)), K)    \* Node(g, i) over the denominator d*K

Multiple(g, m, cell) ==
  [nx |-> Tup(g.nd, LAMBDA k : IF cell THEN g.nx[k] \div m[k] ELSE 1 + (g.nx[k] - 1) \div m[k]),
   u0 |-> Tup(g.nd, LAMBDA k : IF cell THEN (m[k] - 1) * g.dx[k] ELSE 0),
   du |-> Tup(g.nd, LAMBDA k : 2 * m[k] * g.dx[k]),
   K  |-> 2]

Divider(g, m, cell) ==
  LET L == LcmV(g.nd, m) IN
  [nx |-> Tup(g.nd, LAMBDA k : IF cell THEN g.nx[k] * m[k] ELSE 1 + (g.nx[k] - 1) * m[k]),
   u0 |-> Tup(g.nd, LAMBDA k : IF cell THEN (1 - m[k]) * g.dx[k] * (L \div m[k]) ELSE 0),
   du |-> Tup(g.nd, LAMBDA k : 2 * g.dx[k] * (L \div m[k])),
   K  |-> 2 * L]

Dilate(g, mode, s) ==
  [nx |-> Tup(g.nd, LAMBDA k : g.nx[k] + 2 * mode * s[k]),
   u0 |-> Tup(g.nd, LAMBDA k : -mode * s[k] * g.dx[k]),
   du |-> g.dx,
   K  |-> 1]

SubGrid(g, lo, hi) ==
  [nx |-> VSub(g.nd, hi, lo),
   u0 |-> VMul(g.nd, lo, g.dx),
   du |-> g.dx,
   K  |-> 1]

ChildOk(g, ch) == \A k \in 1..g.nd : ch.nx[k] >= 1

\* The property, for each kind of derived grid (virtual nodes = nodes of indices out of range)
MultipleWhereParentIs(g, m, cell, ch) ==
  /\ \A j \in Indices(g.nd, ch.nx) :
       LET a == VMul(g.nd, j, m)  b == VAdd(g.nd, a, VSub(g.nd, m, Ones(g.nd))) IN
       /\ InRange(g.nd, g.nx, a) /\ (cell => InRange(g.nd, g.nx, b))
       /\ IF cell THEN VScal(g.nd, 2, ChildNode(g, ch, j).n) = VAdd(g.nd, ParentNodeK(g, a, ch.K).n, ParentNodeK(g, b, ch.K).n)
                  ELSE ChildNode(g, ch, j).n = ParentNodeK(g, a, ch.K).n
  /\ \A k \in 1..g.nd :        \* the child covers as much of the parent as whole blocks / steps allow
       /\ VSub(g.nd, ChildNode(g, ch, Unit(g.nd, k)).n, ChildNode(g, ch, Zero(g.nd)).n)
            = VScal(g.nd, m[k], VSub(g.nd, ParentNodeK(g, Unit(g.nd, k), ch.K).n, ParentNodeK(g, Zero(g.nd), ch.K).n))
       /\ IF cell THEN ch.nx[k] * m[k] <= g.nx[k] /\ g.nx[k] < (ch.nx[k] + 1) * m[k]
                  ELSE (ch.nx[k] - 1) * m[k] <= g.nx[k] - 1 /\ g.nx[k] - 1 < ch.nx[k] * m[k]

DividerWhereParentIs(g, m, cell, ch) ==
  /\ \A i \in Indices(g.nd, g.nx) :
       LET a == VMul(g.nd, i, m)  b == VAdd(g.nd, a, VSub(g.nd, m, Ones(g.nd))) IN
       /\ InRange(g.nd, ch.nx, a) /\ (cell => InRange(g.nd, ch.nx, b))
       /\ IF cell THEN VAdd(g.nd, ChildNode(g, ch, a).n, ChildNode(g, ch, b).n) = VScal(g.nd, 2, ParentNodeK(g, i, ch.K).n)
                  ELSE ChildNode(g, ch, a).n = ParentNodeK(g, i, ch.K).n
  /\ \A k \in 1..g.nd :
       /\ VScal(g.nd, m[k], VSub(g.nd, ChildNode(g, ch, Unit(g.nd, k)).n, ChildNode(g, ch, Zero(g.nd)).n))
            = VSub(g.nd, ParentNodeK(g, Unit(g.nd, k), ch.K).n, ParentNodeK(g, Zero(g.nd), ch.K).n)
       /\ ch.nx[k] = (IF cell THEN g.nx[k] * m[k] ELSE 1 + (g.nx[k] - 1) * m[k])

DilateWhereParentIs(g, mode, s, ch) ==
  /\ \A j \in Indices(g.nd, ch.nx) :
       ChildNode(g, ch, j).n = ParentNodeK(g, VSub(g.nd, j, VScal(g.nd, mode, s)), ch.K).n
  /\ \A k \in 1..g.nd : ch.nx[k] = g.nx[k] + 2 * mode * s[k]

SubGridWhereParentIs(g, lo, hi, ch) ==
  \A j \in Indices(g.nd, ch.nx) :
     /\ InRange(g.nd, g.nx, VAdd(g.nd, lo, j))
     /\ ChildNode(g, ch, j).n = ParentNodeK(g, VAdd(g.nd, lo, j), ch.K).n

-----------------------------------------------------------------------------
(* Cases                                                                    *)

B(x) == IF x THEN 1 ELSE 0
\* nodes of a child in rank order, over one denominator
NodeList(g, ch) == [ns |-> [r \in 1..NTot(g.nd, ch.nx) |-> ChildNode(g, ch, IdxOf(g.nd, ch.nx, r - 1)).n],
                    d  |-> g.d * ch.K]
ChildFields(g, ch) == [nx |-> ch.nx, dx |-> [n |-> ch.du, d |-> ch.K], X0 |-> World(g, ch.u0, ch.K), XS |-> NodeList(g, ch)]

\* M = R (rows), MI = R^-1 = transpose (IsRotation is checked on the case)
GridCase(g) == [k |-> "grid", g |-> g, ntot |-> NTot(g.nd, g.nx), M |-> [n |-> g.n, d |-> g.d],
                MI |-> [n |-> Tup(g.nd, LAMBDA i : Tup(g.nd, LAMBDA j : g.n[j][i])), d |-> g.d],
                rotated |-> B(IsRotated(g))]

NodeCase(g, r) ==
  LET i == IdxOf(g.nd, g.nx, r) IN
  [k |-> "node", g |-> g, rank |-> r, idx |-> i, out |-> B(~InRange(g.nd, g.nx, i)),
   X |-> Node(g, i), F |-> VMul(g.nd, i, g.dx)]          \* F = i*dx: coordinates before rotation and shift

PointCase(g, q) ==
  LET p  == QPoint(g, q)
      ic == IdxCorner(g, p)
      ii == IdxCentre(g, p) IN
  [k |-> "point", g |-> g, q |-> q, P |-> p,
   cellq |-> Tup(g.nd, LAMBDA k : q[k] \div 4), pct4 |-> Tup(g.nd, LAMBDA k : q[k] % 4),
   ic |-> ic, oc |-> B(~InRange(g.nd, g.nx, ic)), rc |-> RankOrOut(g.nd, g.nx, ic), XC |-> Node(g, ic),
   ii |-> ii, oi |-> B(~InRange(g.nd, g.nx, ii)), ri |-> RankOrOut(g.nd, g.nx, ii), XI |-> Node(g, ii),
   iiclip |-> Tup(g.nd, LAMBDA k : IF ii[k] < 0 THEN 0 ELSE IF ii[k] >= g.nx[k] THEN g.nx[k] - 1 ELSE ii[k])]

MultCase(g, kind, m, cell) ==
  LET ch == IF kind = "multiple" THEN Multiple(g, m, cell) ELSE Divider(g, m, cell)
      f  == ChildFields(g, ch) IN
  [k |-> kind, g |-> g, m |-> AsTup(g.nd, m), cell |-> B(cell), ch |-> ch,
   nx |-> f.nx, dx |-> f.dx, X0 |-> f.X0, XS |-> f.XS]

DilateCase(g, mode, s) ==
  LET ch == Dilate(g, mode, s)
      f  == ChildFields(g, ch) IN
  [k |-> "dilate", g |-> g, mode |-> mode, s |-> AsTup(g.nd, s), ch |-> ch,
   nx |-> f.nx, dx |-> f.dx, X0 |-> f.X0, XS |-> f.XS]

SubCase(g, lo, hi) ==
  LET ch == SubGrid(g, lo, hi)
      f  == ChildFields(g, ch) IN
  [k |-> "subgrid", g |-> g, lo |-> AsTup(g.nd, lo), hi |-> AsTup(g.nd, hi), ch |-> ch,
   nx |-> f.nx, dx |-> f.dx, X0 |-> f.X0, XS |-> f.XS]

\* all the query points of a grid at once (one migration grid -> points), in a fixed order
QCount(g) == Tup(g.nd, LAMBDA k : 2 * g.nx[k] + 3)
QSeq(g)   == [t \in 1..NTot(g.nd, QCount(g)) |->
                LET j == IdxOf(g.nd, QCount(g), t - 1) IN Tup(g.nd, LAMBDA k : 2 * j[k] - 3)]
\* Entry points that take a LIST of sample ranks (a permuted subset) or a SELECTION of samples must
\* answer, for each designated sample, what they answer for that sample alone:
\*   pick    = the ranks (0-based) not congruent to 1 modulo 3, in decreasing order
\*   selmask = 1 for the active samples (rank not congruent to 2 modulo 3)
PickSeq(np) == LET s == SelectSeq([t \in 1..np |-> t - 1], LAMBDA x : x % 3 # 1)
               IN  [t \in 1..Len(s) |-> s[Len(s) + 1 - t]]
SelMask(np) == [t \in 1..np |-> IF (t - 1) % 3 = 2 THEN 0 ELSE 1]
AtPick(seq, pick)   == [t \in 1..Len(pick) |-> seq[pick[t] + 1]]
Masked(seq, mask)   == [t \in 1..Len(seq) |-> IF mask[t] = 1 THEN seq[t] ELSE -1]        \* -1 = not assigned
Compress(seq, mask) == LET F[t \in 0..Len(seq)] == IF t = 0 THEN <<>>
                                                   ELSE IF mask[t] = 1 THEN Append(F[t-1], seq[t]) ELSE F[t-1]
                       IN F[Len(seq)]
MigrateCase(g) ==
  LET qs   == QSeq(g)
      np   == Len(qs)
      rcs  == [t \in 1..np |-> RankOrOut(g.nd, g.nx, IdxCorner(g, QPoint(g, qs[t])))]
      ris  == [t \in 1..np |-> RankOrOut(g.nd, g.nx, IdxCentre(g, QPoint(g, qs[t])))]
      pick == PickSeq(np)
      mask == SelMask(np) IN
  [k |-> "migrate", g |-> g,
   PS  |-> [ns |-> [t \in 1..np |-> QPoint(g, qs[t]).n], d |-> 4 * g.d],
   rcs |-> rcs, ris |-> ris,
   ois |-> [t \in 1..np |-> B(~InRange(g.nd, g.nx, IdxCentre(g, QPoint(g, qs[t]))))],
   pick |-> pick, rcsL |-> AtPick(rcs, pick), risL |-> AtPick(ris, pick),
   selmask |-> mask, rcsM |-> Masked(rcs, mask), risM |-> Masked(ris, mask),
   rcsS |-> Compress(rcs, mask), risS |-> Compress(ris, mask)]

Limits(g) == { lh \in [1..g.nd -> (0..MaxNx) \X (0..MaxNx)] :
                 \A k \in 1..g.nd : lh[k][1] < lh[k][2] /\ lh[k][2] <= g.nx[k] }

-----------------------------------------------------------------------------
(* Histories.  The grid object seen as a state machine: its state is the sequence of operations *)
(* already applied to it, the observable is the outcome of the next operation.  In the model the *)
(* outcome of an operation is Outcome(g, o) = the case record o itself (its expected fields are   *)
(* functions of the geometry g and of the arguments only): the law "Fresh" is that the outcome    *)
(* does not depend on the state.  The operations are ordinary cases drawn from the grid:          *)
(* conversions on the last node and on node 0, on a point of the last cell, on an outside point   *)
(* (failing conversions: no index, rank -1), multiple / divider in both modes, dilate in both      *)
(* modes, the sub-grid of the last node.                                                           *)

LastIdx(g)  == Tup(g.nd, LAMBDA k : g.nx[k] - 1)
HistPool(g) ==
  LET m2 == Tup(g.nd, LAMBDA k : IF g.nx[k] >= 2 THEN 2 ELSE 1)
      m3 == Tup(g.nd, LAMBDA k : <<2, 3, 2>>[k])
      s1 == Tup(g.nd, LAMBDA k : <<1, 0, 2>>[k])
      s2 == Tup(g.nd, LAMBDA k : IF g.nx[k] >= 3 THEN 1 ELSE 0) IN
  { NodeCase(g, NTot(g.nd, g.nx) - 1), NodeCase(g, 0),
    PointCase(g, Tup(g.nd, LAMBDA k : 4 * (g.nx[k] - 1) + 1)), PointCase(g, Tup(g.nd, LAMBDA k : -3)),
    MultCase(g, "multiple", m2, TRUE), MultCase(g, "multiple", m2, FALSE),
    MultCase(g, "divider", m3, TRUE), MultCase(g, "divider", m3, FALSE),
    DilateCase(g, 1, s1), DilateCase(g, -1, s2),
    SubCase(g, LastIdx(g), g.nx) }

ObjInit          == << >>                       \* a fresh object
ObjApply(h, o)   == Append(h, o)                \* the state after one more operation
Outcome(g, h, o) == o                           \* Fresh: the state h does not matter

\* the object after the operation a is asked b: one case, both outcomes are compared
HistoryCase(g, a, b) ==
  LET h1 == ObjApply(ObjInit, a) IN
  [k |-> "history", g |-> g, seq |-> << Outcome(g, ObjInit, a), Outcome(g, h1, b) >>]
HistoryCases(g) == { HistoryCase(g, ab[1], ab[2]) : ab \in { x \in HistPool(g) \X HistPool(g) : x[1] # x[2] } }

CasesOf(g) ==
  (IF "history" \in Kinds /\ HistoryGrid(g) THEN HistoryCases(g) ELSE {}) \cup
  (IF "node" \in Kinds THEN { NodeCase(g, r) : r \in 0..(NTot(g.nd, g.nx) - 1) } ELSE {})
  \cup (IF "point" \in Kinds THEN { PointCase(g, q) : q \in QSet(g) } ELSE {})
  \cup (IF "multiple" \in Kinds
        THEN { MultCase(g, "multiple", mc[1], mc[2]) :
                 mc \in { x \in MultVecs(g.nd) \X BOOLEAN : ChildOk(g, Multiple(g, x[1], x[2])) } }
        ELSE {})
  \cup (IF "divider" \in Kinds
        THEN { MultCase(g, "divider", m, cell) : m \in MultVecs(g.nd), cell \in BOOLEAN }
        ELSE {})
  \cup (IF "dilate" \in Kinds
        THEN { DilateCase(g, ms[1], ms[2]) :
                 ms \in { x \in {-1, 1} \X ShiftVecs(g.nd) : ChildOk(g, Dilate(g, x[1], x[2])) } }
        ELSE {})
  \cup (IF "subgrid" \in Kinds
        THEN { SubCase(g, Tup(g.nd, LAMBDA k : lh[k][1]), Tup(g.nd, LAMBDA k : lh[k][2])) : lh \in Limits(g) }
        ELSE {})
  \cup (IF "migrate" \in Kinds THEN { MigrateCase(g) } ELSE {})

-----------------------------------------------------------------------------
(* C16 on one case                                                          *)

NodeOk(c) ==
  LET g == c.g IN
  /\ InRange(g.nd, g.nx, c.idx) /\ c.out = 0
  /\ RankOf(g.nd, g.nx, c.idx) = c.rank                           \* rank -> indices -> rank
  /\ \A i \in Indices(g.nd, g.nx) : RankOf(g.nd, g.nx, i) = c.rank => i = c.idx   \* indices -> rank is injective
  /\ IdxCorner(g, c.X) = c.idx /\ IdxCentre(g, c.X) = c.idx        \* indices -> coordinates -> indices
  /\ RankOrOut(g.nd, g.nx, IdxCentre(g, Node(g, IdxOf(g.nd, g.nx, c.rank)))) = c.rank   \* rank -> coordinates -> rank
  /\ EdgesOrthogonal(g, c.idx)

PointOk(c) ==
  LET g == c.g IN
  /\ InCellCorner(g, c.P, c.ic)                                    \* the point is in the cell computed
  /\ InCellCentre(g, c.P, c.ii)
  /\ c.ic = c.cellq                                                \* direct then inverse map = identity
  /\ c.ii = Tup(g.nd, LAMBDA k : (c.q[k] + 2) \div 4)
  /\ (c.oc = 1) = (c.rc = -1) /\ (c.oi = 1) = (c.ri = -1)
  /\ c.oc = 0 => IdxOf(g.nd, g.nx, c.rc) = c.ic
  /\ c.oi = 0 => IdxOf(g.nd, g.nx, c.ri) = c.ii
  /\ InRange(g.nd, g.nx, c.iiclip) /\ (c.oi = 0 => c.iiclip = c.ii)
  /\ \A i \in Indices(g.nd, g.nx) : (InCellCorner(g, c.P, i) => i = c.ic) /\ (InCellCentre(g, c.P, i) => i = c.ii)

DerivedOk(c) ==
  CASE c.k = "multiple" -> MultipleWhereParentIs(c.g, c.m, c.cell = 1, c.ch)
    [] c.k = "divider"  -> DividerWhereParentIs(c.g, c.m, c.cell = 1, c.ch)
    [] c.k = "dilate"   -> DilateWhereParentIs(c.g, c.mode, c.s, c.ch)
    [] c.k = "subgrid"  -> SubGridWhereParentIs(c.g, c.lo, c.hi, c.ch)

SimpleOk(c) ==
  CASE c.k = "node" -> NodeOk(c)
    [] c.k = "point" -> PointOk(c)
    [] c.k \in {"multiple", "divider", "dilate", "subgrid"} -> DerivedOk(c) /\ Len(c.XS.ns) = NTot(c.g.nd, c.nx)

CaseOk(c) ==
  CASE c.k = "grid" -> IsRotation(c.g)
    [] c.k = "history" -> /\ \A i \in 1..Len(c.seq) : c.seq[i].g = c.g /\ SimpleOk(c.seq[i])
                          /\ \A i \in 1..Len(c.seq) : c.seq[i] \in HistPool(c.g)    \* = the outcome on a fresh object
    [] c.k = "node" -> NodeOk(c)
    [] c.k = "point" -> PointOk(c)
    [] c.k \in {"multiple", "divider", "dilate", "subgrid"} -> DerivedOk(c) /\ Len(c.XS.ns) = NTot(c.g.nd, c.nx)
    [] c.k = "migrate" -> /\ Len(c.rcs) = Cardinality(QSet(c.g)) /\ Len(c.PS.ns) = Len(c.rcs)
                          /\ {QSeq(c.g)[t] : t \in 1..Len(c.rcs)} = QSet(c.g)
                          \* the list is a permuted proper subset, the selection is not a prefix, and both
                          \* contain samples whose two kinds of cell differ (else the argument is not exercised)
                          /\ \A t \in 1..Len(c.pick) : c.pick[t] \in 0..(Len(c.rcs) - 1)
                          /\ \A t, u \in 1..Len(c.pick) : t < u => c.pick[t] > c.pick[u]
                          /\ Len(c.pick) < Len(c.rcs) /\ Len(c.rcsL) = Len(c.pick)
                          /\ Len(c.rcsS) = Cardinality({t \in 1..Len(c.rcs) : c.selmask[t] = 1})
                          /\ \E t \in 1..Len(c.rcs) : c.selmask[t] = 0 /\ \E u \in (t+1)..Len(c.rcs) : c.selmask[u] = 1
                          /\ c.rcsL # c.risL /\ c.rcsS # c.risS

\* what is printed for the harness
GridOut(g) == g
=============================================================================
