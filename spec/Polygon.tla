------------------------------ MODULE Polygon ------------------------------
(***************************************************************************)
(* Point-in-polygon decisions of gstlearn (property C20) on lattice inputs, *)
(* in exact integer arithmetic.                                             *)
(*                                                                         *)
(* Coordinates are DOUBLED: a polygon vertex has even coordinates, a query  *)
(* point any integer coordinates, so that the half-lattice points (centres  *)
(* of cells, mid-points of unit edges) are integers too.  A point is a pair *)
(* <<x, y>>; a polygon is the sequence of its n >= 3 distinct vertices, NOT *)
(* repeated at the end ("left open"); Closed(p) repeats the first vertex.   *)
(*                                                                         *)
(*  RefInside    geometric truth: parity of the proper crossings of the     *)
(*               polygon with a segment from the query point to a point     *)
(*               beyond the polygon, the segment being chosen so that it    *)
(*               passes through no lattice point (no special cases at all); *)
(*               cross-checked against the winding number (RefConsistent).  *)
(*  AlgInside    transcription, statement by statement, of                  *)
(*               PolyElem::inside (src/Polygon/PolyElem.cpp) in exact        *)
(*               arithmetic.                                                *)
(*  Agree        the property for one element: for every simple polygon and *)
(*               every query point not on its boundary both coincide.       *)
(*  RefInsideSet the documented rule of Polygons::inside for polygon sets:  *)
(*               union rule / nested (odd count) rule, a point "belongs" to *)
(*               an element when it is inside in 2-D and its z (if any) is   *)
(*               within the optional vertical limits of that element.       *)
(*  CodeInsideSet transcription of Polygons::inside (src/Polygon/           *)
(*               Polygons.cpp), with the early "return false" of the code    *)
(*               as a parameter (TRUE = code as it stands, FALSE = proposed  *)
(*               repair "continue").                                        *)
(*  DbMark       db_polygon: the mark of one sample.                        *)
(*  Subdivide, Staircase  refinements giving polygons with hundreds of      *)
(*               vertices (collinear vertices, many horizontal edges).      *)
(*  RingsOfRows, FileRows  polygon sets described by a CSV / WKT file.      *)
(*  HullChain, HullCode  convex hull of a lattice point set as an exact     *)
(*               polygon (monotone chain) and as a point set (half-planes);  *)
(*               DbHullMark = selection by convex hull (db_selhull).         *)
(***************************************************************************)
EXTENDS Integers, Sequences, FiniteSets, TLC

NoZ == -1000      \* token of "undefined" for z, zmin, zmax (TEST in gstlearn)

-----------------------------------------------------------------------------
(* Exact planar predicates                                                  *)

Sgn(v) == IF v > 0 THEN 1 ELSE IF v < 0 THEN -1 ELSE 0
Min2(a, b) == IF a < b THEN a ELSE b
Max2(a, b) == IF a > b THEN a ELSE b

\* twice the signed area of the triangle a b c: > 0 iff c is to the left of a -> b
Orient(a, b, c) == (b[1] - a[1]) * (c[2] - a[2]) - (b[2] - a[2]) * (c[1] - a[1])
Dot(a, b, c, d) == (b[1] - a[1]) * (d[1] - c[1]) + (b[2] - a[2]) * (d[2] - c[2])

\* c lies on the closed segment a b
OnSegment(a, b, c) ==
  /\ Orient(a, b, c) = 0
  /\ Min2(a[1], b[1]) <= c[1] /\ c[1] <= Max2(a[1], b[1])
  /\ Min2(a[2], b[2]) <= c[2] /\ c[2] <= Max2(a[2], b[2])

\* the segments cross at a point interior to both
ProperCross(a, b, c, d) ==
  /\ Sgn(Orient(a, b, c)) * Sgn(Orient(a, b, d)) < 0
  /\ Sgn(Orient(c, d, a)) * Sgn(Orient(c, d, b)) < 0

\* the closed segments a b and c d have a point in common
SegmentsMeet(a, b, c, d) ==
  \/ ProperCross(a, b, c, d)
  \/ OnSegment(a, b, c) \/ OnSegment(a, b, d) \/ OnSegment(c, d, a) \/ OnSegment(c, d, b)

\* the path a -> b -> c folds back onto itself (the two edges share more than b)
Reversal(a, b, c) == Orient(a, b, c) = 0 /\ Dot(a, b, b, c) < 0

-----------------------------------------------------------------------------
(* Simple polygons                                                          *)

N(p) == Len(p)
Nxt(p, i) == p[(i % Len(p)) + 1]
Prv(p, i) == p[((i + Len(p) - 2) % Len(p)) + 1]
Closed(p) == Append(p, p[1])

\* declarative definition: vertices distinct, adjacent edges share their common vertex only,
\* non-adjacent edges share nothing (collinear consecutive edges = a vertex inside a straight
\* side are allowed)
SimplePolygon(p) ==
  /\ Len(p) >= 3
  /\ \A i, j \in 1..Len(p) : i < j => p[i] # p[j]
  /\ \A i \in 1..Len(p) : ~Reversal(p[i], Nxt(p, i), Nxt(p, (i % Len(p)) + 1))
  /\ \A i, j \in 1..Len(p) :
        (i < j /\ j # i + 1 /\ ~(i = 1 /\ j = Len(p)))
        => ~SegmentsMeet(p[i], Nxt(p, i), p[j], Nxt(p, j))

\* incremental construction: p is a simple open chain; may v be appended?
ChainOK(p, v) ==
  LET n == Len(p) IN
  /\ \A i \in 1..n : p[i] # v
  /\ n >= 2 => ~Reversal(p[n-1], p[n], v)
  /\ \A i \in 1..(n - 2) : ~SegmentsMeet(p[i], p[i+1], p[n], v)

\* a simple open chain whose closing edge makes a simple polygon
ClosingOK(p) ==
  LET n == Len(p) IN
  /\ n >= 3
  /\ ~Reversal(p[n-1], p[n], p[1])
  /\ ~Reversal(p[n], p[1], p[2])
  /\ \A i \in 2..(n - 2) : ~SegmentsMeet(p[i], p[i+1], p[n], p[1])

Area2(p) == LET F[i \in 0..Len(p)] ==
                  IF i = 0 THEN 0
                  ELSE F[i-1] + p[i][1] * Nxt(p, i)[2] - Nxt(p, i)[1] * p[i][2]
            IN F[Len(p)]           \* twice the signed area: > 0 counter-clockwise

Convex(p) == \/ \A i \in 1..Len(p) : Orient(Prv(p, i), p[i], Nxt(p, i)) >= 0
             \/ \A i \in 1..Len(p) : Orient(Prv(p, i), p[i], Nxt(p, i)) <= 0
HasFlatVertex(p) == \E i \in 1..Len(p) : Orient(Prv(p, i), p[i], Nxt(p, i)) = 0

OnBoundary(p, q) == \E i \in 1..Len(p) : OnSegment(p[i], Nxt(p, i), q)

MaxX(p) == LET F[i \in 1..Len(p)] == IF i = 1 THEN p[1][1] ELSE Max2(F[i-1], p[i][1]) IN F[Len(p)]

-----------------------------------------------------------------------------
(* Geometric truth                                                          *)
(* For a query point q not on the boundary, let T = <<MaxX(p) + 1, q.y + 1>>.*)
(* T is strictly to the right of every vertex, hence outside.  A point of    *)
(* the segment q T with integer y is q or T, so the segment contains no      *)
(* vertex, is collinear with no edge, and every common point with an edge is *)
(* a proper crossing: q is inside iff the number of crossings is odd.        *)

FarPointM(mx, q) == <<Max2(mx, q[1]) + 1, q[2] + 1>>
FarPoint(p, q) == FarPointM(MaxX(p), q)

\* mx = MaxX(p), passed by the callers that test many points against one polygon
CrossingsM(p, mx, q) ==
  LET t == FarPointM(mx, q)
  IN Cardinality({i \in 1..Len(p) : ProperCross(q, t, p[i], Nxt(p, i))})
RefInsideM(p, mx, q) == CrossingsM(p, mx, q) % 2 = 1

Crossings(p, q) == CrossingsM(p, MaxX(p), q)
RefInside(p, q) == RefInsideM(p, MaxX(p), q)

\* winding number of p around q, counted on the same segment (+1 for an edge crossing it from
\* right to left, i.e. counter-clockwise around q)
Winding(p, q) ==
  LET t == FarPoint(p, q)
      F[i \in 0..Len(p)] ==
        IF i = 0 THEN 0
        ELSE F[i-1] + (IF ProperCross(q, t, p[i], Nxt(p, i)) THEN Sgn(Orient(q, t, Nxt(p, i))) ELSE 0)
  IN F[Len(p)]

\* for a simple polygon: winding number 0 outside, +1 / -1 (its orientation) inside
RefConsistent(p, q) ==
  /\ (Winding(p, q) # 0) = RefInside(p, q)
  /\ RefInside(p, q) => Winding(p, q) = Sgn(Area2(p))

-----------------------------------------------------------------------------
(* Transcription of PolyElem::inside (c is the vertex list AS STORED, i.e.   *)
(* with the first vertex repeated at the end by Polygons::getClosedPolyElem; *)
(* the loop runs over the np-1 stored segments).  xinter = num / dy is       *)
(* compared with xx exactly (cross-multiplication with the sign of dy).      *)

AlgStep(c, q, inter, j) ==
  LET xj0 == c[j][1]      yj0 == c[j][2]
      xj1 == c[j+1][1]    yj1 == c[j+1][2]
      dx == xj1 - xj0     dy == yj1 - yj0
      xx == q[1]          yy == q[2]
      \* "Horizontal segment": the point belongs to it
      horiz == /\ dy = 0 /\ yy = yj0
               /\ \/ (xj1 > xj0 /\ xx > xj0 /\ xx < xj1)
                  \/ (xj1 < xj0 /\ xx < xj0 /\ xx > xj1)
      \* "One vertex below and one vertex above"
      straddle == dy # 0 /\ ((yj0 > yy /\ yj1 < yy) \/ (yj0 < yy /\ yj1 > yy))
      num == dx * yy + dy * xj0 - dx * yj0
      xinterGT == IF dy > 0 THEN num > xx * dy ELSE num < xx * dy
      xinterEQ == num = xx * dy
      i1 == IF straddle /\ xinterGT THEN inter + 1 ELSE inter
      \* "Point is in contact with the highest vertex"
      i2 == i1 + (IF yy = yj0 /\ yj0 > yj1 /\ xx < xj0 THEN 1 ELSE 0)
               + (IF yy = yj1 /\ yj1 > yj0 /\ xx < xj1 THEN 1 ELSE 0)
  IN IF horiz THEN 1                                 \* inter = 1; continue
     ELSE IF straddle /\ xinterEQ THEN 1             \* "Point belongs to segment": inter = 1; continue
     ELSE IF xx = xj0 /\ yy = yj0 THEN 1             \* "Point coincides with a vertex": inter = 1; continue
     ELSE i2

AlgInside(c, q) ==
  LET F[j \in 0..(Len(c) - 1)] == IF j = 0 THEN 0 ELSE AlgStep(c, q, F[j-1], j)
  IN F[Len(c) - 1] % 2 # 0

\* PolyElem::closePolyElem on lattice input (the code compares with a tolerance of 1e-5)
ClosePolyElem(s) == IF s[1] = s[Len(s)] THEN s ELSE Append(s, s[1])
\* one element, given open or closed, as tested through Polygons::inside
ElemInside(given, q) == AlgInside(ClosePolyElem(given), q)

\* the property for one polygon and a set of query points
Agree(p, Q) == \A q \in Q : ~OnBoundary(p, q) => ElemInside(p, q) = RefInside(p, q)

-----------------------------------------------------------------------------
(* Polygon sets.  An element is [v |-> polygon, zmin |-> .., zmax |-> ..];   *)
(* z = NoZ stands for a 2-D query (or an undefined third coordinate).        *)

\* PolyElem::inside3D
ZIn(e, z) == \/ z = NoZ
             \/ /\ (e.zmin = NoZ \/ z >= e.zmin)
                /\ (e.zmax = NoZ \/ z <= e.zmax)
\* limits met strictly or not at all (queries with z exactly on a limit are boundary points)
ZOnLimit(e, z) == z # NoZ /\ ((e.zmin # NoZ /\ z = e.zmin) \/ (e.zmax # NoZ /\ z = e.zmax))

\* documented rule; in2[i] = truth of "q is inside element i in 2-D"
RefSetRule(es, in2, z, nested) ==
  LET belongs == {i \in 1..Len(es) : in2[i] /\ ZIn(es[i], z)}
  IN IF nested THEN Cardinality(belongs) % 2 = 1 ELSE belongs # {}

\* transcription of Polygons::inside; earlyReturn = TRUE is the code as it stands
\* ("if (!polyelem.inside3D(coor[2])) return false;"), FALSE the repair ("continue")
CodeSetRule(es, in2, z, nested, earlyReturn) ==
  LET flag3d == z # NoZ
      \* state of the loop: [ret: 0 running, 1 returned true, 2 returned false; number]
      F[i \in 0..Len(es)] ==
        IF i = 0 THEN [ret |-> 0, number |-> 0]
        ELSE LET s == F[i-1] IN
             IF s.ret # 0 THEN s
             ELSE IF flag3d /\ ~ZIn(es[i], z)
                  THEN (IF earlyReturn THEN [s EXCEPT !.ret = 2] ELSE s)
             ELSE IF in2[i]
                  THEN (IF nested THEN [s EXCEPT !.number = s.number + 1] ELSE [s EXCEPT !.ret = 1])
             ELSE s
      fin == F[Len(es)]
  IN IF fin.ret = 1 THEN TRUE
     ELSE IF fin.ret = 2 THEN FALSE
     ELSE nested /\ fin.number % 2 # 0

\* when does the early return of the code change the documented answer from TRUE to FALSE?
EarlyReturnApplies(es, in2, z, nested) ==
  \E i \in 1..Len(es) :
     /\ ~ZIn(es[i], z)
     /\ nested \/ \A j \in 1..(i - 1) : ~(in2[j] /\ ZIn(es[j], z))

\* db_polygon: mark of a sample (active = it was selected before the call)
DbMark(active, flagSel, inside) == IF flagSel /\ ~active THEN 0 ELSE IF inside THEN 1 ELSE 0
\* previous selection of the data bases used with flag_sel = TRUE: sample i (1-based) is active iff
PrevActive(i) == i % 3 # 0

-----------------------------------------------------------------------------
(* Refinements (k >= 1).  All coordinates are multiplied by k; the polygon   *)
(* is the same point set (Subdivide) or a staircase approximation of it      *)
(* (Staircase); vertices stay even.                                          *)

ScalePt(k, a) == <<k * a[1], k * a[2]>>
ScalePoly(p, k) == [i \in 1..Len(p) |-> ScalePt(k, p[i])]

\* every edge cut into k collinear pieces: n * k vertices
Subdivide(p, k) ==
  [m \in 1..(Len(p) * k) |->
     LET i == ((m - 1) \div k) + 1
         t == (m - 1) % k
         a == p[i]  b == Nxt(p, i)
     IN <<k * a[1] + t * (b[1] - a[1]), k * a[2] + t * (b[2] - a[2])>>]

\* every oblique edge replaced by k steps (2 k vertices: on the edge, then a corner; corner
\* taken along x first for odd edges, along y first for even ones); axis-parallel edges cut into
\* 2 k collinear pieces
Staircase(p, k) ==
  [m \in 1..(Len(p) * 2 * k) |->
     LET i == ((m - 1) \div (2 * k)) + 1
         r == (m - 1) % (2 * k)
         t == r \div 2
         a == p[i]  b == Nxt(p, i)
         dx == b[1] - a[1]  dy == b[2] - a[2]
         ax == k * a[1]     ay == k * a[2]
     IN IF dx = 0 \/ dy = 0
        THEN <<ax + (r * dx) \div 2, ay + (r * dy) \div 2>>
        ELSE IF r % 2 = 0 THEN <<ax + t * dx, ay + t * dy>>
        ELSE IF i % 2 = 1 THEN <<ax + (t + 1) * dx, ay + t * dy>>
        ELSE <<ax + t * dx, ay + (t + 1) * dy>>]

-----------------------------------------------------------------------------
(* Polygon sets read from a file (Polygons::createFromCSV: one vertex per    *)
(* row, rings separated by rows of undefined values; createFromWKT: the same *)
(* rings in one MULTIPOLYGON text).  A row is a vertex <<x, y>> or the        *)
(* separator Sep.  The polygon set a file describes: every maximal run of     *)
(* vertex rows is a ring, EVERY row that is not a separator is a vertex of    *)
(* its ring; rings of fewer than 3 rows are not polygons (Polygons::          *)
(* addPolyElem ignores them); a ring may be given closed or left open.        *)

Sep == <<>>
\* rows -> sequence of rings (vertex lists as given)
RingsOfRows(rows) ==
  LET F[i \in 0..Len(rows)] ==          \* [done: finished rings, cur: ring being read]
        IF i = 0 THEN [done |-> <<>>, cur |-> <<>>]
        ELSE LET st == F[i-1] IN
             IF rows[i] = Sep THEN [done |-> Append(st.done, st.cur), cur |-> <<>>]
             ELSE [st EXCEPT !.cur = Append(st.cur, rows[i])]
      fin == F[Len(rows)]
      all == IF fin.cur = <<>> THEN fin.done ELSE Append(fin.done, fin.cur)
  IN SelectSeq(all, LAMBDA r : Len(r) >= 3)

\* the rows of a file holding the polygons ps (open vertex lists); closedFlags[i]: ring i is written
\* with its first vertex repeated; trailing: a separator row also after the last ring
FileRows(ps, closedFlags, trailing) ==
  LET F[i \in 0..Len(ps)] ==
        IF i = 0 THEN <<>>
        ELSE F[i-1] \o (IF closedFlags[i] THEN Closed(ps[i]) ELSE ps[i])
                    \o (IF i < Len(ps) \/ trailing THEN <<Sep>> ELSE <<>>)
  IN F[Len(ps)]

\* the set obtained from the file is the set the API builds from the same polygons
FileDescribes(rows, ps) ==
  LET rs == RingsOfRows(rows) IN
  /\ Len(rs) = Len(ps)
  /\ \A i \in 1..Len(ps) : ClosePolyElem(rs[i]) = Closed(ps[i])

-----------------------------------------------------------------------------
(* Convex hulls (Polygons::createFromDb, db_selhull,                          *)
(* Db::addSelectionFromDbByConvexHull).  S is a finite set of lattice points, *)
(* not all on one line (otherwise the hull is not a polygon).                 *)

LexLE(a, b) == a[1] < b[1] \/ (a[1] = b[1] /\ a[2] <= b[2])
NonDegenerate(S) == \E a, b, c \in S : Orient(a, b, c) # 0

RECURSIVE SortPts(_)
SortPts(S) == IF S = {} THEN <<>>
              ELSE LET m == CHOOSE x \in S : \A y \in S : LexLE(x, y)
                   IN <<m>> \o SortPts(S \ {m})
Reverse(s) == [i \in 1..Len(s) |-> s[Len(s) + 1 - i]]

\* the hull as an exact polygon: Andrew's monotone chain in integers (lower chain over the points in
\* lexicographic order, upper chain over the reverse order; a point is kept only on a strict left
\* turn, so that the polygon is strictly convex, counter-clockwise, without collinear vertices)
RECURSIVE PopRight(_, _)
PopRight(h, pt) == IF Len(h) >= 2 /\ Orient(h[Len(h) - 1], h[Len(h)], pt) <= 0
                   THEN PopRight(SubSeq(h, 1, Len(h) - 1), pt)
                   ELSE Append(h, pt)
HalfChain(pts) == LET F[i \in 0..Len(pts)] == IF i = 0 THEN <<>> ELSE PopRight(F[i-1], pts[i])
                  IN F[Len(pts)]
HullChain(S) == LET pts == SortPts(S)
                    lower == HalfChain(pts)
                    upper == HalfChain(Reverse(pts))
                IN SubSeq(lower, 1, Len(lower) - 1) \o SubSeq(upper, 1, Len(upper) - 1)

\* the hull as a point set, declaratively: the intersection of the closed half-planes to the left of
\* the directed lines through two points of S that leave no point of S strictly on their right.
\* 1 strictly inside, 0 strictly outside, 2 on the boundary (excluded by the property)
SupportPairs(S) == {pr \in S \X S : pr[1] # pr[2] /\ \A c \in S : Orient(pr[1], pr[2], c) >= 0}
HullCodeSP(sp, q) == IF \E pr \in sp : Orient(pr[1], pr[2], q) < 0 THEN 0
                     ELSE IF \A pr \in sp : Orient(pr[1], pr[2], q) > 0 THEN 1 ELSE 2
HullCode(S, q) == HullCodeSP(SupportPairs(S), q)

\* the same decision taken on the polygon (the geometric truth of the first part of this module)
PolyCode(p, q) == IF OnBoundary(p, q) THEN 2 ELSE IF RefInside(p, q) THEN 1 ELSE 0

\* what makes h THE hull polygon of S
IsHullOf(h, S) ==
  /\ SimplePolygon(h) /\ Area2(h) > 0
  /\ \A i \in 1..Len(h) : h[i] \in S /\ Orient(Prv(h, i), h[i], Nxt(h, i)) > 0
  /\ \A c \in S : PolyCode(h, c) # 0

\* hull of the ACTIVE samples of a data base (samples: sequence of points, active: set of indices)
ActivePts(samples, active) == {samples[i] : i \in active}

\* db_selhull / Db::addSelectionFromDbByConvexHull: mark of a sample of the target data base.  Every
\* sample is examined, whatever its previous selection ("a sample, initially masked, can be masked OFF
\* as it belongs to the convex hull"): the mark does not depend on prevActive.
DbHullMark(prevActive, code) == code

-----------------------------------------------------------------------------
(* Integer affine maps (exact images; RefInside must be invariant)           *)
(* m = <<a, b, c, d, tx, ty>>:  (x, y) -> (a x + b y + tx, c x + d y + ty),  *)
(* a d - b c # 0 (mirror images, quarter turns, shears, translations,        *)
(* integer scalings)                                                         *)

MapPt(m, a) == <<m[1] * a[1] + m[2] * a[2] + m[5], m[3] * a[1] + m[4] * a[2] + m[6]>>
MapPoly(m, p) == [i \in 1..Len(p) |-> MapPt(m, p[i])]

=============================================================================
