SPECIFICATION Spec
CONSTANTS
  NDims = {1, 2, 3}
  NxVecs <- NxThor
  Families <- AllFamilies
  GeomSpecs <- GeomsThor
INVARIANT Inv_C15
CONSTRAINT Emit
CHECK_DEADLOCK FALSE
