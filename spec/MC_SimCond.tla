---------------------------- MODULE MC_SimCond ----------------------------
(* Model checking of SimCond and emission of the replay material:                          *)
(*  - every ordering class of (binf, bsup) of the truncated draw with its zones and whether *)
(*    the transcribed algorithm stays within the bounds (as-coded analysis);                *)
(*  - every storage-layout configuration with the verdict of the transcribed index maps;    *)
(*  - the facies boxes / sign tables of the rules;                                          *)
(*  - the case catalogue with what the property demands of each case.                       *)
EXTENDS SimCond, Json, SequencesExt

ASSUME CondSensitive

J(v) == IF v = NA THEN -99999 ELSE v                     \* undefined bound in JSON
JPair(p) == <<J(p[1]), J(p[2])>>
SetSeq(S) == SetToSeq(S)
(* first sweep from which the transcribed decay guarantees the raw bounds *)
AsCodedOKFrom(nburn) ==
  LET ok(it) == \A p \in GPairs : \A v \in GVals : EffWithin(v, p, it, nburn, TRUE) => Within(v, p[1], p[2])
  IN CHOOSE it \in 0..(nburn + 2) : (\A j \in it..(nburn + 2) : ok(j)) /\ (it = 0 \/ ~ok(it - 1))
SignTable(name) == SetSeq({<<g1, g2, FaciesOf(RuleTree(name), g1, g2)>> : g1 \in {-1, 1}, g2 \in {-1, 1}})
Boxes(name) == [f \in 1..RuleNFac(name) |-> [i \in 1..4 |-> J(FBox(name, f)[i])]]
PgsNgrf(c) == IF c.sim = "simpgs" THEN <<RuleNGrf(c.rule), 1>> ELSE <<RuleNGrf(c.rule), RuleNGrf(c.rule2)>>

EmitRec ==
  CASE st.k = "tgb" ->
         [kind |-> "tgb", binf |-> J(st.binf), bsup |-> J(st.bsup), tkind |-> TgbKind(st.binf, st.bsup),
          types |-> ZoneTypes(st.binf, st.bsup), within |-> TgbWithin(st.binf, st.bsup),
          ca |-> ClassOf(st.binf), cb |-> ClassOf(st.bsup)]
    [] st.k = "layout" ->
         [kind |-> "layout", npgs |-> st.npgs, ngrf |-> st.ngrf, nbsimu |-> st.nbsimu,
          ok |-> LayoutOK(st.npgs, st.ngrf, st.nbsimu)]
    [] st.k = "rule" ->
         [kind |-> "rule", name |-> st.name, nodes |-> RuleNames(st.name), props |-> RuleProps(st.name),
          ngrf |-> RuleNGrf(st.name), boxes |-> Boxes(st.name), signs |-> SignTable(st.name)]
    [] st.k = "case" /\ st.sim \in {"simtub", "simtub-near"} ->
         LET d == DataSet(st.dset)  tg == Targets(st.layout, d) IN
         [kind |-> "case", c |-> st, data |-> d,
          targets |-> IF st.layout = "grid" THEN <<>> ELSE tg,
          coincide |-> SetSeq(Coincide(tg, d)), free |-> SetSeq(Free(tg, d)), ntargets |-> Len(tg)]
    [] st.k = "case" /\ st.sim = "simtub-mv" ->
         [kind |-> "case", c |-> st, data |-> MvZ, incr |-> MvD, datasum |-> MvSum,
          coincide |-> SetSeq(Coincide(GridTargets, MvZ)), dx_e6 |-> IF st.place = "near" THEN 200 ELSE 0,
          cols_ok |-> TBColsOK(st.nvar, st.nbsimu)]
    [] st.k = "case" /\ st.sim \in {"simfft", "spde", "spdec", "simtub-nc"} ->
         [kind |-> "case", c |-> st, data |-> DataSet(st.dset)]
    [] st.k = "case" /\ st.sim = "gibbs" ->
         [kind |-> "case", c |-> st, sites |-> GSites,
          bounds |-> [i \in 1..Len(GSites) |-> JPair(GPattern(st.pat)[i])],
          sel |-> SelSeq(st.mask, Len(GSites)),
          sweeps |-> CaseSweeps, ok_from |-> st.nburn, ascoded_ok_from |-> AsCodedOKFrom(st.nburn)]
    [] st.k = "case" /\ st.sim = "simpgs" ->
         [kind |-> "case", c |-> st, data |-> XY(DataSet("D4")), props |-> RuleProps(st.rule), sel |-> SelSeq(st.mask, 4),
          split_x |-> PropSplit, propa |-> PropA(st.rule), propb |-> PropB(st.rule), unit |-> 100,
          layout_ok |-> LayoutOK(1, PgsNgrf(st), st.nbsimu), ngrf |-> PgsNgrf(st)]
    [] st.k = "case" /\ st.sim = "simbipgs" ->
         [kind |-> "case", c |-> st, data |-> XY(DataSet("D4")), props |-> Props2(st.rule, st.rule2), sel |-> SelSeq(st.mask, 4),
          split_x |-> PropSplit, propa |-> JointA(st.rule), propb |-> JointB(st.rule), unit |-> 10000,
          layout_ok |-> LayoutOK(2, PgsNgrf(st), st.nbsimu), ngrf |-> PgsNgrf(st)]
    [] OTHER -> [kind |-> "none"]
Emit == st.k \in {"tgb", "layout", "rule", "case"} => PrintT(ToJson(EmitRec))
=============================================================================
