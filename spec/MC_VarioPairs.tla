---------------------------- MODULE MC_VarioPairs ----------------------------
(***************************************************************************)
(* Enumeration of the C12 cases.  A state is a data set (samples appended   *)
(* in increasing lattice position, so that every set of positions is built  *)
(* once; sample ORDER is varied by the harness, the definition does not      *)
(* depend on it: LawPermutation).  For the data sets retained by the         *)
(* deterministic sub-sampling (all of them when SampleMod = 1):              *)
(*   - TLC checks the laws of the definition for the directions attached     *)
(*     to the data set (invariant InvLaws),                                  *)
(*   - TLC emits one JSON record per (data set, direction list) with the     *)
(*     expected result of every lag / pair of variables / estimator          *)
(*     (invariant InvEmit, always TRUE).                                     *)
(***************************************************************************)
EXTENDS VarioPairs, Json

CONSTANTS NX, NY, NZ,  \* lattice extent per axis (NY = 0: 1-D, NZ = 0: 2-D)
          MinN, MaxN,  \* number of samples
          Vals0, HasNA, \* defined values of a variable; whether the undefined value NA is also used
          NVar,        \* 1 or 2
          UseSel,      \* data set has a selection column
          Weights,     \* set of weights; {1} = no weight column
          AllowDup,    \* several samples may share a position
          DirSet,      \* name of the family of direction lists
          Modes,       \* estimators to emit
          SampleMod, SampleRem, Seed,   \* sub-sampling of the data sets
          LawMod,      \* the laws are checked on one retained data set out of LawMod
          DirsPerCase  \* number of direction lists attached to a retained data set

VARIABLE data
vars == <<data>>

Dims == IF NY = 0 THEN <<NX>> ELSE IF NZ = 0 THEN <<NX, NY>> ELSE <<NX, NY, NZ>>
ND == Len(Dims)
NPos == IF ND = 1 THEN Dims[1] ELSE IF ND = 2 THEN Dims[1] * Dims[2] ELSE Dims[1] * Dims[2] * Dims[3]
\* position of index pi (0-based), first axis fastest
PosOf(pi) == IF ND = 1 THEN <<pi>>
             ELSE IF ND = 2 THEN <<pi % Dims[1], pi \div Dims[1]>>
             ELSE <<pi % Dims[1], (pi \div Dims[1]) % Dims[2], pi \div (Dims[1] * Dims[2])>>

Dir(npas, p2, tn, td, cod, tolang) ==
  [npas |-> npas, p2 |-> p2, tn |-> tn, td |-> td, cod |-> cod, tolang |-> tolang, bn |-> 0, bd |-> 1, cn |-> 0, cd |-> 1]
Bench(d, bn, bd) == [d EXCEPT !.bn = bn, !.bd = bd]
Cyl(d, cn, cd) == [d EXCEPT !.cn = cn, !.cd = cd]

(* Families of direction lists *)
DirLists ==
  CASE DirSet = "q2" ->    \* 2-D, quick
        << << Dir(3, 1, 1, 2, <<1, 0>>, 90) >>,
           << Dir(3, 1, 1, 2, <<1, 0>>, 0), Dir(3, 1, 1, 2, <<0, 1>>, 0) >>,
           << Dir(2, 4, 1, 2, <<1, 0>>, 90) >>,
           << Dir(3, 1, 1, 4, <<2, 1>>, 45), Dir(3, 2, 1, 2, <<1, 1>>, 0) >>,
           << Dir(3, 2, 1, 2, <<1, -1>>, 0) >>,
           << Dir(3, 1, 1, 2, <<0, 1>>, 45) >>,
           << Cyl(Dir(3, 1, 1, 2, <<2, 1>>, 90), 3, 4), Cyl(Dir(3, 1, 1, 2, <<0, 3>>, 90), 1, 2) >> >>
    [] DirSet = "t2" ->    \* 2-D, thorough
        << << Dir(3, 1, 1, 2, <<1, 0>>, 90) >>,
           << Dir(3, 1, 1, 2, <<1, 0>>, 0), Dir(3, 1, 1, 2, <<0, 1>>, 0) >>,
           << Dir(2, 4, 1, 2, <<1, 0>>, 90) >>,
           << Dir(3, 1, 1, 4, <<2, 1>>, 45), Dir(3, 2, 1, 2, <<1, 1>>, 0) >>,
           << Dir(3, 2, 1, 2, <<1, -1>>, 0) >>,
           << Dir(3, 1, 1, 2, <<0, 1>>, 45) >>,
           << Dir(2, 1, 1, 4, <<0, 1>>, 90), Dir(3, 1, 1, 4, <<1, 0>>, 90) >>,
           << Dir(3, 1, 1, 2, <<1, 2>>, 30), Dir(3, 1, 1, 2, <<1, 1>>, 60), Dir(2, 2, 1, 4, <<-1, 0>>, 90) >>,
           << Dir(1, 4, 1, 4, <<1, 1>>, 90) >>,
           << Dir(3, 4, 1, 4, <<0, -1>>, 90) >>,
           << Bench(Dir(3, 1, 1, 2, <<1, 0>>, 90), 1, 2), Bench(Dir(3, 1, 1, 2, <<1, 0>>, 90), 3, 2) >>,
           << Cyl(Dir(3, 1, 1, 2, <<1, 0>>, 90), 1, 2), Cyl(Dir(3, 1, 1, 2, <<1, 1>>, 90), 3, 4) >>,
           << Cyl(Bench(Dir(3, 2, 1, 2, <<0, 1>>, 60), 3, 2), 3, 2) >>,
           << Dir(3, 5, 1, 2, <<2, 1>>, 0), Dir(2, 5, 1, 2, <<1, -2>>, 0) >>,
           << Dir(2, 9, 1, 2, <<1, 0>>, 90) >>,
           << Dir(3, 2, 1, 8, <<1, 0>>, 90) >>,
           << Cyl(Dir(3, 1, 1, 2, <<2, 1>>, 90), 3, 4), Cyl(Dir(3, 1, 1, 2, <<0, 3>>, 90), 1, 2),
              Cyl(Dir(2, 2, 1, 2, <<-2, 2>>, 90), 5, 4) >> >>
    [] DirSet = "l1" ->    \* 1-D line
        << << Dir(3, 1, 1, 2, <<1>>, 90) >>,
           << Dir(3, 4, 1, 2, <<1>>, 0) >>,
           << Dir(4, 1, 1, 4, <<-1>>, 0), Dir(2, 4, 1, 4, <<1>>, 90) >>,
           << Dir(5, 1, 1, 2, <<1>>, 0) >>,
           << Dir(2, 9, 1, 2, <<1>>, 90) >> >>
    [] DirSet = "c3" ->    \* 3-D cube
        << << Dir(3, 1, 1, 2, <<1, 0, 0>>, 90) >>,
           << Dir(2, 1, 1, 2, <<0, 0, 1>>, 0), Dir(2, 2, 1, 2, <<1, 1, 0>>, 0), Dir(2, 3, 1, 2, <<1, 1, 1>>, 0) >>,
           << Bench(Dir(3, 1, 1, 2, <<1, 0, 0>>, 90), 1, 2) >>,
           << Cyl(Dir(3, 1, 1, 4, <<0, 0, 1>>, 90), 1, 2), Dir(2, 1, 1, 2, <<1, 1, 0>>, 45) >>,
           << Dir(2, 2, 1, 2, <<0, 1, -1>>, 0) >>,
           << Cyl(Dir(2, 1, 1, 2, <<1, 0, 2>>, 90), 3, 4), Cyl(Dir(2, 1, 1, 2, <<0, 2, 0>>, 90), 1, 2) >>,
           << Cyl(Dir(2, 2, 1, 2, <<3, 0, 4>>, 90), 3, 4) >> >>

NL == Len(DirLists)

Vals == Vals0 \cup (IF HasNA THEN {NA} ELSE {})
ZSet == CASE NVar = 1 -> {<<v>> : v \in Vals}
          [] NVar = 2 -> {<<v1, v2>> : v1 \in Vals, v2 \in Vals}
          [] NVar = 3 -> {<<v1, v2, v3>> : v1 \in Vals, v2 \in Vals, v3 \in Vals}
SSet == IF UseSel THEN {0, 1} ELSE {1}

Init == data = <<>>
Next == /\ Len(data) < MaxN
        /\ \E pi \in 0..(NPos - 1), z \in ZSet, s \in SSet, w \in Weights :
              /\ IF Len(data) = 0 THEN TRUE
                 ELSE IF AllowDup THEN pi >= data[Len(data)].pi ELSE pi > data[Len(data)].pi
              /\ data' = Append(data, [pi |-> pi, p |-> PosOf(pi), z |-> z, s |-> s, w |-> w])
Spec == Init /\ [][Next]_vars

(* deterministic sub-sampling *)
Code(smp) == smp.pi + 9 * (smp.s + 2 * (smp.w + 4 * Sum(LAMBDA i : (smp.z[i] + 100) * (IF i = 1 THEN 1 ELSE IF i = 2 THEN 7 ELSE 53), DOMAIN smp.z)))
Hash(d) == LET H[k \in 0..Len(d)] == IF k = 0 THEN Seed % 9973 ELSE (H[k - 1] * 31 + Code(d[k]) + 17 * k) % 9973 IN H[Len(d)]
Retained(d) == Len(d) >= MinN /\ Hash(d) % SampleMod = SampleRem % SampleMod
ListsOf(d) == {1 + ((Hash(d) \div 7 + t * (1 + NL \div DirsPerCase)) % NL) : t \in 0..(DirsPerCase - 1)}

Pts(d) == [a \in 1..Len(d) |-> [p |-> d[a].p, z |-> d[a].z, s |-> d[a].s, w |-> d[a].w]]
Trans == IF ND = 1 THEN <<7>> ELSE IF ND = 2 THEN <<5, -3>> ELSE <<-2, 4, 9>>

InvLaws == (Retained(data) /\ (Hash(data) \div SampleMod) % LawMod = 0) =>
             \A li \in ListsOf(data) : \A x \in 1..Len(DirLists[li]) :
                WellPosed(Pts(data), DirLists[li][x]) => Laws(Pts(data), DirLists[li][x], Trans)

(* ---- emission ---- *)
SeqOfSet(S) == SetToSeq(S)
Pair2Seq(S) == SetToSeq({<<e[1], e[2]>> : e \in S})
NoM == <<0, 0>>

SymOut(pts, S, Sii, Sjj, ij) ==
  [n |-> S.n, sw |-> S.sw, hh |-> SeqOfSet(S.hh), ad |-> SeqOfSet(S.ad), lo |-> S.lo, hi |-> S.hi,
   gg |-> [m \in (Modes \cap {"vg", "order4", "trans1", "trans2"})
                 \cup (IF ij[1] = ij[2] /\ Weights = {1} THEN Modes \cap {"poisson"} ELSE {}) |->
             SymGG(m, S, Sii, Sjj, IF m = "poisson" THEN PoissonMean(pts, ij[1]) ELSE NoM)]]
AsymOut(S, C) ==
  [n |-> S.n, sw |-> S.sw, hh |-> SeqOfSet(S.hh), lo |-> S.lo, hi |-> S.hi,
   gg |-> [m \in Modes \cap {"cov", "covnc"} |-> AsymGG(m, S, C)]]

DirOut(pts, dir) ==
  LET G == GeoPairs(pts, dir)
      sym == SymResultG(pts, dir, G)
      asy == AsymResultG(pts, dir, G, "strict")
      vps == VarPairs(Len(pts[1].z))
      lagseq(f) == [k \in 1..dir.npas |-> f[k - 1]]
  IN [ok   |-> TRUE,
      otie |-> OrientTie(pts, dir, G),
      pur  |-> PuristDiffersG(pts, dir, G),
      grid |-> GridCompatible(dir),
      etie |-> DecidedTie(pts, dir),
      npairs |-> Cardinality(G),
      sym  |-> [v \in 1..Len(vps) |->
                  lagseq([k \in Lags(dir) |->
                     SymOut(pts, sym[vps[v]][k], sym[<<vps[v][1], vps[v][1]>>][k], sym[<<vps[v][2], vps[v][2]>>][k], vps[v])])],
      asym |-> [v \in 1..Len(vps) |->
                  [ctr |-> [sw |-> asy[vps[v]].ctr.sw,
                            gg |-> [m \in Modes \cap {"cov", "covnc", "covg"} |-> CentreGG(m, asy[vps[v]].ctr)]],
                   pos |-> lagseq([k \in Lags(dir) |-> AsymOut(asy[vps[v]].pos[k], asy[vps[v]].ctr)]),
                   neg |-> lagseq([k \in Lags(dir) |-> AsymOut(asy[vps[v]].neg[k], asy[vps[v]].ctr)])]],
      gen  |-> IF GridCompatible(dir) /\ Len(pts[1].z) = 1
               THEN [o \in 1..3 |-> [k \in 1..(dir.npas - 1) |->
                       LET s == GenSlot(pts, dir.cod, k, o) IN <<s.n, s.num, s.den>>]]
               ELSE <<>>]

CaseOut(d, li) ==
  LET pts == Pts(d) IN
    [dims |-> Dims, nvar |-> NVar, hasSel |-> UseSel, hasW |-> (Weights # {1}), list |-> li,
     pts |-> [a \in 1..Len(pts) |-> <<pts[a].p, pts[a].z, pts[a].s, pts[a].w>>],
     dirs |-> DirLists[li],
     exp |-> [x \in 1..Len(DirLists[li]) |->
                IF WellPosed(pts, DirLists[li][x]) THEN DirOut(pts, DirLists[li][x]) ELSE [ok |-> FALSE]]]

InvEmit == Retained(data) => \A li \in ListsOf(data) : PrintT(ToJson(CaseOut(data, li)))
=============================================================================
