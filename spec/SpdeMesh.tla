------------------------------ MODULE SpdeMesh ------------------------------
(***************************************************************************)
(* Exact model of the meshes of gstlearn's SPDE machinery and of the        *)
(* projection of points on them (property C15, projection clause):          *)
(*                                                                         *)
(*   "the projection of points on a mesh has, for each point inside it,     *)
(*    non-negative weights that sum to one and reproduce affine functions   *)
(*    exactly (and an empty row outside)"                                   *)
(*                                                                         *)
(* Everything lives in INDEX space, in units of a quarter of a grid cell    *)
(* (U = 4): the grid node of indices (i, j, k) is the integer point         *)
(* (4i, 4j, 4k) and the query points are all the integer points from half   *)
(* a cell below the grid to half a cell beyond it.  Barycentric             *)
(* coordinates are ratios of integer determinants, so that the row of the   *)
(* projection matrix expected for a point is an exact rational vector.      *)
(* Barycentric coordinates are invariant under affine maps: the real        *)
(* scene (origin x0, mesh sizes dx, rotation R: x = x0 + R.(dx o u)) has    *)
(* the same rows (law AffineInvariant, checked by TLC on the geometries     *)
(* whose numbers stay small).                                               *)
(*                                                                         *)
(* A mesh is a record                                                      *)
(*   [ nd, nx, fam,                                                         *)
(*     ap : sequence of apices (nd-tuples of integers, quarter units);      *)
(*          apex number a (0-based, as in gstlearn) is ap[a+1]              *)
(*     sx : sequence of simplices ((nd+1)-tuples of apex numbers)           *)
(*     bf : set of boundary facets (facets that belong to one simplex) ]    *)
(*                                                                         *)
(* Families:                                                               *)
(*   turbo     MeshETurbo, flag_polarized = false (transcription of MSS,    *)
(*             _getGridFromMesh, getApex of src/Mesh/MeshETurbo.cpp and     *)
(*             Delaunay.cpp): apex number = rank of the grid node (first    *)
(*             index fastest); mesh number = cell rank * nPerCell + icas    *)
(*   turbopol  MeshETurbo, flag_polarized = true (2-D: alternating          *)
(*             diagonals, _getPolarized)                                    *)
(*   turbomask MeshETurbo built from a grid with a selection that masks the *)
(*             two opposite corner nodes (the first node in 1-D)            *)
(*             (transcription of                                            *)
(*             _buildMaskInMeshing): a simplex is active when none of its   *)
(*             corners is masked, a node is active when it belongs to an    *)
(*             active simplex, active nodes and simplices are renumbered    *)
(*             in increasing order (Indirection::buildFromSel / FromMap);   *)
(*             needs nx >= 3 in every direction                             *)
(*   std_same  MeshEStandard given the simplices of "turbo" explicitly,     *)
(*             apices and simplices numbered backwards                      *)
(*   std_alt   another triangulation of the same nodes: 1-D the two apices  *)
(*             of each segment swapped; 2-D every cell cut by the other     *)
(*             diagonal; 3-D five tetrahedra per cell (mirrored from cell   *)
(*             to cell so that the faces match)                             *)
(*   std_alt2  2-D: the alternating pattern opposite to "turbopol"          *)
(*   std_pert  "std_same" with the inner node (1,..,1) moved by a quarter   *)
(*             of a cell in every direction: rows with general rational     *)
(*             weights (needs nx >= 3 in every direction)                   *)
(*                                                                         *)
(* The module is a case model (as GridGeom): one state per geometry, one    *)
(* per mesh, one per (mesh, point).  TLC checks MeshOk / PointOk / GeomOk   *)
(* on every case (module MC_SpdeMesh) and prints the cases as JSON; the     *)
(* harness spde_run (mode proj) executes them on the real MeshETurbo /      *)
(* MeshEStandard / ProjMatrix.                                              *)
(***************************************************************************)
EXTENDS Integers, Sequences, FiniteSets, TLC

CONSTANTS NDims,        \* set of space dimensions
          NxVecs(_),    \* nd |-> set of node-count tuples
          Families,     \* subset of the families above
          GeomSpecs(_)  \* nd |-> set of [ang, dxn, dxd, x0]: angle codes, mesh sizes dxn/dxd, origin

U == 4                  \* query lattice: quarters of a cell

-----------------------------------------------------------------------------
(* Small tuples                                                             *)

SumN(n, F(_))  == IF n = 1 THEN F(1) ELSE IF n = 2 THEN F(1) + F(2) ELSE IF n = 3 THEN F(1) + F(2) + F(3)
                  ELSE F(1) + F(2) + F(3) + F(4)
ProdN(n, F(_)) == IF n = 1 THEN F(1) ELSE IF n = 2 THEN F(1) * F(2) ELSE F(1) * F(2) * F(3)
Tup(n, F(_))   == IF n = 1 THEN <<F(1)>> ELSE IF n = 2 THEN <<F(1), F(2)>> ELSE IF n = 3 THEN <<F(1), F(2), F(3)>>
                  ELSE <<F(1), F(2), F(3), F(4)>>
AsTup(n, f)    == Tup(n, LAMBDA k : f[k])
VAdd(n, a, b)  == Tup(n, LAMBDA k : a[k] + b[k])
VSub(n, a, b)  == Tup(n, LAMBDA k : a[k] - b[k])
VScal(n, s, a) == Tup(n, LAMBDA k : s * a[k])
Sgn(x)         == IF x > 0 THEN 1 ELSE IF x < 0 THEN -1 ELSE 0
Abs(x)         == IF x < 0 THEN -x ELSE x
SetOf(t)       == { t[k] : k \in DOMAIN t }

Det(n, m) == IF n = 1 THEN m[1][1]
             ELSE IF n = 2 THEN m[1][1]*m[2][2] - m[1][2]*m[2][1]
             ELSE   m[1][1]*(m[2][2]*m[3][3] - m[2][3]*m[3][2])
                  - m[1][2]*(m[2][1]*m[3][3] - m[2][3]*m[3][1])
                  + m[1][3]*(m[2][1]*m[3][2] - m[2][2]*m[3][1])

\* determinant of the (nd+1) points W[1..nd+1] completed by a column of ones
\* = det(W[2]-W[1], ..., W[nd+1]-W[1]) = nd! * signed volume of the simplex
H(nd, W) == Det(nd, Tup(nd, LAMBDA k : VSub(nd, W[k + 1], W[1])))

-----------------------------------------------------------------------------
(* Regular grid: rank <-> indices, first index fastest (Grid::indiceToRank) *)

NTot(nd, nx)      == ProdN(nd, LAMBDA k : nx[k])
Stride(nx, k)     == IF k = 1 THEN 1 ELSE IF k = 2 THEN nx[1] ELSE nx[1] * nx[2]
RankOf(nd, nx, i) == SumN(nd, LAMBDA k : i[k] * Stride(nx, k))
IdxOf(nd, nx, r)  == Tup(nd, LAMBDA k : (r \div Stride(nx, k)) % nx[k])
CellDims(nd, nx)  == Tup(nd, LAMBDA k : nx[k] - 1)

-----------------------------------------------------------------------------
(* MSS (Delaunay.cpp): shift of the grid indices of corner icorn of the     *)
(* simplex icas of a cell, for the polarisation ipol.  [ipol][icas][icorn]  *)

S1D == << << <<0>>, <<1>> >> >>
S2D == << << << <<0, 0>>, <<1, 0>>, <<0, 1>> >>,
             << <<0, 1>>, <<1, 0>>, <<1, 1>> >> >>,
          << << <<0, 0>>, <<1, 0>>, <<1, 1>> >>,
             << <<0, 0>>, <<0, 1>>, <<1, 1>> >> >> >>
S3D == << << <<0, 0, 0>>, <<1, 0, 0>>, <<1, 0, 1>>, <<1, 1, 1>> >>,
          << <<0, 0, 0>>, <<0, 0, 1>>, <<1, 0, 1>>, <<1, 1, 1>> >>,
          << <<0, 0, 0>>, <<0, 0, 1>>, <<0, 1, 1>>, <<1, 1, 1>> >>,
          << <<0, 0, 0>>, <<0, 1, 0>>, <<0, 1, 1>>, <<1, 1, 1>> >>,
          << <<0, 0, 0>>, <<1, 0, 0>>, <<1, 1, 0>>, <<1, 1, 1>> >>,
          << <<0, 0, 0>>, <<0, 1, 0>>, <<1, 1, 0>>, <<1, 1, 1>> >> >>

MSS(nd, ipol, icas, icorn) ==
  IF nd = 1 THEN S1D[1][icorn + 1]
  ELSE IF nd = 2 THEN S2D[ipol + 1][icas + 1][icorn + 1]
  ELSE S3D[icas + 1][icorn + 1]

\* MeshETurbo::_setNumberElementPerCell
NPerCell(nd) == IF nd = 1 THEN 1 ELSE IF nd = 2 THEN 2 ELSE 6

\* MeshETurbo::_getPolarized
GetPolarized(nd, pol, indg) ==
  IF ~pol THEN 0 ELSE IF nd # 2 THEN 0 ELSE IF (indg[1] + indg[2]) % 2 = 1 THEN 0 ELSE 1

\* five tetrahedra per cell, [parity][icas][icorn]; the odd cells are the mirror image (x -> 1-x) of the even ones
T5 == << << << <<0, 0, 0>>, <<1, 1, 0>>, <<1, 0, 1>>, <<0, 1, 1>> >>,
             << <<1, 0, 0>>, <<0, 0, 0>>, <<1, 1, 0>>, <<1, 0, 1>> >>,
             << <<0, 1, 0>>, <<0, 0, 0>>, <<1, 1, 0>>, <<0, 1, 1>> >>,
             << <<0, 0, 1>>, <<0, 0, 0>>, <<1, 0, 1>>, <<0, 1, 1>> >>,
             << <<1, 1, 1>>, <<1, 1, 0>>, <<1, 0, 1>>, <<0, 1, 1>> >> >>,
          << << <<1, 0, 0>>, <<0, 1, 0>>, <<0, 0, 1>>, <<1, 1, 1>> >>,
             << <<0, 0, 0>>, <<1, 0, 0>>, <<0, 1, 0>>, <<0, 0, 1>> >>,
             << <<1, 1, 0>>, <<1, 0, 0>>, <<0, 1, 0>>, <<1, 1, 1>> >>,
             << <<1, 0, 1>>, <<1, 0, 0>>, <<0, 0, 1>>, <<1, 1, 1>> >>,
             << <<0, 1, 1>>, <<0, 1, 0>>, <<0, 0, 1>>, <<1, 1, 1>> >> >> >>

-----------------------------------------------------------------------------
(* Mesh builders                                                            *)

\* simplices cell by cell: mesh number = cell rank * ncas + icas (MeshETurbo::_getGridFromMesh), corner icorn of the
\* cell of indices indg is the grid node indg + Off(indg, icas, icorn) (MeshETurbo::getApex)
CellSx(nd, nx, ncas, Off(_, _, _)) ==
  LET cd == CellDims(nd, nx) IN
  [im \in 1..(NTot(nd, cd) * ncas) |->
     LET rank == (im - 1) \div ncas
         icas == (im - 1) % ncas
         indg == IdxOf(nd, cd, rank) IN
     Tup(nd + 1, LAMBDA ic : RankOf(nd, nx, VAdd(nd, indg, Off(indg, icas, ic - 1))))]

GridApices(nd, nx) == [r \in 1..NTot(nd, nx) |-> VScal(nd, U, IdxOf(nd, nx, r - 1))]

TurboSx(nd, nx, pol) == CellSx(nd, nx, NPerCell(nd), LAMBDA indg, icas, ic : MSS(nd, GetPolarized(nd, pol, indg), icas, ic))

AltSx(nd, nx) ==
  IF nd = 1 THEN CellSx(1, nx, 1, LAMBDA indg, icas, ic : MSS(1, 0, 0, 1 - ic))
  ELSE IF nd = 2 THEN CellSx(2, nx, 2, LAMBDA indg, icas, ic : MSS(2, 1, icas, ic))
  ELSE CellSx(3, nx, 5, LAMBDA indg, icas, ic : T5[((indg[1] + indg[2] + indg[3]) % 2) + 1][icas + 1][ic + 1])

Alt2Sx(nd, nx) == CellSx(2, nx, 2, LAMBDA indg, icas, ic : MSS(2, 1 - GetPolarized(2, TRUE, indg), icas, ic))

\* apices and simplices numbered backwards (the rows may not depend on the numbering)
Backwards(ap, sx) ==
  LET n == Len(ap)  ns == Len(sx) IN
  [ap |-> [k \in 1..n |-> ap[n + 1 - k]],
   sx |-> [i \in 1..ns |-> LET s == sx[ns + 1 - i] IN Tup(Len(s), LAMBDA k : n - 1 - s[k])]]

PertNode(nd)  == Tup(nd, LAMBDA k : 1)
PertDelta(nd) == AsTup(nd, <<1, -1, 1>>)
Perturbed(nd, nx, ap) ==
  [ap EXCEPT ![RankOf(nd, nx, PertNode(nd)) + 1] = VAdd(nd, ap[RankOf(nd, nx, PertNode(nd)) + 1], PertDelta(nd))]

\* MeshETurbo::_buildMaskInMeshing
MaskSet(nd, nx) == IF nd = 1 THEN { <<0>> } ELSE { Tup(nd, LAMBDA k : 0), Tup(nd, LAMBDA k : nx[k] - 1) }
Nth(S, k) == CHOOSE x \in S : Cardinality({ y \in S : y < x }) = k - 1
Masked(nd, nx) ==
  LET full == TurboSx(nd, nx, FALSE)
      dead == { RankOf(nd, nx, i) : i \in MaskSet(nd, nx) }
      keep == { i \in DOMAIN full : SetOf(full[i]) \cap dead = {} }
      act  == UNION { SetOf(full[i]) : i \in keep }
      grid == GridApices(nd, nx) IN
  [ap  |-> [k \in 1..Cardinality(act) |-> grid[Nth(act, k) + 1]],
   sx  |-> [j \in 1..Cardinality(keep) |-> LET s == full[Nth(keep, j)] IN
              Tup(nd + 1, LAMBDA c : Cardinality({ b \in act : b < s[c] }))],
   sel |-> [r \in 1..NTot(nd, nx) |-> IF (r - 1) \in dead THEN 0 ELSE 1]]

Facet(s, k) == { s[j] : j \in (DOMAIN s) \ {k} }
BoundaryFacets(sx) ==
  LET all == UNION { { Facet(sx[i], k) : k \in DOMAIN sx[i] } : i \in DOMAIN sx } IN
  { F \in all : Cardinality({ i \in DOMAIN sx : F \subseteq SetOf(sx[i]) }) = 1 }

MkMeshSel(nd, nx, fam, ap, sx, sel) ==
  [nd |-> nd, nx |-> AsTup(nd, nx), fam |-> fam, ap |-> ap, sx |-> sx, bf |-> BoundaryFacets(sx), sel |-> sel]
MkMesh(nd, nx, fam, ap, sx) == MkMeshSel(nd, nx, fam, ap, sx, <<>>)

FamOk(nd, nx, fam) ==
  CASE fam = "turbopol" -> nd = 2
    [] fam = "std_alt2" -> nd = 2
    [] fam = "std_pert" -> \A k \in 1..nd : nx[k] >= 3
    [] fam = "turbomask" -> \A k \in 1..nd : nx[k] >= 3
    [] OTHER -> TRUE

MeshOf(nd, nx, fam) ==
  CASE fam = "turbo"    -> MkMesh(nd, nx, fam, GridApices(nd, nx), TurboSx(nd, nx, FALSE))
    [] fam = "turbopol" -> MkMesh(nd, nx, fam, GridApices(nd, nx), TurboSx(nd, nx, TRUE))
    [] fam = "turbomask" -> LET k == Masked(nd, nx) IN MkMeshSel(nd, nx, fam, k.ap, k.sx, k.sel)
    [] fam = "std_same" -> LET b == Backwards(GridApices(nd, nx), TurboSx(nd, nx, FALSE)) IN MkMesh(nd, nx, fam, b.ap, b.sx)
    [] fam = "std_alt"  -> LET b == Backwards(GridApices(nd, nx), AltSx(nd, nx)) IN MkMesh(nd, nx, fam, b.ap, b.sx)
    [] fam = "std_alt2" -> LET b == Backwards(GridApices(nd, nx), Alt2Sx(nd, nx)) IN MkMesh(nd, nx, fam, b.ap, b.sx)
    [] fam = "std_pert" -> LET b == Backwards(Perturbed(nd, nx, GridApices(nd, nx)), TurboSx(nd, nx, FALSE)) IN
                           MkMesh(nd, nx, fam, b.ap, b.sx)

Meshes == UNION { UNION { { MeshOf(nd, nx, fam) : fam \in { f \in Families : FamOk(nd, nx, f) } }
                          : nx \in NxVecs(nd) } : nd \in NDims }

-----------------------------------------------------------------------------
(* Barycentric coordinates                                                  *)

Verts(m, s) == Tup(m.nd + 1, LAMBDA k : m.ap[s[k] + 1])

\* barycentric coordinates of p in the simplex s:  lam[k] / den  (den > 0)
Bary(m, s, p) ==
  LET W == Verts(m, s)
      d == H(m.nd, W) IN
  [den |-> Abs(d),
   lam |-> Tup(m.nd + 1, LAMBDA k : Sgn(d) * H(m.nd, [W EXCEPT ![k] = p]))]

InBBox(m, s, p) ==
  \A c \in 1..m.nd : (\E k \in 1..(m.nd + 1) : m.ap[s[k] + 1][c] <= p[c]) /\ (\E k \in 1..(m.nd + 1) : m.ap[s[k] + 1][c] >= p[c])

InSimplex(b)       == \A k \in DOMAIN b.lam : b.lam[k] >= 0
StrictlyInside(b)  == \A k \in DOMAIN b.lam : b.lam[k] > 0

\* the simplices (numbers 1..) that contain p, faces included
Containing(m, p) == { i \in DOMAIN m.sx : InBBox(m, m.sx[i], p) /\ InSimplex(Bary(m, m.sx[i], p)) }

\* the row of the projection matrix computed in simplex s: set of <<apex, numerator, denominator>>, zero weights left out
RowIn(m, s, p) == LET b == Bary(m, s, p) IN { <<s[k], b.lam[k], b.den>> : k \in { j \in DOMAIN b.lam : b.lam[j] # 0 } }
RowEq(r1, r2)  == /\ { t[1] : t \in r1 } = { t[1] : t \in r2 }
                  /\ \A t1 \in r1, t2 \in r2 : t1[1] = t2[1] => t1[2] * t2[3] = t2[2] * t1[3]

\* p lies on the outer boundary of the mesh: on a facet that belongs to one simplex only
OnBoundary(m, p, C) ==
  \E i \in C : LET b == Bary(m, m.sx[i], p) IN \E k \in DOMAIN b.lam : b.lam[k] = 0 /\ Facet(m.sx[i], k) \in m.bf

MinOf(S) == CHOOSE x \in S : \A y \in S : x <= y

-----------------------------------------------------------------------------
(* Query points                                                             *)

QVals(n)     == (-2)..(U * (n - 1) + 2)
QSet(nd, nx) == IF nd = 1 THEN { <<a>> : a \in QVals(nx[1]) }
                ELSE IF nd = 2 THEN { <<a, b>> : a \in QVals(nx[1]), b \in QVals(nx[2]) }
                ELSE { <<a, b, c>> : a \in QVals(nx[1]), b \in QVals(nx[2]), c \in QVals(nx[3]) }

InBox(nd, nx, q)    == \A k \in 1..nd : 0 <= q[k] /\ q[k] <= U * (nx[k] - 1)
OnBoxBorder(nd, nx, q) == InBox(nd, nx, q) /\ \E k \in 1..nd : q[k] = 0 \/ q[k] = U * (nx[k] - 1)

-----------------------------------------------------------------------------
(* Real geometries: x = x0 + R.(dx o u/U), R = Rz(a1).Ry(a2).Rx(a3) as in the documentation of DbGrid::reset;    *)
(* angle codes 0..3 = right angles, 4..7 = T + right angles with cos T = 3/5, sin T = 4/5 (as GridGeom)         *)

CSD == << <<1, 0, 1>>, <<0, 1, 1>>, <<-1, 0, 1>>, <<0, -1, 1>>,
          <<3, 4, 5>>, <<-4, 3, 5>>, <<-3, -4, 5>>, <<4, -3, 5>> >>
Cn(a) == CSD[a + 1][1]
Sn(a) == CSD[a + 1][2]
Dn(a) == CSD[a + 1][3]
MatMul3(A, B) == Tup(3, LAMBDA i : Tup(3, LAMBDA j : A[i][1]*B[1][j] + A[i][2]*B[2][j] + A[i][3]*B[3][j]))
Rz3(a) == << <<Cn(a), -Sn(a), 0>>, <<Sn(a), Cn(a), 0>>, <<0, 0, Dn(a)>> >>
Ry3(a) == << <<Cn(a), 0, Sn(a)>>, <<0, Dn(a), 0>>, <<-Sn(a), 0, Cn(a)>> >>
Rx3(a) == << <<Dn(a), 0, 0>>, <<0, Cn(a), -Sn(a)>>, <<0, Sn(a), Cn(a)>> >>
RotOf(nd, ang) ==
  IF nd = 1 THEN [n |-> << <<1>> >>, d |-> 1]
  ELSE IF nd = 2 THEN [n |-> << <<Cn(ang[1]), -Sn(ang[1])>>, <<Sn(ang[1]), Cn(ang[1])>> >>, d |-> Dn(ang[1])]
  ELSE [n |-> MatMul3(MatMul3(Rz3(ang[1]), Ry3(ang[2])), Rx3(ang[3])), d |-> Dn(ang[1]) * Dn(ang[2]) * Dn(ang[3])]

MkGeom(nd, gs) == LET r == RotOf(nd, gs.ang) IN
  [nd |-> nd, ang |-> AsTup(nd, gs.ang), dxn |-> AsTup(nd, gs.dxn), dxd |-> gs.dxd, x0 |-> AsTup(nd, gs.x0),
   n |-> r.n, d |-> r.d]
Geoms == UNION { { MkGeom(nd, gs) : gs \in GeomSpecs(nd) } : nd \in NDims }

IsRotation(g) ==
  /\ \A i, j \in 1..g.nd : SumN(g.nd, LAMBDA k : g.n[k][i] * g.n[k][j]) = (IF i = j THEN g.d * g.d ELSE 0)
  /\ Det(g.nd, g.n) = ProdN(g.nd, LAMBDA k : g.d)
IsRotated(g) == g.n # Tup(g.nd, LAMBDA i : Tup(g.nd, LAMBDA j : IF i = j THEN g.d ELSE 0))
\* every real coordinate x0 + sum_k n[i][k].dxn[k].u[k] / (d.dxd.U) is a dyadic number with few bits: exact in doubles
ExactInDoubles(g) == \A i, k \in 1..g.nd : (g.n[i][k] * g.dxn[k] * 4096) % (g.d * g.dxd * U) = 0
\* numerators of the image of the index-space point u (common denominator left out): used by the law AffineInvariant
Image(g, u) == Tup(g.nd, LAMBDA i : SumN(g.nd, LAMBDA k : g.n[i][k] * g.dxn[k] * u[k]))
SmallGeom(g) == g.d <= 5 /\ ProdN(g.nd, LAMBDA k : g.dxn[k]) <= 256    \* keeps the determinants of AffineInvariant within 32 bits
GeomOk(g) == IsRotation(g) /\ ExactInDoubles(g) /\ g.dxd > 0 /\ \A k \in 1..g.nd : g.dxn[k] > 0

-----------------------------------------------------------------------------
(* Cases                                                                    *)

GeomCase(g) == [k |-> "geom", g |-> g, rotated |-> IF IsRotated(g) THEN 1 ELSE 0]
MeshCase(m) == [k |-> "mesh", m |-> m]

PointCase(m, q) ==
  LET C    == Containing(m, q)
      kind == IF C = {} THEN "out"
              ELSE IF OnBoundary(m, q, C) THEN "bnd"
              ELSE IF \E i \in C : StrictlyInside(Bary(m, m.sx[i], q)) THEN "in1" ELSE "inface"
      row  == IF C = {} THEN {} ELSE RowIn(m, m.sx[MinOf(C)], q) IN
  [k |-> "point", m |-> m, q |-> q, C |-> C, kind |-> kind, row |-> row]

CasesOf(m) == { PointCase(m, q) : q \in QSet(m.nd, m.nx) }

-----------------------------------------------------------------------------
(* What TLC checks on every case                                            *)

\* a mesh is a triangulation of the box of its grid: no flat simplex, every facet in one or two simplices, volumes add up
MeshOk(m) ==
  /\ \A i \in DOMAIN m.sx : H(m.nd, Verts(m, m.sx[i])) # 0 /\ Cardinality(SetOf(m.sx[i])) = m.nd + 1
  /\ \A i \in DOMAIN m.sx : \A k \in DOMAIN m.sx[i] :
       Cardinality({ j \in DOMAIN m.sx : Facet(m.sx[i], k) \subseteq SetOf(m.sx[j]) }) \in {1, 2}
  /\ LET vol[i \in 0..Len(m.sx)] == IF i = 0 THEN 0 ELSE vol[i - 1] + Abs(H(m.nd, Verts(m, m.sx[i]))) IN
     IF m.fam = "turbomask" THEN vol[Len(m.sx)] = Len(m.sx) * ProdN(m.nd, LAMBDA k : U) /\ Len(m.sx) > 0
     ELSE vol[Len(m.sx)] = (IF m.nd = 3 THEN 6 ELSE m.nd) * ProdN(m.nd, LAMBDA k : U * (m.nx[k] - 1))
  /\ IF m.fam = "turbomask" THEN Len(m.ap) < NTot(m.nd, m.nx) /\ Len(m.sel) = NTot(m.nd, m.nx) ELSE Len(m.ap) = NTot(m.nd, m.nx)
  /\ \A a \in 0..(Len(m.ap) - 1) : \E i \in DOMAIN m.sx : a \in SetOf(m.sx[i])
  \* turbo numbering (MeshETurbo::getApexCoor): apex a is the grid node of rank a
  /\ m.fam \in {"turbo", "turbopol"} => \A a \in 0..(Len(m.ap) - 1) : m.ap[a + 1] = VScal(m.nd, U, IdxOf(m.nd, m.nx, a))

PointOk(c) ==
  LET m == c.m  q == c.q IN
  \* the simplices cover the box of the grid and nothing else; a lattice point is strictly inside one simplex at most
  \* (with a mask: they cover a part of the box, and the border of the box that they touch is part of their boundary)
  /\ IF m.fam = "turbomask" THEN (c.C # {} => InBox(m.nd, m.nx, q)) /\ (c.C # {} /\ OnBoxBorder(m.nd, m.nx, q) => c.kind = "bnd")
     ELSE (c.C # {}) = InBox(m.nd, m.nx, q) /\ (c.kind = "bnd") = OnBoxBorder(m.nd, m.nx, q)
  /\ Cardinality({ i \in c.C : StrictlyInside(Bary(m, m.sx[i], q)) }) <= 1
  \* in every simplex that contains the point: weights >= 0, sum = 1, every affine function reproduced
  /\ \A i \in c.C :
       LET b == Bary(m, m.sx[i], q)  W == Verts(m, m.sx[i]) IN
       /\ b.den > 0
       /\ \A k \in DOMAIN b.lam : b.lam[k] >= 0
       /\ SumN(m.nd + 1, LAMBDA k : b.lam[k]) = b.den
       /\ \A x \in 1..m.nd : SumN(m.nd + 1, LAMBDA k : b.lam[k] * W[k][x]) = b.den * q[x]
  \* the row does not depend on the simplex used (shared faces, edges, nodes): the expected row is well defined
  /\ \A i, j \in c.C : RowEq(RowIn(m, m.sx[i], q), RowIn(m, m.sx[j], q))
  /\ \A i \in c.C : RowEq(c.row, RowIn(m, m.sx[i], q))
  \* outside: empty row
  /\ (c.kind = "out") = (c.row = {})
  /\ c.kind = "in1" => Cardinality(c.row) = m.nd + 1
  /\ c.kind = "inface" => Cardinality(c.row) <= m.nd

\* barycentric coordinates do not change under x = x0 + R.(dx o u): same ratios in the image simplex
AffineInvariant(c, g) ==
  c.C = {} \/ LET m  == c.m
                  s  == m.sx[MinOf(c.C)]
                  b  == Bary(m, s, c.q)
                  W2 == Tup(m.nd + 1, LAMBDA k : Image(g, m.ap[s[k] + 1]))
                  d2 == H(m.nd, W2) IN
              /\ d2 # 0
              /\ \A k \in 1..(m.nd + 1) : Sgn(d2) * H(m.nd, [W2 EXCEPT ![k] = Image(g, c.q)]) * b.den = b.lam[k] * Abs(d2)

CaseOk(c) ==
  CASE c.k = "geom"  -> GeomOk(c.g)
    [] c.k = "mesh"  -> MeshOk(c.m)
    [] c.k = "point" -> PointOk(c) /\ \A g \in { h \in Geoms : h.nd = c.m.nd /\ SmallGeom(h) } : AffineInvariant(c, g)

-----------------------------------------------------------------------------
(* What is printed for the harness                                          *)

SetToSeqBy(S, Key(_)) ==    \* elements of S in increasing order of the (injective) integer key
  LET F[T \in SUBSET S] == IF T = {} THEN <<>> ELSE LET x == CHOOSE y \in T : \A z \in T : Key(y) <= Key(z) IN <<x>> \o F[T \ {x}]
  IN F[S]

MeshKey(m) == [nd |-> m.nd, nx |-> m.nx, fam |-> m.fam]
OutCase(c) ==
  CASE c.k = "geom"  -> c
    [] c.k = "mesh"  -> [k |-> "mesh", key |-> MeshKey(c.m), ap |-> c.m.ap, sx |-> c.m.sx, nbf |-> Cardinality(c.m.bf), sel |-> c.m.sel]
    [] c.k = "point" -> [k |-> "point", key |-> MeshKey(c.m), q |-> c.q, kind |-> c.kind, nc |-> Cardinality(c.C),
                         row |-> SetToSeqBy(c.row, LAMBDA t : t[1])]
=============================================================================
