------------------------- MODULE FastPathsAlgebra -------------------------
(***************************************************************************)
(* Property C04, algebraic part: the Schur-complement forms used by the     *)
(* fast paths of gstlearn (KrigingCalcul primal / dual / Bayesian /         *)
(* collocated / cross-validation forms, and the cross-validation shortcut   *)
(* of KrigingSystem in unique neighbourhood) are stated here as identities  *)
(* between BLOCK expressions and the STANDARD kriging system                *)
(*                                                                         *)
(*      | Sigma  X | | lambda |   | Sigma0 |                                *)
(*      | X^t    0 | | -mu    | = | X0^t   |        (doc/references/Kriging) *)
(*                                                                         *)
(* TLC has no reals.  The identities are identities between rational        *)
(* functions of the block entries, so they are checked EXACTLY over the     *)
(* prime field GF(P): every block is a matrix over 0..P-1, all arithmetic   *)
(* is modulo P, "invertible" replaces "positive definite" (an instance in   *)
(* which a needed inverse does not exist is outside the side condition and  *)
(* is skipped).  TLC enumerates all symmetric Sigma over GF(P) of the       *)
(* stated size together with several derived variants of the other blocks.  *)
(* A wrong sign, a missing transposition or a wrong Schur complement in a   *)
(* form below makes TLC report the instance.                                *)
(*                                                                         *)
(* The real code is bound to these forms numerically by harness/fast_run:   *)
(* KrigingCalcul getters (fast) against kriging()/krigtest()/xvalid() and a *)
(* dense solve of the assembled standard system (reference).                *)
(***************************************************************************)
EXTENDS Integers, Sequences, FiniteSets, TLC

CONSTANTS P,        \* prime
          NEQ,      \* number of data equations of the instances (2..3)
          Variants, \* number of derived variants of the non-enumerated blocks
          NShapes   \* number of shapes (drift functions, right-hand sides) taken from ShapeSeq

-----------------------------------------------------------------------------
(* GF(P) scalars and matrices (sequences of rows)                           *)

Md(x) == x % P
Inv1(a) == CHOOSE x \in 1..(P - 1) : (a * x) % P = 1

NR(A) == Len(A)
NC(A) == IF Len(A) = 0 THEN 0 ELSE Len(A[1])
Mat(m, n, f(_, _)) == [i \in 1..m |-> [j \in 1..n |-> Md(f(i, j))]]
\* "Sing" (the empty sequence) is the result of inverting a singular matrix; it propagates through
\* every operation, so that forms can be written without guards and tested with "# Sing"
Sing == <<>>
Tr(A) == IF A = Sing THEN Sing ELSE Mat(NC(A), NR(A), LAMBDA i, j : A[j][i])
MAdd(A, B) == IF A = Sing \/ B = Sing THEN Sing ELSE Mat(NR(A), NC(A), LAMBDA i, j : A[i][j] + B[i][j])
MSub(A, B) == IF A = Sing \/ B = Sing THEN Sing ELSE Mat(NR(A), NC(A), LAMBDA i, j : A[i][j] - B[i][j])
MNeg(A) == IF A = Sing THEN Sing ELSE Mat(NR(A), NC(A), LAMBDA i, j : 0 - A[i][j])
Dot(A, B, i, j) == LET S[k \in 0..NC(A)] == IF k = 0 THEN 0 ELSE (S[k - 1] + A[i][k] * B[k][j]) % P
                   IN S[NC(A)]
MMul(A, B) == IF A = Sing \/ B = Sing THEN Sing ELSE Mat(NR(A), NC(B), LAMBDA i, j : Dot(A, B, i, j))
Ident(n) == Mat(n, n, LAMBDA i, j : IF i = j THEN 1 ELSE 0)
Zero(m, n) == Mat(m, n, LAMBDA i, j : 0)
\* block composition
HCat(A, B) == IF A = Sing \/ B = Sing THEN Sing ELSE [i \in 1..NR(A) |-> A[i] \o B[i]]
VCat(A, B) == IF A = Sing \/ B = Sing THEN Sing ELSE A \o B
Block4(A, B, C, D) == VCat(HCat(A, B), HCat(C, D))
SubM(A, rows, cols) == IF A = Sing THEN Sing ELSE [i \in 1..Len(rows) |-> [j \in 1..Len(cols) |-> A[rows[i]][cols[j]]]]
Seq1(n) == [i \in 1..n |-> i]
Without(n, E) == SelectSeq(Seq1(n), LAMBDA i : i \notin E)
Within(n, E) == SelectSeq(Seq1(n), LAMBDA i : i \in E)

\* Gauss-Jordan inverse over GF(P); Sing when the matrix is not invertible
MInv(A) ==
  IF A = Sing THEN Sing ELSE
  LET n == NR(A)
      Aug0 == [i \in 1..n |-> [j \in 1..(2 * n) |-> IF j <= n THEN A[i][j] ELSE IF j - n = i THEN 1 ELSE 0]]
      Step[k \in 0..n] ==
        IF k = 0 THEN Aug0
        ELSE LET M == Step[k - 1] IN
             IF M = Sing THEN Sing
             ELSE LET cand == {r \in k..n : M[r][k] # 0} IN
                  IF cand = {} THEN Sing
                  ELSE LET r == CHOOSE r \in cand : \A q \in cand : r <= q
                           M1 == [i \in 1..n |-> IF i = k THEN M[r] ELSE IF i = r THEN M[k] ELSE M[i]]
                           piv == Inv1(M1[k][k])
                           rowk == [j \in 1..(2 * n) |-> (M1[k][j] * piv) % P]
                       IN [i \in 1..n |-> IF i = k THEN rowk
                                          ELSE [j \in 1..(2 * n) |-> (M1[i][j] - M1[i][k] * rowk[j]) % P]]
      R == Step[n]
  IN IF R = Sing THEN Sing ELSE [i \in 1..n |-> [j \in 1..n |-> R[i][n + j]]]
Invertible(A) == MInv(A) # Sing

-----------------------------------------------------------------------------
(* The STANDARD system (reference of every form)                            *)

\* Universal kriging: data covariance S (n x n), drift X (n x b), target covariance S0 (n x r),
\* target drift X0 (r x b), data Z (n x 1), target variance S00 (r x r).
\* Returns the weights, the multipliers (as stored by KrigingSystem: the unknown paired with X^t),
\* the estimate, the variance of the estimation error and the variance of the estimator.
StdLhsUK(S, X) == Block4(S, X, Tr(X), Zero(NC(X), NC(X)))
StdRhsUK(S0, X0) == VCat(S0, Tr(X0))
StdUK(S, X, S0, X0, Z, S00) ==
  LET n == NR(S)  b == NC(X)
      Ai == MInv(StdLhsUK(S, X))
      B == StdRhsUK(S0, X0)
      W == MMul(Ai, B)
      lam == SubM(W, Seq1(n), Seq1(NC(B)))
      mul == SubM(W, [i \in 1..b |-> n + i], Seq1(NC(B)))
  IN [ok |-> Ai # Sing,
      lam |-> lam, mul |-> mul,
      est |-> MMul(Tr(lam), Z),
      var |-> MSub(S00, MMul(Tr(W), B)),
      \* KrigingSystem::_estimateVarZ: covariance rows minus drift rows of rhs.wgt (the code keeps the
      \* diagonal only; written here so that the whole matrix is the variance of the estimator)
      varz |-> MSub(MMul(Tr(lam), S0), MMul(X0, mul))]
\* Simple kriging (known mean; Z is centred)
StdSK(S, S0, Z, S00) ==
  LET Si == MInv(S)
      lam == MMul(Si, S0)
  IN [ok |-> Si # Sing, lam |-> lam,
      est |-> MMul(Tr(lam), Z),
      var |-> MSub(S00, MMul(Tr(lam), S0)),
      varz |-> MMul(Tr(lam), S0)]

-----------------------------------------------------------------------------
(* The forms of KrigingCalcul (what the fast path computes)                 *)

FLambdaSK(S, S0) == MMul(MInv(S), S0)
FSigmac(S, X) == MInv(MMul(Tr(X), MMul(MInv(S), X)))
FSigmacBayes(S, X, PC) == MInv(MAdd(MMul(Tr(X), MMul(MInv(S), X)), MInv(PC)))
FY0(S, X, S0, X0) == MSub(X0, MMul(Tr(FLambdaSK(S, S0)), X))
\* primal, universal kriging
FormUK(S, X, S0, X0, Z, S00) ==
  LET Si == MInv(S)
      Sc == FSigmac(S, X)
      Y0 == FY0(S, X, S0, X0)
      Mu == MMul(Sc, Tr(Y0))
      LUK == MAdd(FLambdaSK(S, S0), MMul(Si, MMul(X, Mu)))
  IN [lam |-> LUK, mu |-> Mu,
      est |-> MMul(Tr(LUK), Z),
      var |-> MAdd(MSub(S00, MMul(Tr(LUK), S0)), MMul(Tr(Mu), Tr(X0))),
      varz |-> MMul(Tr(LUK), MMul(S, LUK))]
\* dual form (estimation only)
FormDualUK(S, X, S0, X0, Z) ==
  LET Si == MInv(S)
      Sc == FSigmac(S, X)
      XtSi == MMul(Tr(X), Si)
      cD == MMul(Sc, MMul(XtSi, Z))
      bD == MSub(MMul(Si, Z), MMul(Tr(XtSi), cD))
  IN MAdd(MMul(Tr(S0), bD), MMul(X0, cD))
FormDualSK(S, S0, Z) == MMul(Tr(S0), MMul(MInv(S), Z))
\* Bayesian form: prior mean PM (b x 1) and prior covariance PC (b x b) of the drift coefficients
FormBayes(S, X, S0, X0, Z, S00, PM, PC) ==
  LET Si == MInv(S)
      Sc == FSigmacBayes(S, X, PC)
      Y0 == FY0(S, X, S0, X0)
      Beta == MMul(Sc, MAdd(MMul(Tr(X), MMul(Si, Z)), MMul(MInv(PC), PM)))
      LSK == FLambdaSK(S, S0)
      Mu == MMul(Sc, Tr(Y0))
      LUK == MAdd(LSK, MMul(Si, MMul(X, Mu)))
  IN [beta |-> Beta, postcov |-> Sc,
      est |-> MAdd(MMul(Tr(LSK), Z), MMul(Y0, Beta)),
      var |-> MAdd(MSub(S00, MMul(Tr(LUK), S0)), MMul(Tr(Mu), Tr(X0)))]
\* reference of the Bayesian form: simple kriging of Z - X PM with the covariance inflated by the
\* prior uncertainty of the drift (S + X PC X^t), plus the prior drift at the target
RefBayes(S, X, S0, X0, Z, S00, PM, PC) ==
  LET S1 == MAdd(S, MMul(X, MMul(PC, Tr(X))))
      S01 == MAdd(S0, MMul(X, MMul(PC, Tr(X0))))
      S001 == MAdd(S00, MMul(X0, MMul(PC, Tr(X0))))
      k == StdSK(S1, S01, MSub(Z, MMul(X, PM)), S001)
  IN [ok |-> k.ok, est |-> MAdd(k.est, MMul(X0, PM)), var |-> k.var]
\* collocated form (unique neighbourhood): r right-hand sides (one per variable), the variables of
\* rank q \in Q (a sequence of column ranks) are known at the target with values Zp[q]
FormColCok(S, X, S0, X0, Z, S00, Zp, Q, sk) ==
  LET Si == MInv(S)
      r == NC(S0)
      S0p == SubM(S0, Seq1(NR(S0)), Q)
      S00p == SubM(S00, Q, Seq1(r))
      S00pp == SubM(S00, Q, Q)
      Z0p == SubM(Zp, Q, <<1>>)
      Sc == IF sk THEN <<>> ELSE FSigmac(S, X)
      Y0 == IF sk THEN <<>> ELSE FY0(S, X, S0, X0)
      X0p == IF sk THEN <<>> ELSE SubM(X0, Q, Seq1(NC(X0)))
      Y0p == IF sk THEN <<>> ELSE MSub(X0p, MMul(Tr(S0p), MMul(Si, X)))
      bot0 == MSub(S00pp, MMul(Tr(S0p), MMul(Si, S0p)))
      top0 == MSub(S00p, MMul(Tr(S0p), MMul(Si, S0)))
      bot == IF sk THEN bot0 ELSE MAdd(bot0, MMul(Y0p, MMul(Sc, Tr(Y0p))))
      top == IF sk THEN top0 ELSE MAdd(top0, MMul(Y0p, MMul(Sc, Tr(Y0))))
      L0 == MMul(MInv(bot), top)
      LSK == MMul(Si, MSub(S0, MMul(S0p, L0)))
      Mu == IF sk THEN <<>> ELSE MMul(Sc, Tr(MSub(Y0, MMul(Tr(L0), Y0p))))
      LK == IF sk THEN LSK ELSE MAdd(LSK, MMul(Si, MMul(X, Mu)))
      var0 == MSub(MSub(S00, MMul(Tr(LK), S0)), MMul(Tr(L0), S00p))
      cross == MMul(Tr(LK), MMul(S0p, L0))
  IN [ok |-> Invertible(bot), lam |-> LK, lam0 |-> L0,
      est |-> MAdd(MMul(Tr(LK), Z), MMul(Tr(L0), Z0p)),
      var |-> IF sk THEN var0 ELSE MAdd(var0, MMul(Tr(Mu), Tr(X0))),
      \* variance of the estimator lam^t Z + lam0^t Z0p
      varz |-> MAdd(MAdd(MMul(Tr(LK), MMul(S, LK)), MAdd(cross, Tr(cross))), MMul(Tr(L0), MMul(S00pp, L0)))]
\* its reference: the standard system of the data complemented by the collocated datum
RefColCok(S, X, S0, X0, Z, S00, Zp, Q, sk) ==
  LET r == NC(S0)
      S0p == SubM(S0, Seq1(NR(S0)), Q)
      S00p == SubM(S00, Q, Seq1(r))
      S00pp == SubM(S00, Q, Q)
      Sx == Block4(S, S0p, Tr(S0p), S00pp)
      S0x == VCat(S0, S00p)
      Zx == VCat(Z, SubM(Zp, Q, <<1>>))
      k == IF sk THEN StdSK(Sx, S0x, Zx, S00)
           ELSE StdUK(Sx, VCat(X, SubM(X0, Q, Seq1(NC(X0)))), S0x, X0, Zx, S00)
  IN [ok |-> k.ok, lam |-> k.lam, est |-> k.est, var |-> k.var,
      varz |-> MMul(Tr(k.lam), MMul(Sx, k.lam))]

\* cross-validation form of KrigingCalcul: the equations of rank E (a set) are cross-validated
\* together; the right-hand side is the column block E of Sigma patched by omega
\* (doc/references/Kriging_XValid_Unique.md), the target drift is the row block E of X
Omega(S, X, E, sk) ==
  LET n == NR(S)
      e == Within(n, E)
      Si == MInv(S)
      S00 == SubM(S, e, e)
      alpha == SubM(Si, e, e)
      iAlpha == MInv(alpha)
      a1 == MSub(S00, iAlpha)
  IN IF sk THEN a1
     ELSE LET c == Without(n, E)
              beta == SubM(Si, e, c)
              delta == SubM(Si, c, c)
              X0 == SubM(X, e, Seq1(NC(X)))
              Xc == SubM(X, c, Seq1(NC(X)))
              eps == MMul(iAlpha, MMul(beta, Xc))        \* = - Sigma0 Sigma^-1 X
              a3 == MAdd(X0, eps)
              a2 == MInv(MSub(MMul(Tr(Xc), MMul(delta, Xc)), MMul(Tr(eps), MMul(alpha, eps))))
          IN MSub(a1, MMul(a3, MMul(a2, Tr(a3))))
FormXvalid(S, X, Z, E, sk) ==
  LET n == NR(S)
      e == Within(n, E)
      om == Omega(S, X, E, sk)
      \* column block E of S with the rows E replaced by omega
      C == [i \in 1..n |-> [j \in 1..Len(e) |->
              IF i \in E THEN om[CHOOSE k \in 1..Len(e) : e[k] = i][j] ELSE S[i][e[j]]]]
      S00 == SubM(S, e, e)
  IN IF sk THEN StdSK(S, C, Z, S00)
     ELSE FormUK(S, X, C, SubM(X, e, Seq1(NC(X))), Z, S00)
\* its reference: the standard system of the remaining equations, target = the removed ones
RefXvalid(S, X, Z, E, sk) ==
  LET n == NR(S)
      e == Within(n, E)
      c == Without(n, E)
      Sc == SubM(S, c, c)
      S0 == SubM(S, c, e)
      Zc == SubM(Z, c, <<1>>)
      S00 == SubM(S, e, e)
  IN IF sk THEN StdSK(Sc, S0, Zc, S00)
     ELSE StdUK(Sc, SubM(X, c, Seq1(NC(X))), S0, SubM(X, e, Seq1(NC(X))), Zc, S00)

\* cross-validation shortcut of KrigingSystem::_estimateCalculXvalidUnique (one variable):
\* with Ainv the inverse of the complete kriging matrix (covariance and drift parts),
\*   variance_i = 1 / Ainv[i,i],   estimate_i = - sum_{j # i} Ainv[i,j] / Ainv[i,i] * Z_j
ShortcutXvalid(S, X, Z, i, sk) ==
  LET n == NR(S)
      Ai == IF sk THEN MInv(S) ELSE MInv(StdLhsUK(S, X))
  IN IF Ai = Sing THEN [ok |-> FALSE, est |-> Sing, var |-> Sing]
     ELSE IF Ai[i][i] = 0 THEN [ok |-> FALSE, est |-> Sing, var |-> Sing]
     ELSE LET v == Inv1(Ai[i][i])
              acc[j \in 0..n] == IF j = 0 THEN 0
                                 ELSE IF j = i THEN acc[j - 1]
                                 ELSE (acc[j - 1] - Ai[i][j] * v * Z[j][1]) % P
          IN [ok |-> TRUE, est |-> << <<acc[n]>> >>, var |-> << <<v>> >>]

-----------------------------------------------------------------------------
(* Instances: Sigma enumerated exhaustively, the other blocks derived       *)

SymIdx(n) == {<<i, j>> \in (1..n) \X (1..n) : i <= j}
SymOf(n, f) == [i \in 1..n |-> [j \in 1..n |-> IF i <= j THEN f[<<i, j>>] ELSE f[<<j, i>>]]]
\* a cheap deterministic mixing function: entries of the derived blocks depend on the instance
Mix(seed, a, b, c) == (seed * 7 + a * 3 + b * 5 + c * 11 + a * b + 1) % P
Derived(n, b, r, f, k) ==
  LET seed == k + 2 * f[<<1, 1>>] + 3 * f[<<1, n>>] + f[<<n, n>>]
  IN [S |-> SymOf(n, f),
      \* drift: first function constant (=1), the others derived
      X |-> [i \in 1..n |-> [j \in 1..b |-> IF j = 1 THEN 1 ELSE Mix(seed, i, j, 1)]],
      S0 |-> [i \in 1..n |-> [j \in 1..r |-> Mix(seed, i, j, 2)]],
      X0 |-> [i \in 1..r |-> [j \in 1..b |-> IF j = 1 THEN 1 ELSE Mix(seed, i, j, 3)]],
      Z |-> [i \in 1..n |-> <<Mix(seed, i, 1, 4)>>],
      S00 |-> SymOf(r, [p \in SymIdx(r) |-> Mix(seed, p[1], p[2], 5)]),
      Zp |-> [i \in 1..r |-> <<Mix(seed, i, 2, 6)>>],
      PM |-> [i \in 1..b |-> <<Mix(seed, i, 3, 7)>>],
      PC |-> SymOf(b, [p \in SymIdx(b) |-> IF p[1] = p[2] THEN 1 + (Mix(seed, p[1], 1, 8) % (P - 1)) ELSE Mix(seed, p[1], p[2], 9)]),
      k |-> k]

\* the shapes (number of drift functions b, right-hand sides r) of the identities
ShapeSeq == << <<1, 1>>, <<2, 2>>, <<1, 2>>, <<2, 1>> >>
Shapes == {ShapeSeq[i] : i \in 1..NShapes}

-----------------------------------------------------------------------------
(* The identities (Obs_fast = Obs_ref), each guarded by its side condition  *)

IdPrimalUK(I) ==
  LET s == StdUK(I.S, I.X, I.S0, I.X0, I.Z, I.S00)
      ok == Invertible(I.S) /\ s.ok /\ Invertible(MMul(Tr(I.X), MMul(MInv(I.S), I.X)))
      f == FormUK(I.S, I.X, I.S0, I.X0, I.Z, I.S00)
  IN ok => /\ f.lam = s.lam
           /\ f.mu = MNeg(s.mul)              \* KrigingCalcul stores mu, the system is solved for -mu
           /\ f.est = s.est
           /\ f.var = s.var
           /\ f.varz = s.varz
IdDualUK(I) ==
  LET s == StdUK(I.S, I.X, I.S0, I.X0, I.Z, I.S00)
      ok == Invertible(I.S) /\ s.ok /\ Invertible(MMul(Tr(I.X), MMul(MInv(I.S), I.X)))
  IN ok => FormDualUK(I.S, I.X, I.S0, I.X0, I.Z) = s.est
IdDualSK(I) ==
  LET s == StdSK(I.S, I.S0, I.Z, I.S00)
  IN s.ok => FormDualSK(I.S, I.S0, I.Z) = s.est
IdBayes(I) ==
  LET ref == RefBayes(I.S, I.X, I.S0, I.X0, I.Z, I.S00, I.PM, I.PC)
      ok == /\ Invertible(I.S) /\ Invertible(I.PC) /\ ref.ok
            /\ Invertible(MAdd(MMul(Tr(I.X), MMul(MInv(I.S), I.X)), MInv(I.PC)))
      f == FormBayes(I.S, I.X, I.S0, I.X0, I.Z, I.S00, I.PM, I.PC)
  IN ok => f.est = ref.est /\ f.var = ref.var
IdColCokFails(I, Q, sk) ==
  LET ref == RefColCok(I.S, I.X, I.S0, I.X0, I.Z, I.S00, I.Zp, Q, sk)
      ok0 == Invertible(I.S) /\ ref.ok /\ (sk \/ Invertible(MMul(Tr(I.X), MMul(MInv(I.S), I.X))))
      f == FormColCok(I.S, I.X, I.S0, I.X0, I.Z, I.S00, I.Zp, Q, sk)
      n == NR(I.S)
  IN IF ~(ok0 /\ f.ok) THEN {}
     ELSE (IF f.lam = SubM(ref.lam, Seq1(n), Seq1(NC(I.S0))) THEN {} ELSE {"lambda"})
     \cup (IF f.lam0 = SubM(ref.lam, [i \in 1..Len(Q) |-> n + i], Seq1(NC(I.S0))) THEN {} ELSE {"lambda0"})
     \cup (IF f.est = ref.est THEN {} ELSE {"estimate"})
     \cup (IF f.var = ref.var THEN {} ELSE {"variance"})
     \cup (IF f.varz = ref.varz THEN {} ELSE {"varz"})
IdColCok(I, Q, sk) == IdColCokFails(I, Q, sk) = {}
IdXvalid(I, E, sk) ==
  LET n == NR(I.S)
      ref == RefXvalid(I.S, I.X, I.Z, E, sk)
      e == Within(n, E)
      c == Without(n, E)
      Si == MInv(I.S)
      ok == /\ Invertible(I.S) /\ ref.ok /\ Invertible(SubM(Si, e, e))
            /\ sk \/ ( /\ Invertible(MMul(Tr(I.X), MMul(Si, I.X)))
                       /\ LET Xc == SubM(I.X, c, Seq1(NC(I.X)))
                              Scc == SubM(I.S, c, c)
                          IN Invertible(Scc) /\ Invertible(MMul(Tr(Xc), MMul(MInv(Scc), Xc))))
      f == FormXvalid(I.S, I.X, I.Z, E, sk)
  IN ok => /\ SubM(f.lam, e, Seq1(Len(e))) = Zero(Len(e), Len(e))      \* the removed data get no weight
           /\ SubM(f.lam, c, Seq1(Len(e))) = ref.lam
           /\ f.est = ref.est
           /\ f.var = ref.var
IdShortcut(I, i, sk) ==
  LET ref == RefXvalid(I.S, I.X, I.Z, {i}, sk)
      sc == ShortcutXvalid(I.S, I.X, I.Z, i, sk)
  IN ref.ok /\ sc.ok => sc.est = ref.est /\ sc.var = ref.var

=============================================================================
