--------------------------- MODULE MC_FitContract ---------------------------
(* Enumeration of the request space of FitContract: every reachable VALID    *)
(* request is emitted (one JSON line) for the conformance run on the real     *)
(* fitting procedures.  States = requests (plus a few invalid intermediate    *)
(* ones that a second variation completes); transitions = variations.         *)
EXTENDS FitContract, Json

VaryQuick    == [A |-> 1, B |-> 1, C |-> 1, D |-> 1, E |-> 1, F |-> 1, G |-> 1]
VaryThorough == [A |-> 2, B |-> 1, C |-> 1, D |-> 1, E |-> 1, F |-> 1, G |-> 1]
PairsQuick   == {}
\* pairs of dimensions varied together (on base A): every pair of values of the two dimensions occurs
PairsThorough ==
     { {"cons", d} : d \in {"opt", "geom", "recipe", "entry"} }
  \cup { {"opt", d} : d \in {"geom", "recipe", "entry", "truth"} }
  \cup { {"types", d} : d \in {"recipe", "entry"} }
  \cup { {"geom", "truth"}, {"empty", "recipe"}, {"entry", "recipe"} }

Emit == (~Valid(req)) \/ PrintT(ToJson(Concrete(req)))

\* every emitted request is well formed: the constraint items designate existing structures and parameters
WellFormed ==
  Valid(req) =>
    LET c == Concrete(req) IN
    /\ c.nvar \in 1..3 /\ c.ndim \in 1..3 /\ Len(c.types) \in 1..3 /\ Len(c.dirs) >= 1
    /\ \A i \in 1..Len(c.cons) : c.cons[i].icov \in 0..(Len(c.types) - 1)
    /\ Cardinality(req.varied) <= VaryOf[req.variant]
=============================================================================
