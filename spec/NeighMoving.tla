---------------------------- MODULE NeighMoving ----------------------------
(***************************************************************************)
(* Property C06, first half: the moving neighbourhood of a target is        *)
(* exactly the set defined by the parameters of the neighbourhood.          *)
(*                                                                         *)
(* Abstract input ("case"):                                                *)
(*   cands : sequence of candidates IN Db ORDER, each a record              *)
(*      [ active, defined, passesCheckers, isTargetOrFold : BOOLEAN,        *)
(*        distRank : 1..n   rank of the anisotropic distance to the target  *)
(*                          (all distinct: ties are excluded by C06),       *)
(*        sector   : 0..ndir-1  index of the angular sector, among ndir     *)
(*                          equal sectors of the anisotropy frame, in which *)
(*                          the sample lies (never on a sector boundary) ]  *)
(*   ndir      : number of placement sectors (nsect divides ndir, so that   *)
(*               the sector among nsect is sector * nsect \div ndir)        *)
(*   nmini, nmaxi (0 = no maximum), nsect, nsmax (0 = no per-sector limit), *)
(*   radiusRank: candidates with distRank <= radiusRank are within the      *)
(*               radius, the others outside                                 *)
(*   xvalid, kfold : cross-validation flags.  With kfold the flag           *)
(*               isTargetOrFold means "same fold (code) as the target",     *)
(*               without it "is the target itself (coincides with it)".     *)
(*                                                                         *)
(* Definition(c)  = the declarative definition (the property text).         *)
(* Algorithm(c)   = transcription of NeighMoving::_moving ->                *)
(*                  _movingSectorNsmax -> _movingSelect -> _neighCompress.  *)
(* BallAlgorithm  = the same with the ball-tree pre-selection of the code.  *)
(* TLC checks Algorithm = Definition for every case within the bounds       *)
(* (MC_NeighMoving) and emits cases with the expected selection.            *)
(* Results are sequences of 1-based Db positions in Db order.               *)
(***************************************************************************)
EXTENDS Integers, Sequences, FiniteSets, TLC

RangeOf(f) == {f[i] : i \in DOMAIN f}
Min2(a, b) == IF a < b THEN a ELSE b

NCand(c) == Len(c.cands)
Idx(c) == 1..NCand(c)

WellFormed(c) ==
  /\ NCand(c) >= 1
  /\ {c.cands[i].distRank : i \in Idx(c)} = Idx(c)              \* distinct ranks = a permutation
  /\ \A i \in Idx(c) : c.cands[i].sector \in 0..(c.ndir - 1)
  /\ c.nsect >= 1 /\ c.ndir % c.nsect = 0
  /\ c.nmini >= 0 /\ c.nmaxi >= 0 /\ c.nsmax >= 0
  /\ c.radiusRank \in 0..NCand(c)
  \* "is the target itself": one sample at most, the closest one (it coincides with the target: a
  \* zero distance to ONE sample is not a tie).  Its angular sector is not defined: with several
  \* sectors, as an admissible sample, the case belongs to the property only when the defined
  \* neighbourhood is the same whichever sector it is counted in (see SectorIndependent below)
  /\ ~c.kfold => /\ Cardinality({i \in Idx(c) : c.cands[i].isTargetOrFold}) <= 1
                 /\ \A i \in Idx(c) : c.cands[i].isTargetOrFold => c.cands[i].distRank = 1
                 /\ (\E i \in Idx(c) : c.cands[i].isTargetOrFold) => c.radiusRank >= 1

\* sector of a sample among the nsect sectors of the neighbourhood
SectorOf(c, i) == (c.cands[i].sector * c.nsect) \div c.ndir
Sectors(c) == 0..(c.nsect - 1)
Rank(c, i) == c.cands[i].distRank

-----------------------------------------------------------------------------
(* The definition of the property                                           *)

Excluded(c, i) == c.xvalid /\ c.cands[i].isTargetOrFold
Inside(c, i)   == Rank(c, i) <= c.radiusRank
Admissible(c) == {i \in Idx(c) : /\ c.cands[i].active /\ c.cands[i].defined
                                 /\ Inside(c, i) /\ c.cands[i].passesCheckers
                                 /\ ~Excluded(c, i)}

\* the k closest elements of a set of samples
Closest(c, S, k) == {i \in S : Cardinality({j \in S : Rank(c, j) < Rank(c, i)}) < k}

\* Selection defined by the property.
\*  - per sector: the admissible samples, cut to the nsmax closest (several sectors only);
\*  - if more than nmaxi remain: cycling over the sectors from sector 0, one more slot to each
\*    sector that still has samples, until nmaxi slots are given.  This has the closed form of a
\*    "water filling": every sector gets min(avail, level) slots and the `extra` remaining slots
\*    go to the first sectors (in increasing sector number) that have samples beyond `level`;
\*  - each sector keeps its `quota` closest samples;
\*  - nothing when fewer than nmini samples qualify.
Selected(c) ==
  LET adm == Admissible(c)
      inSector == [s \in Sectors(c) |-> {i \in adm : SectorOf(c, i) = s}]
      perSector == [s \in Sectors(c) |-> IF c.nsect > 1 /\ c.nsmax > 0
                                         THEN Closest(c, inSector[s], c.nsmax) ELSE inSector[s]]
      avail == [s \in Sectors(c) |-> Cardinality(perSector[s])]
      filled(lev) == LET S[s \in 0..c.nsect] == IF s = 0 THEN 0 ELSE S[s - 1] + Min2(avail[s - 1], lev)
                     IN S[c.nsect]
      total == filled(NCand(c))
      level == CHOOSE lev \in 0..NCand(c) : filled(lev) <= c.nmaxi /\ filled(lev + 1) > c.nmaxi
      extra == c.nmaxi - filled(level)
      quota == [s \in Sectors(c) |->
                 IF c.nmaxi <= 0 \/ total <= c.nmaxi THEN avail[s]
                 ELSE Min2(avail[s], level)
                      + (IF avail[s] > level
                            /\ Cardinality({t \in Sectors(c) : t < s /\ avail[t] > level}) < extra
                         THEN 1 ELSE 0)]
  IN IF Cardinality(adm) < c.nmini THEN {}
     ELSE UNION {Closest(c, perSector[s], quota[s]) : s \in Sectors(c)}

InDbOrder(c, S) == SelectSeq([i \in Idx(c) |-> i], LAMBDA i : i \in S)
Definition(c) == InDbOrder(c, Selected(c))

\* A sample that coincides with the target (and is not excluded by the cross-validation) has no
\* angular sector.  The definition then determines the neighbourhood only if it is the same for
\* every sector the sample could be counted in (e.g. when the quotas do not bind).
Coincident(c, i) == ~c.kfold /\ c.cands[i].isTargetOrFold
WithSector(c, i, s) == [c EXCEPT !.cands[i].sector = s]
SectorIndependent(c) ==
  \A i \in Idx(c) : Coincident(c, i) /\ ~c.xvalid /\ c.nsect > 1
     => \A s \in 0..(c.ndir - 1) : Selected(WithSector(c, i, s)) = Selected(c)
CoincidentInSectors(c) == \E i \in Idx(c) : Coincident(c, i) /\ ~c.xvalid /\ c.nsect > 1 /\ i \in Admissible(c)

\* quantities of the definition, for the categories of cases
InSector(c, s) == {i \in Admissible(c) : SectorOf(c, i) = s}
PerSector(c, s) == IF c.nsect > 1 /\ c.nsmax > 0 THEN Closest(c, InSector(c, s), c.nsmax)
                   ELSE InSector(c, s)

\* the special case stated by the property
SingleSectorRule(c) == c.nsect = 1 /\ Cardinality(Admissible(c)) >= c.nmini /\ c.nmaxi > 0
                       => Selected(c) = Closest(c, Admissible(c), c.nmaxi)

-----------------------------------------------------------------------------
(* Transcription of the code (src/Neigh/NeighMoving.cpp, ANeigh.cpp)        *)
(* Arrays indexed by Db position are functions on 1..n; `ranks[i]` holds    *)
(* the sector of sample i or -1, as in the code.                            *)

\* getFlagSector(): ndim > 1 && nsect > 1 (the cases are 2-D or 3-D)
FlagSector(c) == c.nsect > 1

\* ANeigh::_xvalid : coincidence with the target, or same code with the K-fold option
XvalidMasks(c, i) == c.xvalid /\ c.cands[i].isTargetOrFold

\* First loop of _moving over the samples `order` (Db order; or the ball-tree pre-selection);
\* `testActive` is FALSE on the ball-tree path (the code does not test isActive there)
FirstLoop(c, order, testActive) ==
  LET n == NCand(c)
      F[k \in 0..Len(order)] ==
        IF k = 0 THEN [ind |-> <<>>, dst |-> <<>>, ranks |-> [i \in 1..n |-> -1]]
        ELSE LET p == F[k - 1]
                 i == order[k]
                 x == c.cands[i]
             IN IF testActive /\ ~x.active THEN p                 \* isActive
                ELSE IF ~x.defined THEN p                          \* _discardUndefined
                ELSE IF XvalidMasks(c, i) THEN p                   \* _xvalid
                ELSE IF ~x.passesCheckers THEN p                   \* additional checkers
                ELSE IF ~(x.distRank <= c.radiusRank) THEN p       \* _biPtDist->isOK
                ELSE [ind |-> Append(p.ind, i), dst |-> Append(p.dst, x.distRank),
                      ranks |-> [p.ranks EXCEPT ![i] = IF FlagSector(c) THEN SectorOf(c, i) ELSE 0]]
  IN F[Len(order)]

\* "_movingDst[isel] += distmax * isel * eps" then VH::arrangeInPlace: the order by the pair
\* (distance, isel), the second component only deciding between equal distances
SortedInd(ind, dst) ==
  LET pos == SortSeq([k \in 1..Len(ind) |-> k],
                     LAMBDA a, b : dst[a] < dst[b] \/ (dst[a] = dst[b] /\ a < b))
  IN [k \in 1..Len(ind) |-> ind[pos[k]]]

\* _movingSectorNsmax
SectorNsmax(c, ind, ranks0) ==
  LET nsel == Len(ind)
      RECURSIVE Inner(_, _, _, _)
      Inner(isect, i, rk, nang) ==
        IF i > nsel THEN rk
        ELSE LET j == ind[i] IN
             IF rk[j] # isect THEN Inner(isect, i + 1, rk, nang)
             ELSE IF nang < c.nsmax THEN Inner(isect, i + 1, rk, nang + 1)
             ELSE Inner(isect, i + 1, [rk EXCEPT ![j] = -1], nang)
      RECURSIVE Outer(_, _)
      Outer(isect, rk) == IF isect >= c.nsect THEN rk ELSE Outer(isect + 1, Inner(isect, 1, rk, 0))
  IN Outer(0, ranks0)

\* _movingSelect
MovingSelect(c, ind, ranks0) ==
  IF c.nmaxi <= 0 THEN ranks0
  ELSE
  LET nsel == Len(ind)
      nsect == c.nsect
      \* count the samples per sector
      Cnt[i \in 0..nsel] ==
        IF i = 0 THEN [n |-> [s \in 0..(nsect - 1) |-> 0], number |-> 0]
        ELSE LET p == Cnt[i - 1]
                 isect == ranks0[ind[i]]
             IN IF isect < 0 THEN p
                ELSE [n |-> [p.n EXCEPT ![isect] = @ + 1], number |-> p.number + 1]
      movingNsect == Cnt[nsel].n
  IN IF Cnt[nsel].number < c.nmaxi THEN ranks0
     ELSE
     LET \* "while (number < nmaxi) for (isect...) { if full continue; Isect++; number++; if (number >= nmaxi) break; }"
         RECURSIVE WhileLoop(_, _), ForLoop(_, _, _)
         WhileLoop(I, number) == IF number < c.nmaxi THEN ForLoop(I, number, 0) ELSE I
         ForLoop(I, number, s) ==
           IF s >= nsect THEN WhileLoop(I, number)
           ELSE IF I[s] >= movingNsect[s] THEN ForLoop(I, number, s + 1)
           ELSE LET I2 == [I EXCEPT ![s] = @ + 1]
                IN IF number + 1 >= c.nmaxi THEN WhileLoop(I2, number + 1)     \* break
                   ELSE ForLoop(I2, number + 1, s + 1)
         movingIsect == WhileLoop([s \in 0..(nsect - 1) |-> 0], 0)
         \* discard the data beyond the admissible rank per sector
         RECURSIVE Inner(_, _, _, _)
         Inner(isect, i, rk, number) ==
           IF i > nsel THEN rk
           ELSE LET j == ind[i]
                    jsect == rk[j]
                IN IF jsect < 0 \/ isect # jsect THEN Inner(isect, i + 1, rk, number)
                   ELSE IF number + 1 > movingIsect[isect]
                        THEN Inner(isect, i + 1, [rk EXCEPT ![j] = -1], number + 1)
                        ELSE Inner(isect, i + 1, rk, number + 1)
         RECURSIVE Outer(_, _)
         Outer(isect, rk) ==
           IF isect >= nsect THEN rk
           ELSE IF movingIsect[isect] >= movingNsect[isect] THEN Outer(isect + 1, rk)
           ELSE Outer(isect + 1, Inner(isect, 1, rk, 0))
     IN Outer(0, ranks0)

\* ANeigh::_neighCompress
Compress(c, ranks) == SelectSeq([i \in Idx(c) |-> i], LAMBDA i : ranks[i] >= 0)

\* _moving + getNeigh.  `liveSecondTest` = TRUE gives the variant in which the second test of
\* nmini (after the per-sector cut) would see the reduced count; in the code `nsel` is passed by
\* value to _movingSectorNsmax, so that this test repeats the first one (liveSecondTest = FALSE).
MovingOn(c, order, testActive, liveSecondTest) ==
  IF NCand(c) < c.nmini THEN <<>>                               \* early test on the raw count
  ELSE
  LET fl == FirstLoop(c, order, testActive)
      nsel == Len(fl.ind)
  IN IF nsel < c.nmini THEN <<>>
     ELSE
     LET ind == SortedInd(fl.ind, fl.dst)
         cut == FlagSector(c) /\ c.nsmax > 0
         r1 == IF cut THEN SectorNsmax(c, ind, fl.ranks) ELSE fl.ranks
         nsel2 == IF liveSecondTest THEN Cardinality({i \in Idx(c) : r1[i] >= 0}) ELSE nsel
     IN IF cut /\ nsel2 < c.nmini THEN <<>>
        ELSE Compress(c, MovingSelect(c, ind, r1))

DbOrder(c) == [i \in Idx(c) |-> i]
Algorithm(c) == MovingOn(c, DbOrder(c), TRUE, FALSE)
AlgorithmLiveSecondTest(c) == MovingOn(c, DbOrder(c), TRUE, TRUE)

-----------------------------------------------------------------------------
(* Ball-tree search.  euc[i] = key of the EUCLIDEAN distance of sample i to *)
(* the target (any integers with the same order; all distinct).  The tree   *)
(* holds every sample of the Db (masked ones included).                     *)

EucOrder(c, euc) == SortSeq([i \in Idx(c) |-> i], LAMBDA a, b : euc[a] < euc[b])

\* Euclidean order of the samples that the cross-validation does not exclude
EucOrderKept(c, euc) == SelectSeq(EucOrder(c, euc), LAMBDA i : ~Excluded(c, i))

\* side condition stated by the properties C06/C04: the nmaxi Euclidean-nearest samples - the
\* target itself / its fold, which the cross-validation excludes, left aside - are all admissible
\* (all of them when there are fewer than nmaxi).  The parameters must be consistent
\* (nmini <= nmaxi): a search that examines nmaxi samples only cannot know whether nmini qualify.
BallSide(c, euc) ==
  /\ c.nmaxi >= 1 /\ c.nmini <= c.nmaxi
  /\ LET o == EucOrderKept(c, euc)
         adm == Admissible(c)
     IN \A k \in 1..Min2(c.nmaxi, Len(o)) : o[k] \in adm

\* what the code does: Ball::getIndices(target, MIN(nmaxi, nech)) = the nmaxi nearest samples of
\* the whole Db (masked ones and the target itself included) in increasing Euclidean distance; the
\* candidate loop then runs over them only (without the isActive test).
\* (If gstlearn adopts the repair proposed for the known finding C06-ball-xvalid-fewer - asking for
\* nmaxi + 1 samples in leave-one-out mode, nmaxi + size of the fold in K-fold mode - the length
\* of this sub-sequence has to follow.)
BallEligible(c, euc) == SubSeq(EucOrder(c, euc), 1, Min2(c.nmaxi, NCand(c)))
BallAlgorithm(c, euc) == MovingOn(c, BallEligible(c, euc), FALSE, FALSE)
\* TRUE when the pre-selection contains a sample that the cross-validation excludes
BallHoldsExcluded(c, euc) == \E k \in 1..Len(BallEligible(c, euc)) : Excluded(c, BallEligible(c, euc)[k])

\* why the pre-selection (result `model`) differs from the definition `def` although the side
\* condition holds.  "xvalid": the pre-selection spends slots on the samples that the
\* cross-validation then removes (pre-selecting the nmaxi nearest of the others gives the definition)
BallCause(c, euc, model, def) ==
  LET kept == EucOrderKept(c, euc)
      eligKept == SubSeq(kept, 1, Min2(c.nmaxi, Len(kept)))
  IN IF model = def THEN "none"
     ELSE IF MovingOn(c, eligKept, FALSE, FALSE) = def THEN "xvalid"
     ELSE IF RangeOf(eligKept) # Closest(c, {i \in Idx(c) : ~Excluded(c, i)}, c.nmaxi) THEN "metric"
     ELSE IF c.nsect > 1 THEN "sectors"
     ELSE "other"

-----------------------------------------------------------------------------
(* Categories of a case (vacuity control of the conformance runs)           *)

Categories(c) ==
  LET adm == Admissible(c)
      sel == Selected(c)
      nadm == Cardinality(adm)
      some(P(_)) == \E i \in Idx(c) : P(i)
      cut == c.nsect > 1 /\ c.nsmax > 0
      per == [s \in Sectors(c) |-> PerSector(c, s)]
      total == LET S[s \in 0..c.nsect] == IF s = 0 THEN 0 ELSE S[s - 1] + Cardinality(per[s - 1]) IN S[c.nsect]
      over == c.nmaxi > 0 /\ total > c.nmaxi /\ nadm >= c.nmini
  IN [ inactive   |-> some(LAMBDA i : ~c.cands[i].active),
       undefined  |-> some(LAMBDA i : ~c.cands[i].defined),
       checker    |-> some(LAMBDA i : ~c.cands[i].passesCheckers),
       outside    |-> some(LAMBDA i : ~Inside(c, i)),
       xvalidExcl |-> some(LAMBDA i : Excluded(c, i) /\ ~c.kfold),
       kfoldExcl  |-> some(LAMBDA i : Excluded(c, i) /\ c.kfold),
       flagKept   |-> some(LAMBDA i : c.cands[i].isTargetOrFold /\ i \in sel),
       nminiEmpty |-> nadm < c.nmini /\ adm # {},
       nsmaxCut   |-> cut /\ \E s \in Sectors(c) : per[s] # InSector(c, s),
       quotaCut   |-> c.nsect > 1 /\ over,
       unevenQuota |-> c.nsect > 1 /\ over
                       /\ \E s, t \in Sectors(c) : Cardinality(per[s]) > Cardinality(sel \cap per[s])
                                                   /\ Cardinality(sel \cap per[t]) > Cardinality(sel \cap per[s]),
       singleCut  |-> c.nsect = 1 /\ over,
       allKept    |-> sel = adm /\ adm # {},
       reordered  |-> \E i, j \in Idx(c) : i < j /\ Rank(c, i) > Rank(c, j),
       coincidentSectors |-> CoincidentInSectors(c),
       coincidentSectorsCut |-> CoincidentInSectors(c) /\ sel # adm /\ sel # {},
       secondTestDead |-> cut /\ AlgorithmLiveSecondTest(c) # InDbOrder(c, sel) ]
=============================================================================
