------------------------------ MODULE CovCache ------------------------------
(***************************************************************************)
(* The per-object cache of the optimised covariance evaluation (ACov /       *)
(* CovAniso / ACovAnisoList: samples projected in the anisotropy frame,      *)
(* "_p1As", filled by optimizationPreProcess and cleared by                   *)
(* optimizationPostProcess), property C10: the result of an evaluation        *)
(* depends on its arguments only, whatever was called before on the same      *)
(* Model object - including calls that failed.                                *)
(*                                                                         *)
(* Transcription: each basic structure APPENDS the projected samples of the  *)
(* Db it is given to its list (CovAniso::_optimizationPreProcess has no       *)
(* clear), the evaluation then addresses the list by sample index, and the    *)
(* normal exit clears the list.  EarlyReturnCleans says whether the exits     *)
(* taken when no sample is valid clear it too (FALSE in the tree before the   *)
(* repair recorded in KNOWN_FINDINGS.json: TLC then exhibits the history      *)
(* "failing call on A; call on B" reading the points of A).                   *)
(***************************************************************************)
EXTENDS Integers, Sequences, FiniteSets, TLC, Json

CONSTANTS MaxLen, EarlyReturnCleans

Dbs == {"A", "B"}           \* two data bases with different coordinates (same sample count)
Kinds == {"optim", "symoptim", "plain", "kriging"}

VARIABLES pts,      \* sequence of Db ids whose projected samples are in the list
          hist, lastReads
vars == <<pts, hist, lastReads>>

Init == pts = <<>> /\ hist = <<>> /\ lastReads = "none"

\* an evaluation with the optimised path on db; valid = some sample is usable
EvalOptim(kind, db, valid) ==
  /\ Len(hist) < MaxLen
  /\ LET filled == Append(pts, db) IN          \* pre-process appends
     IF valid
     THEN /\ lastReads' = filled[1]             \* the list is addressed by sample index: first block
          /\ pts' = <<>>                        \* post-process on the normal exit
     ELSE /\ lastReads' = "nothing"
          /\ pts' = IF EarlyReturnCleans THEN <<>> ELSE filled
  /\ hist' = Append(hist, [op |-> kind, db |-> db, valid |-> valid])

EvalPlain(db) ==
  /\ Len(hist) < MaxLen
  /\ lastReads' = db
  /\ UNCHANGED pts
  /\ hist' = Append(hist, [op |-> "plain", db |-> db, valid |-> TRUE])

\* a complete kriging run (pre-process at isReady, post-process at conclusion)
Kriging(db) ==
  /\ Len(hist) < MaxLen
  /\ lastReads' = Append(pts, db)[1]
  /\ pts' = <<>>
  /\ hist' = Append(hist, [op |-> "kriging", db |-> db, valid |-> TRUE])

Next == \/ \E k \in {"optim", "symoptim"}, db \in Dbs, v \in BOOLEAN : EvalOptim(k, db, v)
        \/ \E db \in Dbs : EvalPlain(db) \/ Kriging(db)
Spec == Init /\ [][Next]_vars

\* C10: whatever the history, an evaluation reads the samples of the Db it was given
ReadsOwnDb == hist = <<>> \/ lastReads \in {"nothing", hist[Len(hist)].db}
EmitScripts == hist = <<>> \/ PrintT(ToJson([hist |-> hist, predicted_ok |-> ReadsOwnDb]))
=============================================================================
