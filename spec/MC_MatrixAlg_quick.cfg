SPECIFICATION Spec
CONSTANTS
  MaxLen = 1
  InitLevel = "full"
  OpsLevel = "all"
  Limit = 20000
  Emit = FALSE
INVARIANT Inv_TransposeInvolution Inv_ProductTranspose Inv_IdentityNeutral Inv_MatVecIsProduct Inv_Associative
INVARIANT Inv_Congruence Inv_Scaling Inv_Sampling Inv_Inverse Inv_Rational
PROPERTY SolveLaw InvertLaw KronLaw
CHECK_DEADLOCK FALSE
