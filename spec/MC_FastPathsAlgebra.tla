---------------------- MODULE MC_FastPathsAlgebra ----------------------
(* Exhaustive check of the block identities of FastPathsAlgebra over GF(P):     *)
(* one state per (symmetric Sigma, variant of the derived blocks, shape (b, r)). *)
(* Stage 0 states fix the first entry of Sigma, the variant and the shape; the   *)
(* Next action chooses the remaining entries (so that TLC's workers share the    *)
(* instances).  The identities are invariants of the stage 1 states.  Each       *)
(* stage 1 state prints which side conditions it satisfies (vacuity counts).     *)
EXTENDS FastPathsAlgebra, Json

VARIABLE inst
Rest == SymIdx(NEQ) \ {<<1, 1>>}
Init == \E a \in 0..(P - 1), k \in 1..Variants, sh \in Shapes :
           inst = [stage |-> 0, f |-> [p \in {<<1, 1>>} |-> a], k |-> k, b |-> sh[1], r |-> sh[2]]
Next == /\ inst.stage = 0
        /\ \E g \in [Rest -> 0..(P - 1)] :
              inst' = [inst EXCEPT !.stage = 1, !.f = [p \in SymIdx(NEQ) |-> IF p = <<1, 1>> THEN inst.f[p] ELSE g[p]]]
Spec == Init /\ [][Next]_inst

I == Derived(NEQ, inst.b, inst.r, inst.f, inst.k)
Full == inst.stage = 1

Inv_PrimalUK == Full => IdPrimalUK(I)
Inv_DualUK   == Full => IdDualUK(I)
Inv_DualSK   == Full => IdDualSK(I)
Inv_Bayes    == Full => IdBayes(I)
ColCokFails  == IF inst.r < 2 THEN {}
                ELSE UNION {IdColCokFails(I, <<q>>, sk) \X {sk} : q \in 1..inst.r, sk \in BOOLEAN}
Inv_ColCok   == Full => (ColCokFails = {} \/ PrintT(<<"colcok", ColCokFails>>) = FALSE)
Inv_Xvalid   == Full => \A E \in (SUBSET (1..NEQ)) \ {{}, 1..NEQ} : \A sk \in BOOLEAN :
                   (sk \/ NEQ - Cardinality(E) >= inst.b) => IdXvalid(I, E, sk)
Inv_Shortcut == Full /\ inst.r = 1 => \A i \in 1..NEQ : \A sk \in BOOLEAN : IdShortcut(I, i, sk)

\* vacuity: which side conditions hold in this instance (printed once per stage 1 state)
B2I(x) == IF x THEN 1 ELSE 0
Stats ==
  LET Si == MInv(I.S)
      uk == Si # Sing /\ Invertible(StdLhsUK(I.S, I.X)) /\ Invertible(MMul(Tr(I.X), MMul(Si, I.X)))
      bay == uk /\ Invertible(I.PC) /\ RefBayes(I.S, I.X, I.S0, I.X0, I.Z, I.S00, I.PM, I.PC).ok
                /\ Invertible(MAdd(MMul(Tr(I.X), MMul(Si, I.X)), MInv(I.PC)))
      cck == inst.r >= 2 /\ uk /\ RefColCok(I.S, I.X, I.S0, I.X0, I.Z, I.S00, I.Zp, <<1>>, FALSE).ok
                /\ FormColCok(I.S, I.X, I.S0, I.X0, I.Z, I.S00, I.Zp, <<1>>, FALSE).ok
      xv == uk /\ RefXvalid(I.S, I.X, I.Z, {1}, FALSE).ok /\ ShortcutXvalid(I.S, I.X, I.Z, 1, FALSE).ok
  IN [sk |-> B2I(Si # Sing), uk |-> B2I(uk), bayes |-> B2I(bay), colcok |-> B2I(cck), xvalid |-> B2I(xv)]
Emit == ~Full \/ PrintT(ToJson(Stats))
=============================================================================
