---------------------------- MODULE FitContract ----------------------------
(***************************************************************************)
(* Property C17: automatic model fitting always returns a usable,          *)
(* constraint-abiding model.                                               *)
(*                                                                         *)
(* The fitting procedure (Model::fit, Model::fitFromCovIndices,            *)
(* Model::fitFromVMap, ModelOptimSillsVario::fit, ModelOptimVario::fit) is *)
(* a BLACK-BOX TRANSITION  request --> outcome  with a CONTRACT.  This     *)
(* module specifies                                                        *)
(*   1. the REQUEST SPACE: entry point, number of variables, geometry of   *)
(*      the experimental input (directions or variogram map), recipe of    *)
(*      the experimental values, pattern of empty lags, list of basic      *)
(*      structures, constraint set, Option_VarioFit flags, Option_AutoFit  *)
(*      variants.  Requests are built by ACTIONS from a few base requests  *)
(*      by varying up to MaxVary dimensions (all values of every dimension *)
(*      with every number of variables; all PAIRS of values for the pairs  *)
(*      of dimensions listed in PairDims); the option flags are in         *)
(*      addition combined by a pairwise covering array (checked below).    *)
(*   2. the CONTRACT  Violations(request, outcome) = {}  : the post-       *)
(*      condition of the property, clause by clause, over the integerised  *)
(*      projection of the returned model that the harness records.  The    *)
(*      tolerances are the constants Tol* below.                           *)
(* The optimiser's numerics are NOT modelled and the quality of the fit is *)
(* NOT asserted: a call may always report failure.                         *)
(***************************************************************************)
EXTENDS Integers, Sequences, FiniteSets, TLC, SequencesExt

CONSTANTS Rich,       \* TRUE: the larger value sets of the thorough tier
          VaryOf,     \* base variant name -> number of dimensions that may be varied at once (0, 1 or 2)
          PairDims    \* set of two-element sets of dimension names that may be varied together

-----------------------------------------------------------------------------
(* Tolerances (all values are integers logged by the harness):              *)
(*   sills, ranges, angles, parameters ... in micro-units (1e-6)            *)
(*   relative minimum eigenvalue of a sill matrix in units of 1e-9          *)
(*   relative departure from isotropy in units of 1e-9                      *)
(*   rotation matrix entries in units of 1e-6                               *)
(*   relative difference after save + reload in units of 1e-12              *)
TolEig      == 10        \* min eigenvalue >= -1e-8 * trace  counts as non-negative
TolIso      == 1000      \* ranges equal to 1e-6 relative   count as equal
TolRot      == 20        \* rotation entries equal to 2e-5  count as equal
TolReload   == 1000      \* reloaded model equal to 1e-9 relative
TolStrictPD == 1000000   \* total sill matrix with min eigenvalue > 1e-3 * trace: cokriging must work
TolConsAbs  == 2         \* a constraint met to 2e-6 absolute ...
TolConsRel  == 1000000   \* ... + 1e-6 of the bound is met
NaNMark     == 2147483647

-----------------------------------------------------------------------------
(* Vocabulary                                                               *)
Entries  == {"fit", "fitcov", "vmap", "sills", "optim"}
Recipes  == {"exact", "noisy", "nugget", "linear", "negcross", "perfcorr", "incoherent"}
MultiOnly == {"negcross", "perfcorr", "incoherent"}
Empties  == {"none", "first", "middle", "last", "dir", "sparse", "few"}

\* geometry of the directional variograms: <<azimuth, dip>> in degrees
Geom(g) ==
  CASE g = "line1"  -> [ndim |-> 1, dirs |-> << <<0, 0>> >>]
    [] g = "omni2"  -> [ndim |-> 2, dirs |-> << <<0, 0>> >>]
    [] g = "ortho2" -> [ndim |-> 2, dirs |-> << <<0, 0>>, <<90, 0>> >>]
    [] g = "rot2"   -> [ndim |-> 2, dirs |-> << <<30, 0>>, <<120, 0>> >>]
    [] g = "skew2"  -> [ndim |-> 2, dirs |-> << <<0, 0>>, <<60, 0>> >>]
    [] g = "tri2"   -> [ndim |-> 2, dirs |-> << <<0, 0>>, <<60, 0>>, <<120, 0>> >>]
    [] g = "quad2"  -> [ndim |-> 2, dirs |-> << <<20, 0>>, <<65, 0>>, <<110, 0>>, <<155, 0>> >>]
    [] g = "xyz3"   -> [ndim |-> 3, dirs |-> << <<0, 0>>, <<90, 0>>, <<0, 90>> >>]
    [] g = "hor3"   -> [ndim |-> 3, dirs |-> << <<0, 0>>, <<90, 0>> >>]
    \* a single horizontal direction: nothing identifies the second range, the fit locks it to the first one
    \* (lock_iso2d is then in force, requested or not)
    [] g = "xz3"    -> [ndim |-> 3, dirs |-> << <<0, 0>>, <<0, 90>> >>]
    [] g = "four3"  -> [ndim |-> 3, dirs |-> << <<0, 0>>, <<60, 0>>, <<120, 0>>, <<0, 90>> >>]
    [] g = "vfirst3" -> [ndim |-> 3, dirs |-> << <<0, 90>>, <<0, 0>>, <<90, 0>> >>]
    [] g = "obl3"   -> [ndim |-> 3, dirs |-> << <<0, 0>>, <<90, 0>>, <<0, 90>>, <<45, 30>> >>]
Geoms == {"line1", "omni2", "ortho2", "rot2", "skew2", "tri2", "quad2", "xyz3", "hor3", "xz3", "four3", "vfirst3", "obl3"}
\* the variogram map ignores the directions: one geometry per space dimension
VMapGeoms == {"ortho2", "four3"}

\* the 'true' model behind the experimental values: anisotropy ratio, rotation (degrees), nested structures
Truth(t) ==
  CASE t = "iso"      -> [ratio |-> 1, angle |-> 0,  nest |-> 2, nu |-> 0]
    [] t = "simple"   -> [ratio |-> 1, angle |-> 0,  nest |-> 1, nu |-> 0]
    [] t = "aniso"    -> [ratio |-> 3, angle |-> 0,  nest |-> 2, nu |-> 0]
    [] t = "anisorot" -> [ratio |-> 3, angle |-> 40, nest |-> 1, nu |-> 0]
    \* nugget + one MATERN (K-Bessel) structure of shape parameter nu / 1000: a smooth one (3: well above every
    \* bound put on the parameter) and a rough one (0.3: well below)
    [] t = "matern-hi" -> [ratio |-> 1, angle |-> 0, nest |-> 1, nu |-> 3000]
    [] t = "matern-lo" -> [ratio |-> 1, angle |-> 0, nest |-> 1, nu |-> 300]
Truths == {"iso", "simple", "aniso", "anisorot", "matern-hi", "matern-lo"}

\* lists of basic structures (ECov keys; MATERN is the K-Bessel structure with its shape parameter)
TypeLists ==
  { <<"NUGGET">>, <<"SPHERICAL">>, <<"EXPONENTIAL">>, <<"GAUSSIAN">>, <<"CUBIC">>, <<"LINEAR">>, <<"MATERN">>,
    <<"NUGGET", "SPHERICAL">>, <<"NUGGET", "EXPONENTIAL">>, <<"NUGGET", "GAUSSIAN">>, <<"NUGGET", "LINEAR">>,
    <<"NUGGET", "MATERN">>, <<"SPHERICAL", "SPHERICAL">>, <<"SPHERICAL", "EXPONENTIAL">>,
    <<"NUGGET", "SPHERICAL", "EXPONENTIAL">>, <<"NUGGET", "CUBIC", "SPHERICAL">>, <<"NUGGET", "SPHERICAL", "SPHERICAL">>,
    <<"NUGGET", "MATERN", "EXPONENTIAL">> }
  \cup (IF Rich THEN
  { <<"NUGGET", "CUBIC">>, <<"EXPONENTIAL", "EXPONENTIAL">>, <<"GAUSSIAN", "CUBIC">>, <<"LINEAR", "SPHERICAL">>,
    <<"EXPONENTIAL", "MATERN">>, <<"NUGGET", "NUGGET">>, <<"SPHERICAL", "EXPONENTIAL", "GAUSSIAN">>,
    <<"NUGGET", "LINEAR", "SPHERICAL">>, <<"NUGGET", "GAUSSIAN", "GAUSSIAN">>, <<"NUGGET", "NUGGET", "SPHERICAL">>,
    <<"CUBIC", "MATERN", "LINEAR">>, <<"SPHERICAL", "SPHERICAL", "SPHERICAL">> } ELSE {})

IntrinsicOnly(ty) == ty = "LINEAR"                  \* valid as a variogram only (what keep_intstr calls an intrinsic structure)
HasRange(ty) == ty \notin {"NUGGET", "LINEAR"}     \* a range is a fitted parameter of the structure
HasParam(ty) == ty = "MATERN"
RangedIdx(types) == {i \in 1..Len(types) : HasRange(types[i])}
ParamIdx(types)  == {i \in 1..Len(types) : HasParam(types[i])}
MinOf(S) == CHOOSE x \in S : \A y \in S : x <= y
MaxOf(S) == CHOOSE x \in S : \A y \in S : x >= y

-----------------------------------------------------------------------------
(* Constraint sets.  An abstract item designates its structure by a        *)
(* selector resolved against the list of structures:                       *)
(*   "first"  the first structure; "franged" / "lranged" the first / last  *)
(*   structure with a range; "param" the first structure with a shape      *)
(*   parameter.  Values are in micro-units; the 'true' ranges are 35 and   *)
(*   80, the 'true' sills of the first variable add up to 1.               *)
It(sel, elem, iv1, iv2, type, val) == [sel |-> sel, elem |-> elem, iv1 |-> iv1, iv2 |-> iv2, type |-> type, val |-> val]
M == 1000000
ConsSet(c) ==
  CASE c = "none"           -> <<>>
    \* ranges (direction 0 = main axis)
    [] c = "r0-up-out"      -> << It("franged", "RANGE", 0, 0, "UPPER", 20 * M) >>
    [] c = "r0-up-in"       -> << It("franged", "RANGE", 0, 0, "UPPER", 60 * M) >>
    [] c = "r0-lo-out"      -> << It("franged", "RANGE", 0, 0, "LOWER", 55 * M) >>
    [] c = "r0-lo-in"       -> << It("franged", "RANGE", 0, 0, "LOWER", 10 * M) >>
    [] c = "r0-eq"          -> << It("franged", "RANGE", 0, 0, "EQUAL", 25 * M) >>
    [] c = "r0-eq-true"     -> << It("franged", "RANGE", 0, 0, "EQUAL", 35 * M) >>
    [] c = "r0-box"         -> << It("franged", "RANGE", 0, 0, "LOWER", 20 * M), It("franged", "RANGE", 0, 0, "UPPER", 30 * M) >>
    [] c = "r0-box-empty"   -> << It("franged", "RANGE", 0, 0, "LOWER", 50 * M), It("franged", "RANGE", 0, 0, "UPPER", 30 * M) >>
    [] c = "rl-up-out"      -> << It("lranged", "RANGE", 0, 0, "UPPER", 30 * M) >>
    [] c = "rl-lo-far"      -> << It("lranged", "RANGE", 0, 0, "LOWER", 150 * M) >>
    [] c = "r1-up-out"      -> << It("franged", "RANGE", 1, 0, "UPPER", 8 * M) >>
    [] c = "r1-lo-out"      -> << It("franged", "RANGE", 1, 0, "LOWER", 60 * M) >>
    [] c = "r1-eq"          -> << It("franged", "RANGE", 1, 0, "EQUAL", 20 * M) >>
    [] c = "rl1-up-out"     -> << It("lranged", "RANGE", 1, 0, "UPPER", 9 * M) >>
    [] c = "r2-up-out"      -> << It("franged", "RANGE", 2, 0, "UPPER", 6 * M) >>
    [] c = "r2-eq"          -> << It("franged", "RANGE", 2, 0, "EQUAL", 12 * M) >>
    [] c = "r01-eq"         -> << It("franged", "RANGE", 0, 0, "EQUAL", 30 * M), It("franged", "RANGE", 1, 0, "EQUAL", 15 * M) >>
    \* sills
    [] c = "s0-up"          -> << It("first", "SILL", 0, 0, "UPPER", 50000) >>
    [] c = "s0-lo"          -> << It("first", "SILL", 0, 0, "LOWER", 300000) >>
    [] c = "s0-eq"          -> << It("first", "SILL", 0, 0, "EQUAL", 400000) >>
    [] c = "sr-lo"          -> << It("franged", "SILL", 0, 0, "LOWER", 30000) >>
    [] c = "sr-up"          -> << It("franged", "SILL", 0, 0, "UPPER", 200000) >>
    [] c = "sr-eq"          -> << It("franged", "SILL", 0, 0, "EQUAL", 400000) >>
    [] c = "sl-eq"          -> << It("lranged", "SILL", 0, 0, "EQUAL", 250000) >>
    [] c = "s-neg"          -> << It("first", "SILL", 0, 0, "EQUAL", -100000) >>
    \* two bounds on the same sill: a box above every attainable optimum (the lower bound binds), below it (the
    \* upper bound binds), in both declaration orders and with a duplicated item
    [] c = "s0-box-high"    -> << It("first", "SILL", 0, 0, "LOWER", 1500000), It("first", "SILL", 0, 0, "UPPER", 2 * M) >>
    [] c = "s0-box-high-rev" -> << It("first", "SILL", 0, 0, "UPPER", 2 * M), It("first", "SILL", 0, 0, "LOWER", 1500000) >>
    [] c = "s0-box-high-dup" -> << It("first", "SILL", 0, 0, "LOWER", 1500000), It("first", "SILL", 0, 0, "UPPER", 2 * M),
                                   It("first", "SILL", 0, 0, "LOWER", 1500000), It("first", "SILL", 0, 0, "UPPER", 2 * M) >>
    [] c = "s0-box-low"     -> << It("first", "SILL", 0, 0, "LOWER", 10000), It("first", "SILL", 0, 0, "UPPER", 30000) >>
    [] c = "s0-box-low-rev" -> << It("first", "SILL", 0, 0, "UPPER", 30000), It("first", "SILL", 0, 0, "LOWER", 10000) >>
    [] c = "sr-box-high"    -> << It("lranged", "SILL", 0, 0, "LOWER", 1200000), It("lranged", "SILL", 0, 0, "UPPER", 1800000) >>
    [] c = "sr-box-high-rev" -> << It("lranged", "SILL", 0, 0, "UPPER", 1800000), It("lranged", "SILL", 0, 0, "LOWER", 1200000) >>
    [] c = "r0-box-rev"     -> << It("franged", "RANGE", 0, 0, "UPPER", 30 * M), It("franged", "RANGE", 0, 0, "LOWER", 20 * M) >>
    [] c = "p-box-rev"      -> << It("param", "PARAM", 0, 0, "UPPER", 900000), It("param", "PARAM", 0, 0, "LOWER", 600000) >>
    [] c = "s11-up"         -> << It("first", "SILL", 1, 1, "UPPER", 100000) >>
    [] c = "s10-eq"         -> << It("franged", "SILL", 1, 0, "EQUAL", 0) >>
    \* rotation angle (about Z)
    [] c = "a-eq"           -> << It("franged", "ANGLE", 0, 0, "EQUAL", 30 * M) >>
    [] c = "a-eq0"          -> << It("franged", "ANGLE", 0, 0, "EQUAL", 0) >>
    [] c = "a-box"          -> << It("franged", "ANGLE", 0, 0, "LOWER", 10 * M), It("franged", "ANGLE", 0, 0, "UPPER", 50 * M) >>
    [] c = "a-lo"           -> << It("franged", "ANGLE", 0, 0, "LOWER", 20 * M) >>
    [] c = "al-eq"          -> << It("lranged", "ANGLE", 0, 0, "EQUAL", 70 * M) >>
    \* shape parameter
    [] c = "p-eq"           -> << It("param", "PARAM", 0, 0, "EQUAL", M) >>
    [] c = "p-lo"           -> << It("param", "PARAM", 0, 0, "LOWER", 1500000) >>
    [] c = "p-up"           -> << It("param", "PARAM", 0, 0, "UPPER", 500000) >>
    [] c = "p-up2"          -> << It("param", "PARAM", 0, 0, "UPPER", 1200000) >>
    [] c = "p-eq07"         -> << It("param", "PARAM", 0, 0, "EQUAL", 700000) >>
    [] c = "p-lo08"         -> << It("param", "PARAM", 0, 0, "LOWER", 800000) >>
    [] c = "p-box"          -> << It("param", "PARAM", 0, 0, "LOWER", 600000), It("param", "PARAM", 0, 0, "UPPER", 900000) >>
    \* combinations shown in the documentation (courses 04_Variography, 09_SPDE; demo Tuto_2D)
    [] c = "doc-r-up-s-lo"  -> << It("franged", "RANGE", 0, 0, "UPPER", 20 * M), It("franged", "SILL", 0, 0, "LOWER", 30000) >>
    [] c = "doc-r-eq-s-eq"  -> << It("franged", "RANGE", 0, 0, "EQUAL", 100 * M), It("franged", "SILL", 0, 0, "EQUAL", 400000) >>
    [] c = "doc-spde"       -> << It("first", "SILL", 0, 0, "UPPER", 100000), It("param", "PARAM", 0, 0, "EQUAL", M),
                                  It("param", "RANGE", 0, 0, "LOWER", 20 * M), It("param", "RANGE", 0, 0, "UPPER", 50 * M) >>
    [] c = "r-a-eq"         -> << It("franged", "RANGE", 0, 0, "EQUAL", 40 * M), It("franged", "RANGE", 1, 0, "EQUAL", 10 * M),
                                  It("franged", "ANGLE", 0, 0, "EQUAL", 25 * M) >>
ConsQuick == {"r0-up-out", "r0-up-in", "r0-lo-out", "r0-eq", "r0-box", "r0-box-empty", "rl-up-out", "r1-up-out", "r1-lo-out",
              "r1-eq", "rl1-up-out", "r2-up-out", "s0-up", "s0-lo", "sr-lo", "sr-eq", "s-neg", "s10-eq", "a-eq", "a-box",
              "al-eq", "p-eq", "p-lo", "p-up", "doc-r-up-s-lo", "doc-r-eq-s-eq", "doc-spde", "r-a-eq",
              "s0-box-high", "s0-box-high-rev", "s0-box-high-dup", "s0-box-low", "s0-box-low-rev", "sr-box-high", "sr-box-high-rev",
              "r0-box-rev", "p-box-rev", "p-box", "p-up2", "p-eq07", "p-lo08"}
ConsRich  == {"r0-lo-in", "r0-eq-true", "rl-lo-far", "r2-eq", "r01-eq", "s0-eq", "sr-up", "sl-eq", "s11-up", "a-eq0", "a-lo"}
ConsNames == ConsQuick \cup (IF Rich THEN ConsRich ELSE {})

SelIdx(sel, types) ==           \* 1-based index of the designated structure, 0 when there is none
  CASE sel = "first"   -> 1
    [] sel = "franged" -> IF RangedIdx(types) = {} THEN 0 ELSE MinOf(RangedIdx(types))
    [] sel = "lranged" -> IF RangedIdx(types) = {} THEN 0 ELSE MaxOf(RangedIdx(types))
    [] sel = "param"   -> IF ParamIdx(types) = {} THEN 0 ELSE MinOf(ParamIdx(types))

\* an abstract item makes sense for (types, ndim, nvar)
ItemOk(it, types, ndim, nvar) ==
  LET k == SelIdx(it.sel, types) IN
  /\ k > 0
  /\ it.elem = "RANGE" => HasRange(types[k]) /\ it.iv1 < ndim
  /\ it.elem = "ANGLE" => HasRange(types[k]) /\ ndim >= 2
  /\ it.elem = "PARAM" => HasParam(types[k])
  /\ it.elem = "SILL"  => it.iv1 < nvar /\ it.iv2 < nvar
ConsOk(c, types, ndim, nvar) == \A i \in 1..Len(ConsSet(c)) : ItemOk(ConsSet(c)[i], types, ndim, nvar)
\* the concrete ConsItem list handed to the library (icov is 0-based)
ConsItems(c, types) ==
  [i \in 1..Len(ConsSet(c)) |->
     LET it == ConsSet(c)[i] IN
     [elem |-> it.elem, icov |-> SelIdx(it.sel, types) - 1, iv1 |-> it.iv1, iv2 |-> it.iv2, type |-> it.type, val |-> it.val]]

-----------------------------------------------------------------------------
(* Option_VarioFit: ten flags.  A row is the set of flags that take their   *)
(* NON-default value.                                                      *)
Flags == {"noreduce", "aniso", "rot", "samerot", "rot2d", "no3d", "iso2d", "goulard", "keepint", "intrinsic"}
DefaultOpt == [noreduce |-> FALSE, aniso |-> TRUE, rot |-> TRUE, samerot |-> FALSE, rot2d |-> FALSE, no3d |-> FALSE,
               iso2d |-> FALSE, goulard |-> TRUE, keepint |-> FALSE, intrinsic |-> FALSE]
\* pairwise covering array: flag f is flipped in the rows of PairCol(f) (rows 2..6; row 1 flips nothing).
\* Any two distinct 3-subsets of a 5-set intersect and differ: all four value pairs of any two flags occur.
PairCol(f) ==
  CASE f = "noreduce" -> {2, 3, 4} [] f = "aniso"   -> {2, 3, 5} [] f = "rot"     -> {2, 3, 6} [] f = "samerot"   -> {2, 4, 5}
    [] f = "rot2d"    -> {2, 4, 6} [] f = "no3d"    -> {2, 5, 6} [] f = "iso2d"   -> {3, 4, 5} [] f = "goulard"   -> {3, 4, 6}
    [] f = "keepint"  -> {3, 5, 6} [] f = "intrinsic" -> {4, 5, 6}
PairRow(k) == {f \in Flags : k \in PairCol(f)}
\* extra rows: meaningful conjunctions
ExtraRows == { {"noreduce", "samerot"}, {"rot", "iso2d"}, {"noreduce", "intrinsic"}, {"samerot", "rot2d"}, {"noreduce", "keepint"} }
OptRows == { {f} : f \in Flags } \cup { PairRow(k) : k \in 2..6 } \cup ExtraRows
OptOf(row) == [f \in Flags |-> IF f \in row THEN ~DefaultOpt[f] ELSE DefaultOpt[f]]
PairwiseCovered ==
  \A f \in Flags : \A g \in Flags \ {f} : \A bf \in BOOLEAN : \A bg \in BOOLEAN :
    \E k \in 1..6 : ((k \in PairCol(f)) = bf) /\ ((k \in PairCol(g)) = bg)
ASSUME PairwiseCovered

-----------------------------------------------------------------------------
(* Requests                                                                 *)
Dims == {"entry", "geom", "truth", "recipe", "empty", "types", "cons", "csill", "opt", "wmode", "maxiter"}

BaseOf(variant) ==
  CASE variant = "A" -> [entry |-> "fit", geom |-> "ortho2", truth |-> "iso", recipe |-> "noisy", empty |-> "none",
                         types |-> <<"NUGGET", "SPHERICAL", "EXPONENTIAL">>, cons |-> "none", csill |-> 0, opt |-> {},
                         wmode |-> 2, maxiter |-> -1]
    \* three directions in the plane: anisotropy and rotation are inferred; a LINEAR structure (valid as a
    \* variogram only: what keep_intstr is about) is offered besides the bounded ones
    [] variant = "B" -> [entry |-> "fit", geom |-> "tri2", truth |-> "anisorot", recipe |-> "noisy", empty |-> "none",
                         types |-> <<"NUGGET", "SPHERICAL", "LINEAR">>, cons |-> "none", csill |-> 0, opt |-> {},
                         wmode |-> 2, maxiter |-> -1]
    \* 3-D, one direction per axis: anisotropy without rotation
    [] variant = "C" -> [entry |-> "fit", geom |-> "xyz3", truth |-> "aniso", recipe |-> "noisy", empty |-> "none",
                         types |-> <<"SPHERICAL", "EXPONENTIAL">>, cons |-> "none", csill |-> 0, opt |-> {},
                         wmode |-> 2, maxiter |-> -1]
    \* 3-D, four directions: full 3-D rotation inferred; few iterations (such fits run to the iteration limit)
    [] variant = "D" -> [entry |-> "fit", geom |-> "four3", truth |-> "aniso", recipe |-> "noisy", empty |-> "none",
                         types |-> <<"SPHERICAL", "EXPONENTIAL">>, cons |-> "none", csill |-> 0, opt |-> {},
                         wmode |-> 2, maxiter |-> 30]
    \* 3-D, one horizontal and the vertical direction: the geometry in which lock_iso2d is honoured
    [] variant = "E" -> [entry |-> "fit", geom |-> "xz3", truth |-> "simple", recipe |-> "noisy", empty |-> "none",
                         types |-> <<"NUGGET", "SPHERICAL">>, cons |-> "none", csill |-> 0, opt |-> {},
                         wmode |-> 2, maxiter |-> -1]
    \* a MATERN structure offered to data that are smoother (F) / rougher (G) than every bound put on its shape
    \* parameter: each kind of bound on PARAM binds in one of the two
    [] variant = "F" -> [entry |-> "fit", geom |-> "ortho2", truth |-> "matern-hi", recipe |-> "exact", empty |-> "none",
                         types |-> <<"NUGGET", "MATERN">>, cons |-> "none", csill |-> 0, opt |-> {},
                         wmode |-> 2, maxiter |-> -1]
    [] variant = "G" -> [entry |-> "fit", geom |-> "ortho2", truth |-> "matern-lo", recipe |-> "exact", empty |-> "none",
                         types |-> <<"NUGGET", "MATERN">>, cons |-> "none", csill |-> 0, opt |-> {},
                         wmode |-> 2, maxiter |-> -1]
Variants == DOMAIN VaryOf
\* the bases F and G exist for the constraints on the shape parameter: only these dimensions are varied from them
DimsOf(variant) == IF variant \in {"F", "G"} THEN {"cons", "recipe"} ELSE Dims

Values(d) ==
  CASE d = "entry"   -> Entries
    [] d = "geom"    -> Geoms
    [] d = "truth"   -> Truths
    [] d = "recipe"  -> Recipes
    [] d = "empty"   -> Empties
    [] d = "types"   -> TypeLists
    [] d = "cons"    -> ConsNames \cup {"none"}
    [] d = "csill"   -> {0, M} \cup (IF Rich THEN {2 * M} ELSE {})
    [] d = "opt"     -> OptRows \cup {{}}
    [] d = "wmode"   -> 0..3
    [] d = "maxiter" -> {-1, 0, 1, 3, 30}

NDim(r) == Geom(r.geom).ndim
NDir(r) == Len(Geom(r.geom).dirs)

\* Cost only (no claim): fits that run to the default limit of 1000 iterations with a rotation in 3-D, with
\* the Bessel functions of MATERN under a rotation, or with the constant-sill algorithm on several variables
\* and three structures (or in 3-D) take tens of seconds each; the quick tier leaves them to the thorough tier, where they
\* are run for one variable or (constant sill) as they are.
Slow(r) ==
  \/ r.geom \in {"four3", "obl3"} /\ r.maxiter \notin 0..50 /\ r.entry # "sills"
  \/ (\E i \in 1..Len(r.types) : r.types[i] = "MATERN") /\ (NDir(r) > NDim(r) \/ NDim(r) = 3 \/ r.entry = "vmap")
       /\ r.maxiter \notin 0..50 /\ r.entry # "sills"
  \/ r.csill > 0 /\ r.nvar > 1 /\ (Len(r.types) >= 3 \/ NDim(r) = 3) /\ r.maxiter \notin 0..50 /\ r.entry \in {"fit", "fitcov"}
Affordable(r) == Slow(r) => (Rich /\ (r.nvar = 1 \/ r.csill > 0))

\* requests that make sense (the others are not part of the space)
Valid(r) ==
  /\ r.recipe \in MultiOnly => r.nvar >= 2
  /\ ConsOk(r.cons, r.types, NDim(r), r.nvar)
  /\ r.entry = "vmap" => r.geom \in VMapGeoms
  \* a 3-D map fitted with the default 1000 iterations takes ten minutes of CPU: maps in 3-D come with few iterations
  /\ r.entry = "vmap" /\ NDim(r) = 3 => r.maxiter \in 0..50
  /\ r.entry = "sills" => \A i \in 1..Len(ConsSet(r.cons)) : ConsSet(r.cons)[i].elem = "SILL"
  /\ r.empty = "dir" => (NDir(r) >= 2 \/ r.entry = "vmap")
  /\ r.csill > 0 => \A i \in 1..Len(ConsSet(r.cons)) : ConsSet(r.cons)[i].elem # "SILL"
  /\ Affordable(r)
  \* from the bases F and G only the constraint sets that involve the shape parameter
  /\ r.variant \in {"F", "G"} /\ r.cons # "none" => \E i \in 1..Len(ConsSet(r.cons)) : ConsSet(r.cons)[i].sel = "param"

Request(variant, nvar) == [variant |-> variant, nvar |-> nvar, varied |-> {}] @@ BaseOf(variant)

MayVary(r, d) ==
  /\ d \in DimsOf(r.variant)
  /\ d \notin r.varied
  /\ Cardinality(r.varied) < VaryOf[r.variant]
  /\ \A e \in r.varied : {d, e} \in PairDims

VARIABLE req
Init == req \in {Request(v, n) : v \in Variants, n \in 1..3}
Vary(d, v) ==
  /\ MayVary(req, d)
  /\ v # req[d]
  /\ LET n == [req EXCEPT ![d] = v, !.varied = @ \cup {d}] IN
     \* an invalid intermediate request may still be completed by the variation of a second dimension
     /\ (Valid(n) \/ Cardinality(n.varied) < VaryOf[n.variant])
     /\ req' = n
Next == \E d \in Dims : \E v \in Values(d) : Vary(d, v)
Spec == Init /\ [][Next]_req

\* what is handed to the harness
Concrete(r) ==
  [variant |-> r.variant, varied |-> SetToSeq(r.varied), entry |-> r.entry, nvar |-> r.nvar, ndim |-> NDim(r), geom |-> r.geom,
   dirs |-> Geom(r.geom).dirs, nlag |-> IF r.empty = "few" THEN 3 ELSE 10, recipe |-> r.recipe, truthname |-> r.truth,
   truth |-> Truth(r.truth), empty |-> r.empty, types |-> r.types, consname |-> r.cons, cons |-> ConsItems(r.cons, r.types),
   csill |-> r.csill, optrow |-> SetToSeq(r.opt), opt |-> OptOf(r.opt), wmode |-> r.wmode, maxiter |-> r.maxiter]

-----------------------------------------------------------------------------
(* The contract.  q = concrete request (as above, read back from the log),  *)
(* o = recorded outcome.                                                    *)
(*   o.status # 0 or o.exception : the call reported failure - always       *)
(*                                 permitted                                *)
(*   otherwise o.model (projection of the returned model), o.reload,        *)
(*   o.krig are judged clause by clause.                                    *)

Ranged(c) == c.hasrange # 0
Aniso(c)  == Ranged(c) /\ c.anis > TolIso
IsSeq(x)  == TRUE

\* strictly increasing maps of the returned structures into the requested ones, types agreeing:
\* the structures that were kept (the fit may drop structures unless flag_noreduce)
Embeddings(qt, ot) ==
  { f \in [1..Len(ot) -> 1..Len(qt)] :
      /\ \A k \in 1..Len(ot) : qt[f[k]] = ot[k]
      /\ \A k \in 1..(Len(ot) - 1) : f[k] < f[k + 1] }

OutTypes(m) == [k \in 1..Len(m.covs) |-> m.covs[k].type]

WithinTol(v, b) == LET t == TolConsAbs + (IF b >= 0 THEN b ELSE -b) \div TolConsRel IN v >= b - t /\ v <= b + t
AboveTol(v, b)  == LET t == TolConsAbs + (IF b >= 0 THEN b ELSE -b) \div TolConsRel IN v >= b - t
BelowTol(v, b)  == LET t == TolConsAbs + (IF b >= 0 THEN b ELSE -b) \div TolConsRel IN v <= b + t
Meets(type, v, b) ==
  /\ v # NaNMark
  /\ CASE type = "LOWER" -> AboveTol(v, b) [] type = "UPPER" -> BelowTol(v, b) [] type = "EQUAL" -> WithinTol(v, b)
       [] OTHER -> TRUE

\* angles are meaningful modulo 180 degrees (an anisotropy axis has no orientation): a one-sided
\* bound can always be met by an equivalent angle, an equality or a box cannot
HalfTurn == 180 * M
Mod180(a) == a % HalfTurn
AngleNear(a, b) == LET d == Mod180(Mod180(a) - Mod180(b) + HalfTurn) IN d <= 10 \/ d >= HalfTurn - 10

\* item it (concrete, 0-based icov) on the returned model m of nvar variables under the embedding f
ItemMet(it, items, m, f, nvar) ==
  LET ks == {k \in 1..Len(m.covs) : f[k] = it.icov + 1} IN
  IF ks = {}
  THEN \* the designated structure was dropped: its sill is zero, its other parameters do not exist any more
       IF it.elem = "SILL" THEN Meets(it.type, 0, it.val) ELSE TRUE
  ELSE LET c == m.covs[CHOOSE k \in ks : TRUE] IN
       CASE it.elem = "SILL"  -> c.eig.finite /\ Meets(it.type, c.sill[it.iv1 * nvar + it.iv2 + 1], it.val)
         [] it.elem = "RANGE" -> c.rfinite /\ Meets(it.type, c.ranges[it.iv1 + 1], it.val)
         [] it.elem = "PARAM" -> Meets(it.type, c.param, it.val)
         [] it.elem = "ANGLE" ->
              \* the rotation of an isotropic structure has no meaning
              IF ~Aniso(c) THEN TRUE
              ELSE LET a == c.angles[it.iv1 + 1] IN
                   CASE it.type = "EQUAL" -> a # NaNMark /\ AngleNear(a, it.val)
                     [] it.type = "LOWER" ->
                          \* part of a box when an upper bound on the same angle exists
                          LET ups == {j \in 1..Len(items) : items[j].elem = "ANGLE" /\ items[j].icov = it.icov
                                                          /\ items[j].iv1 = it.iv1 /\ items[j].type = "UPPER"} IN
                          IF ups = {} THEN TRUE
                          ELSE LET hi == items[CHOOSE j \in ups : TRUE].val IN
                               a # NaNMark /\ \E s \in {0, 1} :
                                 LET x == Mod180(a) + s * HalfTurn IN x >= it.val - 10 /\ x <= hi + 10
                     [] OTHER -> TRUE
         [] OTHER -> TRUE

RowsEqualUpToSign(r1, r2, n) ==
  \A a \in 0..(n - 1) :
     \/ \A b \in 1..n : r1[a * n + b] - r2[a * n + b] <= TolRot /\ r2[a * n + b] - r1[a * n + b] <= TolRot
     \/ \A b \in 1..n : r1[a * n + b] + r2[a * n + b] <= TolRot /\ -(r1[a * n + b] + r2[a * n + b]) <= TolRot
Transp(r, n) == [i \in 1..(n * n) |-> r[((i - 1) % n) * n + ((i - 1) \div n) + 1]]
SameRotation(c1, c2, n) == RowsEqualUpToSign(c1.rot, c2.rot, n) \/ RowsEqualUpToSign(Transp(c1.rot, n), Transp(c2.rot, n), n)

Abs(x) == IF x >= 0 THEN x ELSE -x
\* the first anisotropy axis is parallel to the reference direction (first direction of the variogram; first
\* grid axis for a map): the image of that direction by the rotation (either convention) is +-e1
AxisOnRef(c, n) ==
  \/ (Abs(Abs(c.ax[1]) - M) <= TolRot /\ \A b \in 2..n : Abs(c.ax[b]) <= 5000)
  \/ (Abs(Abs(c.axT[1]) - M) <= TolRot /\ \A b \in 2..n : Abs(c.axT[b]) <= 5000)
\* rotation about the third axis only
AboutZ(c) ==
  /\ Abs(Abs(c.rot[9]) - M) <= TolRot
  /\ \A i \in {3, 6, 7, 8} : Abs(c.rot[i]) <= 5000

FirstDirHorizontal(q) == q.entry = "vmap" \/ q.dirs[1][2] = 0

Violations(q, o) ==
  IF o.status # 0 \/ o.exception THEN {}
  ELSE
  LET m  == o.model
      nv == q.nvar
      nd == q.ndim
      covs == m.covs
      K  == 1..Len(covs)
      embs == Embeddings(q.types, OutTypes(m))
  IN
    (IF m.nvar = nv /\ m.ndim = nd THEN {} ELSE {"dims"})
  \cup (IF Len(covs) >= 1 THEN {} ELSE {"no-structure"})
  \cup (IF \A k \in K : covs[k].eig.finite /\ covs[k].eig.sym /\ covs[k].eig.minrel >= -TolEig THEN {} ELSE {"sill-not-psd"})
  \cup (IF \A k \in K : Ranged(covs[k]) => (covs[k].rfinite /\ \A d \in 1..nd : covs[k].rpos[d]) THEN {} ELSE {"range-not-positive"})
  \cup (IF embs # {} THEN {} ELSE {"structures-not-requested"})
  \cup (IF q.opt.noreduce => OutTypes(m) = q.types THEN {} ELSE {"noreduce"})
  \cup (IF embs = {} THEN {}
        ELSE \* the kinds of items that are not met, under the assignment of the returned structures that meets most
             LET bad(f) == {q.cons[i].elem : i \in {j \in 1..Len(q.cons) : ~ItemMet(q.cons[j], q.cons, m, f, nv)}}
                 best == CHOOSE f \in embs : \A g \in embs : Cardinality(bad(f)) <= Cardinality(bad(g))
             IN {"constraint-" \o e : e \in bad(best)})
  \cup (IF q.csill > 0 => (m.total.finite /\ \A i \in 1..nv : WithinTol(m.sumsill[i], q.csill)) THEN {} ELSE {"constant-sill"})
  \* keep_intstr: when structures of that kind are offered, one of them at least is kept
  \cup (IF q.opt.keepint /\ (\E i \in 1..Len(q.types) : IntrinsicOnly(q.types[i])) => \E k \in K : IntrinsicOnly(covs[k].type)
        THEN {} ELSE {"keep-intrinsic"})
  \cup (IF ~q.opt.aniso => \A k \in K : ~Aniso(covs[k]) THEN {} ELSE {"auth-aniso"})
  \cup (IF q.opt.iso2d /\ nd >= 2 => \A k \in K : Ranged(covs[k]) => covs[k].anis2d <= TolIso THEN {} ELSE {"lock-iso2d"})
  \cup (IF ~q.opt.rot /\ nd >= 2 /\ FirstDirHorizontal(q) => \A k \in K : Aniso(covs[k]) => AxisOnRef(covs[k], nd) THEN {} ELSE {"auth-rotation"})
  \cup (IF q.opt.samerot /\ nd >= 2 => \A k \in K : \A l \in K : (Aniso(covs[k]) /\ Aniso(covs[l])) => SameRotation(covs[k], covs[l], nd)
        THEN {} ELSE {"lock-samerot"})
  \cup (IF (q.opt.rot2d \/ q.opt.no3d) /\ nd = 3 /\ FirstDirHorizontal(q) => \A k \in K : Aniso(covs[k]) => AboutZ(covs[k])
        THEN {} ELSE {"lock-rot2d"})
  \cup (IF o.reload.saved /\ o.reload.loaded /\ o.reload.same_shape /\ o.reload.diff <= TolReload THEN {} ELSE {"reload"})
  \cup (IF /\ "uni" \in DOMAIN o.krig
           /\ Len(o.krig.uni) = nv
           /\ \A i \in 1..nv : o.krig.uni[i].err = 0 /\ o.krig.uni[i].finite /\ o.krig.uni[i].stdok
        THEN {} ELSE {"kriging"})
  \cup (IF nv > 1 /\ m.total.finite /\ m.total.minrel >= TolStrictPD
           => ("co" \in DOMAIN o.krig /\ o.krig.co.err = 0 /\ o.krig.co.finite /\ o.krig.co.stdok)
        THEN {} ELSE {"cokriging"})

=============================================================================
