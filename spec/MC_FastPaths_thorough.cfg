SPECIFICATION Spec
CONSTANTS
  Pairs = {"covmat", "kr_unique", "xvalid", "ball_mig", "ball_nb", "block1", "colcok", "calc", "reuse"}
  Models = {"A", "B", "C", "D"}
  Small = FALSE
INVARIANT Inv_PairHolds Inv_MigDeviationsClassified Inv_NoCornerForBall
CONSTRAINT Emit
CHECK_DEADLOCK FALSE
