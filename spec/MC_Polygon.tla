---------------------------- MODULE MC_Polygon ----------------------------
(* All simple polygons with 3..MaxV vertices on the G x G lattice (every start vertex, both     *)
(* orientations), built vertex by vertex, against all query points of the half-lattice          *)
(* (including a ring outside the lattice).  For each polygon TLC checks the transcription of    *)
(* PolyElem::inside against the geometric truth and emits the case with the expected answers    *)
(* (0 outside, 1 inside, 2 on the boundary = excluded by the property) for the conformance run. *)
EXTENDS Polygon, Json

CONSTANTS G,        \* lattice points 0..G-1 in each direction (doubled: 0, 2, .., 2(G-1))
          MaxV,     \* largest number of vertices
          MinEmit,  \* cases with fewer vertices are checked but not emitted
          EmitSel,  \* TRUE: also emit the marks expected from db_polygon with a previous selection
          Canon     \* TRUE: only vertex sequences starting at their lexicographically smallest vertex
                    \* (the conformance run re-creates the other starting vertices by rotation)

VARIABLE p

Lattice == {<<2 * i, 2 * j>> : i, j \in 0..(G - 1)}

\* query coordinates: -2 (outside, level with vertices), 0 .. 2(G-1) (lattice and half-lattice), 2G
NC == 2 * G + 1
QCoord(i) == IF i = 1 THEN -2 ELSE IF i = NC THEN 2 * G ELSE i - 2
NQ == NC * NC
QSeq == TLCEval([i \in 1..NQ |-> <<QCoord(((i - 1) \div NC) + 1), QCoord(((i - 1) % NC) + 1)>>])

Init == /\ p = <<>>
        /\ PrintT(ToJson([k |-> "meta", G |-> G, maxv |-> MaxV, canon |-> Canon, q |-> QSeq, noz |-> NoZ,
                          prev |-> [i \in 1..NQ |-> IF PrevActive(i) THEN 1 ELSE 0]]))
LexLess(a, b) == a[1] < b[1] \/ (a[1] = b[1] /\ a[2] < b[2])
AddVertex(v) == /\ Len(p) < MaxV
                /\ ChainOK(p, v)
                /\ (Canon /\ Len(p) >= 1) => LexLess(p[1], v)
                /\ p' = Append(p, v)
Next == \E v \in Lattice : AddVertex(v)
Spec == Init /\ [][Next]_p

IsPolygon == Len(p) >= 3 /\ ClosingOK(p)

Exp(mx, q) == IF OnBoundary(p, q) THEN 2 ELSE IF RefInsideM(p, mx, q) THEN 1 ELSE 0
Alg(q) == IF ElemInside(p, q) THEN 1 ELSE 0

LevelCount(q) == Cardinality({i \in 1..Len(p) : p[i][2] = q[2]})
LevelHoriz(q) == \E i \in 1..Len(p) : p[i][2] = q[2] /\ Nxt(p, i)[2] = q[2]

\* C20 for one element + emission of the case
Inv_Agree ==
  IsPolygon =>
    LET mx == MaxX(p)
        e == TLCEval([i \in 1..NQ |-> Exp(mx, QSeq[i])])
        off == {i \in 1..NQ : e[i] # 2}
    IN /\ \A i \in off : Alg(QSeq[i]) = e[i]
       /\ \/ Len(p) < MinEmit
          \/ PrintT(ToJson([k |-> "poly", v |-> p, exp |-> e,
                            sel |-> IF EmitSel
                                    THEN [i \in 1..NQ |-> IF e[i] = 2 THEN 2 ELSE DbMark(PrevActive(i), TRUE, e[i] = 1)]
                                    ELSE <<>>,
                            ccw |-> IF Area2(p) > 0 THEN 1 ELSE 0,
                            convex |-> IF Convex(p) THEN 1 ELSE 0,
                            flat |-> IF HasFlatVertex(p) THEN 1 ELSE 0,
                            nin |-> Cardinality({i \in off : e[i] = 1}),
                            lv |-> Cardinality({i \in off : LevelCount(QSeq[i]) >= 1}),
                            lm |-> Cardinality({i \in off : LevelCount(QSeq[i]) >= 2}),
                            lh |-> Cardinality({i \in off : LevelHoriz(QSeq[i])})]))

\* the input may be given closed: Polygons::getClosedPolyElem stores the same vertex list
Inv_Closed == IsPolygon => ClosePolyElem(Closed(p)) = Closed(p) /\ ClosePolyElem(p) = Closed(p)

\* the reference is the geometric truth: crossing parity = winding number criterion
Inv_Ref == IsPolygon => \A i \in 1..NQ : OnBoundary(p, QSeq[i]) \/ RefConsistent(p, QSeq[i])

\* the incremental construction generates exactly the simple polygons
Inv_Simple == Len(p) >= 3 => (IsPolygon = SimplePolygon(p))

\* the truth is invariant under the integer affine maps whose images the conformance run uses
Maps == { <<-1, 0, 0, 1, 0, 0>>, <<1, 0, 0, -1, 0, 0>>, <<0, 1, 1, 0, 0, 0>>, <<0, -1, 1, 0, 0, 0>>,
          <<1, 1, 0, 1, 0, 0>>, <<1, -2, 0, 1, 0, 0>>, <<1, 3, 0, 1, 0, 0>>,
          <<1, 0, 1, 1, 0, 0>>, <<1, 0, -1, 1, 0, 0>>, <<1, 0, 2, 1, 0, 0>>,
          <<1, 0, 0, 1, 1000, -778>>, <<2, 0, 0, 2, 0, 0>> }
ExpOf(s, mx, q) == IF OnBoundary(s, q) THEN 2 ELSE IF RefInsideM(s, mx, q) THEN 1 ELSE 0
Inv_Affine ==
  IsPolygon =>
    LET mx == MaxX(p)
        e == TLCEval([i \in 1..NQ |-> Exp(mx, QSeq[i])])
    IN \A m \in Maps :
         LET pm == TLCEval(MapPoly(m, p))
             mxm == MaxX(pm)
         IN SimplePolygon(pm) /\ \A i \in 1..NQ : ExpOf(pm, mxm, MapPt(m, QSeq[i])) = e[i]
=============================================================================
