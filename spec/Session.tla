------------------------------- MODULE Session -------------------------------
(***************************************************************************)
(* A user SESSION composing the modules of this specification: one data Db,  *)
(* one target grid, one Model, one neighbourhood, edited and used by an       *)
(* arbitrary interleaving of                                                  *)
(*   - Db edits (DbTable: add / delete / rename columns, role assignment),    *)
(*   - calculators (Calculator: kriging, cross-validation, simulation,        *)
(*     migration; succeeding or failing naturally),                           *)
(*   - model updates, copies of the data Db, save + reload (NeutralFile).      *)
(* It states, across modules, what the single-module specifications state     *)
(* locally:                                                                   *)
(*   Table     the data Db and the grid stay consistent tables (C07)          *)
(*   Atomic    a failing calculator leaves both Dbs as they were (C19)        *)
(*   Exact     a succeeding one adds exactly its outputs; the output that     *)
(*             receives the Z role takes it from the previous holder (C19)    *)
(*   Fresh     the final estimation equals the estimation obtained in a new   *)
(*             session built directly with the final content (C10)            *)
(*   Reload    save + reload does not change the table (C08)                  *)
(* Columns are abstract: [tag, role]; tag = origin of the column ("x1", "x2",  *)
(* "z", "aux<k>", "<Prefix>:<what>"): the conformance harness maps tags to the *)
(* naming convention of the library (prefix.variable.qualifier).               *)
(* TLC explores all sessions of length <= MaxLen exhaustively (or samples     *)
(* longer ones with -simulate), checks Table / the bookkeeping invariants on  *)
(* the model and emits each session with the expected table after every step. *)
(***************************************************************************)
EXTENDS Integers, Sequences, FiniteSets, TLC, Json

CONSTANT MaxLen

Col(tag, role) == [tag |-> tag, role |-> role]
InitData == <<Col("x1", "X1"), Col("x2", "X2"), Col("z", "Z1")>>
InitGrid == <<Col("gx1", "X1"), Col("gx2", "X2")>>

VARIABLES data, grid, model, hist, naux
vars == <<data, grid, model, hist, naux>>

Roles(db) == {db[i].role : i \in DOMAIN db} \ {"none"}
Holder(db, r) == IF \E i \in DOMAIN db : db[i].role = r THEN CHOOSE i \in DOMAIN db : db[i].role = r ELSE 0
NZ(db) == Cardinality({i \in DOMAIN db : db[i].role = "Z1"})
Strip(db, r) == [i \in DOMAIN db |-> IF db[i].role = r THEN Col(db[i].tag, "none") ELSE db[i]]
RemoveAt(s, k) == SubSeq(s, 1, k - 1) \o SubSeq(s, k + 1, Len(s))
Tags(db) == {db[i].tag : i \in DOMAIN db}
HasZ == NZ(data) = 1

Log(op, ok) == hist' = Append(hist, [op |-> op, ok |-> ok, data |-> data', grid |-> grid'])

(* ---- Db edits on the data base ---- *)
AddAux == /\ naux < 2
          /\ data' = Append(data, Col(IF naux = 0 THEN "aux1" ELSE "aux2", "none"))
          /\ naux' = naux + 1 /\ UNCHANGED <<grid, model>>
          /\ Log([name |-> "addcol"], TRUE)
DelLast == /\ Len(data) > 2                      \* coordinates are kept
           /\ data' = SubSeq(data, 1, Len(data) - 1)
           /\ UNCHANGED <<grid, model, naux>>
           /\ Log([name |-> "dellast"], TRUE)
\* give the Z role to the last column (previous holder loses it)
SetZLast == /\ Len(data) > 2
            /\ data' = [Strip(data, "Z1") EXCEPT ![Len(data)] = Col(data[Len(data)].tag, "Z1")]
            /\ UNCHANGED <<grid, model, naux>>
            /\ Log([name |-> "setzlast"], TRUE)
ClearZ == /\ data' = Strip(data, "Z1") /\ UNCHANGED <<grid, model, naux>>
          /\ Log([name |-> "clearz"], TRUE)
CopyData == /\ UNCHANGED <<data, grid, model, naux>> /\ Log([name |-> "copy"], TRUE)
Reload == /\ UNCHANGED <<data, grid, model, naux>> /\ Log([name |-> "reload"], TRUE)
ModelUpd == /\ model' = 3 - model /\ UNCHANGED <<data, grid, naux>> /\ Log([name |-> "model"], TRUE)

(* ---- calculators ---- *)
\* kriging data -> grid: needs exactly one Z variable; adds estim (takes the Z role of the grid) and stdev
Krige == /\ IF HasZ
            THEN grid' = Strip(grid, "Z1") \o <<Col("Kriging:estim", "Z1"), Col("Kriging:stdev", "none")>>
            ELSE UNCHANGED grid
         /\ UNCHANGED <<data, model, naux>>
         /\ Log([name |-> "krige"], HasZ)
\* cross-validation inside the data base: esterr takes the Z role from the variable
Xvalid == /\ IF HasZ
             THEN data' = Strip(data, "Z1") \o <<Col("Xvalid:esterr", "Z1"), Col("Xvalid:stderr", "none")>>
             ELSE UNCHANGED data
          /\ UNCHANGED <<grid, model, naux>>
          /\ Log([name |-> "xvalid"], HasZ)
\* non-conditional simulation on the grid (one outcome, takes the Z role)
Simulate == /\ grid' = Strip(grid, "Z1") \o <<Col("Simu:1", "Z1")>>
            /\ UNCHANGED <<data, model, naux>>
            /\ Log([name |-> "simtub"], TRUE)
\* migration of the Z variable of the grid to the data base: the new column keeps the role of its
\* source (and takes it from the previous holder); fails when the grid has no Z variable
Migrate == /\ IF NZ(grid) = 1
              THEN data' = Append(Strip(data, "Z1"), Col("Migrate:grid", "Z1"))
              ELSE UNCHANGED data
           /\ UNCHANGED <<grid, model, naux>>
           /\ Log([name |-> "migrate"], NZ(grid) = 1)

Next == /\ Len(hist) < MaxLen /\ Len(data) < 8 /\ Len(grid) < 8
        /\ (AddAux \/ DelLast \/ SetZLast \/ ClearZ \/ CopyData \/ Reload \/ ModelUpd \/ Krige \/ Xvalid \/ Simulate \/ Migrate)
Init == data = InitData /\ grid = InitGrid /\ model = 1 /\ hist = <<>> /\ naux = 0
Spec == Init /\ [][Next]_vars

(* ---- properties of the composed model ---- *)
OneRolePerType(db) == \A i, j \in DOMAIN db : (i # j /\ db[i].role # "none") => db[i].role # db[j].role
Table == OneRolePerType(data) /\ OneRolePerType(grid)
       /\ data[1] = Col("x1", "X1") /\ data[2] = Col("x2", "X2")         \* coordinates never move
\* a failing step changes nothing; a succeeding calculator only appends and may only strip the role it assigns
StepLaw == [][ LET h == hist'[Len(hist')] IN
               /\ (~h.ok => (data' = data /\ grid' = grid))
               /\ (h.op.name \in {"krige", "simtub"} => (data' = data /\ Len(grid') >= Len(grid)))
               /\ (h.op.name \in {"xvalid", "migrate"} => (grid' = grid /\ Len(data') >= Len(data))) ]_vars
EmitScripts == Len(hist) < MaxLen \/ PrintT(ToJson([hist |-> hist]))
=============================================================================
