--------------------------- MODULE MC_NeutralFault ---------------------------
(* C09 on the model: every valid file of the picked instances (IOEnv.PICKS), every fault of the fault layer.   *)
(* One transition = one faulty file (emitted by the state constraint Emit); it is classified by the intended reader (MustFail / MaySucceed(o')) and by *)
(* the transcription of the real reader (predicted outcome and memory-unsafe events), the first divergence      *)
(* between the two is reported, and the file is emitted for the run against the real loaders.                   *)
EXTENDS NeutralFile, Json, IOUtils, SequencesExt

Picks == ndJsonDeserialize(IOEnv.PICKS)

VARIABLES n, f
vars == <<n, f>>

\* class "Raw": the valid file is given by its lines of tokens (files written by the real writers of the grid exchange
\* formats): the fault layer applies, there is no reader model
Base(k) == LET p == Picks[k] IN
           IF p.c = "Raw" THEN [c |-> "Raw", o |-> <<>>, L |-> p.lines, RL |-> <<>>]
           ELSE LET o == Instance(p.c, p.s, p.d) IN [c |-> p.c, o |-> o, L |-> FileW(p.c, o), RL |-> RolesW(p.c, o)]
\* a base file must be valid: the intended reader gives the instance back (whether the real reader does is C08's business;
\* RealOK: the transcription of the real reader reads it back without any memory-unsafe event)
ValidBase(b) == b.c = "Raw" \/ (/\ LET ri == ReadF(b.c, b.L, "ideal") IN ri.ok /\ ri.o = b.o
                               \* the roles are laid out like the tokens
                               /\ (b.RL = <<>> \/ (Len(b.RL) = Len(b.L) /\ \A i \in DOMAIN b.L : Len(b.RL[i]) = Len(b.L[i]))))
RealOK(b) == LET rr == ReadF(b.c, b.L, "real") IN rr.ok /\ rr.ev \cap UnsafeEvents = {}
RealEv(b) == ReadF(b.c, b.L, "real").ev

FaultCase(k, b, j, ft) ==
  LET L2 == ApplyFault(b.L, ft)
      cl == Classify(b.c, L2, ft.kind # "trunc")      \* a truncated file does not end with a newline
  IN [base |-> k, j |-> j, c |-> b.c, kind |-> ft.kind, k |-> ft.k, t |-> ft.t, lines |-> L2,
      \* role of the token replaced (what the specification knows of the domain of its field)
      role |-> IF b.RL = <<>> \/ ft.kind \notin {"bound", "corrupt"} THEN "" ELSE TokAt(b.RL, ft.k).k,
      verdict |-> cl.verdict, iat |-> cl.iat, rok |-> cl.rok, rat |-> cl.rat,
      rev |-> SetToSeq(cl.rev), unsafe |-> SetToSeq(cl.unsafe), diverge |-> cl.diverge]

\* The classification is evaluated in a state constraint (one evaluation per faulty file; LET definitions are
\* cached there, which they are not inside an action).
\* The classification is evaluated in a state constraint: one evaluation per faulty file.
Init == n \in 1..Len(Picks) /\ f = 0
Next == /\ f = 0
        /\ n' = n
        /\ LET b == Base(n) IN
           IF ~ValidBase(b) THEN f' = -1
           ELSE f' \in ({-2} \cup (1..NFaults(b.L, b.RL)))
Emit == \/ f = 0
        \/ LET b == Base(n) IN
           CASE f = -1 -> PrintT(ToJson([base |-> n, c |-> b.c, kind |-> "invalid-base"]))
             [] f = -2 -> PrintT(ToJson([base |-> n, c |-> b.c, kind |-> "base", lines |-> b.L, o |-> b.o, nfaults |-> NFaults(b.L, b.RL), realok |-> RealOK(b),
                                             rev |-> SetToSeq(RealEv(b)), unsafe |-> SetToSeq(RealEv(b) \cap UnsafeEvents)]))
             [] OTHER  -> LET ft == FaultAt(b.L, b.RL, b.c, f) IN
                          IF ft.kind = "noop" THEN PrintT(ToJson([base |-> n, j |-> f, c |-> b.c, kind |-> "noop"]))
                          ELSE PrintT(ToJson(FaultCase(n, b, f, ft)))
Spec == Init /\ [][Next]_vars
=============================================================================
